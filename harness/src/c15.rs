//! C15 (and the environment family of C06): generated Elements transactions / environments.
use crate::env::Env;
use crate::util::*;
use simplicity::elements::{self, LockTime, Sequence};

/// a small family of environments: (description, environment)
pub fn env_family(rng: &mut Rng, n: usize) -> Vec<(String, Env)> {
    let mut v = vec![("dummy".to_string(), crate::env::dummy())];
    for k in 0..n {
        let lt = match k % 3 { 0 => LockTime::ZERO, 1 => LockTime::from_height(rng.range(1, 400_000) as u32).unwrap(), _ => LockTime::from_time(500_000_000 + rng.below(1_000_000) as u32).unwrap() };
        let seq = match k % 4 { 0 => Sequence::MAX, 1 => Sequence::ZERO, 2 => Sequence::from_height(rng.below(60_000) as u16), _ => Sequence::from_512_second_intervals(rng.below(60_000) as u16) };
        v.push((format!("locktime={:?} sequence={:?}", lt, seq), crate::env::dummy_with(lt, seq)));
    }
    let _: Option<elements::Transaction> = None;
    v
}
