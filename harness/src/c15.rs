//! C15 (and the environment family of C06): Elements environments built from abstract descriptions
//! (the records of ElementsEnv.tla), every introspection jet run on them, answers in the spec's normal form.
use crate::env::Env;
use crate::util::*;
use serde_json::{json, Value as J};
use simplicity::elements::bitcoin::hashes::{sha256, Hash};
use simplicity::elements::confidential;
use simplicity::elements::taproot::ControlBlock;
use simplicity::elements::{self, AssetIssuance, LockTime, OutPoint, Sequence, TxIn, TxInWitness, TxOut, TxOutWitness};
use simplicity::jet::elements::{ElementsEnv, ElementsUtxo};
use simplicity::jet::Elements;
use simplicity::node::{CoreConstructible, JetConstructible};
use simplicity::types::{self, Final};
use simplicity::{BitIter, BitMachine, Cmr, Value, ValueRef};
use std::sync::Arc;

// ------------------------------------------------------------------ small helpers
pub fn hex(b: &[u8]) -> String { b.iter().map(|x| format!("{:02x}", x)).collect() }
pub fn unhex(s: &str) -> Vec<u8> { (0..s.len() / 2).map(|i| u8::from_str_radix(&s[2 * i..2 * i + 2], 16).unwrap()).collect() }
fn sha(b: &[u8]) -> String { hex(sha256::Hash::hash(b).as_byte_array()) }
fn bytes_j(b: &[u8]) -> J { json!({"hex": hex(b), "sha": sha(b)}) }
fn h32(s: &str) -> [u8; 32] { let v = unhex(s); let mut a = [0u8; 32]; a.copy_from_slice(&v); a }
fn u32_j(x: u32) -> J { json!([x >> 16, x & 0xffff]) }
fn u32_of(j: &J) -> u32 { ((j[0].as_u64().unwrap() as u32) << 16) | j[1].as_u64().unwrap() as u32 }
fn u64_j(x: u64) -> J { json!([(x >> 48) & 0xffff, (x >> 32) & 0xffff, (x >> 16) & 0xffff, x & 0xffff]) }
fn u64_of(j: &J) -> u64 { (0..4).fold(0u64, |a, k| (a << 16) | j[k].as_u64().unwrap()) }

/// a deterministic stream of 32-byte strings
fn atom(tag: &str, k: u64) -> [u8; 32] { *sha256::Hash::hash(format!("{}-{}", tag, k).as_bytes()).as_byte_array() }

// ------------------------------------------------------------------ atoms: valid confidential commitments
pub struct Pool { pub assets: Vec<J>, pub values: Vec<J>, pub nonces: Vec<J>, pub keys: Vec<String> }

fn find_commitment(tag: &str, prefixes: [u8; 2], ok: &dyn Fn(&[u8]) -> bool, n: usize) -> Vec<J> {
    let mut v = vec![];
    let mut k = 0;
    while v.len() < n {
        k += 1;
        let x = atom(tag, k);
        for (parity, p) in prefixes.iter().enumerate() {
            let mut b = vec![*p];
            b.extend_from_slice(&x);
            if ok(&b) && v.len() < n && !v.iter().any(|e: &J| e[1] == json!(parity) ) { v.push(json!(["conf", parity, hex(&x)])); }
            else if ok(&b) && v.len() < n && v.len() >= 2 { v.push(json!(["conf", parity, hex(&x)])); }
        }
    }
    v
}
pub fn pool() -> Pool {
    let assets = find_commitment("asset", [0x0a, 0x0b], &|b| confidential::Asset::from_commitment(b).is_ok(), 4);
    let values = find_commitment("value", [0x08, 0x09], &|b| confidential::Value::from_commitment(b).is_ok(), 4);
    let nonces = find_commitment("nonce", [0x02, 0x03], &|b| confidential::Nonce::from_commitment(b).is_ok(), 4);
    // valid x-only internal keys
    let mut keys = vec![];
    let mut k = 0;
    while keys.len() < 3 {
        k += 1;
        let x = atom("key", k);
        if simplicity::elements::secp256k1_zkp::XOnlyPublicKey::from_slice(&x).is_ok() { keys.push(hex(&x)); }
    }
    Pool { assets, values, nonces, keys }
}
fn conf_prefix(kind: &str, parity: u64) -> u8 {
    match kind { "asset" => 0x0a + parity as u8, "value" => 0x08 + parity as u8, _ => 0x02 + parity as u8 }
}
fn asset_of(j: &J) -> confidential::Asset {
    match j[0].as_str().unwrap() {
        "null" => confidential::Asset::Null,
        "explicit" => confidential::Asset::Explicit(elements::AssetId::from_byte_array(h32(j[1].as_str().unwrap()))),
        _ => { let mut b = vec![conf_prefix("asset", j[1].as_u64().unwrap())]; b.extend(unhex(j[2].as_str().unwrap())); confidential::Asset::from_commitment(&b).unwrap() }
    }
}
fn value_of(j: &J) -> confidential::Value {
    match j[0].as_str().unwrap() {
        "null" => confidential::Value::Null,
        "explicit" => confidential::Value::Explicit(u64_of(&j[1])),
        _ => { let mut b = vec![conf_prefix("value", j[1].as_u64().unwrap())]; b.extend(unhex(j[2].as_str().unwrap())); confidential::Value::from_commitment(&b).unwrap() }
    }
}
fn nonce_of(j: &J) -> confidential::Nonce {
    match j[0].as_str().unwrap() {
        "null" => confidential::Nonce::Null,
        "explicit" => confidential::Nonce::Explicit(h32(j[1].as_str().unwrap())),
        _ => { let mut b = vec![conf_prefix("nonce", j[1].as_u64().unwrap())]; b.extend(unhex(j[2].as_str().unwrap())); confidential::Nonce::from_commitment(&b).unwrap() }
    }
}

// ------------------------------------------------------------------ scripts with null data
/// ops: ["push", kind, data hex] | ["num", k] | ["reserved"] | ["1negate"]  ->  script bytes after OP_RETURN
fn null_data_script(ops: &[J]) -> Vec<u8> {
    let mut s = vec![0x6a];
    for op in ops {
        match op[0].as_str().unwrap() {
            "push" => {
                let data = unhex(op[2].as_str().unwrap());
                match op[1].as_u64().unwrap() {
                    0 => { assert!(data.len() < 0x4c); s.push(data.len() as u8); }
                    1 => { s.push(0x4c); s.push(data.len() as u8); }
                    2 => { s.push(0x4d); s.extend((data.len() as u16).to_le_bytes()); }
                    _ => { s.push(0x4e); s.extend((data.len() as u32).to_le_bytes()); }
                }
                s.extend(data);
            }
            "num" => s.push(0x50 + op[1].as_u64().unwrap() as u8),
            "reserved" => s.push(0x50),
            _ => s.push(0x4f),
        }
    }
    s
}
/// the description of a null-data script: what the spec sees (push data replaced by its hash)
fn null_data_desc(ops: &[J]) -> J {
    let bytes = null_data_script(ops);
    let shown: Vec<J> = ops.iter().map(|op| if op[0] == "push" { json!(["push", op[1], sha(&unhex(op[2].as_str().unwrap()))]) } else { op.clone() }).collect();
    json!({"hex": hex(&bytes), "sha": sha(&bytes), "is_null_data": true, "ops": shown})
}
fn plain_spk(b: &[u8]) -> J { json!({"hex": hex(b), "sha": sha(b), "is_null_data": false, "ops": []}) }

// ------------------------------------------------------------------ proofs
/// syntactically valid proofs of a given size class (the crate only hashes their bytes)
fn range_proof_bytes(k: u64) -> Vec<u8> {
    if k == 0 { return vec![]; }
    // header: has-minimum, no exponent; 8 bytes minimum value; then opaque bytes (at least 65 bytes in all)
    let mut v = vec![0x20];
    for i in 0..(2 + k) { v.extend_from_slice(&atom("rangeproof", 10 * k + i)[..]); }
    v
}
fn surjection_proof_bytes(k: u64) -> Vec<u8> {
    if k == 0 { return vec![]; }
    // n_inputs = 1, bitmap 0x01, then e0 and one s value
    let mut v = vec![1, 0, 1];
    v.extend_from_slice(&atom("surj", k));
    v.extend_from_slice(&atom("surj2", k));
    v
}

// ------------------------------------------------------------------ description -> environment
pub struct Built { pub env: Env, pub desc: J }

/// Build the crate's environment from a description and return the description completed with the values that
/// are computed outside the crate under test (txid, issuance-derived hashes).
pub fn build(desc: &J) -> Built {
    let mut desc = desc.clone();
    let mut inputs = vec![];
    let mut utxos = vec![];
    for inp in desc["inputs"].as_array().unwrap() {
        let is = &inp["issuance"];
        let mut witness = TxInWitness::empty();
        witness.amount_rangeproof = confidential::RangeProof::from_slice(&unhex(is["amount_proof"]["hex"].as_str().unwrap())).expect("range proof");
        witness.inflation_keys_rangeproof = confidential::RangeProof::from_slice(&unhex(is["keys_proof"]["hex"].as_str().unwrap())).expect("range proof");
        // the witness stack: some ordinary items, then the annex (0x50 || data) as the last item if present
        let mut stack: Vec<Vec<u8>> = inp["stack"].as_array().unwrap().iter().map(|x| unhex(x.as_str().unwrap())).collect();
        if inp["annex"]["present"] == json!(true) {
            let mut a = vec![0x50];
            a.extend(unhex(inp["annex"]["data"]["hex"].as_str().unwrap()));
            stack.push(a);
        }
        witness.script_witness = elements::Witness::from_slice(&stack);
        let pegin = inp["pegin"].as_str().unwrap();
        if !pegin.is_empty() {
            witness.pegin_witness = elements::PeginWitness::new(elements::PeginData {
                value: 5000,
                asset_id: elements::AssetId::from_byte_array(atom("pegin-asset", 1)),
                genesis_hash: elements::bitcoin::BlockHash::from_byte_array(h32(pegin)),
                claim_script: elements::bitcoin::ScriptBuf::from_bytes(vec![0x51]),
                transaction: vec![1, 2, 3],
                merkle_proof: vec![4, 5],
                referenced_block: elements::bitcoin::BlockHash::from_byte_array(atom("refblock", 1)),
            });
        }
        let issuance = AssetIssuance {
            asset_blinding_nonce: elements::AssetBlindingNonce::from_byte_array(h32(is["blinding"].as_str().unwrap())),
            asset_entropy: elements::AssetEntropy::from_byte_array(h32(is["entropy_field"].as_str().unwrap())),
            amount: value_of(&is["amount"]),
            inflation_keys: value_of(&is["keys"]),
        };
        inputs.push(TxIn {
            previous_output: OutPoint { txid: elements::Txid::from_byte_array(h32(inp["txid"].as_str().unwrap())), vout: u32_of(&inp["vout"]) },
            is_pegin: !pegin.is_empty(),
            script_sig: elements::Script::from(unhex(inp["script_sig"]["hex"].as_str().unwrap())),
            sequence: Sequence::from_consensus(u32_of(&inp["sequence"])),
            asset_issuance: issuance,
            witness,
        });
        utxos.push(ElementsUtxo {
            script_pubkey: elements::Script::from(unhex(inp["utxo"]["spk"]["hex"].as_str().unwrap())),
            asset: asset_of(&inp["utxo"]["asset"]),
            value: value_of(&inp["utxo"]["value"]),
        });
    }
    let mut outputs = vec![];
    for o in desc["outputs"].as_array().unwrap() {
        outputs.push(TxOut {
            asset: asset_of(&o["asset"]),
            value: value_of(&o["value"]),
            nonce: nonce_of(&o["nonce"]),
            script_pubkey: elements::Script::from(unhex(o["spk"]["hex"].as_str().unwrap())),
            witness: TxOutWitness {
                surjection_proof: confidential::SurjectionProof::from_slice(&unhex(o["surjection_proof"]["hex"].as_str().unwrap())).expect("surjection proof"),
                rangeproof: confidential::RangeProof::from_slice(&unhex(o["range_proof"]["hex"].as_str().unwrap())).expect("range proof"),
            },
        });
    }
    let tx = elements::Transaction { version: u32_of(&desc["version"]), lock_time: LockTime::from_consensus(u32_of(&desc["locktime"])), input: inputs, output: outputs };
    // values computed outside the crate under test
    desc["txid"] = json!(hex(tx.txid().as_byte_array()));
    for (k, inp) in tx.input.iter().enumerate() {
        let is = &inp.asset_issuance;
        let entropy = if is.asset_blinding_nonce == elements::AssetBlindingNonce::NEW_ISSUANCE {
            elements::AssetId::generate_asset_entropy(inp.previous_output, elements::ContractHash::from_byte_array(*is.asset_entropy.as_byte_array()))
        } else {
            elements::AssetEntropy::from_byte_array(*is.asset_entropy.as_byte_array())
        };
        let asset = elements::AssetId::from_entropy(entropy);
        let token = elements::AssetId::reissuance_token_from_entropy(entropy, matches!(is.amount, confidential::Value::Confidential(..)));
        desc["inputs"][k]["issuance"]["derived"] = json!({"entropy": hex(entropy.as_byte_array()), "asset": hex(asset.as_byte_array()), "token": hex(token.as_byte_array())});
    }
    // control block: leaf version | parity, internal key, path
    let mut cb = vec![desc["tap"]["leaf_version"].as_u64().unwrap() as u8 | desc["tap"]["parity"].as_u64().unwrap() as u8];
    cb.extend(unhex(desc["tap"]["internal_key"].as_str().unwrap()));
    for h in desc["tap"]["path"].as_array().unwrap() { cb.extend(unhex(h.as_str().unwrap())); }
    let ctrl = ControlBlock::from_slice(&cb).expect("control block");
    let env = ElementsEnv::new(
        Arc::new(tx),
        utxos,
        desc["ix"].as_u64().unwrap() as u32,
        Cmr::from_byte_array(h32(desc["script_cmr"].as_str().unwrap())),
        ctrl,
        None,
        elements::BlockHash::from_byte_array(h32(desc["genesis"].as_str().unwrap())),
    );
    Built { env, desc }
}

// ------------------------------------------------------------------ values <-> normal form
/// unit [], ["L", v], ["R", v], ["P", a, b]; words: <= 16 bits numbers, 32 bits [hi, lo], 64 bits four limbs, else hex
pub fn norm(v: &ValueRef, ty: &Final) -> J {
    if let Some(n) = ty.as_word() {
        let w = v.to_word().expect("word");
        let bits: Vec<bool> = w.iter().collect();
        let num = |bs: &[bool]| bs.iter().fold(0u64, |a, b| (a << 1) | *b as u64);
        return match n {
            0..=4 => json!(num(&bits)),
            5 => json!([num(&bits[..16]), num(&bits[16..])]),
            6 => json!([num(&bits[..16]), num(&bits[16..32]), num(&bits[32..48]), num(&bits[48..])]),
            _ => json!(hex(&crate::tyval::bytes_from_bits(&bits))),
        };
    }
    if v.is_unit() { return json!([]); }
    if let Some(l) = v.as_left() { return json!(["L", norm(&l, ty.as_sum().unwrap().0)]); }
    if let Some(r) = v.as_right() { return json!(["R", norm(&r, ty.as_sum().unwrap().1)]); }
    let (a, b) = v.as_product().expect("product");
    let (ta, tb) = ty.as_product().unwrap();
    json!(["P", norm(&a, ta), norm(&b, tb)])
}
fn denorm_bits(j: &J, ty: &Final, out: &mut Vec<bool>) {
    if let Some(n) = ty.as_word() {
        let w = 1usize << n;
        let push_num = |x: u64, width: usize, out: &mut Vec<bool>| { for k in (0..width).rev() { out.push((x >> k) & 1 == 1); } };
        match n {
            0..=4 => push_num(j.as_u64().unwrap(), w, out),
            5 | 6 => for limb in j.as_array().unwrap() { push_num(limb.as_u64().unwrap(), 16, out); },
            _ => for b in unhex(j.as_str().unwrap()) { push_num(b as u64, 8, out); },
        }
        return;
    }
    if ty.is_unit() { return; }
    let (ta, tb) = ty.as_product().expect("argument types are products of words");
    denorm_bits(&j[1], ta, out);
    denorm_bits(&j[2], tb, out);
}
pub fn denorm(j: &J, ty: &Arc<Final>) -> Value {
    let mut bits = vec![];
    denorm_bits(j, ty, &mut bits);
    let bytes = crate::tyval::bytes_from_bits(&bits);
    let mut it = BitIter::from(&bytes[..]);
    Value::from_compact_bits(&mut it, ty).expect("argument value")
}

// ------------------------------------------------------------------ running one jet
pub fn jet_by_name(name: &str) -> Elements {
    // the spec uses the C names of the lock jets
    let n = match name { "tx_lock_distance" | "tx_lock_duration" | "check_lock_distance" | "check_lock_duration" => format!("broken_do_not_use_{}", name), x => x.to_string() };
    *Elements::ALL.iter().find(|j| j.to_string() == n).unwrap_or_else(|| panic!("no jet {}", name))
}
/// the answer of a jet on an argument in normal form: the normal-form output, ["failed"], or a panic message
pub fn run_jet(env: &Env, name: &str, arg: &J) -> J {
    let jet = jet_by_name(name);
    let r = guarded(|| {
        types::Context::with_context(|ctx| {
            let node = crate::prog::CN::jet(&ctx, &jet);
            let rn = node.finalize_unpruned().expect("one-jet program");
            let src = rn.arrow().source.clone();
            let tgt = rn.arrow().target.clone();
            let input = denorm(arg, &src);
            let mut mac = BitMachine::for_program(&rn).expect("machine");
            mac.input(&input).expect("input");
            match mac.exec(&rn, env) {
                Ok(v) => norm(&v.as_ref(), &tgt),
                Err(_) => json!(["failed"]),
            }
        })
    });
    r.unwrap_or_else(|p| json!(["panic", p]))
}

/// every (jet, argument) pair the spec covers for an environment with n_in inputs and n_out outputs
pub fn queries(desc: &J, rng: &mut Rng) -> Vec<(String, J)> {
    let n_in = desc["inputs"].as_array().unwrap().len() as u32;
    let n_out = desc["outputs"].as_array().unwrap().len() as u32;
    let mut q: Vec<(String, J)> = vec![];
    for n in ["version", "lock_time", "genesis_block_hash", "script_cmr", "transaction_id", "current_index", "tapleaf_version", "internal_key",
              "num_inputs", "num_outputs", "tx_is_final", "tx_lock_height", "tx_lock_time", "tx_lock_distance", "tx_lock_duration",
              "current_pegin", "current_prev_outpoint", "current_asset", "current_amount", "current_script_hash", "current_sequence",
              "current_reissuance_blinding", "current_new_issuance_contract", "current_reissuance_entropy", "current_issuance_asset_amount",
              "current_issuance_token_amount", "current_issuance_asset_proof", "current_issuance_token_proof", "current_script_sig_hash",
              "current_annex_hash"] {
        q.push((n.to_string(), json!([])));
    }
    // aggregate hashes: judged through symbolic digests (ElementsEnv.tla JH), hashed by `concretise`
    for n in ["input_outpoints_hash", "input_amounts_hash", "input_scripts_hash", "input_utxos_hash", "input_sequences_hash", "input_annexes_hash",
              "input_script_sigs_hash", "inputs_hash", "issuance_asset_amounts_hash", "issuance_token_amounts_hash", "issuance_range_proofs_hash",
              "issuance_blinding_entropy_hash", "issuances_hash", "output_amounts_hash", "output_nonces_hash", "output_scripts_hash",
              "output_range_proofs_hash", "output_surjection_proofs_hash", "outputs_hash", "tx_hash", "tapleaf_hash", "tappath_hash", "tap_env_hash",
              "sig_all_hash"] {
        q.push((n.to_string(), json!([])));
    }
    for i in 0..=n_in { for n in ["input_utxo_hash", "input_hash", "issuance_hash"] { q.push((n.to_string(), u32_j(i))); } }
    for i in 0..=n_out { q.push(("output_hash".to_string(), u32_j(i))); }
    let far = [n_in + 1 + rng.below(5) as u32, 0x10000, 0xffffffff, 0x80000000];
    for n in ["input_pegin", "input_prev_outpoint", "input_asset", "input_amount", "input_script_hash", "input_sequence", "reissuance_blinding",
              "new_issuance_contract", "reissuance_entropy", "issuance_asset_amount", "issuance_token_amount", "issuance_asset_proof",
              "issuance_token_proof", "input_annex_hash", "input_script_sig_hash", "issuance", "issuance_entropy", "issuance_asset", "issuance_token"] {
        for i in 0..=n_in { q.push((n.to_string(), u32_j(i))); }
        q.push((n.to_string(), u32_j(*rng.pick(&far))));
    }
    for n in ["output_asset", "output_amount", "output_nonce", "output_script_hash", "output_is_fee", "output_surjection_proof", "output_range_proof"] {
        for i in 0..=n_out { q.push((n.to_string(), u32_j(i))); }
        q.push((n.to_string(), u32_j(*rng.pick(&far))));
    }
    for i in 0..=n_out {
        let ops = desc["outputs"].get(i as usize).map(|o| o["spk"]["ops"].as_array().map_or(0, |a| a.len())).unwrap_or(0) as u32;
        for j in 0..=ops { q.push(("output_null_datum".to_string(), json!([0, i, 0, j]))); }
        q.push(("output_null_datum".to_string(), json!([0, i, 1, 0])));
    }
    let plen = desc["tap"]["path"].as_array().unwrap().len() as u64;
    for i in 0..=plen { q.push(("tappath".to_string(), json!(i))); }
    q.push(("tappath".to_string(), json!(255)));
    let lt = u32_of(&desc["locktime"]);
    for x in [0u32, 1, lt.wrapping_sub(1), lt, lt.wrapping_add(1), 499_999_999, 500_000_000, 0xffffffff] {
        q.push(("check_lock_height".to_string(), u32_j(x)));
        q.push(("check_lock_time".to_string(), u32_j(x)));
    }
    let mut seqs: Vec<u64> = desc["inputs"].as_array().unwrap().iter().map(|i| i["sequence"][1].as_u64().unwrap()).collect();
    seqs.extend([0, 1, 0xffff]);
    for s in seqs {
        for x in [s.saturating_sub(1), s, (s + 1).min(0xffff)] {
            q.push(("check_lock_distance".to_string(), json!(x)));
            q.push(("check_lock_duration".to_string(), json!(x)));
        }
    }
    // total fee for every explicit asset in the outputs and one absent asset
    let mut assets: Vec<String> = desc["outputs"].as_array().unwrap().iter().filter(|o| o["asset"][0] == "explicit").map(|o| o["asset"][1].as_str().unwrap().to_string()).collect();
    assets.push(hex(&atom("absent-asset", 1)));
    assets.sort(); assets.dedup();
    for a in assets { q.push(("total_fee".to_string(), json!(a))); }
    q
}

/// one environment: the completed description, every answer, and the two observers of the signature hash
pub fn run_env(desc: &J, rng: &mut Rng) -> J {
    let built = match guarded(|| build(desc)) { Ok(b) => b, Err(p) => return json!({"ev": "env", "desc": desc, "build": format!("panic: {}", p), "answers": [], "sighash_env": "", "sighash_jet": ""}) };
    let answers: Vec<J> = queries(&built.desc, rng).into_iter().map(|(n, a)| { let out = run_jet(&built.env, &n, &a); json!([n, a, out]) }).collect();
    let sighash_env = hex(built.env.c_tx_env().sighash_all().as_byte_array());
    let sighash_jet = run_jet(&built.env, "sig_all_hash", &json!([]));
    json!({"ev": "env", "desc": built.desc, "build": "ok", "answers": answers, "sighash_env": sighash_env, "sighash_jet": sighash_jet})
}

// ------------------------------------------------------------------ symbolic digests
/// bytes of one part of a symbolic digest; `named` holds the digests of the global hash jets computed so far
fn part_bytes(p: &J, named: &std::collections::HashMap<String, [u8; 32]>, out: &mut Vec<u8>) -> Result<(), String> {
    match p[0].as_str().unwrap_or("") {
        "h" => out.extend(unhex(p[1].as_str().ok_or("hex")?)),
        "u8" => out.push(p[1].as_u64().ok_or("u8")? as u8),
        "u32" => out.extend(u32_of(&p[1]).to_be_bytes()),
        "u64" => out.extend(u64_of(&p[1]).to_be_bytes()),
        "str" => out.extend(p[1].as_str().ok_or("str")?.as_bytes()),
        "t" => out.extend(term_digest(&p[1], named)?),
        "ref" => out.extend(named.get(p[1].as_str().ok_or("ref")?).ok_or(format!("digest {} not computed yet", p[1]))?),
        x => return Err(format!("unknown part {}", x)),
    }
    Ok(())
}
fn term_digest(t: &J, named: &std::collections::HashMap<String, [u8; 32]>) -> Result<[u8; 32], String> {
    if t[0] != "sha" { return Err(format!("not a digest term: {}", t)); }
    let mut bytes = vec![];
    for p in t[1].as_array().ok_or("parts")? { part_bytes(p, named, &mut bytes)?; }
    Ok(*sha256::Hash::hash(&bytes).as_byte_array())
}
/// expected answer (normal form with digest terms inside) against the observed answer (hex strings inside)
fn same_answer(exp: &J, got: &J, named: &std::collections::HashMap<String, [u8; 32]>) -> Result<bool, String> {
    if exp.is_array() && exp[0] == "sha" { return Ok(got.as_str() == Some(hex(&term_digest(exp, named)?).as_str())); }
    match (exp.as_array(), got.as_array()) {
        (Some(a), Some(b)) => {
            if a.len() != b.len() { return Ok(false); }
            for (x, y) in a.iter().zip(b) { if !same_answer(x, y, named)? { return Ok(false); } }
            Ok(true)
        }
        _ => Ok(exp == got),
    }
}
/// TLC's TERMS lines ({ev, items: [[name, arg, expected with digest terms, observed]]}) hashed and compared.
/// Global hash jets are evaluated in dependency order (a `ref` needs its target first).
pub fn concretise(path: &str) {
    let mut out = Out::stdout();
    for line in read_ndjson(path) {
        let items = line["items"].as_array().cloned().unwrap_or_default();
        let mut named: std::collections::HashMap<String, [u8; 32]> = std::collections::HashMap::new();
        // fixpoint over the global digests
        let mut progress = true;
        while progress {
            progress = false;
            for it in &items {
                let name = it[0].as_str().unwrap_or("");
                if it[2].is_array() && it[2][0] == "sha" && !named.contains_key(name) {
                    if let Ok(d) = term_digest(&it[2], &named) { named.insert(name.to_string(), d); progress = true; }
                }
            }
        }
        let mut bad = vec![];
        for it in &items {
            match same_answer(&it[2], &it[3], &named) {
                Ok(true) => {}
                Ok(false) => bad.push(json!({"jet": it[0], "arg": it[1], "got": it[3]})),
                Err(e) => bad.push(json!({"jet": it[0], "arg": it[1], "error": e})),
            }
        }
        out.emit(&json!({"ev": line["ev"], "n": items.len(), "bad": bad}));
    }
}

// ------------------------------------------------------------------ random descriptions
/// explicit / confidential (from the pool) / null; the explicit alternative is evaluated first
macro_rules! rand_conf {
    ($rng:expr, $pool:expr, $explicit:expr, $allow_null:expr) => {{
        let e: J = $explicit;
        match $rng.below(if $allow_null { 3 } else { 2 }) { 0 => e, 1 => $rng.pick($pool).clone(), _ => json!(["null"]) }
    }};
}
fn rand_bytes(rng: &mut Rng, tag: &str) -> Vec<u8> {
    let n = *rng.pick(&[0usize, 0, 1, 2, 33, 100, 300]);
    let mut v = vec![];
    let mut k = 0;
    while v.len() < n { k += 1; v.extend_from_slice(&atom(tag, rng.next_u64() % 1000 + k)); }
    v.truncate(n);
    v
}
fn rand_hash(rng: &mut Rng, tag: &str) -> String { hex(&atom(tag, rng.below(6) as u64)) }
pub fn gen_desc(rng: &mut Rng, pool: &Pool) -> J {
    let n_in = *rng.pick(&[0usize, 1, 1, 2, 2, 3, 5]);
    let n_out = *rng.pick(&[0usize, 1, 2, 2, 3, 6]);
    let explicit_assets: Vec<String> = (0..3).map(|k| hex(&atom("asset-id", k))).collect();
    let mut inputs = vec![];
    for _ in 0..n_in {
        let sequence: u32 = match rng.below(7) { 0 | 1 => 0xffffffff, 2 => 0xfffffffe, 3 => rng.below(0x10000) as u32, 4 => (1 << 22) | rng.below(0x10000) as u32,
                                                 5 => 0x80000000 | rng.below(0x500000) as u32, _ => rng.next_u64() as u32 };
        let kind = rng.below(4);
        let (blinding, amount, keys) = match kind {
            0 | 1 => (hex(&[0u8; 32]), json!(["null"]), json!(["null"])),
            2 => (hex(&[0u8; 32]), rand_conf!(rng, &pool.values, json!(["explicit", u64_j(rng.next_u64() >> rng.below(60))]), true),
                  rand_conf!(rng, &pool.values, json!(["explicit", u64_j(rng.below(1000) as u64)]), true)),
            _ => (rand_hash(rng, "blinding"), rand_conf!(rng, &pool.values, json!(["explicit", u64_j(rng.below(100000) as u64)]), true), if rng.chance(1, 4) { json!(["explicit", u64_j(7)]) } else { json!(["null"]) }),
        };
        // ordinary witness items; an item starting with 0x50 in a non-final position is not an annex
        let n_items = rng.below(3);
        let stack: Vec<String> = (0..n_items).map(|k| if k + 1 < n_items && rng.chance(1, 4) { "50aa".to_string() } else { let mut b = rand_bytes(rng, &format!("stack{}", k)); if b.first() == Some(&0x50) { b[0] = 0x51; } hex(&b) }).collect();
        inputs.push(json!({
            "txid": rand_hash(rng, "prev-txid"), "vout": u32_j(if rng.chance(1, 5) { 0xffffffff } else { rng.below(4) as u32 }), "sequence": u32_j(sequence),
            "pegin": if rng.chance(1, 4) { rand_hash(rng, "parent-genesis") } else { String::new() },
            "issuance": {"blinding": blinding, "entropy_field": rand_hash(rng, "entropy"), "amount": amount, "keys": keys,
                         "amount_proof": bytes_j(&range_proof_bytes(rng.below(3) as u64)), "keys_proof": bytes_j(&range_proof_bytes(rng.below(3) as u64))},
            "stack": stack,
            "annex": {"present": rng.chance(1, 3), "data": bytes_j(&rand_bytes(rng, "annex"))},
            "script_sig": bytes_j(&rand_bytes(rng, "scriptsig")),
            "utxo": {"asset": rand_conf!(rng, &pool.assets, json!(["explicit", rng.pick(&explicit_assets)]), true),
                     "value": rand_conf!(rng, &pool.values, json!(["explicit", u64_j(rng.next_u64() >> rng.below(64))]), true),
                     "spk": bytes_j(&rand_bytes(rng, "utxo-spk"))},
        }));
    }
    let mut outputs = vec![];
    for _ in 0..n_out {
        let spk = match rng.below(6) {
            0 | 1 => plain_spk(&[]),
            2 => { let mut b = rand_bytes(rng, "spk"); if b.first() == Some(&0x6a) { b[0] = 0x51; } plain_spk(&b) }
            3 => null_data_desc(&[]),
            4 => {
                let ops: Vec<J> = (0..rng.below(5)).map(|_| match rng.below(6) {
                    0 => json!(["push", 0, hex(&rand_bytes(rng, "pd")[..].iter().take(0x4b).cloned().collect::<Vec<u8>>())]),
                    1 => json!(["push", 1, hex(&rand_bytes(rng, "pd1")[..].iter().take(200).cloned().collect::<Vec<u8>>())]),
                    2 => json!(["push", 2, hex(&rand_bytes(rng, "pd2"))]),
                    3 => json!(["num", 1 + rng.below(16)]),
                    4 => json!(["reserved"]),
                    _ => json!(["1negate"]),
                }).collect();
                null_data_desc(&ops)
            }
            // OP_RETURN followed by something that is not push-only, or a truncated push: not null data
            _ => plain_spk(&rng.pick(&[vec![0x6au8, 0x61], vec![0x6a, 0x05, 0x01], vec![0x6a, 0x4c], vec![0x6a, 0x4e, 0x01, 0x00]]).clone()),
        };
        outputs.push(json!({
            "asset": rand_conf!(rng, &pool.assets, json!(["explicit", rng.pick(&explicit_assets)]), true),
            "value": rand_conf!(rng, &pool.values, json!(["explicit", u64_j(if rng.chance(1, 6) { u64::MAX - rng.below(3) as u64 } else { rng.next_u64() >> rng.below(64) })]), true),
            "nonce": rand_conf!(rng, &pool.nonces, json!(["explicit", rand_hash(rng, "nonce")]), true),
            "spk": spk,
            "surjection_proof": bytes_j(&surjection_proof_bytes(rng.below(3) as u64)),
            "range_proof": bytes_j(&range_proof_bytes(rng.below(3) as u64)),
        }));
    }
    let locktime: u32 = match rng.below(5) { 0 => 0, 1 => rng.below(700_000) as u32, 2 => 499_999_999 + rng.below(3) as u32, 3 => 500_000_000 + rng.below(1_000_000_000) as u32, _ => rng.next_u64() as u32 };
    let path: Vec<String> = (0..*rng.pick(&[0usize, 0, 1, 2, 5])).map(|k| hex(&atom("tappath", k as u64))).collect();
    json!({
        "version": u32_j(*rng.pick(&[0u32, 1, 2, 2, 2, 3, 0xffffffff])), "locktime": u32_j(locktime),
        "ix": if n_in == 0 || rng.chance(1, 12) { n_in + rng.below(2) } else { rng.below(n_in) },
        "genesis": rand_hash(rng, "genesis"), "script_cmr": rand_hash(rng, "script-cmr"), "txid": "",
        "tap": {"leaf_version": *rng.pick(&[0xbeu64, 0xbe, 0xc0, 0xc4]), "parity": rng.below(2), "internal_key": rng.pick(&pool.keys), "path": path},
        "inputs": inputs, "outputs": outputs,
    })
}

/// a small family of environments for C06: (description, environment)
pub fn env_family(rng: &mut Rng, n: usize) -> Vec<(String, Env)> {
    let mut v = vec![("dummy".to_string(), crate::env::dummy())];
    for k in 0..n {
        let lt = match k % 3 { 0 => LockTime::ZERO, 1 => LockTime::from_height(rng.range(1, 400_000) as u32).unwrap(), _ => LockTime::from_time(500_000_000 + rng.below(1_000_000) as u32).unwrap() };
        let seq = match k % 4 { 0 => Sequence::MAX, 1 => Sequence::ZERO, 2 => Sequence::from_height(rng.below(60_000) as u16), _ => Sequence::from_512_second_intervals(rng.below(60_000) as u16) };
        v.push((format!("locktime={:?} sequence={:?}", lt, seq), crate::env::dummy_with(lt, seq)));
    }
    // generated transactions (inputs/outputs, issuances, pegins, confidential and explicit values, annex, taproot paths)
    let p = pool();
    let mut k = 0;
    while k < n {
        let d = gen_desc(rng, &p);
        let n_in = d["inputs"].as_array().unwrap().len() as u64;
        if d["ix"].as_u64().unwrap() >= n_in { continue; }
        let summary = format!("generated: {} inputs, {} outputs, ix {}", n_in, d["outputs"].as_array().unwrap().len(), d["ix"]);
        if let Ok(b) = guarded(|| build(&d)) { v.push((summary, b.env)); k += 1; }
    }
    v
}

// ------------------------------------------------------------------ entry points
/// impl -> spec: random environments
pub fn record(runs: usize, path: &str) {
    let mut rng = Rng::from_env(15);
    let mut out = Out::file(path);
    let p = pool();
    for _ in 0..runs {
        let d = gen_desc(&mut rng, &p);
        out.emit(&run_env(&d, &mut rng));
    }
    out.flush();
}
/// spec -> impl: descriptions emitted by TLC
pub fn replay(cases: &str, path: &str) {
    let mut rng = Rng::from_env(151);
    let mut out = Out::file(path);
    for d in read_ndjson(cases) { out.emit(&run_env(&d, &mut rng)); }
    out.flush();
}
/// atoms for the TLC enumeration: valid commitments, keys, byte strings and scripts with their hashes
pub fn atoms(path: &str) {
    let p = pool();
    let j = json!({
        "assets": p.assets, "values": p.values, "nonces": p.nonces, "keys": p.keys,
        "bytes": [bytes_j(&[]), bytes_j(&[0x51]), bytes_j(&atom("bytes", 1).repeat(4)[..100])],
        "rangeproofs": [bytes_j(&range_proof_bytes(0)), bytes_j(&range_proof_bytes(1))],
        "surjectionproofs": [bytes_j(&surjection_proof_bytes(0)), bytes_j(&surjection_proof_bytes(1))],
        "spks": [plain_spk(&[]), plain_spk(&[0x51, 0x20]), null_data_desc(&[]),
                 null_data_desc(&[json!(["push", 0, "010203"]), json!(["num", 16]), json!(["reserved"]), json!(["1negate"]), json!(["push", 1, "aa"])]),
                 plain_spk(&[0x6a, 0x61])],
        "hashes": (0..6).map(|k| hex(&atom("h", k))).collect::<Vec<_>>(),
    });
    std::fs::write(path, serde_json::to_string(&j).unwrap()).unwrap();
}
