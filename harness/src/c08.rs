//! C08: pruning preserves commitment and behaviour and satisfies anti-DoS (Rust prune + C evaluator with all checks).
use crate::c05::*;
use crate::cffi::*;
use crate::prog::*;
use crate::tyval::*;
use crate::util::*;
use serde_json::{json, Value as J};
use crate::env::Env;
use simplicity::node::RedeemNode;
use simplicity::types;
use simplicity::{BitMachine, Value};
use std::collections::HashMap;
use std::sync::Arc;

fn run_plain(p: &RedeemNode, env: &Env) -> J {
    match BitMachine::for_program(p) {
        Err(e) => json!({"res": "limit", "msg": e.to_string()}),
        Ok(mut mac) => match guarded(|| mac.exec(p, env)) {
            Err(pn) => json!({"res": "panic", "msg": pn}),
            Ok(Ok(v)) => json!({"res": "ok", "out": val_j(&v.as_ref()), "ty_ok": v.is_of_type(&p.arrow().target)}),
            Ok(Err(e)) => json!({"res": err_class(&e)}),
        },
    }
}

/// are the program's arrows the principal ones of the program itself?  (rebuilt in a fresh context with only the
/// root arrow given): true / false / "unknown: ..."
pub fn principal_of(pruned: &RedeemNode) -> J {
    {
        let (d, t, a, _) = describe(&pruned);
        // from the description format back to the construction format
        fn bits_of_val(v: &J, out: &mut Vec<u8>) {
            match v[0].as_str().unwrap() {
                "bits" => out.extend(v[2].as_array().unwrap().iter().map(|b| b.as_u64().unwrap() as u8)),
                "L" => { if v[1][0] == "u" { out.push(0) } else { bits_of_val(&v[1], out) } }
                "R" => { if v[1][0] == "u" { out.push(1) } else { bits_of_val(&v[1], out) } }
                "P" => { bits_of_val(&v[1], out); bits_of_val(&v[2], out); }
                _ => {}
            }
        }
        let d = json!(d.as_array().unwrap().iter().zip(a.as_array().unwrap()).map(|(nd, ax)| match nd[0].as_str().unwrap() {
            "leaf" => json!(["jet", 0, 0, nd[5]]),
            "word" => { let mut b = vec![]; bits_of_val(ax, &mut b); json!(["word", 0, 0, b]) }
            _ => nd.clone(),
        }).collect::<Vec<J>>());
        let n = d.as_array().unwrap().len();
        let mut tyn = vec![J::Null; n];
        tyn[n - 1] = t[n - 1].clone();
        let aux0 = json!(vec![json!(["none"]); n]);
        let fresh: Result<Vec<J>, String> = guarded(|| types::Context::with_context(|ctx| {
            let (_, _, built) = build_typed(&ctx, Family::Elements, &d, &json!(tyn), &aux0)?;
            Ok(built.iter().map(|b| { let a = b.arrow().finalize().unwrap(); json!([ty_cz(&a.source), ty_cz(&a.target)]) }).collect())
        })).unwrap_or_else(|p| Err(format!("panic: {}", p)));
        match fresh { Ok(f) => json!(json!(f) == t), Err(e) => json!(format!("unknown: {}", e)) }
    }
}

/// everything C08 talks about for one redeem program
pub fn prune_report(redeem: &Arc<RedeemNode>, env: &Env) -> J {
    let first = run_plain(redeem, env);
    let mut rec = json!({"first": first, "cmr": redeem.cmr().to_string()});
    if rec["first"]["res"] != "ok" {
        // property says nothing about failing programs except that prune reports an error, never panics
        let r = guarded(|| redeem.prune(env).map(|_| ()).map_err(|e| err_class(&e).to_string()));
        rec["prune"] = match r { Err(p) => json!({"res": "panic", "msg": p}), Ok(Ok(())) => json!({"res": "ok"}), Ok(Err(e)) => json!({"res": e}) };
        return rec;
    }
    let pruned = match guarded(|| redeem.prune(env)) {
        Err(p) => { rec["prune"] = json!({"res": "panic", "msg": p}); return rec; }
        Ok(Err(e)) => { rec["prune"] = json!({"res": err_class(&e)}); return rec; }
        Ok(Ok(p)) => p,
    };
    rec["prune"] = json!({"res": "ok", "cmr": pruned.cmr().to_string(),
                          "arrow": [ty_j(&pruned.arrow().source), ty_j(&pruned.arrow().target)]});
    rec["second"] = run_plain(&pruned, env);
    // every witness of the pruned program has its node's target type
    let mut wit_ok = true;
    {
        use simplicity::dag::{DagLike, InternalSharing};
        for it in (&*pruned).post_order_iter::<InternalSharing>() {
            if let simplicity::node::Inner::Witness(v) = it.node.inner() {
                wit_ok &= v.is_of_type(&it.node.arrow().target);
            }
        }
    }
    rec["witness_typed"] = json!(wit_ok);
    rec["principal"] = principal_of(&pruned);
    let (prog, wit) = pruned.to_vec_with_witness();
    rec["bytes"] = json!([prog.len(), wit.len()]);
    // pruning again changes nothing
    rec["again"] = match guarded(|| pruned.prune(env)) {
        Err(p) => json!({"res": "panic", "msg": p}),
        Ok(Err(e)) => json!({"res": err_class(&e)}),
        Ok(Ok(p2)) => { let (a, b) = p2.to_vec_with_witness(); json!({"res": "ok", "same_bytes": a == prog && b == wit, "same_cmr": p2.cmr() == pruned.cmr()}) }
    };
    // its own serialisation decodes again
    rec["redecode"] = json!(match RedeemNode::decode::<_, _, simplicity::jet::Elements>(simplicity::BitIter::from(&prog[..]), simplicity::BitIter::from(&wit[..])) {
        Ok(d) => if d.cmr() == pruned.cmr() && d.ihr() == pruned.ihr() { "ok".to_string() } else { "differs".to_string() },
        Err(e) => format!("err: {}", e),
    });
    // libsimplicity with every anti-DoS check on
    rec["c"] = c_pipeline(&prog, &wit, Some(env.c_tx_env()), Some(CHECK_ALL));
    rec["c_unpruned"] = {
        let (p0, w0) = redeem.to_vec_with_witness();
        c_pipeline(&p0, &w0, Some(env.c_tx_env()), Some(CHECK_NONE))
    };
    rec
}

/// spec -> impl: the spec's typed program, pruned by the crate, compared with the spec's pruned program
pub fn replay(path: &str) {
    let mut out = Out::stdout();
    let env = crate::env::dummy();
    for (k, c) in read_ndjson(path).iter().enumerate() {
        let got = guarded(|| {
            types::Context::with_context(|ctx| {
                let (redeem, _, _) = match build_typed(&ctx, Family::Elements, &c["dag"], &c["ty"], &c["aux"]) {
                    Ok(x) => x,
                    Err(e) => return json!({"build_err": e}),
                };
                let mut rec = prune_report(&redeem, &env);
                if std::env::var("VH_DEBUG").is_ok() { let (d, t, a, _) = describe(&redeem); rec["unpruned_prog"] = json!({"dag": d, "ty": t, "aux": a}); }
                // the pruned program as the crate built it, for comparison with the spec's
                if let Ok(p) = redeem.prune(&env) {
                    let (d, t, a, _) = describe(&p);
                    rec["pruned_prog"] = json!({"dag": d, "ty": t, "aux": a});
                }
                rec
            })
        })
        .unwrap_or_else(|e| json!({"panic": e}));
        out.emit(&json!({"k": k, "got": got}));
    }
}
#[allow(dead_code)]
fn _unused(_: HashMap<usize, usize>, _: Value) {}

// ---------------------------------------------------------------- impl -> spec
use crate::gen::*;
use simplicity::bit_machine::{ExecTracker, NodeOutput, PruneTracker, SetTracker};
use simplicity::Ihr;

/// SetTracker that also logs what it is shown
struct LoggingPrune<'a> {
    inner: SetTracker,
    log: LogTracker<'a>,
}
impl ExecTracker for LoggingPrune<'_> {
    fn visit_node(&mut self, node: &RedeemNode, input: simplicity::bit_machine::FrameIter, output: NodeOutput) {
        self.inner.visit_node(node, input.clone(), output.clone());
        self.log.visit_node(node, input, output);
    }
}
impl PruneTracker for LoggingPrune<'_> {
    fn contains_left(&self, ihr: Ihr) -> bool { self.inner.contains_left(ihr) }
    fn contains_right(&self, ihr: Ihr) -> bool { self.inner.contains_right(ihr) }
}

pub fn record(runs: usize, path: &str) {
    let mut rng = Rng::from_env(8);
    let mut out = Out::file(path);
    let core_names: std::collections::HashSet<String> = jet_sigs_core().into_iter().map(|j| j.name).collect();
    let jets: Vec<JetSig> = jet_sigs_elements().into_iter()
        .filter(|j| core_names.contains(&j.name) && j.src.size() <= 150 && j.tgt.size() <= 150).collect();
    let env = crate::env::dummy();
    // hand-made sharing patterns, every combination of the deciding witness bits
    let shared_case = json!([["witness", 0, 0], ["unit", 0, 0], ["pair", 1, 2], ["unit", 0, 0], ["take", 4, 0], ["unit", 0, 0], ["drop", 6, 0], ["case", 5, 7],
        ["comp", 3, 8], ["witness", 0, 0], ["unit", 0, 0], ["pair", 10, 11], ["comp", 12, 8], ["pair", 9, 13], ["unit", 0, 0], ["comp", 14, 15]]);
    let shared_witness = json!([["witness", 0, 0], ["unit", 0, 0], ["pair", 1, 2], ["witness", 0, 0], ["unit", 0, 0], ["comp", 4, 5], ["drop", 6, 0], ["unit", 0, 0], ["pair", 4, 8],
        ["unit", 0, 0], ["take", 10, 0], ["unit", 0, 0], ["drop", 12, 0], ["case", 11, 13], ["comp", 9, 14], ["drop", 15, 0], ["case", 7, 16], ["comp", 3, 17]]);
    let mut hand: Vec<(J, Vec<(usize, J)>)> = vec![];
    for a in ["L", "R"] { for b in ["L", "R"] {
        hand.push((shared_case.clone(), vec![(0, json!([a, ["u"]])), (9, json!([b, ["u"]]))]));
        hand.push((shared_witness.clone(), vec![(0, json!([a, ["u"]])), (3, json!([b, ["u"]]))]));
    } }
    let mut done = 0;
    let mut attempts = 0;
    while done < runs + hand.len() && attempts < runs * 40 {
        attempts += 1;
        let budget = rng.range(6, 40);
        let (dag, fixed) = if attempts <= hand.len() { hand[attempts - 1].clone() } else { ({
            let mut g = Gen::new(&mut rng, &jets, budget);
            g.allow_disconnect = attempts % 4 == 0;
            g.share_witness = attempts % 3 == 0;
            let root = g.expr(&Ty::Unit, &Ty::Unit, 8);
            g.finish(root)
        }, vec![]) };
        let n = dag.as_array().unwrap().len();
        if !dag.as_array().unwrap().iter().any(|x| x[0] == "case") { continue; }
        let mut ty = vec![J::Null; n];
        ty[n - 1] = json!([["1"], ["1"]]);
        let aux0 = json!(vec![json!(["none"]); n]);
        let learned: Option<Vec<J>> = guarded(|| {
            types::Context::with_context(|ctx| {
                let (_, _, built) = build_typed(&ctx, Family::Elements, &dag, &json!(ty), &aux0).ok()?;
                Some(built.iter().map(|b| { let a = b.arrow().finalize().unwrap(); json!([ty_j(&a.source), ty_j(&a.target)]) }).collect())
            })
        }).ok().flatten();
        let Some(full_ty) = learned else { continue };
        let mut auxv = vec![json!(["u"]); n];
        for (i, nd) in dag.as_array().unwrap().iter().enumerate() {
            if nd[0] == "witness" { auxv[i] = Ty::from_final(&ty_of(&full_ty[i][1])).rand_val(&mut rng); }
        }
        for (i, v) in fixed.iter() { auxv[*i] = v.clone(); }
        let ev = guarded(|| {
            types::Context::with_context(|ctx| {
                let (redeem, _, _) = match build_typed(&ctx, Family::Elements, &dag, &json!(full_ty), &json!(auxv)) {
                    Ok(x) => x,
                    Err(_) => return J::Null,
                };
                let (sdag, sty, saux, map) = describe(&redeem);
                if sdag.as_array().unwrap().len() > 60 { return J::Null; }
                let got = prune_report(&redeem, &env);
                if got["first"]["res"] != "ok" {
                    return json!({"ev": "prune_failing", "dag": sdag, "got": got});
                }
                // the first run as the pruner's tracker sees it, and the pruned program with its own run
                let mut tr = LoggingPrune { inner: SetTracker::default(), log: LogTracker { map: &map, visits: vec![], detail: true } };
                let pruned = match redeem.prune_with_tracker(&env, &mut tr) { Ok(p) => p, Err(_) => return J::Null };
                let visits1 = tr.log.visits;
                let (pdag, pty, paux, pmap) = describe(&pruned);
                let run2 = execute(&pruned, &pmap, &Value::unit(), &env, None, true);
                json!({"ev": "prune", "dag": sdag, "ty": sty, "aux": saux, "visits1": visits1,
                       "pdag": pdag, "pty": pty, "paux": paux, "visits2": run2["visits"], "res2": run2["res"], "got": got})
            })
        });
        match ev {
            Ok(J::Null) => {}
            Ok(e) => { out.emit(&e); done += 1; }
            Err(p) => { out.emit(&json!({"ev": "prune_failing", "dag": dag, "got": {"panic": p}})); done += 1; }
        }
    }
}
