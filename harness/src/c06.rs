//! C06: the Rust Bit Machine and the C evaluator (no anti-DoS checks) reach the same verdict.
use crate::c05::*;
use crate::cffi::*;
use crate::gen::*;
use crate::prog::*;
use crate::tyval::*;
use crate::util::*;
use serde_json::{json, Value as J};
use simplicity::elements;
use simplicity::types;
use simplicity::Value;

fn c_class(code: i64) -> &'static str {
    match code {
        0 => "ok",
        -38 => "jetfail",
        -40 => "assert",
        -34 => "budget",
        -36 => "memory",
        -42 => "antidos",
        _ => "other",
    }
}

pub fn record(runs: usize, path: &str) {
    let mut rng = Rng::from_env(6);
    let mut out = Out::file(path);
    // all Elements jets with moderate types as leaves (introspection, hashing, signature jets included)
    let jets: Vec<JetSig> = jet_sigs_elements().into_iter().filter(|j| j.src.size() <= 1100 && j.tgt.size() <= 1100).collect();
    let envs = crate::c15::env_family(&mut Rng::from_env(66), 6);
    let mut done = 0;
    let mut attempts = 0;
    while done < runs && attempts < runs * 40 {
        attempts += 1;
        let budget = rng.range(4, 36);
        let dag = {
            let mut g = Gen::new(&mut rng, &jets, budget);
            g.allow_disconnect = attempts % 3 == 0;
            let root = g.expr(&Ty::Unit, &Ty::Unit, 8);
            g.finish(root)
        };
        let n = dag.as_array().unwrap().len();
        let mut ty = vec![J::Null; n];
        ty[n - 1] = json!([["1"], ["1"]]);
        let aux0 = json!(vec![json!(["none"]); n]);
        let learned: Option<Vec<J>> = guarded(|| {
            types::Context::with_context(|ctx| {
                let (_, _, built) = build_typed(&ctx, Family::Elements, &dag, &json!(ty), &aux0).ok()?;
                Some(built.iter().map(|b| { let a = b.arrow().finalize().unwrap(); json!([ty_j(&a.source), ty_j(&a.target)]) }).collect())
            })
        }).ok().flatten();
        let Some(full_ty) = learned else { continue };
        let mut auxv = vec![json!(["u"]); n];
        for (i, nd) in dag.as_array().unwrap().iter().enumerate() {
            if nd[0] == "witness" { auxv[i] = Ty::from_final(&ty_of(&full_ty[i][1])).rand_val(&mut rng); }
        }
        let env_ix = rng.below(envs.len());
        let env = &envs[env_ix].1;
        let ev = guarded(|| {
            types::Context::with_context(|ctx| {
                let (redeem, _, _) = match build_typed(&ctx, Family::Elements, &dag, &json!(full_ty), &json!(auxv)) { Ok(x) => x, Err(_) => return J::Null };
                let (sdag, sty, saux, map) = describe(&redeem);
                if sdag.as_array().unwrap().len() > 60 { return J::Null; }
                let run = execute(&redeem, &map, &Value::unit(), env, None, true);
                let (pb, wb) = redeem.to_vec_with_witness();
                let c = c_pipeline(&pb, &wb, Some(env.c_tx_env()), Some(CHECK_NONE));
                let c_eval = c.get("eval").and_then(|x| x.as_i64());
                json!({"ev": "verdict", "dag": sdag, "ty": sty, "aux": saux, "visits": run["visits"], "rust": run["res"],
                       "c_stage": c["stage"], "c_err": c["err"], "c_eval": c_eval.unwrap_or(1), "c": c_eval.map(c_class).unwrap_or("not-run"),
                       "env": envs[env_ix].0, "msg": run.get("msg").cloned().unwrap_or(json!(""))})
            })
        });
        match ev {
            Ok(J::Null) => {}
            Ok(e) => { out.emit(&e); done += 1; }
            Err(p) => { out.emit(&json!({"ev": "verdict", "rust": "panic", "msg": p, "dag": [], "ty": [], "aux": [], "visits": [], "c": "not-run", "c_stage": "", "c_err": 0, "c_eval": 1, "env": ""})); done += 1; }
        }
    }
    // the jet sweep: every Elements jet alone, `comp (comp witness jet) unit` (a jet returning a bit is followed by
    // `verify`, so that its answer decides the verdict), under every environment of the family, on zero, all-ones,
    // small and random arguments -- the two evaluators look the jet up in tables of their own
    fn val_by(t: &Ty, f: &mut dyn FnMut() -> bool) -> J {
        match t {
            Ty::Unit => json!(["u"]),
            Ty::Sum(a, b) => if f() { json!(["R", val_by(b, f)]) } else { json!(["L", val_by(a, f)]) },
            Ty::Prod(a, b) => json!(["P", val_by(a, f), val_by(b, f)]),
        }
    }
    let sweep_reps = 1 + runs / 2000;
    for jet in jets.iter() {
        let is_bit = jet.tgt == Ty::two();
        let dag = if is_bit {
            json!([["witness", 0, 0], ["jet", 0, 0, jet.name], ["comp", 1, 2], ["jet", 0, 0, "verify"], ["comp", 3, 4]])
        } else {
            json!([["witness", 0, 0], ["jet", 0, 0, jet.name], ["comp", 1, 2], ["unit", 0, 0], ["comp", 3, 4]])
        };
        let n = 5;
        let mut ty = vec![J::Null; n];
        ty[n - 1] = json!([["1"], ["1"]]);
        let aux0 = json!(vec![json!(["none"]); n]);
        let learned: Option<Vec<J>> = guarded(|| {
            types::Context::with_context(|ctx| {
                let (_, _, built) = build_typed(&ctx, Family::Elements, &dag, &json!(ty), &aux0).ok()?;
                Some(built.iter().map(|b| { let a = b.arrow().finalize().unwrap(); json!([ty_j(&a.source), ty_j(&a.target)]) }).collect())
            })
        }).ok().flatten();
        let Some(full_ty) = learned else { continue };
        // decisions of the all-zero value, to place the "small" values' random tail
        let mut count = 0usize;
        val_by(&jet.src, &mut || { count += 1; false });
        for (env_ix, (env_name, env)) in envs.iter().enumerate() {
            for k in 0..(3 + sweep_reps) {
                let mut i = 0usize;
                let w = match k {
                    0 => val_by(&jet.src, &mut || false),
                    1 => val_by(&jet.src, &mut || true),
                    2 => val_by(&jet.src, &mut || { i += 1; i + 3 > count && rng.bool() }),          // a number below 8
                    3 => val_by(&jet.src, &mut || { i += 1; i + 9 > count && rng.bool() }),          // a number below 512
                    _ => val_by(&jet.src, &mut || rng.bool()),
                };
                let mut auxv = vec![json!(["u"]); n];
                auxv[0] = w;
                let ev = guarded(|| {
                    types::Context::with_context(|ctx| {
                        let (redeem, _, _) = match build_typed(&ctx, Family::Elements, &dag, &json!(full_ty), &json!(auxv)) { Ok(x) => x, Err(_) => return J::Null };
                        let (sdag, sty, saux, map) = describe(&redeem);
                        let run = execute(&redeem, &map, &Value::unit(), env, None, true);
                        let (pb, wb) = redeem.to_vec_with_witness();
                        let c = c_pipeline(&pb, &wb, Some(env.c_tx_env()), Some(CHECK_NONE));
                        let c_eval = c.get("eval").and_then(|x| x.as_i64());
                        json!({"ev": "verdict", "dag": sdag, "ty": sty, "aux": saux, "visits": run["visits"], "rust": run["res"],
                               "c_stage": c["stage"], "c_err": c["err"], "c_eval": c_eval.unwrap_or(1), "c": c_eval.map(c_class).unwrap_or("not-run"),
                               "env": env_name, "msg": run.get("msg").cloned().unwrap_or(json!("")), "sweep": jet.name})
                    })
                });
                let _ = env_ix;
                match ev {
                    Ok(J::Null) => {}
                    Ok(e) => out.emit(&e),
                    Err(p) => out.emit(&json!({"ev": "verdict", "rust": "panic", "msg": p, "dag": [], "ty": [], "aux": [], "visits": [], "c": "not-run", "c_stage": "", "c_err": 0, "c_eval": 1, "env": "", "sweep": jet.name})),
                }
            }
        }
    }
    // the copy sweep: `pair cA cB ; shuffle ; select ; verify` with constants of every pair of widths -- all types are fixed by the
    // word constants, so both implementations infer them -- where the verdict is the last bit of A after it has been copied
    // (swap: once; swap ; swap': twice, the second time out of an intermediate frame).  A is 0..01 (verdict ok) or 10..0 (jet failure).
    fn const_of(nodes: &mut Vec<J>, t: &Ty, bits: &mut dyn Iterator<Item = bool>) -> usize {
        if *t == Ty::Unit { nodes.push(json!(["unit", 0, 0])); return nodes.len(); }
        if let Some(k) = (0..12).find(|k| *t == Ty::word(*k)) {
            let b: Vec<u8> = (0..(1usize << k)).map(|_| bits.next().unwrap() as u8).collect();
            nodes.push(json!(["word", 0, 0, b]));
            return nodes.len();
        }
        let Ty::Prod(a, b) = t else { panic!("flat types only") };
        let l = const_of(nodes, a, bits);
        let r = const_of(nodes, b, bits);
        nodes.push(json!(["pair", l, r]));
        nodes.len()
    }
    fn last_bit(nodes: &mut Vec<J>, t: &Ty) -> usize {      // A -> 2: the last bit, along the right spine
        let mut depth = 0;
        let mut cur = t;
        while let Ty::Prod(_, b) = cur { depth += 1; cur = b; }
        nodes.push(json!(["iden", 0, 0]));
        for _ in 0..depth { let c = nodes.len(); nodes.push(json!(["drop", c, 0])); }
        nodes.len()
    }
    fn swap(nodes: &mut Vec<J>) -> usize {
        let b = nodes.len();
        nodes.extend([json!(["iden", 0, 0]), json!(["iden", 0, 0]), json!(["take", b + 1, 0]), json!(["drop", b + 2, 0]), json!(["pair", b + 4, b + 3])]);
        nodes.len()
    }
    let widths: Vec<usize> = if runs > 1000 { (1..=33).collect() } else { (1..=15).chain([16, 17, 23, 24, 25]).collect() };
    let env = &envs[0].1;
    let mut kk = 0usize;
    for &wa in &widths {
        for &wb in [0usize, 1, 2, 3, 4, 5, 6, 7, 8, 9, 11, 13].iter() {
            kk += 1;
            let (ta, tb) = (crate::c05::ty_of_width(wa), crate::c05::ty_of_width(wb));
            let last_one = kk % 3 != 0 || wa < 2;
            let abits: Vec<bool> = (0..wa).map(|i| if last_one { i + 1 == wa } else { i == 0 }).collect();
            let bbits: Vec<bool> = (0..wb).map(|_| rng.bool()).collect();
            let mut nodes: Vec<J> = vec![];
            let ca = const_of(&mut nodes, &ta, &mut abits.iter().copied());
            let cb = const_of(&mut nodes, &tb, &mut bbits.iter().copied());
            nodes.push(json!(["pair", ca, cb]));
            let consts = nodes.len();
            let s1 = swap(&mut nodes);
            let twice = kk % 2 == 0;
            let shuffled = if twice { let s2 = swap(&mut nodes); nodes.push(json!(["comp", s1, s2])); nodes.len() } else { s1 };
            let lb = last_bit(&mut nodes, &ta);
            nodes.push(json!([if twice { "take" } else { "drop" }, lb, 0]));
            let sel = nodes.len();
            nodes.push(json!(["jet", 0, 0, "verify"]));
            let ver = nodes.len();
            nodes.push(json!(["comp", sel, ver]));
            let tail = nodes.len();
            nodes.push(json!(["comp", shuffled, tail]));
            let mid = nodes.len();
            nodes.push(json!(["comp", consts, mid]));
            let dag = json!(nodes);
            let n = nodes.len();
            let mut ty = vec![J::Null; n];
            ty[n - 1] = json!([["1"], ["1"]]);
            let aux = json!(vec![json!(["none"]); n]);
            let ev = guarded(|| {
                types::Context::with_context(|ctx| {
                    let (redeem, _, _) = match build_typed(&ctx, Family::Elements, &dag, &json!(ty), &aux) { Ok(x) => x, Err(e) => return json!({"ev": "verdict", "rust": "panic", "msg": format!("copy sweep program does not build: {}", e), "dag": [], "ty": [], "aux": [], "visits": [], "c": "not-run", "c_stage": "", "c_err": 0, "c_eval": 1, "env": ""}) };
                    let (sdag, sty, saux, map) = describe(&redeem);
                    let run = execute(&redeem, &map, &Value::unit(), env, None, true);
                    let (pb, wb_) = redeem.to_vec_with_witness();
                    let c = c_pipeline(&pb, &wb_, Some(env.c_tx_env()), Some(CHECK_NONE));
                    let c_eval = c.get("eval").and_then(|x| x.as_i64());
                    json!({"ev": "verdict", "dag": sdag, "ty": sty, "aux": saux, "visits": run["visits"], "rust": run["res"],
                           "c_stage": c["stage"], "c_err": c["err"], "c_eval": c_eval.unwrap_or(1), "c": c_eval.map(c_class).unwrap_or("not-run"),
                           "env": envs[0].0, "msg": run.get("msg").cloned().unwrap_or(json!("")), "sweep": format!("copy {} {}", wa, wb)})
                })
            });
            match ev {
                Ok(e) => out.emit(&e),
                Err(p) => out.emit(&json!({"ev": "verdict", "rust": "panic", "msg": p, "dag": [], "ty": [], "aux": [], "visits": [], "c": "not-run", "c_stage": "", "c_err": 0, "c_eval": 1, "env": "", "sweep": "copy"})),
            }
        }
    }
    let _: Option<elements::LockTime> = None;
}
