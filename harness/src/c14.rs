//! C14: jet tables (codes, names, types, roots, costs) of the three families, and the C side of each row.
use crate::cffi::*;
use crate::util::*;
use serde_json::{json, Value as J};
use simplicity::jet::{Bitcoin, Core, Elements, Jet};
use simplicity::node::CoreConstructible;
use simplicity::types;
use simplicity::{BitIter, BitWriter};

fn code_bits<JT: Jet>(j: &JT) -> Vec<u8> {
    let mut code: Vec<u8> = vec![];
    let nb = {
        let mut sink: &mut dyn std::io::Write = &mut code;
        let mut w = BitWriter::new(&mut sink as &mut dyn std::io::Write);
        let nb = j.encode(&mut w).unwrap();
        w.flush_all().unwrap();
        nb
    };
    BitIter::from(&code[..]).take(nb).map(|b| b as u8).collect()
}

fn row<JT: Jet + Clone + PartialEq>(fam: &str, j: &JT, with_roots: bool) -> J {
    let code = code_bits(j);
    let bytes = crate::tyval::bytes_from_bits(&code.iter().map(|b| *b == 1).collect::<Vec<_>>());
    // decode(encode(j)) = j, followed by arbitrary further bits
    let mut padded = code.iter().map(|b| *b == 1).collect::<Vec<_>>();
    padded.extend([true, false, true, true, false, false, true, false, true]);
    let pbytes = crate::tyval::bytes_from_bits(&padded);
    let mut it = BitIter::from(&pbytes[..]);
    let dec = guarded(|| JT::decode(&mut it));
    let decode_ok = matches!(&dec, Ok(Ok(d)) if d == j) && it.n_total_read() == code.len();
    let _ = bytes;
    let name = j.to_string();
    let parse_ok = matches!(guarded(|| JT::parse(&name)), Ok(Ok(ref p)) if p == j);
    let (s, t) = (j.source_ty(), j.target_ty());
    let mut r = json!({"family": fam, "name": name, "code": code, "decode_ok": decode_ok, "parse_ok": parse_ok,
        "src_width": s.to_bit_width(), "tgt_width": t.to_bit_width(),
        "src_final_width": s.to_final().bit_width(), "tgt_final_width": t.to_final().bit_width(),
        "src_tmr": s.to_final().tmr().to_string(), "tgt_tmr": t.to_final().tmr().to_string(),
        "src_tmr_name": s.tmr().to_string(), "tgt_tmr_name": t.tmr().to_string(),
        // the types themselves (compressed), for the spec decoder's jet table (Codec.tla JetRows)
        "src_ty": crate::prog::ty_cz(&s.to_final()), "tgt_ty": crate::prog::ty_cz(&t.to_final())});
    if with_roots {
        r["cmr"] = json!(j.cmr().to_string());
        r["cost"] = json!(j.cost().to_string().parse::<u64>().unwrap_or(u64::MAX));
    }
    r
}

/// the C side of an Elements jet: the one-jet expression through decode, type inference and bound analysis
fn c_row(j: &Elements) -> J {
    let prog = types::Context::with_context(|ctx| {
        let n = crate::prog::CN::jet(&ctx, j);
        n.finalize_types_non_program().unwrap().to_vec_without_witness()
    });
    let c = c_pipeline(&prog, &[], None, None);
    json!({"family": "elements", "name": j.to_string(), "side": "c", "err": c["err"], "stage": c["stage"],
           "cmr": c.get("cmr").cloned().unwrap_or(json!("")), "src_tmr": c.get("root_src_tmr").cloned().unwrap_or(json!("")),
           "tgt_tmr": c.get("root_tgt_tmr").cloned().unwrap_or(json!("")), "src_width": c.get("root_src_bits").cloned().unwrap_or(json!(-1)),
           "tgt_width": c.get("root_tgt_bits").cloned().unwrap_or(json!(-1)),
           // cost of the one-node program = overhead (100) + the jet's cost
           "cost": c.get("cost").and_then(|x| x.as_u64()).map(|x| x as i64 - 100).unwrap_or(-1)})
}

pub fn table(path: &str) {
    let mut out = Out::file(path);
    for j in Core::ALL.iter() { out.emit(&row("core", j, true)); }
    for j in Elements::ALL.iter() { out.emit(&row("elements", j, true)); }
    for j in Bitcoin::ALL.iter() { out.emit(&row("bitcoin", j, false)); }
    for j in Elements::ALL.iter() { out.emit(&c_row(j)); }
}

/// every bit string up to `n` bits that is not (a prefix of / prefixed by) a code must be refused
pub fn noncodes(n: usize, path: &str) {
    let mut out = Out::file(path);
    fn sweep<JT: Jet + Clone + PartialEq>(fam: &str, n: usize, out: &mut Out) {
        let mut wrong = 0u64;
        let mut decoded = 0u64;
        let mut refused = 0u64;
        let mut panics = 0u64;
        let mut example = J::Null;
        for len in 1..=n {
            for v in 0..(1u64 << len) {
                let bits: Vec<bool> = (0..len).map(|i| (v >> (len - 1 - i)) & 1 == 1).collect();
                let bytes = crate::tyval::bytes_from_bits(&bits);
                // exactly `len` bits are offered: a window over the packed bytes
                let mut it = BitIter::from(&bytes[..]);
                let r = guarded(|| JT::decode(&mut it));
                match r {
                    Err(_) => { panics += 1; if example.is_null() { example = json!(bits.iter().map(|b| *b as u8).collect::<Vec<_>>()); } }
                    Ok(Err(_)) => refused += 1,
                    Ok(Ok(j)) => {
                        decoded += 1;
                        // a decoded jet must be the one whose code is the consumed prefix
                        let code = code_bits(&j);
                        let used = it.n_total_read();
                        let pref: Vec<u8> = bits.iter().take(used).map(|b| *b as u8).collect();
                        // the stream is byte padded with zeros: consumption may extend into the padding
                        let mut padded = bits.iter().map(|b| *b as u8).collect::<Vec<_>>();
                        while padded.len() % 8 != 0 { padded.push(0); }
                        if code != padded[..used.min(padded.len())].to_vec() && code != pref {
                            wrong += 1;
                            if example.is_null() { example = json!({"bits": padded, "jet": j.to_string()}); }
                        }
                    }
                }
            }
        }
        out.emit(&json!({"ev": "sweep", "family": fam, "max_bits": n, "decoded": decoded, "refused": refused, "wrong": wrong, "panics": panics, "example": example}));
    }
    sweep::<Core>("core", n, &mut out);
    sweep::<Elements>("elements", n, &mut out);
    sweep::<Bitcoin>("bitcoin", n, &mut out);
}
