//! C20: the same operations run one at a time and then concurrently on many threads, sharing immutable
//! programs, types and values; per-thread logs for Trace_Threads.
use crate::c05::build_typed;
use crate::gen::*;
use crate::prog::*;
use crate::tyval::*;
use crate::util::*;
use serde_json::{json, Value as J};
use simplicity::elements::bitcoin::hashes::{sha256, Hash};
use simplicity::dag::DagLike;
use simplicity::human_encoding::Forest;
use simplicity::jet::Elements;
use simplicity::types::{self, Final};
use simplicity::{BitIter, BitMachine, CommitNode, RedeemNode, Value};
use std::hash::Hasher;
use std::sync::atomic::{AtomicUsize, Ordering};
use std::sync::mpsc;
use std::sync::Arc;

fn dig(s: &str) -> String { crate::c15::hex(&<sha256::Hash as Hash>::hash(s.as_bytes()).as_byte_array()[..8]) }

/// everything the threads share (all of it immutable)
struct Shared {
    progs: Vec<Arc<RedeemNode>>,
    commits: Vec<Arc<CommitNode>>,
    encodings: Vec<(Vec<u8>, Vec<u8>)>,
    dags: Vec<(J, J, J)>,          // dag, types, witness values: rebuilt in a fresh context by `infer`
    bad_dags: Vec<J>,               // ill-typed: the error text shows fresh variable names
    types: Vec<Arc<Final>>,
    values: Vec<Value>,
    policies: Vec<J>,
    texts: Vec<String>,
    env_desc: J,
    deep: Arc<CommitNode>,          // a very deep chain, dropped by whichever thread lets go last
    cjets: Vec<Arc<RedeemNode>>,    // hashing programs over C jets that work on buffers, each with its own data
    twins: Vec<Arc<RedeemNode>>,    // one program with two witnesses: the first fails inside the left branch of a case, the second succeeds through the right one
}

fn make_shared(rng: &mut Rng) -> Shared {
    let jets: Vec<JetSig> = jet_sigs_elements().into_iter().filter(|j| j.src.size() <= 600 && j.tgt.size() <= 600).collect();
    let (mut progs, mut commits, mut encodings, mut dags) = (vec![], vec![], vec![], vec![]);
    let mut attempts = 0;
    while progs.len() < 8 && attempts < 400 {
        attempts += 1;
        let dag = { let mut g = Gen::new(rng, &jets, 30); g.allow_disconnect = attempts % 3 == 0; let r = g.expr(&Ty::Unit, &Ty::Unit, 8); g.finish(r) };
        let n = dag.as_array().unwrap().len();
        if n < 4 { continue; }
        let mut ty = vec![J::Null; n];
        ty[n - 1] = json!([["1"], ["1"]]);
        let aux0 = json!(vec![json!(["none"]); n]);
        let learned: Option<Vec<J>> = guarded(|| types::Context::with_context(|ctx| {
            let (_, _, built) = build_typed(&ctx, Family::Elements, &dag, &json!(ty), &aux0).ok()?;
            Some(built.iter().map(|b| { let a = b.arrow().finalize().unwrap(); json!([ty_j(&a.source), ty_j(&a.target)]) }).collect())
        })).ok().flatten();
        let Some(full_ty) = learned else { continue };
        let mut auxv = vec![json!(["u"]); n];
        for (i, nd) in dag.as_array().unwrap().iter().enumerate() {
            if nd[0] == "witness" { auxv[i] = Ty::from_final(&ty_of(&full_ty[i][1])).rand_val(rng); }
        }
        let built = guarded(|| types::Context::with_context(|ctx| {
            let (redeem, _, nodes) = build_typed(&ctx, Family::Elements, &dag, &json!(full_ty), &json!(auxv)).ok()?;
            let commit = nodes.last().unwrap().finalize_types().ok()?;
            Some((redeem, commit))
        })).ok().flatten();
        let Some((redeem, commit)) = built else { continue };
        encodings.push(redeem.to_vec_with_witness());
        progs.push(redeem);
        commits.push(commit);
        dags.push((dag, json!(full_ty), json!(auxv)));
    }
    let bad_dags = vec![
        json!([["unit", 0, 0], ["injl", 1, 0], ["pair", 2, 1], ["take", 1, 0], ["comp", 3, 4]]),
        json!([["iden", 0, 0], ["injl", 1, 0], ["case", 1, 2], ["comp", 3, 3]]),
        json!([["witness", 0, 0], ["pair", 1, 1], ["case", 2, 2], ["comp", 2, 3], ["comp", 4, 4]]),
    ];
    let types: Vec<Arc<Final>> = (0..6).map(|k| { let t = rand_small_ty(rng, 3); let _ = k; ty_of(&t.to_j()) }).chain([Final::two_two_n(8).unwrap(), Final::two_two_n(5).unwrap()]).collect();
    let values: Vec<Value> = types.iter().map(|t| val_of(&Ty::from_final(t).rand_val(rng), t)).collect::<Vec<Value>>();
    let policies = vec![
        json!({"pol": ["and", ["key", 1], ["or", ["sha", 1], ["after", 3]]], "perm": ["and", ["or", ["after", 3], ["sha", 1]], ["key", 1]], "height": 5, "seq": 0, "sigs": [true, false], "pres": [true]}),
        json!({"pol": ["thresh", 2, [["key", 1], ["key", 2], ["older", 2]]], "perm": ["thresh", 2, [["older", 2], ["key", 2], ["key", 1]]], "height": 0, "seq": 4, "sigs": [true, true], "pres": [false]}),
        json!({"pol": ["or", ["unsat"], ["key", 2]], "perm": ["or", ["key", 2], ["unsat"]], "height": 0, "seq": 0, "sigs": [false, true], "pres": [false]}),
    ];
    let texts = vec![
        "a := unit\nb := unit\nmain := comp (pair a (injl b)) (take unit)".to_string(),
        "main := comp (pair (injr (const 0xab)) unit) (case unit unit)".to_string(),
        "w := witness\nmain := comp (pair w (jet_add_8)) (drop (take unit))".to_string(),
    ];
    let pool = crate::c15::pool();
    let env_desc = loop { let d = crate::c15::gen_desc(rng, &pool); if d["ix"].as_u64().unwrap() < d["inputs"].as_array().unwrap().len() as u64 { break d; } };
    // a chain of 200 000 nested take/drop nodes
    let deep = types::Context::with_context(|ctx| {
        use simplicity::node::CoreConstructible;
        let mut n = CN::unit(&ctx);
        for k in 0..200_000 { n = if k % 2 == 0 { CN::take(&n) } else { CN::drop_(&n) }; }
        n.finalize_types_non_program().expect("deep chain")
    });
    // init >>> add_buffer_511 / add_512 / add_64 >>> finalize, each program with a different buffer
    let mut cjets = vec![];
    for k in 0..12usize {
        let p = types::Context::with_context(|ctx| {
            use simplicity::node::{CoreConstructible, WitnessConstructible};
            let len = [511usize, 500, 384, 257, 448, 300, 129, 64, 1, 0, 510, 333][k];
            let data: Vec<u8> = (0..len).map(|i| (i * 31 + k * 7 + 1) as u8).collect();
            let (jet, wit) = match k % 3 {
                0 | 1 => ("sha_256_ctx_8_add_buffer_511", Value::buffer8_two_n_plus_one(8, &data).expect("buffer")),
                _ => { let mut b = [0u8; 64]; for (i, x) in b.iter_mut().enumerate() { *x = (i * 13 + k) as u8; } ("sha_256_ctx_8_add_64", Value::u512(b)) }
            };
            let init = CN::jet(&ctx, &elements_jet("sha_256_ctx_8_init"));
            let w = CN::witness(&ctx, Some(wit));
            let add = CN::comp(&CN::pair(&init, &w).unwrap(), &CN::jet(&ctx, &elements_jet(jet))).unwrap();
            let fin = CN::comp(&add, &CN::jet(&ctx, &elements_jet("sha_256_ctx_8_finalize"))).unwrap();
            let prog = CN::comp(&fin, &CN::unit(&ctx)).unwrap();
            prog.finalize_unpruned().expect("hash program")
        });
        cjets.push(p);
    }
    // comp (pair witness unit) (case (unit ; false ; verify) unit): the case node has one identity whatever the witness says
    let twins: Vec<Arc<RedeemNode>> = [0u8, 1].iter().map(|bit| types::Context::with_context(|ctx| {
        use simplicity::node::{CoreConstructible, JetConstructible, WitnessConstructible};
        let w = CN::witness(&ctx, Some(Value::u1(*bit)));
        let sel = CN::pair(&w, &CN::unit(&ctx)).unwrap();
        let no = CN::comp(&CN::unit(&ctx), &CN::const_word(&ctx, simplicity::Word::u1(0))).unwrap();
        let l = CN::comp(&no, &CN::jet(&ctx, &elements_jet("verify"))).unwrap();
        let cs = CN::case(&l, &CN::unit(&ctx)).unwrap();
        CN::comp(&sel, &cs).unwrap().finalize_unpruned().expect("twin program")
    })).collect();
    Shared { progs, commits, encodings, dags, bad_dags, types, values, policies, texts, env_desc, deep, cjets, twins }
}

const KINDS: &[&str] = &["decode", "infer", "infer_err", "roots", "exec", "prune", "satisfy", "value", "clone_drop", "human", "types", "cjets", "prune_pair"];

fn count(sh: &Shared, kind: &str) -> usize {
    match kind {
        "decode" | "roots" | "exec" | "prune" | "clone_drop" | "infer" => sh.progs.len(),
        "infer_err" => sh.bad_dags.len(),
        "prune_pair" => 1,
        "satisfy" => sh.policies.len(),
        "value" => sh.values.len(),
        "human" => sh.texts.len(),
        "cjets" | "storm" => sh.cjets.len(),
        _ => sh.types.len(),
    }
}

fn prune_str(p: &RedeemNode, env: &crate::env::Env) -> String {
    match p.prune(env) {
        Ok(p) => { let (a, b) = p.to_vec_with_witness(); format!("ok {} {} {}", p.cmr(), dig(&crate::c15::hex(&a)), dig(&crate::c15::hex(&b))) }
        Err(e) => format!("fail {}", e),
    }
}

/// one operation: (digest of the result, variable-name ids seen)
fn run_op(sh: &Shared, env: &crate::env::Env, kind: &str, idx: usize) -> (String, Vec<u64>) {
    let mut ids = vec![];
    let res: String = match kind {
        "decode" => {
            let (p, w) = &sh.encodings[idx];
            match RedeemNode::decode::<_, _, Elements>(BitIter::from(&p[..]), BitIter::from(&w[..])) {
                Ok(r) => format!("{} {} {} {}", r.cmr(), r.ihr(), r.amr(), r.bounds().cost),
                Err(e) => format!("err {}", e),
            }
        }
        "infer" => {
            let (dag, ty, aux) = &sh.dags[idx];
            types::Context::with_context(|ctx| match build_typed(&ctx, Family::Elements, dag, ty, aux) {
                Ok((r, _, nodes)) => format!("{} {} {}", r.cmr(), r.ihr(), nodes.iter().map(|n| n.arrow().to_string()).collect::<Vec<_>>().join(";").len()),
                Err(e) => format!("err {}", e),
            })
        }
        "infer_err" => {
            let msg = types::Context::with_context(|ctx| {
                let nodes = sh.bad_dags[idx].as_array().unwrap();
                let mut built: Vec<CN> = vec![];
                for nd in nodes {
                    let get = |k: usize| built[k - 1].clone();
                    match build_node(&ctx, Family::Core, nd, &get) { Ok(n) => built.push(n), Err(e) => return e.to_string() }
                }
                match built.last().unwrap().finalize_types() { Ok(_) => "typed".to_string(), Err(e) => e.to_string() }
            });
            // names look like prefix + decimal id; the text with the ids blanked is the result
            let mut text = String::new();
            let cs: Vec<char> = msg.chars().collect();
            let mut i = 0;
            while i < cs.len() {
                if cs[i].is_ascii_digit() && i > 0 && (cs[i - 1].is_ascii_alphabetic() || cs[i - 1] == '_') {
                    let mut j = i;
                    while j < cs.len() && cs[j].is_ascii_digit() { j += 1; }
                    ids.push(cs[i..j].iter().collect::<String>().parse::<u64>().unwrap_or(0));
                    text.push('#');
                    i = j;
                } else { text.push(cs[i]); i += 1; }
            }
            text
        }
        "roots" => {
            let r = &sh.progs[idx];
            let (p, w) = r.to_vec_with_witness();
            format!("{} {} {} {} {} {}", r.cmr(), r.ihr(), r.amr(), r.bounds().cost, p == sh.encodings[idx].0, w == sh.encodings[idx].1)
        }
        "exec" => {
            let r = &sh.progs[idx];
            match BitMachine::for_program(r) {
                Err(e) => format!("limit {}", e),
                Ok(mut mac) => match mac.exec(r, env) { Ok(v) => format!("ok {}", v.iter_compact().count()), Err(e) => format!("fail {}", e) },
            }
        }
        "prune" => prune_str(&sh.progs[idx], env),
        // a failing prune followed by a succeeding one of the same program with the other witness, on whatever thread this is
        "prune_pair" => format!("pair {} | {}", prune_str(&sh.twins[0], env), prune_str(&sh.twins[1], env)),
        "satisfy" => crate::c16::one(&sh.policies[idx]).to_string(),
        "value" => {
            let v = &sh.values[idx];
            let t = &sh.types[idx];
            let mut h = std::collections::hash_map::DefaultHasher::new();
            std::hash::Hash::hash(v, &mut h);
            let bits: Vec<bool> = v.iter_compact().collect();
            let bytes = bytes_from_bits(&bits);
            let back = Value::from_compact_bits(&mut BitIter::from(&bytes[..]), t).expect("value decodes");
            format!("{} {} {} {}", h.finish(), bits.len(), back == *v, v.prune(t).map_or(false, |p| p == *v))
        }
        "clone_drop" => {
            let a = Arc::clone(&sh.progs[idx]);
            let b = Arc::clone(&sh.deep);
            let c = Arc::clone(&sh.commits[idx]);
            let n = Arc::strong_count(&a).min(1) + Arc::strong_count(&b).min(1);
            drop(c); drop(b); drop(a);
            format!("done {}", n)
        }
        // the hash the C jets compute over this program's buffer (the value right before the final `unit`)
        "cjets" | "storm" => {
            let reps = if kind == "storm" { 300 } else { 20 };
            let mut acc = String::new();
            for i in 0..reps {
                // storm: walk over all programs starting at idx, so that threads work on different buffers at the same time
                let r = &sh.cjets[(idx + if kind == "storm" { i } else { 0 }) % sh.cjets.len()];
                let fin = r.left_child().expect("comp");
                let mut mac = BitMachine::for_program(&fin).expect("machine");
                let d = match mac.exec(&fin, env) { Ok(v) => crate::c15::hex(&crate::tyval::bytes_from_bits(&v.iter_padded().collect::<Vec<bool>>())), Err(e) => format!("fail {}", e) };
                if kind == "storm" { acc = dig(&format!("{}{}", acc, d)); } else { acc = d; }
            }
            acc
        }
        "human" => match Forest::parse::<simplicity::jet::Core>(&sh.texts[idx]) {
            Ok(f) => { let t = f.string_serialize(); format!("ok {} {}", f.roots()["main"].cmr(), dig(&t)) }
            Err(e) => format!("err {}", e),
        },
        _ => {
            // thread-local precomputed types compared with shared ones
            let t = &sh.types[idx];
            let w8 = Final::two_two_n(8).unwrap();
            let w5 = Final::two_two_n(5).unwrap();
            // all three thread-local tables of src/types/precomputed.rs: powers of two, byte buffers, the hash context
            let ctx = Final::ctx8();
            let buf = Final::buffer8_two_n_plus_one(idx % 9).map(|b| format!("{} {}", b.tmr(), b.bit_width())).unwrap_or_else(|e| format!("err {}", e));
            let pw = Final::two_two_n(idx % 12).map(|b| format!("{}", b.tmr())).unwrap_or_else(|e| format!("err {}", e));
            format!("{} {} {} {} {} {} {} {}", t.tmr(), t.bit_width(), *w8 == *sh.types[sh.types.len() - 2], *w5 == *sh.types[sh.types.len() - 1],
                    ctx.tmr(), ctx.bit_width(), buf, pw)
        }
    };
    (dig(&res), ids)
}

/// impl -> spec: `rounds` rounds of `threads` threads x `ops` operations
pub fn record(rounds: usize, threads: usize, ops: usize, path: &str) {
    let mut rng = Rng::from_env(20);
    let mut out = Out::file(path);
    for round in 0..rounds {
        let sh = Arc::new(make_shared(&mut rng));
        // sequentially, on the main thread: the expected result of every operation
        let env = crate::c15::build(&sh.env_desc).env;
        out.emit(&json!({"ev": "round", "round": round, "threads": threads, "ops": ops}));
        for kind in KINDS {
            for idx in 0..count(&sh, kind) {
                if *kind == "prune_pair" {
                    // "run one at a time": each of the two prunes on a thread of its own, with an environment of its own
                    let one = |k: usize| { let sh = Arc::clone(&sh); std::thread::spawn(move || { let env = crate::c15::build(&sh.env_desc).env; prune_str(&sh.twins[k], &env) }).join().unwrap_or_else(|_| "panic".into()) };
                    let d = dig(&format!("pair {} | {}", one(0), one(1)));
                    out.emit(&json!({"ev": "expect", "key": format!("{}:{}", kind, idx), "digest": d, "ids": []}));
                    continue;
                }
                let (d, ids) = run_op(&sh, &env, kind, idx);
                out.emit(&json!({"ev": "expect", "key": format!("{}:{}", kind, idx), "digest": d, "ids": ids}));
            }
        }
        for idx in 0..sh.cjets.len() {
            let (d, ids) = run_op(&sh, &env, "storm", idx);
            out.emit(&json!({"ev": "expect", "key": format!("storm:{}", idx), "digest": d, "ids": ids}));
        }
        // concurrently
        let plans: Vec<Vec<(usize, usize)>> = (0..threads).map(|_| (0..ops).map(|_| { let k = rng.below(KINDS.len()); (k, rng.below(count(&sh, KINDS[k]))) }).collect()).collect();
        let (tx, rx) = mpsc::channel::<J>();
        let started = Arc::new(AtomicUsize::new(0));
        let barrier = Arc::new(std::sync::Barrier::new(threads));
        let mut handles = vec![];
        for (t, plan) in plans.into_iter().enumerate() {
            let (sh, tx, started, barrier) = (Arc::clone(&sh), tx.clone(), Arc::clone(&started), Arc::clone(&barrier));
            handles.push(std::thread::Builder::new().name(format!("w{}", t)).spawn(move || {
                // each thread owns its environment and machines
                let env = crate::c15::build(&sh.env_desc).env;
                barrier.wait();
                for (seq, (k, idx)) in plan.into_iter().enumerate() {
                    started.fetch_add(1, Ordering::SeqCst);
                    let r = guarded(|| run_op(&sh, &env, KINDS[k], idx));
                    let (d, ids) = r.unwrap_or_else(|p| (format!("panic: {}", p), vec![]));
                    let _ = tx.send(json!({"ev": "op", "t": t, "seq": seq + 1, "key": format!("{}:{}", KINDS[k], idx), "digest": d, "ids": ids}));
                }
                // all threads hash different buffers through the same C jets at the same time
                barrier.wait();
                let idx = t % sh.cjets.len();
                let r = guarded(|| run_op(&sh, &env, "storm", idx));
                let (d, ids) = r.unwrap_or_else(|p| (format!("panic: {}", p), vec![]));
                let _ = tx.send(json!({"ev": "op", "t": t, "seq": ops + 1, "key": format!("storm:{}", idx), "digest": d, "ids": ids}));
                let _ = tx.send(json!({"ev": "end", "t": t, "count": ops + 1}));
                drop(sh); // whichever thread is last runs the destructors of everything shared
            }).unwrap());
        }
        drop(tx);
        drop(sh);
        // collect with a watchdog: a deadlock shows as threads that never report
        let mut events: Vec<J> = vec![];
        let mut ended = 0;
        let deadline = std::time::Instant::now() + std::time::Duration::from_secs(600);
        while ended < threads {
            match rx.recv_timeout(deadline.saturating_duration_since(std::time::Instant::now())) {
                Ok(e) => { if e["ev"] == "end" { ended += 1; } events.push(e); }
                Err(_) => break,
            }
        }
        // per-thread order is what the trace spec needs; group by thread
        events.sort_by_key(|e| (e["t"].as_u64().unwrap(), if e["ev"] == "end" { u64::MAX } else { e["seq"].as_u64().unwrap() }));
        for e in events { out.emit(&e); }
        if ended < threads {
            out.emit(&json!({"ev": "stuck", "round": round, "ended": ended, "started": started.load(Ordering::SeqCst)}));
            out.flush();
            std::process::exit(0); // the stuck threads cannot be joined
        }
        for h in handles { let _ = h.join(); }
        out.emit(&json!({"ev": "joined", "round": round}));
    }
    out.flush();
}

/// Encoding of a program nested `depth` deep in one of several ways, written to `path`. Built on a thread with a
/// very large stack so that the generator itself cannot overflow.
pub fn deepgen(shape: &str, depth: usize, path: &str) {
    let (shape, path) = (shape.to_string(), path.to_string());
    std::thread::Builder::new().stack_size(2 << 30).spawn(move || {
        use simplicity::node::CoreConstructible;
        let bytes = types::Context::with_context(|ctx| {
            let u = CN::unit(&ctx);
            let mut n = u.clone();
            let prog = match shape.as_str() {
                // deep target type
                "injl" => { for _ in 0..depth { n = CN::injl(&n); } CN::comp(&n, &CN::unit(&ctx)).unwrap() }
                // deep source type unified with an equally deep target type (structural unification of deep types)
                "take" => {
                    for _ in 0..depth { n = CN::take(&n); }
                    let u2 = CN::unit(&ctx);
                    let mut v = u2.clone();
                    for _ in 0..depth { v = CN::pair(&v, &u2).unwrap(); }
                    CN::comp(&v, &n).unwrap()
                }
                // deep DAG with flat types
                // a witness paired with itself again and again: the target type is shared to depth `depth`
                "share" => {
                    use simplicity::node::WitnessConstructible;
                    let mut p: CN = WitnessConstructible::witness(&ctx, None);
                    for _ in 0..depth { p = CN::pair(&p, &p).unwrap(); }
                    p
                }
                _ => { let i = CN::iden(&ctx); let mut c = i.clone(); for _ in 0..depth { c = CN::comp(&c, &i).unwrap(); } CN::comp(&c, &u).unwrap() }
            };
            let c = prog.finalize_types().expect("types");
            let b = c.to_vec_without_witness();
            // leak the construction: dropping it is not what is being tested here
            std::mem::forget(c);
            std::mem::forget(prog);
            b
        });
        std::fs::write(&path, bytes).unwrap();
    }).unwrap().join().unwrap();
}

/// Build a program nested `depth` deep through the construction API, finalise it, encode it and drop everything
/// (nodes, types, inference context), on the main thread or on a thread with the default stack.
pub fn deepbuild(shape: &str, depth: usize, on_thread: bool) {
    let shape = shape.to_string();
    let work = move || {
        use simplicity::node::CoreConstructible;
        let n_bytes = types::Context::with_context(|ctx| {
            let u = CN::unit(&ctx);
            let mut n = u.clone();
            let prog = match shape.as_str() {
                "injl" => { for _ in 0..depth { n = CN::injl(&n); } CN::comp(&n, &CN::unit(&ctx)).unwrap() }
                "take" => { for _ in 0..depth { n = CN::take(&n); } n }
                // two separately built deep types that have to be unified structurally
                "unify" => {
                    for _ in 0..depth { n = CN::take(&n); }
                    let u2 = CN::unit(&ctx);
                    let mut v = u2.clone();
                    for _ in 0..depth { v = CN::pair(&v, &u2).unwrap(); }
                    CN::comp(&v, &n).unwrap()
                }
                // a witness paired with itself again and again: the target type is shared to depth `depth`
                "share" => {
                    use simplicity::node::WitnessConstructible;
                    let mut p: CN = WitnessConstructible::witness(&ctx, None);
                    for _ in 0..depth { p = CN::pair(&p, &p).unwrap(); }
                    p
                }
                _ => { let i = CN::iden(&ctx); let mut c = i.clone(); for _ in 0..depth { c = CN::comp(&c, &i).unwrap(); } CN::comp(&c, &u).unwrap() }
            };
            let c = if shape == "take" || shape == "share" { prog.finalize_types_non_program() } else { prog.finalize_types() }.expect("types");
            // (the commitment-time encoding writes a shared witness once per path: not for the doubling shape)
            if shape == "share" { (c.arrow().target.bit_width() > 0) as usize } else { c.to_vec_without_witness().len() }
        });
        println!("{}", json!({"class": "ok", "bytes": n_bytes}));
    };
    if on_thread { std::thread::spawn(work).join().unwrap(); } else { work(); }
}

/// Decode, display, execute and drop the program in `path`, on the main thread or on a spawned thread with the
/// default (2 MiB) stack. One per process: a stack overflow aborts the process.
pub fn deepdec(path: &str, on_thread: bool) {
    let bytes = std::fs::read(path).unwrap();
    let work = move || {
        let base = crate::alloc::reset_peak();
        let r = RedeemNode::decode::<_, _, simplicity::jet::Core>(BitIter::from(&bytes[..]), BitIter::from(&[][..]));
        let peak = crate::alloc::peak_since(base);
        let class = match &r {
            Ok(p) => {
                let shown = p.arrow().to_string().len() + p.left_child().map_or(0, |c| c.arrow().to_string().len());
                let run = match BitMachine::for_program(p) { Ok(mut m) => m.exec(p, &simplicity::jet::CoreEnv::new()).is_ok(), Err(_) => false };
                format!("ok shown={} run={}", shown > 0, run)
            }
            Err(e) => format!("error {}", e.to_string().len() > 0),
        };
        drop(r);
        println!("{}", json!({"class": class, "bytes": bytes.len(), "peak": peak}));
    };
    if on_thread { std::thread::spawn(work).join().unwrap(); } else { work(); }
}
