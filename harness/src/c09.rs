//! C09: the commitment root depends only on committed structure.
use crate::prog::*;
use crate::sym::*;
use crate::util::*;
use serde_json::{json, Value as J};
use simplicity::dag::{DagLike, InternalSharing};
use simplicity::node::{CoreConstructible, DisconnectConstructible, Hiding, WitnessConstructible};
use simplicity::types;
use simplicity::{Cmr, HasCmr, Value};
use std::collections::HashMap;

fn jet_root(name: &str) -> [u8; 32] {
    Cmr::jet(&core_jet(name)).to_byte_array()
}

/// Generic construction of a spec DAG in any node type implementing the constructor traits.
/// `wrap` lets the caller post-process every node (used for hiding).
fn build_generic<'b, N>(
    ctx: &types::Context<'b>,
    dag: &J,
    post: &dyn Fn(usize, N) -> N,
    disc: &dyn Fn(&N, Option<&N>) -> Result<N, types::Error>,
) -> Result<Vec<N>, String>
where
    N: CoreConstructible<'b> + WitnessConstructible<'b, Option<Value>> + Clone,
{
    let mut v: Vec<N> = vec![];
    for (k, nd) in dag.as_array().unwrap().iter().enumerate() {
        let (l, r) = (ju(&nd[1]), ju(&nd[2]));
        let x = &nd[3];
        let e = |e: types::Error| format!("node {}: {}", k + 1, e);
        let n = match nd[0].as_str().unwrap() {
            "iden" => N::iden(ctx),
            "unit" => N::unit(ctx),
            "witness" => N::witness(ctx, None),
            "injl" => N::injl(&v[l - 1]),
            "injr" => N::injr(&v[l - 1]),
            "take" => N::take(&v[l - 1]),
            "drop" => N::drop_(&v[l - 1]),
            "comp" => N::comp(&v[l - 1], &v[r - 1]).map_err(e)?,
            "case" => N::case(&v[l - 1], &v[r - 1]).map_err(e)?,
            "pair" => N::pair(&v[l - 1], &v[r - 1]).map_err(e)?,
            "assertl" => N::assertl(&v[l - 1], cmr_of(x, 1)).map_err(e)?,
            "assertr" => N::assertr(cmr_of(x, 2), &v[l - 1]).map_err(e)?,
            "disc" => disc(&v[l - 1], Some(&v[r - 1])).map_err(e)?,
            "disc1" => disc(&v[l - 1], None).map_err(e)?,
            "fail" => N::fail(ctx, entropy_of(x)),
            "word" => N::const_word(ctx, word_from_bits(&jbits(&nd[4]))),
            "leaf" => N::jet(ctx, &core_jet(nd[6].as_str().unwrap())),
            other => panic!("op {}", other),
        };
        v.push(post(k + 1, n));
    }
    Ok(v)
}

/// spec -> impl: per node, the concretised symbolic CMR = the crate's CMR on every node kind and conversion path
pub fn replay(path: &str) {
    let mut out = Out::stdout();
    for (k, c) in read_ndjson(path).iter().enumerate() {
        let got = guarded(|| {
            let dag = &c["dag"];
            let n = dag.as_array().unwrap().len();
            // 1. from scratch: the interpreter over the spec's terms
            let mut sym = Sym { refs: HashMap::new(), jet_root: &jet_root };
            sym.refs.insert("cmr".into(), vec![]);
            for i in 0..n {
                let b = sym.eval(&c["cmr"][i]);
                sym.refs.get_mut("cmr").unwrap().push(b);
            }
            let scratch: Vec<String> = sym.refs["cmr"].iter().map(|b| hex32(b)).collect();
            types::Context::with_context(|ctx| {
                let mut rec = json!({"scratch": scratch});
                // 2. construction-time nodes, with and without witness data
                let cons = match build_generic::<CN>(&ctx, dag, &|_, x| x, &|l, r| CN::disconnect(l, &r.cloned())) { Ok(v) => v, Err(e) => return json!({"build_err": e}) };
                rec["construct"] = json!(cons.iter().map(|x| x.cmr().to_string()).collect::<Vec<_>>());
                // 4. the hiding wrapper with the spec's hide set
                let hide: Vec<bool> = c["hide"].as_array().unwrap().iter().map(|b| b.as_bool().unwrap()).collect();
                // (a disconnected branch is given to the wrapper as a plain node; if it was hidden there is none)
                let hid = build_generic::<Hiding<CN>>(&ctx, dag, &|i, x| if hide[i - 1] { x.hide() } else { x },
                    &|l, r| Hiding::<CN>::disconnect(l, &r.and_then(|x| x.as_node().cloned())));
                rec["hiding_root"] = match hid { Ok(v) => json!({"cmr": v[n - 1].cmr().to_string(), "is_node": v[n - 1].as_node().is_some()}), Err(e) => json!({"err": e}) };
                // 5. conversions: commit, redeem (two witness assignments), back again
                let root = cons[n - 1].clone();
                if let Ok(commit) = root.finalize_types_non_program() {
                    rec["commit"] = json!((&*commit).post_order_iter::<InternalSharing>().map(|it| it.node.cmr().to_string()).collect::<Vec<_>>());
                    rec["commit_root"] = json!(commit.cmr().to_string());
                    if let Ok(back) = commit.unfinalize_types(&ctx) { rec["unfinalize_types_root"] = json!(back.cmr().to_string()); }
                }
                // 6. the human-readable route: the same nodes written as named definitions, parsed (Node::from_parts),
                //    where the text can express them (no filled disconnect; the root is called `root`, not `main`, so
                //    that it may have any arrow)
                {
                    let user: Vec<J> = (1..=n).map(|i| if i == n { json!("root") } else { json!(format!("n{}", i)) }).collect();
                    let parsed = guarded(|| simplicity::human_encoding::Forest::parse::<simplicity::jet::Core>(&crate::c17::text_of(dag, &json!(user))));
                    if let Ok(Ok(f)) = parsed {
                        if let Some(r) = f.roots().get("root") {
                            rec["human_root"] = json!(r.cmr().to_string());
                            rec["human_commit_root"] = json!(r.to_commit_node().cmr().to_string());
                        }
                    }
                }
                if let Ok(redeem) = root.finalize_unpruned() {
                    rec["redeem_root"] = json!(redeem.cmr().to_string());
                    if let Ok(cm) = redeem.unfinalize() { rec["unfinalize_root"] = json!(cm.cmr().to_string()); }
                    rec["to_construct_root"] = json!(redeem.to_construct_node(&ctx).cmr().to_string());
                }
                rec
            })
        })
        .unwrap_or_else(|p| json!({"panic": p}));
        out.emit(&json!({"k": k, "got": got}));
    }
}


// ---------------------------------------------------------------- impl -> spec
use crate::c05::build_typed;
use crate::codec::describe_prog;
use crate::gen::*;
use crate::tyval::*;

fn node_roots(p: &simplicity::RedeemNode) -> J {
    json!((p).post_order_iter::<InternalSharing>().map(|it| json!({
        "cmr": it.node.cmr().to_string(), "ihr": it.node.ihr().to_string(), "amr": it.node.amr().to_string()})).collect::<Vec<_>>())
}

pub fn record(runs: usize, path: &str) {
    let mut rng = Rng::from_env(9);
    let mut out = Out::file(path);
    let jets: Vec<JetSig> = jet_sigs_core().into_iter().filter(|j| j.src.size() <= 300 && j.tgt.size() <= 300).collect();
    let mut done = 0;
    let mut attempts = 0;
    while done < runs && attempts < runs * 40 {
        attempts += 1;
        let budget = rng.range(3, 40);
        let dag = {
            let mut g = Gen::new(&mut rng, &jets, budget);
            g.allow_fail = attempts % 4 == 0;
            let root = g.expr(&Ty::Unit, &Ty::Unit, 7);
            g.finish(root)
        };
        let n = dag.as_array().unwrap().len();
        let mut ty = vec![J::Null; n];
        ty[n - 1] = json!([["1"], ["1"]]);
        let aux0 = json!(vec![json!(["none"]); n]);
        let learned: Option<Vec<J>> = guarded(|| {
            types::Context::with_context(|ctx| {
                let (_, _, built) = build_typed(&ctx, Family::Core, &dag, &json!(ty), &aux0).ok()?;
                Some(built.iter().map(|b| { let a = b.arrow().finalize().unwrap(); json!([ty_j(&a.source), ty_j(&a.target)]) }).collect())
            })
        }).ok().flatten();
        let Some(full_ty) = learned else { continue };
        let mut wa = vec![json!(["u"]); n];
        let mut wb = vec![json!(["u"]); n];
        for (i, nd) in dag.as_array().unwrap().iter().enumerate() {
            if nd[0] == "witness" {
                let t = Ty::from_final(&ty_of(&full_ty[i][1]));
                wa[i] = t.rand_val(&mut rng);
                wb[i] = t.rand_val(&mut rng);
            }
        }
        let do_prune = rng.chance(1, 3);
        let ev = guarded(|| {
            types::Context::with_context(|ctx| {
                let (mut a, _, built) = match build_typed(&ctx, Family::Core, &dag, &json!(full_ty), &json!(wa)) { Ok(x) => x, Err(_) => return J::Null };
                let (b, _, _) = match build_typed(&ctx, Family::Core, &dag, &json!(full_ty), &json!(wb)) { Ok(x) => x, Err(_) => return J::Null };
                let root = built.last().unwrap().clone();
                let construct_root = root.cmr().to_string();
                let mut conv = json!({"construct": construct_root, "redeem_a": a.cmr().to_string(), "redeem_b": b.cmr().to_string()});
                if let Ok(cm) = root.finalize_types() {
                    conv["commit"] = json!(cm.cmr().to_string());
                    if let Ok(back) = cm.unfinalize_types(&ctx) { conv["commit_unfinalize_types"] = json!(back.cmr().to_string()); }
                }
                if let Ok(cm) = a.unfinalize() { conv["redeem_unfinalize"] = json!(cm.cmr().to_string()); }
                conv["redeem_to_construct"] = json!(a.to_construct_node(&ctx).cmr().to_string());
                if do_prune {
                    if let Ok(p) = a.prune(&simplicity::jet::CoreEnv::new()) { conv["pruned"] = json!(p.cmr().to_string()); a = p; }
                }
                // same structure, other witness data: every node keeps its commitment root
                let same_with_other_witness = !do_prune && node_roots(&a).as_array().unwrap().iter().zip(node_roots(&b).as_array().unwrap())
                    .all(|(x, y)| x["cmr"] == y["cmr"]);
                let (sdag, sty, swit) = describe_prog(&a);
                if sdag.as_array().unwrap().len() > 60 { return J::Null; }
                let all_equal = conv.as_object().unwrap().values().all(|v| v == &conv["construct"]);
                // roots as class ids (first occurrence) for the partition clauses; bytes stay for the interpreter
                let roots = node_roots(&a);
                let mut ids: HashMap<String, usize> = HashMap::new();
                let classes: Vec<usize> = roots.as_array().unwrap().iter().map(|r| { let k = ids.len() + 1; *ids.entry(r["cmr"].as_str().unwrap().to_string()).or_insert(k) }).collect();
                json!({"ev": "roots", "dag": sdag, "ty": sty, "wit": swit, "roots": roots, "cmr_class": classes,
                       "conversions": conv, "conversions_equal": all_equal, "pruned": do_prune,
                       "same_with_other_witness": same_with_other_witness || do_prune})
            })
        });
        match ev {
            Ok(J::Null) => {}
            Ok(mut e) => { e["run"] = json!(done + 1); out.emit(&e); done += 1; }
            Err(p) => { out.emit(&json!({"ev": "roots", "run": done + 1, "panic": p, "dag": [], "ty": [], "wit": [], "roots": [], "cmr_class": [], "conversions_equal": false, "same_with_other_witness": false})); done += 1; }
        }
    }
}

/// phase 2 of the recorded direction: concretise the terms TLC derived from the logged programs
pub fn concretise(terms_path: &str, trace_path: &str) {
    let mut out = Out::stdout();
    let trace: HashMap<u64, J> = read_ndjson(trace_path).into_iter().map(|e| (e["run"].as_u64().unwrap(), e)).collect();
    for t in read_ndjson(terms_path) {
        let run = t["run"].as_u64().unwrap();
        let ev = &trace[&run];
        let n = t["cmr"].as_array().unwrap().len();
        let res = guarded(|| {
            let mut sym = Sym { refs: HashMap::new(), jet_root: &jet_root };
            for k in ["cmr", "imr", "amr"] { sym.refs.insert(k.into(), vec![]); }
            let mut bad = vec![];
            for i in 0..n {
                let c = sym.eval(&t["cmr"][i]); sym.refs.get_mut("cmr").unwrap().push(c);
                let im = sym.eval(&t["imr"][i]); sym.refs.get_mut("imr").unwrap().push(im);
                let am = sym.eval(&t["amr"][i]); sym.refs.get_mut("amr").unwrap().push(am);
                let ih = sym.eval(&t["ihr"][i]);
                let r = &ev["roots"][i];
                if hex32(&c) != r["cmr"] { bad.push(format!("cmr of node {}", i + 1)); }
                if hex32(&ih) != r["ihr"] { bad.push(format!("ihr of node {}", i + 1)); }
                if hex32(&am) != r["amr"] { bad.push(format!("amr of node {}", i + 1)); }
            }
            bad
        });
        match res {
            Ok(bad) if bad.is_empty() => out.emit(&json!({"run": run, "ok": true})),
            Ok(bad) => out.emit(&json!({"run": run, "ok": false, "what": format!("hashing the spec's tagged tree from scratch disagrees with the crate on: {}", bad[..bad.len().min(4)].join(", ")), "dag": ev["dag"]})),
            Err(p) => out.emit(&json!({"run": run, "ok": false, "what": format!("interpreter failed: {}", p)})),
        }
    }
}
