//! C12: every route that attaches witness data and finalises.
use crate::c05::err_class;
use crate::prog::*;
use crate::tyval::*;
use crate::util::*;
use serde_json::{json, Value as J};
use simplicity::dag::{DagLike, InternalSharing};
use simplicity::human_encoding::Forest;
use simplicity::jet::{Core, CoreEnv};
use simplicity::node::{Inner, RedeemNode};
use simplicity::types;
use simplicity::{BitIter, BitMachine, Value};
use std::collections::HashMap;
use std::sync::Arc;

/// human-readable text of a spec DAG: one named definition per node
pub fn human_text(dag: &J) -> String {
    let nodes = dag.as_array().unwrap();
    let name = |i: usize| if i == nodes.len() { "main".to_string() } else { format!("n{}", i) };
    let mut s = String::new();
    for (k, nd) in nodes.iter().enumerate() {
        let i = k + 1;
        let (l, r) = (ju(&nd[1]), ju(&nd[2]));
        let body = match nd[0].as_str().unwrap() {
            "witness" => "witness".to_string(),
            "jetV" => "jet_verify".to_string(),
            "jetA" => "jet_and_1".to_string(),
            "jetL" => "jet_low_1".to_string(),
            op @ ("iden" | "unit") => op.to_string(),
            op @ ("injl" | "injr" | "take" | "drop") => format!("{} {}", op, name(l)),
            op @ ("comp" | "case" | "pair") => format!("{} {} {}", op, name(l), name(r)),
            other => panic!("no text for {}", other),
        };
        s.push_str(&format!("{} := {}\n", name(i), body));
    }
    s
}

/// what the property says about a produced program
fn inspect(p: &Arc<RedeemNode>) -> J {
    let mut wits = vec![];
    let mut all_typed = true;
    for it in (&**p).post_order_iter::<InternalSharing>() {
        if let Inner::Witness(v) = it.node.inner() {
            let ok = v.is_of_type(&it.node.arrow().target);
            all_typed &= ok;
            wits.push(json!({"ty": ty_j(v.ty()), "target": ty_j(&it.node.arrow().target), "ok": ok}));
        }
    }
    let enc = guarded(|| p.to_vec_with_witness());
    let redecode = match &enc {
        Err(pn) => format!("panic: {}", pn),
        Ok((prog, wit)) => match guarded(|| RedeemNode::decode::<_, _, Core>(BitIter::from(&prog[..]), BitIter::from(&wit[..]))) {
            Err(pn) => format!("panic: {}", pn),
            Ok(Err(e)) => format!("err: {}", e),
            Ok(Ok(d)) => if d.cmr() == p.cmr() && d.ihr() == p.ihr() { "ok".into() } else { "differs".into() },
        },
    };
    let env = CoreEnv::new();
    let exec = match BitMachine::for_program(p) {
        Err(e) => format!("limit: {}", e),
        Ok(mut mac) => match guarded(|| mac.exec(p, &env)) {
            Err(pn) => format!("panic: {}", pn),
            Ok(Ok(_)) => "ok".into(),
            Ok(Err(e)) => err_class(&e).to_string(),
        },
    };
    let prune = match guarded(|| p.prune(&env)) {
        Err(pn) => format!("panic: {}", pn),
        Ok(Ok(_)) => "ok".into(),
        Ok(Err(e)) => err_class(&e).to_string(),
    };
    json!({"witnesses": wits, "all_typed": all_typed, "redecode": redecode, "exec": exec, "prune": prune, "principal": crate::c08::principal_of(p)})
}

pub fn replay(path: &str) {
    let mut out = Out::stdout();
    let env = CoreEnv::new();
    for (k, c) in read_ndjson(path).iter().enumerate() {
        let route = c["route"].as_str().unwrap().to_string();
        let dag = &c["dag"];
        let nodes = dag.as_array().unwrap();
        let cand = c["cand"].as_array().unwrap();
        let value_of = |i: usize| -> Value { val_of(&cand[i][1], &ty_of(&cand[i][0])) };
        let got = guarded(|| {
            types::Context::with_context(|ctx| {
                let result = match route.as_str() {
                    "construct_unpruned" | "construct_pruned" => {
                        let mut built: Vec<CN> = vec![];
                        for (i, nd) in nodes.iter().enumerate() {
                            // (a candidate ["none"] leaves the witness node unpopulated: finalisation fills it with the zero value of its type)
                            let nd2 = if nd[0] == "witness" && cand[i][0] != "none" { json!(["witness", 0, 0, [cand[i][0], cand[i][1]]]) } else if nd[0] == "witness" { json!(["witness", 0, 0]) } else { nd.clone() };
                            let get = |k: usize| built[k - 1].clone();
                            match build_node(&ctx, Family::Core, &nd2, &get) {
                                Ok(n) => built.push(n),
                                Err(e) => return json!({"outcome": "error", "msg": format!("construct: {}", e)}),
                            }
                        }
                        let root = built.last().unwrap().clone();
                        if let Err(e) = root.set_arrow_to_program() {
                            return json!({"outcome": "error", "msg": format!("program arrow: {}", e)});
                        }
                        if route == "construct_unpruned" { root.finalize_unpruned() } else { root.finalize_pruned(&env) }
                    }
                    "human_unpruned" | "human_pruned" => {
                        let text = human_text(dag);
                        let forest = match Forest::parse::<Core>(&text) {
                            Ok(f) => f,
                            Err(e) => return json!({"outcome": "harness", "msg": format!("parse: {}", e)}),
                        };
                        let mut map: HashMap<Arc<str>, Value> = HashMap::new();
                        for (i, nd) in nodes.iter().enumerate() {
                            if nd[0] == "witness" {
                                let name = if i + 1 == nodes.len() { "main".to_string() } else { format!("n{}", i + 1) };
                                map.insert(Arc::from(name.as_str()), value_of(i));
                            }
                        }
                        let node = forest.to_witness_node(&ctx, &map).expect("main");
                        if let Err(e) = node.set_arrow_to_program() {
                            return json!({"outcome": "error", "msg": format!("program arrow: {}", e)});
                        }
                        if route == "human_unpruned" { node.finalize_unpruned() } else { node.finalize_pruned(&env) }
                    }
                    "decode" => {
                        // the program's own encoding, with the candidates' compact bits offered as witness stream
                        let mut built: Vec<CN> = vec![];
                        for nd in nodes.iter() {
                            let nd2 = if nd[0] == "witness" { json!(["witness", 0, 0]) } else { nd.clone() };
                            let get = |k: usize| built[k - 1].clone();
                            built.push(build_node(&ctx, Family::Core, &nd2, &get).unwrap());
                        }
                        let commit = built.last().unwrap().finalize_types().unwrap();
                        let prog = commit.to_vec_without_witness();
                        let mut bits: Vec<bool> = vec![];
                        for (i, nd) in nodes.iter().enumerate() {
                            if nd[0] == "witness" { bits.extend(value_of(i).iter_compact()); }
                        }
                        let wit = bytes_from_bits(&bits);
                        return match RedeemNode::decode::<_, _, Core>(BitIter::from(&prog[..]), BitIter::from(&wit[..])) {
                            Ok(p) => json!({"outcome": "program", "inspect": inspect(&p)}),
                            Err(e) => json!({"outcome": "error", "msg": e.to_string()}),
                        };
                    }
                    other => panic!("route {}", other),
                };
                match result {
                    Ok(p) => json!({"outcome": "program", "inspect": inspect(&p)}),
                    Err(e) => json!({"outcome": "error", "msg": e.to_string()}),
                }
            })
        })
        .unwrap_or_else(|pn| json!({"outcome": "panic", "msg": pn}));
        out.emit(&json!({"k": k, "got": got}));
    }
}
