//! C16: policies compile, satisfy and canonicalise consistently.
use crate::env::Env;
use crate::util::*;
use serde_json::{json, Value as J};
use simplicity::elements::bitcoin::key::{Keypair, XOnlyPublicKey};
use simplicity::elements::secp256k1_zkp as secp;
use simplicity::elements::{self, LockTime, Sequence};
use simplicity::elements::bitcoin::hashes::{sha256, Hash};
use simplicity::types;
use simplicity::{BitMachine, FailEntropy, Policy, Preimage32, Satisfier};
use std::collections::HashMap;
use std::sync::Arc;

type Pol = Policy<XOnlyPublicKey>;

fn keypair(k: u64) -> Keypair {
    let ctx = secp::Secp256k1::new();
    let mut sk = [0x11u8; 32];
    sk[31] = k as u8;
    sk[0] = 0x01 + k as u8;
    Keypair::from_seckey_slice(&ctx, &sk).unwrap()
}
fn preimage(h: u64) -> Preimage32 {
    [h as u8 + 7; 32]
}

pub fn policy_of(p: &J) -> Pol {
    match p[0].as_str().unwrap() {
        "unsat" => Policy::Unsatisfiable(FailEntropy::ZERO),
        "trivial" => Policy::Trivial,
        "key" => Policy::Key(keypair(p[1].as_u64().unwrap()).x_only_public_key().0),
        "sha" => Policy::Sha256(sha256::Hash::hash(&preimage(p[1].as_u64().unwrap()))),
        "after" => Policy::After(p[1].as_u64().unwrap() as u32),
        "older" => Policy::Older(p[1].as_u64().unwrap() as u16),
        "and" => Policy::And { left: Arc::new(policy_of(&p[1])), right: Arc::new(policy_of(&p[2])) },
        "or" => Policy::Or { left: Arc::new(policy_of(&p[1])), right: Arc::new(policy_of(&p[2])) },
        "thresh" => Policy::Threshold(p[1].as_u64().unwrap() as usize, p[2].as_array().unwrap().iter().map(policy_of).collect()),
        x => panic!("policy tag {}", x),
    }
}

struct Sat<'a, 'b> {
    ctx: types::Context<'b>,
    sigs: HashMap<XOnlyPublicKey, elements::SchnorrSig>,
    pres: HashMap<sha256::Hash, Preimage32>,
    env: &'a Env,
}
impl<'b> Satisfier<'b, XOnlyPublicKey> for Sat<'_, 'b> {
    fn inference_context(&self) -> &types::Context<'b> { &self.ctx }
    fn lookup_signature(&self, pk: &XOnlyPublicKey) -> Option<elements::SchnorrSig> { self.sigs.get(pk).copied() }
    fn lookup_sha256(&self, h: &sha256::Hash) -> Option<Preimage32> { self.pres.get(h).copied() }
    // lock-time answers that are true of the environment, by the crate's own reference satisfiers
    fn check_older(&self, s: Sequence) -> bool {
        let own = self.env.tx().input[self.env.ix() as usize].sequence;
        Satisfier::<XOnlyPublicKey>::check_older(&(&self.ctx, own), s)
    }
    fn check_after(&self, l: LockTime) -> bool {
        Satisfier::<XOnlyPublicKey>::check_after(&(&self.ctx, self.env.tx().lock_time), l)
    }
}

pub fn replay(path: &str) {
    let mut out = Out::stdout();
    for (k, c) in read_ndjson(path).iter().enumerate() {
        out.emit(&json!({"k": k, "got": one(c)}));
    }
}

/// everything C16 looks at for one case (also used as a thread workload by C20)
pub fn one(c: &J) -> J {
    let secp_ctx = secp::Secp256k1::new();
    {
        let got = guarded(|| {
            let pol = policy_of(&c["pol"]);
            let height = c["height"].as_u64().unwrap() as u32;
            let seq = c["seq"].as_u64().unwrap() as u16;
            // lock height H (effective because the input is not final) and relative distance S in blocks
            let env = crate::env::dummy_with(LockTime::from_height(height).unwrap(), Sequence::from_height(seq));
            let mut rec = json!({});
            // 1. commitment roots
            let direct = pol.cmr();
            let commit = pol.commit();
            rec["cmr_direct"] = json!(direct.to_string());
            rec["cmr_commit"] = json!(commit.cmr().to_string());
            // 2. satisfaction with exactly the spec's available signatures / preimages
            let sighash = env.c_tx_env().sighash_all();
            let msg = secp::Message::from_digest(sighash.to_byte_array());
            let mut sigs = HashMap::new();
            for (i, on) in c["sigs"].as_array().unwrap().iter().enumerate() {
                if on.as_bool().unwrap() {
                    let kp = keypair(i as u64 + 1);
                    sigs.insert(kp.x_only_public_key().0, elements::SchnorrSig { sig: secp_ctx.sign_schnorr_no_aux_rand(&msg, &kp), hash_ty: elements::SchnorrSighashType::All });
                }
            }
            let mut pres = HashMap::new();
            for (i, on) in c["pres"].as_array().unwrap().iter().enumerate() {
                if on.as_bool().unwrap() { let p = preimage(i as u64 + 1); pres.insert(sha256::Hash::hash(&p), p); }
            }
            let sat = types::Context::with_context(|ctx| {
                let s = Sat { ctx, sigs: sigs.clone(), pres: pres.clone(), env: &env };
                guarded(|| pol.satisfy(&s, &env))
            });
            rec["satisfy"] = match sat {
                Err(p) => json!({"res": "panic", "msg": p}),
                Ok(Err(e)) => json!({"res": format!("{:?}", e).split('(').next().unwrap().to_lowercase()}),
                Ok(Ok(prog)) => {
                    let exec = match BitMachine::for_program(&prog) {
                        Err(e) => format!("limit: {}", e),
                        Ok(mut mac) => match guarded(|| mac.exec(&prog, &env)) { Err(p) => format!("panic: {}", p), Ok(Ok(_)) => "ok".into(), Ok(Err(e)) => format!("fail: {}", e) },
                    };
                    json!({"res": "ok", "cmr": prog.cmr().to_string(), "exec": exec})
                }
            };
            // 3. canonical sorting, Rust against Rust
            let perm = policy_of(&c["perm"]);
            let s1 = pol.clone().sorted();
            rec["sort_idempotent"] = json!(s1.clone().sorted() == s1);
            rec["sort_perm_equal"] = json!(perm.clone().sorted() == s1);
            rec["sorted"] = json!(format!("{}", s1));
            rec["perm_sorted"] = json!(format!("{}", perm.sorted()));
            rec
        })
        .unwrap_or_else(|p| json!({"panic": p}));
        got
    }
}

// ---------------------------------------------------------------- impl -> spec: canonical sorting
fn pol_j(p: &Pol, keys: &HashMap<XOnlyPublicKey, u64>, shas: &HashMap<sha256::Hash, u64>) -> J {
    match p {
        Policy::Unsatisfiable(_) => json!(["unsat"]),
        Policy::Trivial => json!(["trivial"]),
        Policy::Key(k) => json!(["key", keys[k]]),
        Policy::Sha256(h) => json!(["sha", shas[h]]),
        Policy::After(n) => json!(["after", n]),
        Policy::Older(n) => json!(["older", n]),
        Policy::And { left, right } => json!(["and", pol_j(left, keys, shas), pol_j(right, keys, shas)]),
        Policy::Or { left, right } => json!(["or", pol_j(left, keys, shas), pol_j(right, keys, shas)]),
        Policy::Threshold(k, subs) => json!(["thresh", k, subs.iter().map(|s| pol_j(s, keys, shas)).collect::<Vec<_>>()]),
        _ => json!(["other"]),
    }
}
fn rand_pol(rng: &mut Rng, depth: usize) -> J {
    if depth == 0 || rng.chance(1, 4) {
        return match rng.below(7) {
            0 => json!(["trivial"]),
            1 => json!(["key", 1 + rng.below(4)]),
            2 => json!(["sha", 1 + rng.below(3)]),
            3 | 4 => json!(["after", 1 + rng.below(9)]),
            5 => json!(["older", 1 + rng.below(9)]),
            _ => json!(["unsat"]),
        };
    }
    match rng.below(4) {
        0 => json!(["and", rand_pol(rng, depth - 1), rand_pol(rng, depth - 1)]),
        1 => json!(["or", rand_pol(rng, depth - 1), rand_pol(rng, depth - 1)]),
        _ => {
            let n = rng.range(2, 5);
            let subs: Vec<J> = (0..n).map(|_| rand_pol(rng, depth - 1)).collect();
            json!(["thresh", 1 + rng.below(n), subs])
        }
    }
}
/// the same policy with the children of every commutative node reordered at random
fn shuffle_pol(rng: &mut Rng, p: &J) -> J {
    match p[0].as_str().unwrap() {
        "and" | "or" => {
            let (a, b) = (shuffle_pol(rng, &p[1]), shuffle_pol(rng, &p[2]));
            if rng.bool() { json!([p[0], b, a]) } else { json!([p[0], a, b]) }
        }
        "thresh" => {
            let mut subs: Vec<J> = p[2].as_array().unwrap().iter().map(|s| shuffle_pol(rng, s)).collect();
            for i in (1..subs.len()).rev() { let j = rng.below(i + 1); subs.swap(i, j); }
            json!(["thresh", p[1], subs])
        }
        _ => p.clone(),
    }
}
/// random nested policies (thresholds of compound children included): the crate's `sorted()` of the policy and of a
/// reordering of it, for Trace_Policy.tla
pub fn record_sort(runs: usize, path: &str) {
    let mut rng = Rng::from_env(16);
    let mut out = Out::file(path);
    let keys: HashMap<XOnlyPublicKey, u64> = (1..=4).map(|k| (keypair(k).x_only_public_key().0, k)).collect();
    let shas: HashMap<sha256::Hash, u64> = (1..=3).map(|h| (sha256::Hash::hash(&preimage(h)), h)).collect();
    for _ in 0..runs {
        let pj = rand_pol(&mut rng, 3);
        let qj = shuffle_pol(&mut rng, &pj);
        let ev = guarded(|| {
            let (p, q) = (policy_of(&pj), policy_of(&qj));
            let s = p.clone().sorted();
            let s2 = s.clone().sorted();
            let t = q.sorted();
            json!({"ev": "sort", "pol": pj, "perm": qj, "sorted": pol_j(&s, &keys, &shas), "perm_sorted": pol_j(&t, &keys, &shas),
                   "idempotent": s2 == s, "perm_equal": t == s})
        }).unwrap_or_else(|p| json!({"ev": "sort", "pol": pj, "perm": qj, "panic": p}));
        out.emit(&ev);
    }
}
