//! Small shared utilities: deterministic PRNG, NDJSON I/O, panic capture.
use serde_json::Value as J;
use std::io::{BufRead, Write};

pub struct Rng(pub u64);
impl Rng {
    pub fn new(seed: u64) -> Self {
        Rng(seed.wrapping_mul(0x9E3779B97F4A7C15) ^ 0xD1B54A32D192ED03)
    }
    pub fn from_env(salt: u64) -> Self {
        let s: u64 = std::env::var("VERIF_SEED").ok().and_then(|s| s.parse().ok()).unwrap_or(1);
        Rng::new(s.wrapping_mul(1000003).wrapping_add(salt))
    }
    pub fn next_u64(&mut self) -> u64 {
        // splitmix64
        self.0 = self.0.wrapping_add(0x9E3779B97F4A7C15);
        let mut z = self.0;
        z = (z ^ (z >> 30)).wrapping_mul(0xBF58476D1CE4E5B9);
        z = (z ^ (z >> 27)).wrapping_mul(0x94D049BB133111EB);
        z ^ (z >> 31)
    }
    pub fn below(&mut self, n: usize) -> usize {
        if n == 0 { 0 } else { (self.next_u64() % n as u64) as usize }
    }
    pub fn range(&mut self, lo: usize, hi: usize) -> usize {
        lo + self.below(hi - lo + 1)
    }
    pub fn bool(&mut self) -> bool {
        self.next_u64() & 1 == 1
    }
    pub fn chance(&mut self, num: usize, den: usize) -> bool {
        self.below(den) < num
    }
    pub fn pick<'a, T>(&mut self, xs: &'a [T]) -> &'a T {
        &xs[self.below(xs.len())]
    }
}

pub fn read_ndjson(path: &str) -> Vec<J> {
    let f = std::fs::File::open(path).unwrap_or_else(|e| panic!("open {}: {}", path, e));
    std::io::BufReader::new(f)
        .lines()
        .map(|l| l.unwrap())
        .filter(|l| !l.trim().is_empty())
        .map(|l| serde_json::from_str(&l).unwrap_or_else(|e| panic!("bad json line {}: {}", l, e)))
        .collect()
}

pub struct Out {
    w: std::io::BufWriter<Box<dyn Write>>,
    pub n: usize,
}
impl Out {
    pub fn stdout() -> Self {
        Out { w: std::io::BufWriter::new(Box::new(std::io::stdout())), n: 0 }
    }
    pub fn file(path: &str) -> Self {
        Out { w: std::io::BufWriter::new(Box::new(std::fs::File::create(path).unwrap())), n: 0 }
    }
    pub fn emit(&mut self, v: &J) {
        serde_json::to_writer(&mut self.w, v).unwrap();
        self.w.write_all(b"\n").unwrap();
        self.n += 1;
    }
    pub fn flush(&mut self) {
        self.w.flush().unwrap();
    }
}
impl Drop for Out {
    fn drop(&mut self) {
        let _ = self.w.flush();
    }
}

/// Run `f`, turning a panic of the code under test into data.
pub fn guarded<T, F: FnOnce() -> T>(f: F) -> Result<T, String> {
    let r = std::panic::catch_unwind(std::panic::AssertUnwindSafe(f));
    r.map_err(|e| {
        if let Some(s) = e.downcast_ref::<&str>() {
            s.to_string()
        } else if let Some(s) = e.downcast_ref::<String>() {
            s.clone()
        } else {
            "panic".to_string()
        }
    })
}

pub fn quiet_panics() {
    if std::env::var("VH_PANIC").is_ok() {
        return;
    }
    std::panic::set_hook(Box::new(|_| {}));
}

pub fn ju(v: &J) -> usize {
    v.as_u64().unwrap_or_else(|| panic!("expected uint, got {}", v)) as usize
}
pub fn jbits(v: &J) -> Vec<bool> {
    v.as_array().unwrap().iter().map(|b| b.as_u64().unwrap() == 1).collect()
}
pub fn bits_j(bits: impl IntoIterator<Item = bool>) -> J {
    J::Array(bits.into_iter().map(|b| J::from(b as u8)).collect())
}
