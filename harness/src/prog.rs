//! Building real ConstructNodes from the spec's DAG descriptions.
//! A node is [op, l, r] or [op, l, r, extra]; children are 1-based indices, 0 = none.
use crate::tyval::*;
use crate::util::*;
use serde_json::{json, Value as J};
use simplicity::jet::{Core, Elements};
use simplicity::node::{ConstructNode, CoreConstructible, DisconnectConstructible, WitnessConstructible};
use simplicity::types;
use simplicity::{Cmr, FailEntropy, Value, Word};
use std::sync::Arc;

pub type CN<'b> = Arc<ConstructNode<'b>>;

pub fn core_jet(name: &str) -> Core {
    *Core::ALL.iter().find(|j| j.to_string() == name).unwrap_or_else(|| panic!("no core jet {}", name))
}
pub fn elements_jet(name: &str) -> Elements {
    *Elements::ALL.iter().find(|j| j.to_string() == name).unwrap_or_else(|| panic!("no elements jet {}", name))
}
/// hidden-branch CMRs and fail entropies are opaque atoms in the spec: id k -> fixed bytes
pub fn atom_cmr(k: u64) -> Cmr {
    let mut b = [0x5au8; 32];
    b[0] = k as u8;
    b[31] = (k >> 8) as u8 ^ 0xc3;
    Cmr::from_byte_array(b)
}
pub fn atom_entropy(k: u64) -> FailEntropy {
    let mut b = [0x17u8; 64];
    b[0] = k as u8;
    b[63] = (k >> 8) as u8 ^ 0x3c;
    FailEntropy::from_byte_array(b)
}
pub fn word_from_bits(bits: &[bool]) -> Word {
    let n = bits.len().trailing_zeros();
    assert!(bits.len().is_power_of_two());
    let bytes = bytes_from_bits(bits);
    let mut it = simplicity::BitIter::from(&bytes[..]);
    let direct = Word::from_bits(&mut it, n).unwrap();
    // Provenance varies with the content: one word in four is decoded on its own; the others are the second component of a
    // product with a 1-, 2- or 4-bit leading part, taken out again with `as_product` / `to_word` -- a view into the larger
    // value's buffer at a bit offset that is no multiple of eight (what `scribe` hands to `const_word`).
    let lead = match (bits.iter().filter(|b| **b).count() + bits.len().trailing_zeros() as usize) % 4 {
        0 => return direct,
        1 => Value::u1(1),
        2 => Value::u2(2),
        _ => Value::u4(9),
    };
    let whole = Value::product(lead, direct.as_value().shallow_clone());
    let part = whole.as_ref().as_product().unwrap().1.to_word().unwrap();
    part
}
/// the bits of a word read through the value accessors only (never through `Word::iter`)
pub fn word_bits_by_accessors(v: &simplicity::ValueRef) -> Vec<bool> {
    if let Some((a, b)) = v.as_product() { let mut x = word_bits_by_accessors(&a); x.extend(word_bits_by_accessors(&b)); x }
    else if v.as_left().is_some() { vec![false] }
    else if v.as_right().is_some() { vec![true] }
    else { panic!("not a word value") }
}

/// hidden root: an atom id, or the 256 bits themselves
pub fn cmr_of(x: &J, default: u64) -> Cmr {
    if let Some(a) = x.as_array() {
        let bits: Vec<bool> = a.iter().map(|b| b.as_u64().unwrap() == 1).collect();
        let bytes = bytes_from_bits(&bits);
        let mut arr = [0u8; 32];
        arr.copy_from_slice(&bytes[..32]);
        Cmr::from_byte_array(arr)
    } else {
        atom_cmr(x.as_u64().unwrap_or(default))
    }
}
pub fn entropy_of(x: &J) -> FailEntropy {
    if let Some(a) = x.as_array() {
        let bits: Vec<bool> = a.iter().map(|b| b.as_u64().unwrap() == 1).collect();
        let bytes = bytes_from_bits(&bits);
        let mut arr = [0u8; 64];
        arr.copy_from_slice(&bytes[..64]);
        FailEntropy::from_byte_array(arr)
    } else {
        atom_entropy(x.as_u64().unwrap_or(1))
    }
}

/// Which jet family untyped "jet" ops of the spec resolve to.
#[derive(Clone, Copy, PartialEq)]
pub enum Family {
    Core,
    Elements,
}

/// Build one node. `get(i)` returns the already built child with 1-based index i.
pub fn build_node<'b>(
    ctx: &types::Context<'b>,
    fam: Family,
    nd: &J,
    get: &dyn Fn(usize) -> CN<'b>,
) -> Result<CN<'b>, types::Error> {
    let op = nd[0].as_str().unwrap();
    let l = ju(&nd[1]);
    let r = ju(&nd[2]);
    let x = &nd[3];
    let jet = |name: &str| -> CN<'b> {
        match fam {
            Family::Core => CN::jet(ctx, &core_jet(name)),
            Family::Elements => CN::jet(ctx, &elements_jet(name)),
        }
    };
    Ok(match op {
        "iden" => CN::iden(ctx),
        "unit" => CN::unit(ctx),
        "injl" => CN::injl(&get(l)),
        "injr" => CN::injr(&get(l)),
        "take" => CN::take(&get(l)),
        "drop" => CN::drop_(&get(l)),
        "comp" => CN::comp(&get(l), &get(r))?,
        "case" => CN::case(&get(l), &get(r))?,
        "pair" => CN::pair(&get(l), &get(r))?,
        "assertl" => CN::assertl(&get(l), cmr_of(x, 1))?,
        "assertr" => CN::assertr(cmr_of(x, 2), &get(l))?,
        "disc" => CN::disconnect(&get(l), &Some(get(r)))?,
        "disc1" => CN::disconnect(&get(l), &None)?,
        "witness" => {
            // extra: absent, or [type, value tree]
            let w: Option<Value> = if x.is_array() { Some(val_of(&x[1], &ty_of(&x[0]))) } else { None };
            CN::witness(ctx, w)
        }
        "fail" => CN::fail(ctx, entropy_of(x)),
        "word0" => CN::const_word(ctx, Word::u1(x.as_u64().unwrap_or(1) as u8 & 1)),
        "word1" => CN::const_word(ctx, Word::u2(x.as_u64().unwrap_or(2) as u8 & 3)),
        "word" => CN::const_word(ctx, word_from_bits(&jbits(x))),
        "jetV" => jet("verify"),
        "jetA" => jet("and_1"),
        "jetL" => jet("low_1"),
        "jet" => jet(x.as_str().unwrap()),
        other => panic!("unknown op {}", other),
    })
}

/// compressed type JSON: word types 2^(2^n), n >= 2, are ["w", n]
pub fn ty_cz(t: &types::Final) -> J {
    use simplicity::types::CompleteBound;
    if let Some(n) = t.as_word() {
        if n >= 2 {
            return json!(["w", n]);
        }
    }
    match t.bound() {
        CompleteBound::Unit => json!(["1"]),
        CompleteBound::Sum(a, b) => json!(["+", ty_cz(a), ty_cz(b)]),
        CompleteBound::Product(a, b) => json!(["*", ty_cz(a), ty_cz(b)]),
    }
}
