//! C18: DAG iteration (src/dag.rs) driven over abstract test DAGs.
use crate::util::*;
use serde_json::{json, Value as J};
use simplicity::dag::{Dag, DagLike, InternalSharing, NoSharing, SharingTracker};
use std::collections::HashMap;

pub struct TestNode {
    pub l: Option<usize>,
    pub r: Option<usize>,
    pub sid: u32, // 0 = no sharing id
}

#[derive(Clone, Copy)]
pub struct TRef<'a> {
    nodes: &'a [TestNode],
    i: usize,
}

impl<'a> DagLike for TRef<'a> {
    type Node = TestNode;
    fn data(&self) -> &TestNode {
        &self.nodes[self.i]
    }
    fn as_dag_node(&self) -> Dag<Self> {
        let n = &self.nodes[self.i];
        match (n.l, n.r) {
            (None, _) => Dag::Nullary,
            (Some(l), None) => Dag::Unary(TRef { nodes: self.nodes, i: l }),
            (Some(l), Some(r)) => Dag::Binary(TRef { nodes: self.nodes, i: l }, TRef { nodes: self.nodes, i: r }),
        }
    }
}

/// Sharing by the label stored in the node (models MaxSharing: ids may be absent).
#[derive(Default)]
pub struct LabelSharing {
    map: HashMap<u32, usize>,
}
impl<D: DagLike<Node = TestNode>> SharingTracker<D> for LabelSharing {
    fn record(&mut self, d: &D, index: usize) -> Option<usize> {
        let id = d.data().sid;
        if id == 0 {
            return None;
        }
        match self.map.get(&id) {
            Some(i) => Some(*i),
            None => {
                self.map.insert(id, index);
                None
            }
        }
    }
    fn seen_before(&self, d: &D) -> Option<usize> {
        let id = d.data().sid;
        if id == 0 {
            None
        } else {
            self.map.get(&id).copied()
        }
    }
}

fn idx_of(nodes: &[TestNode], n: &TestNode) -> usize {
    (n as *const TestNode as usize - nodes.as_ptr() as usize) / std::mem::size_of::<TestNode>() + 1
}
fn opt(i: Option<usize>) -> J {
    let i = i.map(|x| x as i64);
    json!(i.unwrap_or(-1))
}

pub fn parse_dag(dag: &J, sid: &J) -> Vec<TestNode> {
    dag.as_array()
        .unwrap()
        .iter()
        .zip(sid.as_array().unwrap())
        .map(|(d, s)| {
            let l = ju(&d[0]);
            let r = ju(&d[1]);
            TestNode {
                l: if l == 0 { None } else { Some(l - 1) },
                r: if r == 0 { None } else { Some(r - 1) },
                sid: ju(s) as u32,
            }
        })
        .collect()
}

#[derive(Clone, Copy, PartialEq)]
pub enum Mode {
    No,
    Internal,
    Label,
}

fn run_post<S: SharingTracker<TRef<'static>> + Default>(root: TRef<'static>, nodes: &'static [TestNode]) -> J {
    J::Array(
        root.post_order_iter::<S>()
            .map(|it| json!([idx_of(nodes, it.node.data()), it.index, opt(it.left_index), opt(it.right_index)]))
            .collect(),
    )
}

/// Run one algorithm of dag.rs; result is the item list in the spec's JSON shape, or "panic".
pub fn run(algo: &str, md: i64, nodes: Vec<TestNode>, mode: Mode) -> J {
    // leak: keeps lifetimes simple; cases are tiny
    let nodes: &'static [TestNode] = Box::leak(nodes.into_boxed_slice());
    let root = TRef { nodes, i: nodes.len() - 1 };
    let r = guarded(|| match algo {
        "post" => match mode {
            Mode::No => run_post::<NoSharing>(root, nodes),
            Mode::Internal => run_post::<InternalSharing>(root, nodes),
            Mode::Label => run_post::<LabelSharing>(root, nodes),
        },
        "rtl" => {
            fn f(nodes: &[TestNode], it: simplicity::dag::PostOrderIterItem<TRef>) -> J {
                json!([idx_of(nodes, it.node.data()), it.index, opt(it.left_index), opt(it.right_index)])
            }
            J::Array(match mode {
                Mode::No => root.rtl_post_order_iter::<NoSharing>().map(|it| f(nodes, it)).collect(),
                Mode::Internal => root.rtl_post_order_iter::<InternalSharing>().map(|it| f(nodes, it)).collect(),
                Mode::Label => root.rtl_post_order_iter::<LabelSharing>().map(|it| f(nodes, it)).collect(),
            })
        }
        "pre" => J::Array(match mode {
            Mode::No => root.pre_order_iter::<NoSharing>().map(|n| json!(idx_of(nodes, n.data()))).collect(),
            Mode::Internal => root.pre_order_iter::<InternalSharing>().map(|n| json!(idx_of(nodes, n.data()))).collect(),
            Mode::Label => root.pre_order_iter::<LabelSharing>().map(|n| json!(idx_of(nodes, n.data()))).collect(),
        }),
        "vpre" => {
            let m = if md < 0 { None } else { Some(md as usize) };
            fn f(nodes: &[TestNode], it: simplicity::dag::PreOrderIterItem<TRef>) -> J {
                json!([idx_of(nodes, it.node.data()), it.index, it.depth, it.n_children_yielded, it.is_complete])
            }
            J::Array(match mode {
                Mode::No => root.verbose_pre_order_iter::<NoSharing>(m).map(|it| f(nodes, it)).collect(),
                Mode::Internal => root.verbose_pre_order_iter::<InternalSharing>(m).map(|it| f(nodes, it)).collect(),
                Mode::Label => root.verbose_pre_order_iter::<LabelSharing>(m).map(|it| f(nodes, it)).collect(),
            })
        }
        "shared" => json!(match mode {
            Mode::No => root.is_shared_as::<NoSharing>(),
            Mode::Internal => root.is_shared_as::<InternalSharing>(),
            Mode::Label => root.is_shared_as::<LabelSharing>(),
        }),
        _ => panic!("unknown algo"),
    });
    match r {
        Ok(j) => j,
        Err(e) => json!({"panic": e}),
    }
}

fn mode_of(sid: &J) -> Vec<Mode> {
    let s: Vec<usize> = sid.as_array().unwrap().iter().map(ju).collect();
    let mut v = vec![Mode::Label];
    if s.iter().all(|x| *x == 0) {
        v.push(Mode::No);
    }
    if s.iter().enumerate().all(|(i, x)| *x == i + 1) {
        v.push(Mode::Internal);
    }
    v
}

/// spec -> impl: run every TLC-emitted case with every tracker implementing its labelling.
pub fn replay(path: &str) {
    let mut out = Out::stdout();
    for (k, c) in read_ndjson(path).iter().enumerate() {
        let algo = c["algo"].as_str().unwrap();
        let md = c["md"].as_i64().unwrap();
        let mut got = vec![];
        let mut got_shared = vec![];
        for m in mode_of(&c["sid"]) {
            got.push(run(algo, md, parse_dag(&c["dag"], &c["sid"]), m));
            if algo == "post" {
                got_shared.push(run("shared", -1, parse_dag(&c["dag"], &c["sid"]), m));
            }
        }
        out.emit(&json!({"k": k, "got": got, "got_shared": got_shared}));
    }
}

/// random congruent labelling as in the spec: colour + upward-closed id-less set -> structural classes
fn gen(rng: &mut Rng, n: usize) -> (J, J, Vec<usize>) {
    let mut dag: Vec<(usize, usize)> = vec![];
    for i in 0..n {
        let kind = if i == 0 { 0 } else { rng.below(4) };
        let near = |rng: &mut Rng, i: usize| -> usize {
            // bias towards recent nodes so that the DAG is deep, with occasional far links (sharing)
            if rng.chance(2, 3) { i - rng.below(i.min(3)) } else { 1 + rng.below(i) }
        };
        dag.push(match kind {
            0 => (0, 0),
            1 => (near(rng, i), 0),
            _ => (near(rng, i), near(rng, i)),
        });
    }
    // make every node reachable from the root with good probability: chain unreferenced nodes
    let mode = rng.below(4);
    let sid: Vec<usize> = match mode {
        0 => vec![0; n],
        1 => (1..=n).collect(),
        _ => {
            let ncol = 1 + rng.below(2);
            let col: Vec<usize> = (0..n).map(|_| rng.below(ncol)).collect();
            let p_idless = rng.below(4);
            let mut sid = vec![0usize; n];
            let mut idless = vec![false; n];
            for i in 0..n {
                let (l, r) = dag[i];
                idless[i] = (l != 0 && idless[l - 1]) || (r != 0 && idless[r - 1]) || rng.chance(p_idless, 12);
                if idless[i] {
                    continue;
                }
                let mut lab = i + 1;
                for j in 0..i {
                    let (lj, rj) = dag[j];
                    if !idless[j]
                        && col[j] == col[i]
                        && (lj == 0) == (l == 0)
                        && (rj == 0) == (r == 0)
                        && (l == 0 || sid[lj - 1] == sid[l - 1])
                        && (r == 0 || sid[rj - 1] == sid[r - 1])
                    {
                        lab = sid[j];
                        break;
                    }
                }
                sid[i] = lab;
            }
            sid
        }
    };
    (json!(dag.iter().map(|(l, r)| json!([l, r])).collect::<Vec<_>>()), json!(sid), vec![mode])
}

/// tree-expansion size under NoSharing semantics for id-less nodes (to avoid exponential runs)
fn expansion(dag: &J, sid: &J) -> f64 {
    let d = dag.as_array().unwrap();
    let s = sid.as_array().unwrap();
    let mut sz = vec![0f64; d.len()];
    for i in 0..d.len() {
        let l = ju(&d[i][0]);
        let r = ju(&d[i][1]);
        // upper bound: shared nodes count once per occurrence in the worst case
        let cl = if l == 0 { 0.0 } else if ju(&s[l - 1]) != 0 { 1.0 } else { sz[l - 1] };
        let cr = if r == 0 { 0.0 } else if ju(&s[r - 1]) != 0 { 1.0 } else { sz[r - 1] };
        sz[i] = 1.0 + cl + cr;
    }
    sz[d.len() - 1] + d.len() as f64
}

/// impl -> spec: drive the real iterators on random DAGs, log what they yielded.
/// The crate's own identity-hash tracker (`MaxSharing` over real nodes): committed programs from the generator,
/// objects numbered by pointer identity, labels = IHR classes (0 where a node has no IHR); post-order, its
/// right-to-left mirror, pre-order and the sharing check are logged in the same vocabulary as the test DAGs.
fn real_node_events(rng: &mut Rng, out: &mut Out, runs: usize) {
    use crate::gen::{Gen, JetSig, Ty};
    use crate::prog::{build_node, Family, CN};
    use simplicity::dag::MaxSharing;
    use simplicity::node::{Commit, CommitNode};
    use std::collections::HashMap;
    let empty: Vec<JetSig> = vec![];
    let mut done = 0;
    let mut attempts = 0;
    while done < runs && attempts < runs * 20 {
        attempts += 1;
        let dag = { let mut g = Gen::new(rng, &empty, 4 + attempts % 24); g.allow_disconnect = attempts % 4 == 0; let r = g.expr(&Ty::Unit, &Ty::Unit, 7); g.finish(r) };
        // every second program is a random DAG of `comp` nodes over `iden` / `unit` leaves: every node has type 1 -> 1,
        // so identity is structure and equal sub-expressions written as separate objects abound
        let dag = if attempts % 2 == 0 { dag } else {
            let n = 2 + rng.below(14);
            let mut nodes: Vec<J> = vec![];
            for k in 1..=n {
                if k <= 2 || (k < n && rng.chance(1, 3)) { nodes.push(json!([*rng.pick(&["iden", "unit", "iden"]), 0, 0])); }
                else { nodes.push(json!(["comp", 1 + rng.below(k - 1), 1 + rng.below(k - 1)])); }
            }
            // drop what the root does not reach
            let mut reach = vec![false; n + 1];
            reach[n] = true;
            for k in (1..=n).rev() { if reach[k] { for side in [1usize, 2] { let c = ju(&nodes[k - 1][side]); if c != 0 { reach[c] = true; } } } }
            let mut map = vec![0usize; n + 1];
            let mut outn = vec![];
            for k in 1..=n { if reach[k] { let mut nd = nodes[k - 1].clone(); nd[1] = json!(map[ju(&nd[1])]); nd[2] = json!(map[ju(&nd[2])]); outn.push(nd); map[k] = outn.len(); } }
            json!(outn)
        };
        let commit = simplicity::types::Context::with_context(|ctx| {
            let mut built: Vec<CN> = vec![];
            for nd in dag.as_array().unwrap() {
                let nd2 = if nd[0] == "witness" { json!(["witness", 0, 0]) } else { nd.clone() };
                let get = |k: usize| built[k - 1].clone();
                match build_node(&ctx, Family::Core, &nd2, &get) { Ok(n) => built.push(n), Err(_) => return None }
            }
            built.last().unwrap().finalize_types().ok()
        });
        let Some(commit) = commit else { continue };
        // objects by pointer, in the crate's pointer-sharing post-order
        let mut idx: HashMap<usize, usize> = HashMap::new();
        let mut djson = vec![];
        let mut labels = vec![];
        let mut first_of: HashMap<String, usize> = HashMap::new();
        for it in (&*commit).post_order_iter::<InternalSharing>() {
            let k = it.index + 1;
            idx.insert(it.node as *const CommitNode as usize, k);
            djson.push(json!([it.left_index.map_or(0, |x| x + 1), it.right_index.map_or(0, |x| x + 1)]));
            labels.push(match it.node.ihr() { None => 0, Some(h) => *first_of.entry(h.to_string()).or_insert(k) });
        }
        if djson.len() > 60 { continue; }
        let item = |node: &CommitNode, index: usize, l: Option<usize>, r: Option<usize>| json!([idx[&(node as *const CommitNode as usize)], index, opt(l), opt(r)]);
        let post: Vec<J> = (&*commit).post_order_iter::<MaxSharing<Commit>>().map(|it| item(it.node, it.index, it.left_index, it.right_index)).collect();
        let shared = (&*commit).is_shared_as::<MaxSharing<Commit>>();
        out.emit(&json!({"ev": "post", "md": -1, "dag": djson, "sid": labels, "items": post, "shared": shared, "real": true}));
        let rtl: Vec<J> = (&*commit).rtl_post_order_iter::<MaxSharing<Commit>>().map(|it| item(it.node, it.index, it.left_index, it.right_index)).collect();
        out.emit(&json!({"ev": "rtl", "md": -1, "dag": djson, "sid": labels, "items": rtl, "shared": false, "real": true}));
        let pre: Vec<J> = (&*commit).pre_order_iter::<MaxSharing<Commit>>().map(|n| json!(idx[&(n as *const CommitNode as usize)])).collect();
        out.emit(&json!({"ev": "pre", "md": -1, "dag": djson, "sid": labels, "items": pre, "shared": false, "real": true}));
        done += 1;
    }
}

/// The actual children of a node, read from `inner()` and never from an iterator: the left and right child *objects*.
fn kids<'a, N: simplicity::node::Marker>(n: &'a simplicity::node::Node<N>, right: fn(&'a N::Disconnect) -> Option<&'a simplicity::node::Node<N>>)
    -> (Option<&'a simplicity::node::Node<N>>, Option<&'a simplicity::node::Node<N>>) {
    use simplicity::node::Inner::*;
    match n.inner() {
        Iden | Unit | Witness(_) | Fail(_) | Jet(_) | Word(_) => (None, None),
        InjL(c) | InjR(c) | Take(c) | Drop(c) | AssertL(c, _) | AssertR(_, c) => (Some(&**c), None),
        Comp(l, r) | Case(l, r) | Pair(l, r) => (Some(&**l), Some(&**r)),
        Disconnect(l, d) => (Some(&**l), right(d)),
    }
}

/// All traversals of one real program of marker `N`, through both `DagLike` implementations (`&Node<N>` and `Arc<Node<N>>`),
/// against the DAG as `inner()` shows it: objects numbered by a hand-written children-first walk over pointers, so that
/// "the indices at which its actual left and right children were yielded" is judged against the node's own fields.
fn marker_events<N: simplicity::node::Marker>(root: &std::sync::Arc<simplicity::node::Node<N>>, right: for<'a> fn(&'a N::Disconnect) -> Option<&'a simplicity::node::Node<N>>,
    marker: &str, max_label: Option<&dyn Fn(&simplicity::node::Node<N>) -> Option<String>>, out: &mut Out) -> bool {
    use simplicity::dag::MaxSharing;
    use simplicity::node::Node;
    use std::sync::Arc;
    // hand-written post-order over pointers
    let mut idx: HashMap<usize, usize> = HashMap::new();
    let mut djson: Vec<J> = vec![];
    let mut objs: Vec<&Node<N>> = vec![];
    let mut stack: Vec<(&Node<N>, u8)> = vec![(&**root, 0)];
    while let Some((n, st)) = stack.pop() {
        let key = n as *const Node<N> as usize;
        if idx.contains_key(&key) { continue; }
        let (l, r) = kids(n, right);
        if st == 0 {
            stack.push((n, 1));
            if let Some(r) = r { stack.push((r, 0)); }
            if let Some(l) = l { stack.push((l, 0)); }
        } else {
            let li = l.map_or(0, |x| idx[&(x as *const Node<N> as usize)]);
            let ri = r.map_or(0, |x| idx[&(x as *const Node<N> as usize)]);
            djson.push(json!([li, ri]));
            objs.push(n);
            idx.insert(key, djson.len());
        }
    }
    let n = djson.len();
    if n > 40 { return false; }
    // size of the tree expansion (NoSharing yields one item per path)
    let mut exp = vec![0f64; n + 1];
    for k in 1..=n { exp[k] = 1.0 + [0usize, 1].iter().map(|s| { let c = ju(&djson[k - 1][*s]); if c == 0 { 0.0 } else { exp[c] } }).sum::<f64>(); }
    let small = exp[n] <= 400.0;
    let internal: Vec<usize> = (1..=n).collect();
    let zeros: Vec<usize> = vec![0; n];
    let maxl: Option<Vec<usize>> = max_label.map(|f| {
        let mut first: HashMap<String, usize> = HashMap::new();
        objs.iter().enumerate().map(|(i, o)| match f(o) { None => 0, Some(h) => *first.entry(h).or_insert(i + 1) }).collect()
    });
    let pid_ref = |x: &Node<N>| idx[&(x as *const Node<N> as usize)];
    let pid_arc = |x: &Arc<Node<N>>| idx[&(Arc::as_ptr(x) as usize)];
    macro_rules! emit_all {
        ($S:ty, $sid:expr, $name:expr) => {{
            let sid = $sid;
            let r: &Node<N> = &**root;
            let post: Vec<J> = r.post_order_iter::<$S>().map(|it| json!([pid_ref(it.node), it.index, opt(it.left_index), opt(it.right_index)])).collect();
            let shared = r.is_shared_as::<$S>();
            out.emit(&json!({"ev": "post", "md": -1, "dag": djson, "sid": sid, "items": post, "shared": shared, "real": true, "marker": marker, "via": "ref", "tracker": $name}));
            let rtl: Vec<J> = r.rtl_post_order_iter::<$S>().map(|it| json!([pid_ref(it.node), it.index, opt(it.left_index), opt(it.right_index)])).collect();
            out.emit(&json!({"ev": "rtl", "md": -1, "dag": djson, "sid": sid, "items": rtl, "shared": false, "real": true, "marker": marker, "via": "ref", "tracker": $name}));
            let pre: Vec<J> = r.pre_order_iter::<$S>().map(|x| json!(pid_ref(x))).collect();
            out.emit(&json!({"ev": "pre", "md": -1, "dag": djson, "sid": sid, "items": pre, "shared": false, "real": true, "marker": marker, "via": "ref", "tracker": $name}));
            let post: Vec<J> = Arc::clone(root).post_order_iter::<$S>().map(|it| json!([pid_arc(&it.node), it.index, opt(it.left_index), opt(it.right_index)])).collect();
            let shared = Arc::clone(root).is_shared_as::<$S>();
            out.emit(&json!({"ev": "post", "md": -1, "dag": djson, "sid": sid, "items": post, "shared": shared, "real": true, "marker": marker, "via": "arc", "tracker": $name}));
            let rtl: Vec<J> = Arc::clone(root).rtl_post_order_iter::<$S>().map(|it| json!([pid_arc(&it.node), it.index, opt(it.left_index), opt(it.right_index)])).collect();
            out.emit(&json!({"ev": "rtl", "md": -1, "dag": djson, "sid": sid, "items": rtl, "shared": false, "real": true, "marker": marker, "via": "arc", "tracker": $name}));
            let pre: Vec<J> = Arc::clone(root).pre_order_iter::<$S>().map(|x| json!(pid_arc(&x))).collect();
            out.emit(&json!({"ev": "pre", "md": -1, "dag": djson, "sid": sid, "items": pre, "shared": false, "real": true, "marker": marker, "via": "arc", "tracker": $name}));
        }};
    }
    emit_all!(InternalSharing, &internal, "internal");
    if small { emit_all!(NoSharing, &zeros, "none"); }
    if let Some(l) = &maxl { emit_all!(MaxSharing<N>, l, "max"); }
    true
}

/// Real programs of all three node kinds (construction-time with optional disconnect branches, commitment-time without,
/// redemption-time with mandatory ones), each traversed by reference and by `Arc`.
fn real_marker_events(rng: &mut Rng, out: &mut Out, runs: usize) {
    use crate::gen::{Gen, JetSig, Ty};
    use crate::prog::Family;
    use simplicity::node::{Commit, Construct, Node, Redeem};
    use std::sync::Arc;
    fn right_redeem<'a>(d: &'a Arc<Node<Redeem>>) -> Option<&'a Node<Redeem>> { Some(&**d) }
    fn right_commit<'a>(_: &'a simplicity::node::NoDisconnect) -> Option<&'a Node<Commit>> { None }
    fn right_construct<'a, 'b>(d: &'a Option<Arc<Node<Construct<'b>>>>) -> Option<&'a Node<Construct<'b>>> { d.as_deref() }
    let empty: Vec<JetSig> = vec![];
    let mut done = 0;
    let mut attempts = 0;
    while done < runs && attempts < runs * 30 {
        attempts += 1;
        let dag = { let mut g = Gen::new(rng, &empty, 4 + attempts % 20); g.allow_disconnect = true; g.allow_witness = true; g.cmr_n = 8; let r = g.expr(&Ty::Unit, &Ty::Unit, 7); g.finish(r) };
        let nodes = dag.as_array().unwrap();
        let has_disc = nodes.iter().any(|nd| nd[0] == "disc");
        if !has_disc && attempts % 3 != 0 { continue; }
        if nodes.iter().any(|nd| nd[0] == "word" || nd[0] == "jet") { continue; }
        let n = nodes.len();
        let mut ty = vec![J::Null; n];
        ty[n - 1] = json!([["1"], ["1"]]);
        let aux0 = json!(vec![json!(["none"]); n]);
        let ok = guarded(|| simplicity::types::Context::with_context(|ctx| {
            let Ok((_, _, built)) = crate::c05::build_typed(&ctx, Family::Core, &dag, &json!(ty), &aux0) else { return false };
            let full_ty: Vec<J> = built.iter().map(|b| { let a = b.arrow().finalize().unwrap(); json!([crate::tyval::ty_j(&a.source), crate::tyval::ty_j(&a.target)]) }).collect();
            let mut auxv = vec![json!(["u"]); n];
            for (i, nd) in nodes.iter().enumerate() {
                if nd[0] == "witness" { auxv[i] = Ty::from_final(&crate::tyval::ty_of(&full_ty[i][1])).rand_val(rng); }
            }
            let Ok((redeem, _, built)) = crate::c05::build_typed(&ctx, Family::Core, &dag, &json!(full_ty), &json!(auxv)) else { return false };
            let root = built.last().unwrap().clone();
            let a = marker_events::<Construct>(&root, right_construct, "construct", None, out);
            let ihr = |x: &Node<Redeem>| Some(x.ihr().to_string());
            let b = marker_events::<Redeem>(&redeem, right_redeem, "redeem", Some(&ihr), out);
            let c = match root.finalize_types() {
                Ok(commit) => { let f = |x: &Node<Commit>| x.ihr().map(|h| h.to_string()); marker_events::<Commit>(&commit, right_commit, "commit", Some(&f), out) }
                Err(_) => false,
            };
            a || b || c
        }));
        if ok == Ok(true) { done += 1; }
    }
}

pub fn record(runs: usize, max_n: usize, path: &str) {
    let mut rng = Rng::from_env(18);
    let mut out = Out::file(path);
    real_node_events(&mut rng, &mut out, runs / 4 + 20);
    real_marker_events(&mut rng, &mut out, runs / 40 + 10);
    let mut done = 0;
    while done < runs {
        let n = 1 + rng.below(max_n);
        let (dag, sid, _) = gen(&mut rng, n);
        if expansion(&dag, &sid) > 400.0 {
            continue;
        }
        let algo = *rng.pick(&["post", "rtl", "pre", "vpre", "post"]);
        let md = if algo == "vpre" { *rng.pick(&[-1, -1, 0, 1, 2, 3, 5]) } else { -1 };
        let modes = mode_of(&sid);
        let m = *rng.pick(&modes);
        let items = run(algo, md, parse_dag(&dag, &sid), m);
        let shared = if algo == "post" { run("shared", -1, parse_dag(&dag, &sid), m) } else { json!(false) };
        out.emit(&json!({"ev": algo, "md": md, "dag": dag, "sid": sid, "items": items, "shared": shared}));
        done += 1;
    }
}
