//! Elements environments for the harness.
use simplicity::elements::{self, confidential, taproot::ControlBlock, AssetIssuance};
use simplicity::jet::elements::{ElementsEnv, ElementsUtxo};
use simplicity::Cmr;
use std::sync::Arc;

pub type Env = ElementsEnv<Arc<elements::Transaction>>;

/// the same environment as the crate's (test-only) ElementsEnv::dummy_with
pub fn dummy_with(lock_time: elements::LockTime, sequence: elements::Sequence) -> Env {
    let ctrl_blk: [u8; 33] = [
        0xc0, 0xeb, 0x04, 0xb6, 0x8e, 0x9a, 0x26, 0xd1, 0x16, 0x04, 0x6c, 0x76, 0xe8, 0xff, 0x47, 0x33, 0x2f, 0xb7,
        0x1d, 0xda, 0x90, 0xff, 0x4b, 0xef, 0x53, 0x70, 0xf2, 0x52, 0x26, 0xd3, 0xbc, 0x09, 0xfc,
    ];
    ElementsEnv::new(
        Arc::new(elements::Transaction {
            version: 2,
            lock_time,
            input: vec![elements::TxIn {
                previous_output: elements::OutPoint::default(),
                is_pegin: false,
                script_sig: elements::Script::new(),
                sequence,
                asset_issuance: AssetIssuance::default(),
                witness: elements::TxInWitness::default(),
            }],
            output: Vec::default(),
        }),
        vec![ElementsUtxo { script_pubkey: elements::Script::new(), asset: confidential::Asset::Null, value: confidential::Value::Null }],
        0,
        Cmr::from_byte_array([0; 32]),
        ControlBlock::from_slice(&ctrl_blk).unwrap(),
        None,
        elements::BlockHash::GENESIS_PREVIOUS_BLOCK_HASH,
    )
}
pub fn dummy() -> Env {
    dummy_with(elements::LockTime::ZERO, elements::Sequence::MAX)
}
