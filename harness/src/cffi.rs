//! The vendored C reference implementation driven stage by stage (a port of run_program in
//! simplicity-sys/src/tests/mod.rs that reports instead of asserting), with the TRUE signature of
//! evalTCOExpression (9 parameters; the crate's own test binding at the pinned revision lacked `minCost`).
use serde_json::{json, Value as J};
use simplicity_sys::ffi::{c_size_t, c_uchar, sha256::CSha256Midstate, ubounded, UBOUNDED_MAX, UWORD};
use simplicity_sys::tests::ffi::{
    bitstream::{simplicity_closeBitstream, CBitstream},
    dag::{simplicity_computeAnnotatedMerkleRoot, simplicity_fillWitnessData, simplicity_verifyNoDuplicateIdentityHashes, CAnalyses, CCombinatorCounters, CDagNode},
    deserialize::simplicity_decodeMallocDag,
    elements::{simplicity_elements_decodeJet, simplicity_elements_mallocBoundVars},
    eval::simplicity_analyseBounds,
    ty::CType,
    type_inference::simplicity_mallocTypeInference,
    SimplicityErr,
};
use simplicity_sys::CElementsTxEnv;
use std::ptr;

extern "C" {
    #[link_name = "rustsimplicity_0_7_evalTCOExpression"]
    fn eval_tco_expression(
        anti_dos_checks: c_uchar,
        output: *mut UWORD,
        input: *const UWORD,
        dag: *const CDagNode,
        type_dag: *mut CType,
        len: c_size_t,
        min_cost: ubounded,
        budget: *const ubounded,
        env: *const CElementsTxEnv,
    ) -> SimplicityErr;
}

pub const CHECK_NONE: c_uchar = 0;
pub const CHECK_ALL: c_uchar = 0xFF;

struct FreeOnDrop(*mut u8);
impl Drop for FreeOnDrop {
    fn drop(&mut self) {
        unsafe { simplicity_sys::alloc::rust_0_7_free(self.0) }
    }
}

pub fn root_bytes(m: &CSha256Midstate) -> String {
    let mut s = String::new();
    for w in m.s.iter() {
        s.push_str(&format!("{:08x}", w));
    }
    s
}

fn code(e: SimplicityErr) -> i32 {
    e as i32
}

/// Run the C pipeline. `flags` = anti-DoS checks for the evaluation (None = do not evaluate).
/// Result: {"stage": last stage reached, "err": C error code (0 = none), cmr, amr, ihr, cost, one_one, eval}
pub fn c_pipeline(program: &[u8], witness: &[u8], env: Option<&CElementsTxEnv>, flags: Option<c_uchar>) -> J {
    let mut out = json!({"stage": "decode", "err": 0});
    let mut prog_stream = CBitstream::from(program);
    let mut wit_stream = CBitstream::from(witness);
    let mut census = CCombinatorCounters::default();
    macro_rules! fail {
        ($e:expr) => {{
            out["err"] = json!($e);
            return out;
        }};
    }
    unsafe {
        let mut dag = ptr::null_mut();
        let n = simplicity_decodeMallocDag(&mut dag, simplicity_elements_decodeJet, &mut census, &mut prog_stream);
        if n < 0 { fail!(n); }
        let len = n as usize;
        let _d1 = FreeOnDrop(dag as *mut u8);
        let r = simplicity_closeBitstream(&mut prog_stream);
        if r < 0 { fail!(r); }
        out["len"] = json!(len);
        out["cmr"] = json!(root_bytes(&(*dag.add(len - 1)).cmr));
        out["stage"] = json!("infer");
        let mut type_dag = ptr::null_mut();
        let e = simplicity_mallocTypeInference(&mut type_dag, simplicity_elements_mallocBoundVars, dag, len, &census);
        if e != SimplicityErr::NoError { fail!(code(e)); }
        let _d2 = FreeOnDrop(type_dag as *mut u8);
        {
            // the root's source and target type roots (for jet-table agreement)
            let root = &*dag.add(len - 1);
            let (si, ti) = (root.aux_types.types[0], root.aux_types.types[1]);
            out["root_src_tmr"] = json!(root_bytes(&(*type_dag.add(si)).type_merkle_root));
            out["root_tgt_tmr"] = json!(root_bytes(&(*type_dag.add(ti)).type_merkle_root));
            out["root_src_bits"] = json!((*type_dag.add(si)).bit_size);
            out["root_tgt_bits"] = json!((*type_dag.add(ti)).bit_size);
        }
        out["stage"] = json!("witness");
        let e = simplicity_fillWitnessData(dag, type_dag, len as c_size_t, &mut wit_stream);
        if e != SimplicityErr::NoError { fail!(code(e)); }
        let r = simplicity_closeBitstream(&mut wit_stream);
        if r < 0 { fail!(r); }
        out["stage"] = json!("amr");
        let mut analyses = vec![CAnalyses::default(); len];
        simplicity_computeAnnotatedMerkleRoot(analyses.as_mut_ptr(), dag, type_dag, len);
        out["amr"] = json!(root_bytes(&analyses[len - 1].annotated_merkle_root));
        out["stage"] = json!("ihr");
        let mut ihr = CSha256Midstate::default();
        let e = simplicity_verifyNoDuplicateIdentityHashes(&mut ihr, dag, type_dag, len);
        if e != SimplicityErr::NoError { fail!(code(e)); }
        out["ihr"] = json!(root_bytes(&ihr));
        out["stage"] = json!("bounds");
        let (mut cell, mut word, mut frame, mut cost): (ubounded, ubounded, ubounded, ubounded) = (0, 0, 0, 0);
        let e = simplicity_analyseBounds(&mut cell, &mut word, &mut frame, &mut cost, UBOUNDED_MAX, 0, UBOUNDED_MAX, dag, type_dag, len);
        if e != SimplicityErr::NoError { fail!(code(e)); }
        out["cost"] = json!(cost);
        out["cells"] = json!(cell);
        out["frames"] = json!(frame);
        let root = &*dag.add(len - 1);
        let one_one = root.aux_types.types[0] == 0 && root.aux_types.types[1] == 0;
        out["one_one"] = json!(one_one);
        out["stage"] = json!("typed");
        if let (Some(flags), true) = (flags, one_one) {
            let env_ptr = env.map(|e| e as *const _).unwrap_or(ptr::null());
            let e = eval_tco_expression(flags, ptr::null_mut(), ptr::null(), dag, type_dag, len, 0, ptr::null(), env_ptr);
            out["eval"] = json!(code(e));
            out["stage"] = json!("eval");
        }
    }
    out
}
