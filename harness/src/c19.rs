//! C19: Cost / budget / annex padding through the public API.
use crate::util::*;
use serde_json::{json, Value as J};
use simplicity::bitcoin::Weight;
use simplicity::Cost;

fn build_stack(st: &J) -> Vec<Vec<u8>> {
    let mut v = vec![];
    for g in st.as_array().unwrap() {
        for _ in 0..ju(&g[0]) {
            v.push(vec![0xabu8; ju(&g[1])]);
        }
    }
    v
}

fn cost_of(c: &J) -> Cost {
    let m = c[0].as_u64().unwrap() * 1000 + c[1].as_u64().unwrap();
    Cost::from_milliweight(u32::try_from(m).expect("cost fits u32"))
}

fn one(cost: Cost, stack: &mut Vec<Vec<u8>>) -> J {
    let valid = cost.is_budget_valid(stack);
    let pad = cost.get_padding(stack);
    let mut r = json!({"valid": valid, "pad": -1});
    if let Some(annex) = pad {
        r["pad"] = json!(annex.len() as i64 - 1);
        r["tag"] = json!(annex.first().copied());
        r["zeros"] = json!(annex[1..].iter().all(|b| *b == 0));
        // the property's clauses, evaluated with the crate's own validity function
        stack.push(annex.clone());
        r["valid_after"] = json!(cost.is_budget_valid(stack));
        stack.pop();
        if annex.len() > 1 {
            stack.push(annex[..annex.len() - 1].to_vec());
            r["valid_shorter"] = json!(cost.is_budget_valid(stack));
            stack.pop();
        }
    }
    let w = Weight::from(cost);
    r["weight"] = json!(w.to_wu());
    r["back"] = json!(Cost::from(w) >= cost);
    r
}

/// spec -> impl (cases sorted by stack so that the big stacks are built once)
pub fn replay(path: &str) {
    let mut out = Out::stdout();
    let mut key = String::new();
    let mut stack: Vec<Vec<u8>> = vec![];
    for (k, c) in read_ndjson(path).iter().enumerate() {
        let sk = c["st"].to_string();
        if sk != key {
            stack = build_stack(&c["st"]);
            key = sk;
        }
        let cost = cost_of(&c["c"]);
        let got = guarded(|| one(cost, &mut stack)).unwrap_or_else(|e| json!({"panic": e}));
        out.emit(&json!({"k": k, "got": got}));
    }
}

/// impl -> spec: random costs and stacks, recorded
pub fn record(runs: usize, path: &str) {
    let mut rng = Rng::from_env(19);
    let mut out = Out::file(path);
    for _ in 0..runs {
        // stack as groups
        let ngroups = rng.range(0, 3);
        let mut st = vec![];
        for _ in 0..ngroups {
            let k = match rng.below(6) {
                0 => rng.range(250, 256),
                1 => rng.range(65533, 65538),
                _ => rng.range(0, 6),
            };
            let len = match rng.below(5) {
                0 => rng.range(250, 256),
                1 if k < 100 => rng.range(65533, 65538),
                _ => rng.range(0, 80),
            };
            st.push(json!([k, len]));
        }
        let st = json!(st);
        let mut stack = build_stack(&st);
        let mut tmp = vec![];
        use simplicity::elements::encode::Encodable;
        let ser = stack.consensus_encode(&mut tmp).unwrap() as i64;
        // cost near the budget, or anywhere up to the consensus maximum
        for _ in 0..8 {
            let budget = ser + 50;
            let w: i64 = match rng.below(4) {
                0 => rng.range(0, 4_000_050) as i64,
                1 => budget + rng.range(0, 70000) as i64 - 10,
                _ => budget + rng.range(0, 600) as i64 - 10,
            }
            .clamp(0, 4_000_050);
            let r = if w == 0 { 0 } else { *rng.pick(&[0i64, 1, 500, 999]) };
            let (q, r) = if r == 0 { (w, 0) } else { (w - 1, r) };
            let c = json!([q, r]);
            let got = guarded(|| one(cost_of(&c), &mut stack)).unwrap_or_else(|e| json!({"panic": e}));
            out.emit(&json!({"ev": "budget", "c": c, "st": st, "ser": ser, "got": got}));
        }
    }
    // conversions: monotone and rounding up, over a sweep of costs
    let mut prev: Option<(u32, u64)> = None;
    let mut c: u64 = 0;
    while c <= 4_000_050_000 {
        let cost = Cost::from_milliweight(c as u32);
        let w = Weight::from(cost).to_wu();
        let back = Cost::from(Weight::from_wu(w));
        out.emit(&json!({"ev": "conv", "c": [c / 1000, c % 1000], "w": w,
            "mono": prev.map(|(_, pw)| pw <= w).unwrap_or(true),
            "back_ge": back >= cost}));
        prev = Some((c as u32, w));
        c += 1 + rng.below(9_000_000) as u64;
    }
}
