//! C13: BitWriter / BitIter / natural code driven through the public API.
use crate::util::*;
use serde_json::{json, Value as J};
use simplicity::{encode_natural, BitIter, BitWriter};
use std::io::Write;

type It<'a> = BitIter<std::iter::Copied<std::slice::Iter<'a, u8>>>;

fn bin(mut n: u64) -> Vec<u8> {
    let mut v = vec![];
    while n > 0 {
        v.push((n & 1) as u8);
        n >>= 1;
    }
    v.reverse();
    v
}
fn from_bin(b: &J) -> Option<u64> {
    let a = b.as_array().unwrap();
    if a.len() > 64 {
        return None;
    }
    Some(a.iter().fold(0u64, |acc, x| acc * 2 + x.as_u64().unwrap()))
}

fn nat_res<N: Into<u64>, E: std::fmt::Debug>(r: Result<N, E>) -> J {
    match r {
        Ok(n) => json!(bin(n.into())),
        Err(e) => {
            let s = format!("{:?}", e);
            json!(if s.starts_with("BadIndex") {
                "badindex"
            } else if s.starts_with("EndOfStream") {
                "eof"
            } else {
                "overflow"
            })
        }
    }
}

/// read_natural at result type of `maxb` bits with an optional bound (binary expansion; [] = none)
fn read_nat(it: &mut It, maxb: u64, bound: &J) -> J {
    let bd = from_bin(bound).filter(|_| !bound.as_array().unwrap().is_empty());
    match maxb {
        8 => nat_res(it.read_natural::<u8>(bd.map(|b| b.min(255) as u8))),
        16 => nat_res(it.read_natural::<u16>(bd.map(|b| b.min(65535) as u16))),
        32 => {
            // the spec treats usize like u32 (arithmetic is 32-bit); exercise both and require agreement
            let mut it2 = it.clone();
            let a = nat_res(it.read_natural::<u32>(bd.map(|b| b.min(u32::MAX as u64) as u32)));
            let b = nat_res(it2.read_natural::<usize>(bd.map(|b| b as usize)).map(|x| x as u64));
            if a != b || it.n_total_read() != it2.n_total_read() {
                return json!({"u32": a, "usize": b});
            }
            a
        }
        _ => panic!("maxb"),
    }
}

fn read_op(it: &mut It, op: &str, maxb: u64, bound: &J) -> J {
    match op {
        "bit" => it.read_bit().map(|b| json!(b as u8)).unwrap_or(json!(-1)),
        "u2" => it.read_u2().map(|b| json!(u8::from(b))).unwrap_or(json!(-1)),
        "u8" => it.read_u8().map(|b| json!(b)).unwrap_or(json!(-1)),
        "nat" | "natb" => read_nat(it, maxb, bound),
        _ => panic!("op"),
    }
}

fn close_res(it: It) -> J {
    match it.close() {
        Ok(()) => json!("ok"),
        Err(e) => json!(if format!("{:?}", e).starts_with("TrailingBytes") { "trailing" } else { "padding" }),
    }
}

fn bytes_of(j: &J) -> Vec<u8> {
    j.as_array().unwrap().iter().map(|b| b.as_u64().unwrap() as u8).collect()
}

fn write_op(w: &mut BitWriter<&mut Vec<u8>>, op: &J) {
    match op[0].as_str().unwrap() {
        "bit" => w.write_bit(ju(&op[1]) == 1).unwrap(),
        "bits" => {
            w.write_bits_be(op[1].as_u64().unwrap(), ju(&op[2])).unwrap();
        }
        "bytes" => w.write_all(&bytes_of(&op[1])).unwrap(),
        "nat" => {
            encode_natural(ju(&op[1]), w).unwrap();
        }
        "flush" => {}
        _ => panic!("wop"),
    }
}

/// spec -> impl
pub fn replay(path: &str) {
    let mut out = Out::stdout();
    for (k, c) in read_ndjson(path).iter().enumerate() {
        let got = guarded(|| {
            if c.get("kind").is_some() {
                // natural-code case: decode the (byte padded) string s
                let bits = jbits(&c["s"]);
                let (bytes, _) = simplicity::BitCollector::collect_bits(bits.into_iter());
                let mut it = BitIter::from(&bytes[..]);
                let res = read_nat(&mut it, c["maxb"].as_u64().unwrap(), &c["bound"]);
                let mut enc = J::Null;
                if let Some(n) = from_bin(&c["b"]).filter(|n| *n > 0 && *n < (1u64 << 40)) {
                    let mut nbits = 0;
                    let v = simplicity::write_to_vec(|w| {
                        let r = encode_natural(n as usize, w);
                        nbits = *r.as_ref().unwrap();
                        r
                    });
                    enc = json!(BitIter::from(&v[..]).take(nbits).map(|b| b as u8).collect::<Vec<_>>());
                }
                json!({"res": res, "total": it.n_total_read(), "enc": enc})
            } else {
                let st = &c["start"];
                let hist = c["hist"].as_array().unwrap();
                let mut results = vec![];
                let mut buf: Vec<u8> = vec![];
                let bytes: Vec<u8>;
                let kind = st["kind"].as_str().unwrap();
                if kind == "written" {
                    let mut w = BitWriter::new(&mut buf);
                    for h in hist {
                        let op = &h["op"];
                        let name = op[0].as_str().unwrap();
                        if name == "flush" {
                            w.flush_all().unwrap();
                            results.push(json!({"written": w.n_total_written()}));
                            break;
                        }
                        write_op(&mut w, op);
                        results.push(json!({"written": w.n_total_written()}));
                    }
                    drop(w);
                    bytes = buf.clone();
                    results.push(json!({"bytes": bytes}));
                } else {
                    bytes = bytes_of(&st["bytes"]);
                }
                let mut it = if kind == "window" {
                    BitIter::byte_slice_window(&bytes, ju(&st["s"]), ju(&st["e"]))
                } else {
                    BitIter::from(&bytes[..])
                };
                let mut closed = false;
                for h in hist {
                    if h.get("res").is_none() {
                        continue;
                    }
                    let op = h["op"][0].as_str().unwrap();
                    if op == "close" {
                        results.push(json!({"res": close_res(it.clone()), "total": it.n_total_read()}));
                        closed = true;
                        break;
                    }
                    let (maxb, bound) = if op == "natb" { (8, json!([1, 0])) } else { (32, json!([])) };
                    let r = read_op(&mut it, op, maxb, &bound);
                    results.push(json!({"res": r, "total": it.n_total_read()}));
                }
                let _ = closed;
                json!(results)
            }
        });
        out.emit(&json!({"k": k, "got": got.unwrap_or_else(|e| json!({"panic": e}))}));
    }
}

/// impl -> spec: long random write/read sessions at all alignments.
pub fn record(runs: usize, ops: usize, path: &str) {
    let mut rng = Rng::from_env(13);
    let mut out = Out::file(path);
    for _ in 0..runs {
        // ---- write session
        let mut buf: Vec<u8> = vec![];
        out.emit(&json!({"ev": "wnew"}));
        let mut w = BitWriter::new(&mut buf);
        let nw = rng.range(0, ops);
        for _ in 0..nw {
            let ev = match rng.below(5) {
                0 => {
                    let b = rng.bool();
                    w.write_bit(b).unwrap();
                    json!({"ev": "w", "op": "bit", "b": b as u8})
                }
                1 => {
                    let len = rng.range(0, 64);
                    let n = rng.next_u64() >> rng.below(64);
                    w.write_bits_be(n, len).unwrap();
                    json!({"ev": "w", "op": "bits", "len": len, "nbits": (0..64).map(|i| ((n >> (63 - i)) & 1) as u8).collect::<Vec<_>>()})
                }
                2 => {
                    let bs: Vec<u8> = (0..rng.range(0, 3)).map(|_| *rng.pick(&[0u8, 1, 0x80, 0xa5, 0xff, 0x7f])).collect();
                    w.write_all(&bs).unwrap();
                    json!({"ev": "w", "op": "bytes", "bytes": bs})
                }
                _ => {
                    // naturals: small, around powers of two, and large
                    let k = rng.below(33);
                    let n: u64 = match rng.below(3) {
                        0 => 1 + rng.below(300) as u64,
                        1 => ((1u64 << k) + rng.below(5) as u64).saturating_sub(rng.below(3) as u64).max(1),
                        _ => (rng.next_u64() >> rng.range(31, 63)).max(1),
                    };
                    let r = encode_natural(n as usize, &mut w).unwrap();
                    json!({"ev": "w", "op": "nat", "nb": bin(n), "ret": r})
                }
            };
            let mut ev = ev;
            ev["written"] = json!(w.n_total_written());
            out.emit(&ev);
        }
        w.flush_all().unwrap();
        let written = w.n_total_written();
        drop(w);
        out.emit(&json!({"ev": "flush", "bytes": buf, "written": written}));
        // ---- read session over what was written, or over random bytes, whole or windowed
        let bytes: Vec<u8> = if rng.chance(2, 3) {
            buf.clone()
        } else {
            (0..rng.range(0, 12)).map(|_| if rng.bool() { rng.next_u64() as u8 } else { *rng.pick(&[0u8, 0xff, 0x80, 1]) }).collect()
        };
        let window = rng.chance(1, 3);
        let (s, e) = if window {
            let e = rng.range(0, bytes.len() * 8);
            let s = rng.range(0, e);
            // (start unaligned and empty range would index out of the slice: documented precondition)
            if s % 8 != 0 && s == e { (s - s % 8, e) } else { (s, e) }
        } else {
            (0, bytes.len() * 8)
        };
        let mut it = if window {
            out.emit(&json!({"ev": "window", "bytes": bytes, "s": s, "e": e}));
            BitIter::byte_slice_window(&bytes, s, e)
        } else {
            out.emit(&json!({"ev": "from", "bytes": bytes}));
            BitIter::from(&bytes[..])
        };
        let nr = rng.range(0, ops);
        for _ in 0..nr {
            let op = *rng.pick(&["bit", "bit", "u2", "u8", "u8", "nat", "natb"]);
            let (maxb, bound) = match (op, rng.below(4)) {
                ("natb", 0) => (8u64, json!(bin(1 + rng.below(40) as u64))),
                ("natb", 1) => (16, json!(bin(1 + rng.below(70000) as u64))),
                ("natb", _) => (32, json!(bin(1 + (rng.next_u64() >> 33)))),
                (_, 0) => (8, json!([])),
                (_, 1) => (16, json!([])),
                _ => (32, json!([])),
            };
            let res = guarded(|| read_op(&mut it, op, maxb, &bound)).unwrap_or_else(|e| json!({"panic": e}));
            out.emit(&json!({"ev": "r", "op": op, "maxb": maxb, "bound": bound, "res": res, "total": it.n_total_read()}));
        }
        if !window {
            out.emit(&json!({"ev": "close", "res": close_res(it)}));
        }
    }
}
