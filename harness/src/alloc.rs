//! Counting global allocator: current and peak heap bytes (for "never allocates without bound" clauses).
use std::alloc::{GlobalAlloc, Layout, System};
use std::sync::atomic::{AtomicUsize, Ordering};

pub struct Counting;
static CUR: AtomicUsize = AtomicUsize::new(0);
static PEAK: AtomicUsize = AtomicUsize::new(0);

unsafe impl GlobalAlloc for Counting {
    unsafe fn alloc(&self, l: Layout) -> *mut u8 {
        let p = System.alloc(l);
        if !p.is_null() {
            let c = CUR.fetch_add(l.size(), Ordering::Relaxed) + l.size();
            PEAK.fetch_max(c, Ordering::Relaxed);
        }
        p
    }
    unsafe fn dealloc(&self, p: *mut u8, l: Layout) {
        CUR.fetch_sub(l.size(), Ordering::Relaxed);
        System.dealloc(p, l)
    }
    unsafe fn alloc_zeroed(&self, l: Layout) -> *mut u8 {
        let p = System.alloc_zeroed(l);
        if !p.is_null() {
            let c = CUR.fetch_add(l.size(), Ordering::Relaxed) + l.size();
            PEAK.fetch_max(c, Ordering::Relaxed);
        }
        p
    }
    unsafe fn realloc(&self, p: *mut u8, l: Layout, new: usize) -> *mut u8 {
        let q = System.realloc(p, l, new);
        if !q.is_null() {
            if new >= l.size() {
                let c = CUR.fetch_add(new - l.size(), Ordering::Relaxed) + (new - l.size());
                PEAK.fetch_max(c, Ordering::Relaxed);
            } else {
                CUR.fetch_sub(l.size() - new, Ordering::Relaxed);
            }
        }
        q
    }
}
/// reset the peak to the current usage; returns current
pub fn reset_peak() -> usize {
    let c = CUR.load(Ordering::Relaxed);
    PEAK.store(c, Ordering::Relaxed);
    c
}
/// peak bytes above the usage at the last reset
pub fn peak_since(base: usize) -> usize {
    PEAK.load(Ordering::Relaxed).saturating_sub(base)
}
