//! C17: human-readable encoding. Replay of spec programs (as text and as committed programs) through
//! parse -> render -> reparse, recording of rendered forests for validation against Human.tla, and
//! parser totality events.
use crate::gen::*;
use crate::prog::*;
use crate::tyval::*;
use crate::util::*;
use serde_json::{json, Value as J};
use simplicity::dag::{DagLike, InternalSharing, MaxSharing};
use simplicity::human_encoding::{Forest, NamedCommitNode};
use simplicity::jet::Core;
use simplicity::node::{self, CommitNode, Inner};
use simplicity::types;
use std::collections::HashMap;
use std::sync::Arc;

pub fn hex(b: &[u8]) -> String {
    b.iter().map(|x| format!("{:02x}", x)).collect()
}

/// expression body of one spec node; `name(i)` gives the text for child i (a name or an inline expression)
fn body(nd: &J, name: &dyn Fn(usize) -> String) -> String {
    let (l, r) = (ju(&nd[1]), ju(&nd[2]));
    match nd[0].as_str().unwrap() {
        "witness" => "witness".to_string(),
        "jetV" => "jet_verify".to_string(),
        "jetA" => "jet_and_1".to_string(),
        "jetL" => "jet_low_1".to_string(),
        "jet" => format!("jet_{}", nd[3].as_str().unwrap()),
        op @ ("iden" | "unit") => op.to_string(),
        op @ ("injl" | "injr" | "take" | "drop") => format!("{} {}", op, name(l)),
        op @ ("comp" | "case" | "pair") => format!("{} {} {}", op, name(l), name(r)),
        "assertl" => format!("assertl {} #{}", name(l), cmr_of(&nd[3], 1)),
        "assertr" => format!("assertr #{} {}", cmr_of(&nd[3], 2), name(l)),
        "disc1" => format!("disconnect {} ?{}", name(l), nd[3].as_str().unwrap_or("hole")),
        "fail" => format!("fail 0x{}", hex(entropy_of(&nd[3]).as_ref())),
        "word0" => format!("const 0b{}", nd[3].as_u64().unwrap_or(1) & 1),
        "word1" => format!("const 0b{:02b}", nd[3].as_u64().unwrap_or(2) & 3),
        "word" => format!("const 0b{}", jbits(&nd[3]).iter().map(|b| if *b { '1' } else { '0' }).collect::<String>()),
        other => panic!("no text for {}", other),
    }
}

/// one named definition per object
pub fn text_named(dag: &J) -> String {
    let nodes = dag.as_array().unwrap();
    let n = nodes.len();
    let name = move |i: usize| if i == n { "main".to_string() } else { format!("n{}", i) };
    nodes.iter().enumerate().map(|(k, nd)| format!("{} := {}\n", name(k + 1), body(nd, &name))).collect()
}

/// objects referenced once are written inline, the others named
pub fn text_inline(dag: &J) -> String {
    let nodes = dag.as_array().unwrap();
    let n = nodes.len();
    let mut uses = vec![0usize; n + 1];
    for nd in nodes {
        for c in [ju(&nd[1]), ju(&nd[2])] {
            if c != 0 { uses[c] += 1; }
        }
    }
    fn expr(nodes: &[J], uses: &[usize], i: usize, top: bool) -> String {
        if !top && uses[i] != 1 { return format!("n{}", i); }
        let s = body(&nodes[i - 1], &|c| expr(nodes, uses, c, false));
        if top { s } else { format!("({})", s) }
    }
    let mut s = String::new();
    for i in 1..=n {
        if i == n { s.push_str(&format!("main := {}\n", expr(nodes, &uses, i, true))); }
        else if uses[i] != 1 { s.push_str(&format!("n{} := {}\n", i, expr(nodes, &uses, i, true))); }
    }
    s
}

/// what the property compares: commitment root, (root, types, identity) of every node, bit encoding
fn summary(root: &Arc<NamedCommitNode>) -> J {
    let c: Arc<CommitNode> = root.to_commit_node();
    let nodes: Vec<J> = (&*c).post_order_iter::<MaxSharing<node::Commit>>()
        .map(|it| json!([it.node.cmr().to_string(), it.node.arrow().to_string(), it.node.ihr().map(|h| h.to_string())]))
        .collect();
    json!({"cmr": c.cmr().to_string(), "nodes": nodes, "bits": hex(&c.to_vec_without_witness())})
}

/// the forest as a DAG of named objects plus the lines of its rendering, in spec terms
fn op_of(n: &NamedCommitNode) -> (&'static str, J) {
    match n.inner() {
        Inner::Iden => ("iden", J::Null), Inner::Unit => ("unit", J::Null),
        Inner::InjL(..) => ("injl", J::Null), Inner::InjR(..) => ("injr", J::Null),
        Inner::Take(..) => ("take", J::Null), Inner::Drop(..) => ("drop", J::Null),
        Inner::Comp(..) => ("comp", J::Null), Inner::Case(..) => ("case", J::Null), Inner::Pair(..) => ("pair", J::Null),
        Inner::AssertL(_, c) => ("assertl", json!(c.to_string())), Inner::AssertR(c, _) => ("assertr", json!(c.to_string())),
        Inner::Disconnect(_, h) => ("disc1", json!(h.to_string())), Inner::Witness(_) => ("witness", J::Null),
        Inner::Fail(e) => ("fail", json!(e.to_string())), Inner::Jet(j) => ("jet", json!(j.to_string())),
        Inner::Word(w) => ("word", json!(w.to_string())),
    }
}

/// lines of a rendered text: (name, op token, argument tokens)
pub fn text_lines(text: &str) -> Vec<(String, Vec<String>)> {
    let mut v = vec![];
    for line in text.lines() {
        let line = line.trim();
        if line.is_empty() || line.starts_with("--") { continue; }
        if let Some((lhs, rhs)) = line.split_once(":=") {
            let expr = rhs.split(" : ").next().unwrap_or("");
            v.push((lhs.trim().to_string(), expr.split_whitespace().map(|s| s.to_string()).collect()));
        }
    }
    v
}

fn roundtrip(forest: &Forest) -> J {
    let main = match forest.roots().get("main") { Some(m) => m, None => return json!({"class": "no-main"}) };
    let before = summary(main);
    let text = match guarded(|| forest.string_serialize()) { Ok(t) => t, Err(p) => return json!({"class": "render-panic", "msg": p}) };
    let again = match guarded(|| Forest::parse::<Core>(&text)) {
        Err(p) => return json!({"class": "reparse-panic", "msg": p, "text": text}),
        Ok(Err(e)) => return json!({"class": "reparse-error", "msg": e.to_string(), "text": text}),
        Ok(Ok(f)) => f,
    };
    let main2 = match again.roots().get("main") { Some(m) => m, None => return json!({"class": "reparse-no-main", "text": text}) };
    let after = summary(main2);
    let mut diffs = vec![];
    for k in ["cmr", "nodes", "bits"] { if before[k] != after[k] { diffs.push(k); } }
    if diffs.is_empty() { json!({"class": "ok", "lines": text_lines(&text).len()}) }
    else { json!({"class": "differs", "in": diffs, "text": text, "before": before, "after": after}) }
}

/// source text of a case: objects with a user name are definitions, the others are written inline
pub fn text_of(dag: &J, user: &J) -> String {
    let nodes = dag.as_array().unwrap();
    let n = nodes.len();
    let uname = |i: usize| user[i - 1].as_str().unwrap_or("").to_string();
    fn expr(nodes: &[J], uname: &dyn Fn(usize) -> String, i: usize, top: bool) -> String {
        if !top && !uname(i).is_empty() { return uname(i); }
        let s = body(&nodes[i - 1], &|c| expr(nodes, uname, c, false));
        if top { s } else { format!("({})", s) }
    }
    let mut s = String::new();
    for i in 1..=n {
        if !uname(i).is_empty() { s.push_str(&format!("{} := {}\n", uname(i), expr(nodes, &uname, i, true))); }
    }
    s
}

const KEYWORDS: &[&str] = &["const", "assertl", "assertr", "fail", "disconnect", "case", "comp", "pair", "injl", "injr", "take", "drop", "unit", "iden", "witness"];

/// tokens of a rendered text in the spec's vocabulary, one list per definition line.
/// `atoms`: literal texts are mapped back to the spec's payload atoms (small numbers) where they are atoms.
pub fn tokens(text: &str, atoms: bool) -> Vec<Vec<J>> {
    let mut lines = vec![];
    for line in text.lines() {
        let line = line.trim();
        if line.is_empty() || line.starts_with("--") { continue; }
        let cs: Vec<char> = line.chars().collect();
        let mut toks = vec![];
        let mut i = 0;
        let mut in_type = false;
        while i < cs.len() {
            let c = cs[i];
            if c.is_whitespace() { i += 1; continue; }
            let two: String = cs[i..(i + 2).min(cs.len())].iter().collect();
            if two == ":=" || two == "->" { toks.push(json!(["p", two])); i += 2; continue; }
            if "()+*?:".contains(c) { if c == ':' { in_type = true; } toks.push(json!(["p", c.to_string()])); i += 1; continue; }
            let mut j = i;
            while j < cs.len() && !cs[j].is_whitespace() && !"()+*?:".contains(cs[j]) { j += 1; }
            let w: String = cs[i..j].iter().collect();
            i = j;
            let atom = |prefix: &str, w: &str| -> J {
                if atoms {
                    if w == "0b0" { return json!(0); }
                    if w == "0b1" { return json!(1); }
                    for k in 0..4u64 {
                        if w == format!("{}{}", prefix, hex(atom_entropy(k).as_ref())) { return json!(k); }
                        if w == format!("#{}", atom_cmr(k)) { return json!(k); }
                    }
                }
                json!(w)
            };
            if in_type {
                if let Some(k) = w.strip_prefix("2^") {
                    let k: u64 = k.parse().unwrap_or(0);
                    toks.push(if k.is_power_of_two() { json!(["2^", k.trailing_zeros()]) } else { json!(["bad", w]) });
                } else { toks.push(json!(["p", w])); }
            } else if w.starts_with('#') { toks.push(json!(["cmr", atom("", &w)])); }
            else if w.starts_with("0x") || w.starts_with("0b") { toks.push(json!(["lit", atom("0x", &w)])); }
            else if let Some(j) = w.strip_prefix("jet_") { toks.push(json!(["jet", j])); }
            else if KEYWORDS.contains(&w.as_str()) { toks.push(json!(["p", w])); }
            else if w.chars().next().map_or(false, |c| c.is_ascii_digit()) { toks.push(json!(["bare", atom("", &w)])); }
            else { toks.push(json!(["sym", w])); }
        }
        lines.push(toks);
    }
    lines
}

/// names the real parse gave to the objects of the case (matched by walking both DAGs from the root)
fn names_of(dag: &J, root: &Arc<NamedCommitNode>) -> J {
    let nodes = dag.as_array().unwrap();
    let mut names: Vec<Vec<String>> = vec![vec![]; nodes.len()];
    let mut stack: Vec<(usize, &NamedCommitNode)> = vec![(nodes.len(), root)];
    let mut budget = 100_000;
    while let Some((i, n)) = stack.pop() {
        budget -= 1;
        if budget == 0 { break; }
        let nm = n.name().to_string();
        if !names[i - 1].contains(&nm) { names[i - 1].push(nm); }
        let (l, r) = (ju(&nodes[i - 1][1]), ju(&nodes[i - 1][2]));
        if l != 0 { if let Some(c) = n.left_child() { stack.push((l, c)); } }
        if r != 0 { if let Some(c) = n.right_child() { stack.push((r, c)); } }
    }
    json!(names.iter().map(|v| if v.len() == 1 { json!(v[0]) } else { json!(v) }).collect::<Vec<_>>())
}

pub fn replay(path: &str) {
    let mut out = Out::stdout();
    for (k, case) in read_ndjson(path).iter().enumerate() {
        let dag = &case["dag"];
        let mut got = serde_json::Map::new();
        // the source text with the case's naming
        let text = text_of(dag, &case["user"]);
        let r = match guarded(|| Forest::parse::<Core>(&text)) {
            Err(p) => json!({"class": "parse-panic", "msg": p, "src": text}),
            Ok(Err(e)) => json!({"class": "parse-error", "msg": e.to_string(), "src": text}),
            Ok(Ok(f)) => {
                let mut r = roundtrip(&f);
                r["src"] = json!(text);
                if let Some(m) = f.roots().get("main") {
                    r["names"] = names_of(dag, m);
                    if let Ok(t) = guarded(|| f.string_serialize()) { r["toks"] = json!(tokens(&t, true)); }
                }
                r
            }
        };
        got.insert("text".to_string(), r);
        // the committed program itself
        let r = guarded(|| types::Context::with_context(|ctx| {
            let nodes = dag.as_array().unwrap();
            let mut built: Vec<CN> = vec![];
            for nd in nodes.iter() {
                let nd2 = if nd[0] == "jetL" { json!(["jetL", 0, 0]) } else { nd.clone() };
                let get = |k: usize| built[k - 1].clone();
                match build_node(&ctx, Family::Core, &nd2, &get) { Ok(n) => built.push(n), Err(e) => return json!({"class": "build-error", "msg": e.to_string()}) }
            }
            match built.last().unwrap().finalize_types() {
                Err(e) => json!({"class": "build-error", "msg": e.to_string()}),
                Ok(commit) => {
                    let f = Forest::from_program(commit);
                    let mut r = roundtrip(&f);
                    if let Ok(t) = guarded(|| f.string_serialize()) { r["toks"] = json!(tokens(&t, true)); }
                    r
                }
            }
        })).unwrap_or_else(|p| json!({"class": "panic", "msg": p}));
        got.insert("program".to_string(), r);
        out.emit(&json!({"k": k, "got": got}));
    }
}

/// display-normal type: ["1"], ["w", n], ["+", a, b], ["*", a, b] with every word recognised
pub fn ty_hz(t: &types::Final) -> J {
    use simplicity::types::CompleteBound;
    if let Some(n) = t.as_word() { return json!(["w", n]); }
    match t.bound() {
        CompleteBound::Unit => json!(["1"]),
        CompleteBound::Sum(a, b) => json!(["+", ty_hz(a), ty_hz(b)]),
        CompleteBound::Product(a, b) => json!(["*", ty_hz(a), ty_hz(b)]),
    }
}

/// the forest below a root as the spec's objects: [op, l, r, payload], names, arrows (pointer sharing, post-order)
fn objects(root: &Arc<NamedCommitNode>) -> (Vec<J>, Vec<J>, Vec<J>) {
    let (mut objs, mut names, mut ar) = (vec![], vec![], vec![]);
    for it in (&**root).post_order_iter::<InternalSharing>() {
        let (op, pay) = op_of(it.node);
        let pay = match op {
            "fail" => json!(format!("0x{}", pay.as_str().unwrap())),
            "assertl" | "assertr" => json!(format!("#{}", pay.as_str().unwrap())),
            _ => if pay.is_null() { json!(0) } else { pay },
        };
        // the single child of assertr is its left child in the DAG view
        let l = it.left_index.map_or(0, |x| x + 1);
        let r = it.right_index.map_or(0, |x| x + 1);
        objs.push(json!([op, l, r, pay]));
        names.push(json!(it.node.name().to_string()));
        ar.push(json!([ty_hz(&it.node.arrow().source), ty_hz(&it.node.arrow().target)]));
    }
    (objs, names, ar)
}

fn render_event(src: &str, forest: &Forest) -> J {
    let main = forest.roots().get("main").unwrap();
    let (objs, names, ar) = objects(main);
    let rt = roundtrip(forest);
    let toks = guarded(|| forest.string_serialize()).map(|t| tokens(&t, false)).unwrap_or_default();
    json!({"ev": "render", "src": src, "objs": objs, "names": names, "ar": ar, "toks": toks, "reparse": rt["class"], "detail": if rt["class"] == "ok" { J::Null } else { rt.clone() }})
}

fn drop_unreachable(dag: &J) -> J {
    let nodes = dag.as_array().unwrap();
    let n = nodes.len();
    let mut reach = vec![false; n + 1];
    reach[n] = true;
    for i in (1..=n).rev() {
        if reach[i] { for c in [ju(&nodes[i - 1][1]), ju(&nodes[i - 1][2])] { if c != 0 { reach[c] = true; } } }
    }
    let mut map = vec![0usize; n + 1];
    let mut out = vec![];
    for i in 1..=n {
        if reach[i] {
            let mut nd = nodes[i - 1].clone();
            nd[1] = json!(map[ju(&nd[1])]); nd[2] = json!(map[ju(&nd[2])]);
            out.push(nd);
            map[i] = out.len();
        }
    }
    json!(out)
}

/// impl -> spec: random programs written as source texts with random naming, parsed, rendered and reparsed;
/// the committed program of every forest goes through from_program as well
pub fn record(runs: usize, path: &str) {
    let mut rng = Rng::from_env(17);
    let mut out = Out::file(path);
    let core: Vec<JetSig> = jet_sigs_core().into_iter().filter(|j| j.src.size() <= 300 && j.tgt.size() <= 300).collect();
    let empty: Vec<JetSig> = vec![];
    let (mut done, mut attempts, mut parse_errors) = (0, 0, 0);
    while done < runs && attempts < runs * 30 {
        attempts += 1;
        let budget = rng.range(3, 36);
        let use_jets = rng.chance(1, 2);
        let mut dag = {
            let mut g = Gen::new(&mut rng, if use_jets { &core } else { &empty }, budget);
            g.allow_fail = attempts % 4 == 0;
            g.allow_disconnect = attempts % 3 == 0;
            // main := comp (1 -> M) (M -> 1) so that programs are not trivially `unit`
            let mid = rand_small_ty(g.rng, 2);
            let l = g.expr(&Ty::Unit, &mid, 7);
            let r = g.expr(&mid, &Ty::Unit, 7);
            g.nodes.push(json!(["comp", l, r]));
            g.finish(g.nodes.len())
        };
        for (i, nd) in dag.as_array_mut().unwrap().iter_mut().enumerate() {
            if nd[0] == "disc" { *nd = json!(["disc1", nd[1].clone(), 0, format!("h{}", i + 1)]); }
            else if nd[0] == "disc1" { *nd = json!(["disc1", nd[1].clone(), 0, format!("h{}", i + 1)]); }
            else if nd[0] == "witness" { *nd = json!(["witness", 0, 0]); }
        }
        let dag = drop_unreachable(&dag);
        let nodes = dag.as_array().unwrap();
        let n = nodes.len();
        if n > 70 { continue; }
        let mut uses = vec![0usize; n + 1];
        for nd in nodes { for c in [ju(&nd[1]), ju(&nd[2])] { if c != 0 { uses[c] += 1; } } }
        let shaped = ["ut", "id", "cp", "pr", "jl", "jr", "tk", "dp", "cs", "wit", "const", "jt"];
        let mut used = std::collections::HashSet::new();
        let user: Vec<J> = (1..=n).map(|i| {
            if i == n { return json!("main"); }
            if uses[i] == 1 && rng.chance(3, 5) { return json!(""); }
            for _ in 0..8 {
                let nm = if rng.chance(1, 4) { format!("{}{}", rng.pick(&shaped), rng.range(1, 6)) } else { format!("n{}", i) };
                if used.insert(nm.clone()) { return json!(nm); }
            }
            json!(format!("n{}", i))
        }).collect();
        let text = text_of(&dag, &json!(user));
        let forest = match guarded(|| Forest::parse::<Core>(&text)) {
            Ok(Ok(f)) => f,
            Ok(Err(_)) => { parse_errors += 1; continue; }
            Err(p) => { out.emit(&json!({"ev": "render", "src": text, "reparse": "parse-panic", "detail": p, "objs": [], "names": [], "ar": [], "toks": []})); continue; }
        };
        if forest.roots().len() != 1 || !forest.roots().contains_key("main") { continue; }
        out.emit(&render_event(&text, &forest));
        // the committed program, built through the construction API (not through the parser), named afresh
        let direct = guarded(|| types::Context::with_context(|ctx| {
            let mut built: Vec<CN> = vec![];
            for nd in nodes.iter() {
                let get = |k: usize| built[k - 1].clone();
                built.push(build_node(&ctx, Family::Core, nd, &get).ok()?);
            }
            built.last().unwrap().finalize_types().ok()
        })).ok().flatten();
        let commit = direct.unwrap_or_else(|| forest.roots()["main"].to_commit_node());
        let f2 = Forest::from_program(commit);
        out.emit(&render_event("", &f2));
        done += 1;
    }
    out.flush();
    eprintln!("c17 record: {} forests, {} attempts, {} generated texts did not parse", done, attempts, parse_errors);
}

/// parser totality, in-process: shallow random strings (token soup, mutated valid texts)
pub fn totality(runs: usize, path: &str) {
    let mut rng = Rng::from_env(170);
    let mut out = Out::file(path);
    let vocab = ["main", ":=", "comp", "pair", "case", "injl", "injr", "take", "drop", "unit", "iden", "witness", "const", "fail", "assertl", "assertr",
        "disconnect", "(", ")", "?", "#{", "}", ":", "->", "+", "*", "1", "2", "2^8", "2^3", "2^4294967296", "_", "0b01", "0x", "0xabc", "0b", "jet_add_8", "jet_nope",
        "#abcd1234abcd1234abcd1234abcd1234abcd1234abcd1234abcd1234abcd1234", "a", "b", "prim1", "\n", "--x\n", "\u{e9}", "\u{0}", "x'", "-.", "0xg", "0123abcdef0123abcdef0123abcdef0123"];
    let valid = ["a := unit\nmain := comp a a", "main := comp (pair (injl unit) unit) (case unit (fail 0x0123456789abcdef0123456789abcdef))",
        "w := witness : 1 -> 2^8?\nmain := comp w unit", "main := comp (disconnect (pair unit (take witness)) ?h) unit",
        "main := comp (pair (injl unit) unit) (assertl unit #{iden})", "x : 1 -> 1\nx := unit\nmain := x"];
    for k in 0..runs {
        let s: String = if k % 3 == 0 {
            (0..rng.range(0, 40)).map(|_| { let mut t = rng.pick(&vocab).to_string(); t.push(' '); t }).collect()
        } else if k % 3 == 1 {
            // mutate a valid text bytewise
            let mut b: Vec<u8> = rng.pick(&valid).as_bytes().to_vec();
            for _ in 0..rng.range(1, 4) {
                if b.is_empty() { break; }
                let i = rng.below(b.len());
                match rng.below(3) { 0 => { b.remove(i); } 1 => b[i] = rng.below(128) as u8, _ => b.insert(i, rng.below(128) as u8) }
            }
            String::from_utf8_lossy(&b).to_string()
        } else if k % 4 == 3 {
            // syntactically valid programs with random (mostly ill-typed) expressions: type errors at inner nodes, at named
            // definitions used by others and at the root must all come back as an error list
            fn expr(rng: &mut Rng, depth: usize, names: &[&str]) -> String {
                if depth == 0 || rng.chance(1, 4) {
                    return match rng.below(6) { 0 | 1 => "unit".into(), 2 => "iden".into(), 3 => "witness".into(), 4 => "const 0b1".into(),
                                                 _ => if names.is_empty() { "unit".into() } else { rng.pick(names).to_string() } };
                }
                match rng.below(8) {
                    0 => format!("injl ({})", expr(rng, depth - 1, names)),
                    1 => format!("injr ({})", expr(rng, depth - 1, names)),
                    2 => format!("take ({})", expr(rng, depth - 1, names)),
                    3 => format!("drop ({})", expr(rng, depth - 1, names)),
                    4 | 5 => format!("comp ({}) ({})", expr(rng, depth - 1, names), expr(rng, depth - 1, names)),
                    6 => format!("pair ({}) ({})", expr(rng, depth - 1, names), expr(rng, depth - 1, names)),
                    _ => format!("case ({}) ({})", expr(rng, depth - 1, names), expr(rng, depth - 1, names)),
                }
            }
            let mut text = String::new();
            let mut defined: Vec<&str> = vec![];
            for name in ["a", "b"] {
                if rng.bool() { text.push_str(&format!("{} := {}\n", name, expr(&mut rng, 3, &defined))); defined.push(name); }
            }
            text.push_str(&format!("main := {}\n", expr(&mut rng, 4, &defined)));
            text
        } else {
            // definitions referring to each other at random (cycles, missing and repeated names)
            let names = ["a", "b", "c", "main"];
            (0..rng.range(1, 6)).map(|_| format!("{} := {} {} {}\n", rng.pick(&names), rng.pick(&["comp", "pair", "case", "injl", "take", "disconnect", "assertl"]), rng.pick(&names), rng.pick(&["a", "b", "unit", "iden", "?h", "#{a}", "witness"]))).collect()
        };
        let base = crate::alloc::reset_peak();
        let t0 = std::time::Instant::now();
        let class = match guarded(|| Forest::parse::<Core>(&s)) {
            Err(p) => format!("panic: {}", p),
            Ok(Err(e)) => { let shown = guarded(|| e.to_string()); match shown { Ok(_) => "error".to_string(), Err(p) => format!("panic in Display: {}", p) } }
            Ok(Ok(f)) => match guarded(|| f.string_serialize()) { Ok(_) => "ok".to_string(), Err(p) => format!("panic in render: {}", p) },
        };
        let ms = t0.elapsed().as_millis() as u64;
        out.emit(&json!({"ev": "parse", "len": s.len(), "class": class, "ms": ms, "peak_kb": crate::alloc::peak_since(base) / 1024, "src": s}));
    }
    out.flush();
}

/// one input in its own process (deeply nested inputs can overflow the stack, which aborts)
pub fn parse1(path: &str) {
    let s = std::fs::read_to_string(path).unwrap();
    let class = match guarded(|| Forest::parse::<Core>(&s)) { Err(p) => format!("panic: {}", p), Ok(Err(_)) => "error".into(), Ok(Ok(_)) => "ok".to_string() };
    println!("{}", json!({"class": class}));
}

/// an expression of type T -> 1 whose source type inference can only solve as T (display-normal JSON type)
fn elim_text(t: &J) -> String {
    match t[0].as_str().unwrap() {
        "1" => "unit".to_string(),
        "w" => {
            let n = t[1].as_u64().unwrap();
            if n == 0 { elim_text(&json!(["+", ["1"], ["1"]])) } else { elim_text(&json!(["*", ["w", n - 1], ["w", n - 1]])) }
        }
        "+" => format!("comp (pair iden unit) (case (take ({})) (take ({})))", elim_text(&t[1]), elim_text(&t[2])),
        _ => format!("comp (pair (take ({})) (drop ({}))) unit", elim_text(&t[1]), elim_text(&t[2])),
    }
}

/// spec -> impl for the type syntax: for every type T the spec enumerated, the program `main := comp witness E_T`
/// (E_T : T -> 1 forces T) is parsed, the witness's target must be T, the rendering of its line must show T with
/// exactly the spec's tokens, and the rendering must read back.
pub fn types(path: &str) {
    let mut out = Out::stdout();
    for (k, case) in read_ndjson(path).iter().enumerate() {
        let text = format!("main := comp witness ({})", elim_text(&case["ty"]));
        let got = match guarded(|| Forest::parse::<Core>(&text)) {
            Err(p) => json!({"class": "parse-panic", "msg": p}),
            Ok(Err(e)) => json!({"class": "parse-error", "msg": e.to_string()}),
            Ok(Ok(f)) => {
                let mut r = roundtrip(&f);
                let main = &f.roots()["main"];
                let wit = main.left_child().expect("comp");
                r["ty_ok"] = json!(ty_hz(&wit.arrow().target) == case["ty"]);
                if let Ok(t) = guarded(|| f.string_serialize()) {
                    // the witness line: tokens after "->"
                    let line = tokens(&t, false).into_iter().find(|l| l.iter().any(|x| x == &json!(["p", "witness"])));
                    r["toks"] = match line { Some(l) => { let p = l.iter().position(|x| x == &json!(["p", "->"])).unwrap_or(0); json!(l[p + 1..].to_vec()) } None => json!([]) };
                }
                r
            }
        };
        out.emit(&json!({"k": k, "got": got}));
    }
}

pub fn probe(text: &str) {
    match Forest::parse::<Core>(text) {
        Err(e) => println!("PARSE ERROR: {}", e),
        Ok(f) => {
            println!("roots: {:?}", f.roots().keys().collect::<Vec<_>>());
            let t = f.string_serialize();
            println!("{}", t);
            println!("{}", roundtrip(&f));
        }
    }
}
