//! C03: validity, Merkle roots and cost agree with libsimplicity.
use crate::cffi::*;
use crate::codec::*;
use crate::tyval::*;
use crate::util::*;
use serde_json::{json, Value as J};
use simplicity::dag::{DagLike, InternalSharing};
use simplicity::jet::Elements;
use simplicity::node::{ConstructNode, Inner, RedeemNode};
use simplicity::types;
use simplicity::BitIter;

fn rust_side(pb: &[u8], wb: &[u8]) -> J {
    let r = guarded(|| RedeemNode::decode::<_, _, Elements>(BitIter::from(pb), BitIter::from(wb)));
    // does the described program contain a fail node?  (C refuses those by design)
    let has_fail = guarded(|| {
        types::Context::with_context(|ctx| match ConstructNode::decode::<_, Elements>(&ctx, BitIter::from(pb)) {
            Ok(c) => (&*c).post_order_iter::<InternalSharing>().any(|it| matches!(it.node.inner(), Inner::Fail(_))),
            Err(_) => false,
        })
    })
    .unwrap_or(false);
    match r {
        Err(p) => json!({"verdict": "panic", "msg": p, "has_fail": has_fail}),
        Ok(Err(e)) => json!({"verdict": "reject", "msg": e.to_string(), "has_fail": has_fail}),
        Ok(Ok(p)) => json!({"verdict": "accept", "cmr": p.cmr().to_string(), "amr": p.amr().to_string(), "ihr": p.ihr().to_string(),
                            "cost": p.bounds().cost.to_string().parse::<u64>().unwrap_or(u64::MAX), "has_fail": has_fail,
                            "n": (&*p).post_order_iter::<InternalSharing>().count()}),
    }
}
fn c_side(pb: &[u8], wb: &[u8]) -> J {
    let r = guarded(|| c_pipeline(pb, wb, None, None));
    match r {
        Err(p) => json!({"verdict": "panic", "msg": p}),
        Ok(c) => {
            let ok = c["err"] == 0 && c["stage"] == "typed" && c["one_one"] == true;
            let mut o = json!({"verdict": if ok { "accept" } else { "reject" }, "stage": c["stage"], "err": c["err"], "one_one": c.get("one_one").cloned().unwrap_or(json!(false))});
            if ok { for k in ["cmr", "amr", "ihr", "cost"] { o[k] = c[k].clone(); } }
            o
        }
    }
}
pub fn agree(pb: &[u8], wb: &[u8]) -> (J, J) {
    (rust_side(pb, wb), c_side(pb, wb))
}

pub fn replay(path: &str) {
    let mut out = Out::stdout();
    for (k, c) in read_ndjson(path).iter().enumerate() {
        let pb = bytes_from_bits(&jbits(&c["pb"]));
        let wb = bytes_from_bits(&jbits(&c["wb"]));
        let (r, cc) = agree(&pb, &wb);
        out.emit(&json!({"k": k, "got": {"rust": r, "c": cc}}));
    }
}

/// A program with one witness of exactly `n` bits whose type is pinned by the program itself (eq_* jets), so that
/// the C type checker infers the same type: main = comp witness (W1 x (W2 x ...) -> 1), widths from {256,64,32,16,8,1}.
pub fn witness_of_width(n: usize, rng: &mut Rng) -> (Vec<u8>, Vec<u8>) {
    use crate::prog::{elements_jet, CN};
    use simplicity::node::{CoreConstructible, JetConstructible, WitnessConstructible};
    use simplicity::types::Final;
    let mut parts: Vec<usize> = vec![];
    let mut rest = n;
    for w in [256usize, 64, 32, 16, 8, 1] { while rest >= w { parts.push(w); rest -= w; } }
    types::Context::with_context(|ctx| {
        let pin = |w: usize| -> CN {
            let i = CN::iden(&ctx);
            let both = CN::pair(&i, &i).unwrap();
            CN::comp(&both, &CN::jet(&ctx, &elements_jet(&format!("eq_{}", w)))).unwrap()
        };
        // body and type, built from the last component outwards
        let mut body: Option<CN> = None;
        let mut ty: Option<std::sync::Arc<Final>> = None;
        for w in parts.iter().rev() {
            let wt = Final::two_two_n(w.trailing_zeros() as usize).unwrap();
            match (body.take(), ty.take()) {
                (None, None) => { body = Some(CN::comp(&pin(*w), &CN::unit(&ctx)).unwrap()); ty = Some(wt); }
                (Some(b), Some(t)) => {
                    let p = CN::pair(&CN::take(&pin(*w)), &CN::drop_(&b)).unwrap();
                    body = Some(CN::comp(&p, &CN::unit(&ctx)).unwrap());
                    ty = Some(Final::product(wt, t));
                }
                _ => unreachable!(),
            }
        }
        let ty = ty.unwrap_or_else(Final::unit);
        let bits: Vec<bool> = (0..n).map(|_| rng.bool()).collect();
        let bytes = bytes_from_bits(&bits);
        let val = simplicity::Value::from_compact_bits(&mut BitIter::from(&bytes[..]), &ty).expect("witness value");
        let wit = CN::witness(&ctx, Some(val));
        let main = CN::comp(&wit, &body.unwrap_or_else(|| CN::unit(&ctx))).unwrap();
        let redeem = main.finalize_unpruned().expect("finalize");
        redeem.to_vec_with_witness()
    })
}

pub fn record(runs: usize, path: &str) {
    let mut rng = Rng::from_env(3);
    let mut out = Out::file(path);
    let tmp = format!("{}.pool", path);
    record_c01(runs / 3 + 10, &tmp);
    let mut pool: Vec<(Vec<u8>, Vec<u8>)> = vec![];
    for e in read_ndjson(&tmp) {
        if e["family"] != "elements" { continue; }
        if let (Some(pb), Some(wb)) = (e["rt"].get("pb"), e["rt"].get("wb")) {
            pool.push((bytes_from_bits(&jbits(pb)), bytes_from_bits(&jbits(wb))));
        }
    }
    let _ = std::fs::remove_file(&tmp);
    let mut id = 0;
    let mut emit = |out: &mut Out, pb: &[u8], wb: &[u8]| {
        id += 1;
        let (r, c) = agree(pb, wb);
        let bits = |b: &[u8]| bits_j(BitIter::from(b));
        out.emit(&json!({"ev": "rust", "id": id, "pb": bits(pb), "wb": bits(wb), "r": r}));
        out.emit(&json!({"ev": "c", "id": id, "r": c}));
    };
    // valid encodings as they are
    for (p, w) in pool.iter() { emit(&mut out, p, w); }
    // witnesses of every bit length around the block boundaries of the hashes that absorb them
    let step = if runs >= 20000 { 1 } else { 3 };
    for n in (0..=1100usize).filter(|n| n % step == 0 || (n % 512 >= 424 && n % 512 <= 460) || n % 512 <= 8 || n % 512 >= 500) {
        if let Ok((p, w)) = guarded(|| witness_of_width(n, &mut Rng::new(n as u64))) { emit(&mut out, &p, &w); }
    }
    // witnesses with sums of two different, equally wide types: the valid encoding and every single-bit change of its witness bytes
    for (k, (p, w)) in crate::codec::equal_width_encodings().into_iter().enumerate() {
        if runs < 2000 && k % 3 != (runs % 3) { continue; }
        emit(&mut out, &p, &w);
        for wb in crate::codec::single_bit_changes(&w) { emit(&mut out, &p, &wb); }
    }
    // mutations and random strings
    for k in 0..runs {
        let (pb, wb): (Vec<u8>, Vec<u8>) = if k % 4 == 0 || pool.is_empty() {
            ((0..rng.range(1, 24)).map(|_| rng.next_u64() as u8).collect(), (0..rng.below(5)).map(|_| rng.next_u64() as u8).collect())
        } else {
            let (mut p, mut w) = pool[rng.below(pool.len())].clone();
            match rng.below(6) {
                0 if !p.is_empty() => { let i = rng.below(p.len() * 8); p[i / 8] ^= 1 << (7 - i % 8); }
                1 if !w.is_empty() => { let i = rng.below(w.len() * 8); w[i / 8] ^= 1 << (7 - i % 8); }
                2 if !p.is_empty() => { p.truncate(rng.below(p.len()).max(1)); }
                3 => { p.push(0); }
                4 => { w.push(rng.next_u64() as u8); }
                _ => { if !w.is_empty() { w.pop(); } }
            }
            (p, w)
        };
        emit(&mut out, &pb, &wb);
    }
}
