//! Seeded type-directed generator of (mostly) well-typed Simplicity DAGs in the spec's JSON node form.
use crate::util::*;
use serde_json::{json, Value as J};
use std::collections::HashMap;

#[derive(Clone, PartialEq, Eq, Hash, Debug)]
pub enum Ty {
    Unit,
    Sum(Box<Ty>, Box<Ty>),
    Prod(Box<Ty>, Box<Ty>),
}
impl Ty {
    pub fn sum(a: Ty, b: Ty) -> Ty { Ty::Sum(Box::new(a), Box::new(b)) }
    pub fn prod(a: Ty, b: Ty) -> Ty { Ty::Prod(Box::new(a), Box::new(b)) }
    pub fn two() -> Ty { Ty::sum(Ty::Unit, Ty::Unit) }
    pub fn word(n: usize) -> Ty { if n == 0 { Ty::two() } else { Ty::prod(Ty::word(n - 1), Ty::word(n - 1)) } }
    pub fn width(&self) -> usize {
        match self { Ty::Unit => 0, Ty::Sum(a, b) => 1 + a.width().max(b.width()), Ty::Prod(a, b) => a.width() + b.width() }
    }
    pub fn size(&self) -> usize {
        match self { Ty::Unit => 1, Ty::Sum(a, b) | Ty::Prod(a, b) => 1 + a.size() + b.size() }
    }
    pub fn to_j(&self) -> J {
        match self { Ty::Unit => json!(["1"]), Ty::Sum(a, b) => json!(["+", a.to_j(), b.to_j()]), Ty::Prod(a, b) => json!(["*", a.to_j(), b.to_j()]) }
    }
    pub fn from_final(t: &simplicity::types::Final) -> Ty {
        use simplicity::types::CompleteBound;
        match t.bound() {
            CompleteBound::Unit => Ty::Unit,
            CompleteBound::Sum(a, b) => Ty::sum(Ty::from_final(a), Ty::from_final(b)),
            CompleteBound::Product(a, b) => Ty::prod(Ty::from_final(a), Ty::from_final(b)),
        }
    }
    /// random value tree of this type
    pub fn rand_val(&self, rng: &mut Rng) -> J {
        match self {
            Ty::Unit => json!(["u"]),
            Ty::Sum(a, b) => if rng.bool() { json!(["L", a.rand_val(rng)]) } else { json!(["R", b.rand_val(rng)]) },
            Ty::Prod(a, b) => json!(["P", a.rand_val(rng), b.rand_val(rng)]),
        }
    }
}

pub fn rand_small_ty(rng: &mut Rng, depth: usize) -> Ty {
    if depth == 0 || rng.chance(1, 4) {
        return match rng.below(6) { 0 | 1 | 2 => Ty::Unit, 3 | 4 => Ty::two(), _ => Ty::word(rng.range(1, 3)) };
    }
    let a = rand_small_ty(rng, depth - 1);
    let b = rand_small_ty(rng, depth - 1);
    if rng.bool() { Ty::sum(a, b) } else { Ty::prod(a, b) }
}

#[derive(Clone)]
pub struct JetSig { pub name: String, pub src: Ty, pub tgt: Ty }

pub struct Gen<'a> {
    pub rng: &'a mut Rng,
    pub nodes: Vec<J>,
    memo: HashMap<(Ty, Ty), Vec<usize>>,
    pub jets: &'a [JetSig],
    pub budget: usize,
    pub allow_fail: bool,
    pub allow_witness: bool,
    pub allow_disconnect: bool,
    pub allow_assert: bool,
    /// reuse witness nodes of the same intended type (shared witness objects)
    pub share_witness: bool,
    pub cmr_n: usize,
    atom: u64,
}

impl<'a> Gen<'a> {
    pub fn new(rng: &'a mut Rng, jets: &'a [JetSig], budget: usize) -> Self {
        Gen { rng, nodes: vec![], memo: HashMap::new(), jets, budget, allow_fail: false, allow_witness: true,
              allow_disconnect: true, allow_assert: true, share_witness: false, cmr_n: 8, atom: 0 }
    }
    fn push(&mut self, nd: J, key: Option<(Ty, Ty)>) -> usize {
        self.nodes.push(nd);
        let i = self.nodes.len();
        if let Some(k) = key { self.memo.entry(k).or_default().push(i); }
        i
    }
    /// an expression of type src -> tgt (as intended; principal types may be more general)
    pub fn expr(&mut self, src: &Ty, tgt: &Ty, depth: usize) -> usize {
        // reuse an existing node of the same intended type (creates sharing / diamonds)
        if let Some(v) = self.memo.get(&(src.clone(), tgt.clone())) {
            if !v.is_empty() && self.rng.chance(1, 3) { return v[self.rng.below(v.len())]; }
        }
        let key = Some((src.clone(), tgt.clone()));
        let out_of_budget = self.nodes.len() >= self.budget || depth == 0;
        let mut options: Vec<u8> = vec![];
        if *tgt == Ty::Unit { options.extend([0, 0, 0]); }
        if src == tgt { options.extend([1, 1, 1]); }
        if let Ty::Sum(..) = tgt { options.extend([2, 2]); }
        if let Ty::Prod(..) = tgt { options.extend([3, 3]); }
        if let Ty::Prod(a, _) = src {
            options.extend([4, 4]);
            if let Ty::Sum(..) = **a { options.extend([5, 5, 5]); if self.allow_assert { options.push(6); } }
        }
        if !out_of_budget {
            options.push(7); // comp
            if self.allow_disconnect { if let Ty::Prod(..) = tgt { options.push(8); } }
            if !self.jets.is_empty() { options.extend([9, 9]); }
            if let Ty::Prod(..) = src { } else if *src == Ty::Unit && tgt.width() > 0 && tgt.width().is_power_of_two() && *tgt == Ty::word(tgt.width().trailing_zeros() as usize) { options.extend([10, 10]); }
        }
        if self.allow_witness { options.push(11); if options.len() <= 2 { options.extend([11, 11]); } }
        if self.allow_fail && self.rng.chance(1, 30) { options.push(12); }
        if options.is_empty() {
            // no structural rule applies and witnesses are off: route through unit (1 is terminal) or fail hard
            options.push(13);
        }
        let d = depth.saturating_sub(1);
        loop {
            let o = options[self.rng.below(options.len())];
            match o {
                0 => return self.push(json!(["unit", 0, 0]), key),
                1 => return self.push(json!(["iden", 0, 0]), key),
                2 => if let Ty::Sum(a, b) = tgt {
                    let (a, b) = (a.clone(), b.clone());
                    return if self.rng.bool() { let c = self.expr(src, &a, d); self.push(json!(["injl", c, 0]), key) }
                           else { let c = self.expr(src, &b, d); self.push(json!(["injr", c, 0]), key) };
                },
                3 => if let Ty::Prod(a, b) = tgt {
                    let (a, b) = (a.clone(), b.clone());
                    let l = self.expr(src, &a, d); let r = self.expr(src, &b, d);
                    return self.push(json!(["pair", l, r]), key);
                },
                4 => if let Ty::Prod(a, b) = src {
                    let (a, b) = (a.clone(), b.clone());
                    return if self.rng.bool() { let c = self.expr(&a, tgt, d); self.push(json!(["take", c, 0]), key) }
                           else { let c = self.expr(&b, tgt, d); self.push(json!(["drop", c, 0]), key) };
                },
                5 | 6 => if let Ty::Prod(s, c) = src { if let Ty::Sum(a, b) = &**s {
                    let (a, b, c) = (a.clone(), b.clone(), c.clone());
                    let lt = Ty::prod(*a, *c.clone()); let rt = Ty::prod(*b, *c);
                    if o == 5 {
                        let l = self.expr(&lt, tgt, d); let r = self.expr(&rt, tgt, d);
                        return self.push(json!(["case", l, r]), key);
                    } else if self.rng.bool() {
                        let l = self.expr(&lt, tgt, d); self.atom += 1;
                        return self.push(json!(["assertl", l, 0, self.atom]), key);
                    } else {
                        let r = self.expr(&rt, tgt, d); self.atom += 1;
                        return self.push(json!(["assertr", r, 0, self.atom]), key);
                    }
                }},
                7 => {
                    let mid = rand_small_ty(self.rng, 2);
                    let l = self.expr(src, &mid, d); let r = self.expr(&mid, tgt, d);
                    return self.push(json!(["comp", l, r]), key);
                }
                8 => if let Ty::Prod(b, dd) = tgt {
                    // disconnect(s : 2^256 x A -> B x C, t : C -> D) : A -> B x D
                    let (b, dd) = (b.clone(), dd.clone());
                    let c = rand_small_ty(self.rng, 1);
                    let ls = Ty::prod(Ty::word(self.cmr_n), src.clone());
                    let lt = Ty::prod(*b, c.clone());
                    let l = self.expr(&ls, &lt, d);
                    if self.rng.chance(3, 4) { let r = self.expr(&c, &dd, d); return self.push(json!(["disc", l, r]), key); }
                    else { return self.push(json!(["disc1", l, 0]), key); }
                },
                9 => {
                    // a jet whose target is the wanted target if possible, fed by an expression producing its source
                    let cands: Vec<&JetSig> = self.jets.iter().filter(|j| j.tgt == *tgt).collect();
                    let j = if !cands.is_empty() && self.rng.chance(4, 5) { cands[self.rng.below(cands.len())].clone() }
                            else { self.jets[self.rng.below(self.jets.len())].clone() };
                    let jn = self.push(json!(["jet", 0, 0, j.name]), None);
                    let pre = if j.src == *src && self.rng.bool() { None } else { Some(self.expr(src, &j.src, d)) };
                    let mut cur = match pre { Some(p) => self.push(json!(["comp", p, jn]), None), None => jn };
                    if j.tgt != *tgt {
                        let post = self.expr(&j.tgt, tgt, d);
                        cur = self.push(json!(["comp", cur, post]), key.clone());
                    }
                    return cur;
                }
                10 => {
                    let bits: Vec<u8> = (0..tgt.width()).map(|_| self.rng.below(2) as u8).collect();
                    return self.push(json!(["word", 0, 0, bits]), key);
                }
                11 => {
                    let v = tgt.rand_val(self.rng);
                    let k = if self.share_witness { key } else { None };
                    return self.push(json!(["witness", 0, 0, [tgt.to_j(), v]]), k);
                }
                12 => { self.atom += 1; return self.push(json!(["fail", 0, 0, self.atom]), None); }
                13 => {
                    // comp(unit, <scribe of a value of tgt>) built from injl/injr/pair/unit
                    let v = tgt.rand_val(self.rng);
                    let u = self.push(json!(["unit", 0, 0]), None);
                    let s = self.scribe(&v, tgt);
                    return self.push(json!(["comp", u, s]), key);
                }
                _ => {}
            }
        }
    }
    /// 1 -> tgt expression producing value v
    fn scribe(&mut self, v: &J, t: &Ty) -> usize {
        match (v[0].as_str().unwrap(), t) {
            ("u", _) => self.push(json!(["unit", 0, 0]), None),
            ("L", Ty::Sum(a, _)) => { let c = self.scribe(&v[1], a); self.push(json!(["injl", c, 0]), None) }
            ("R", Ty::Sum(_, b)) => { let c = self.scribe(&v[1], b); self.push(json!(["injr", c, 0]), None) }
            ("P", Ty::Prod(a, b)) => { let l = self.scribe(&v[1], a); let r = self.scribe(&v[2], b); self.push(json!(["pair", l, r]), None) }
            _ => panic!("scribe shape"),
        }
    }
    /// make `root` the last node and drop unreachable nodes, renumbering children
    pub fn finish(&self, root: usize) -> J {
        let n = self.nodes.len();
        let mut reach = vec![false; n + 1];
        reach[root] = true;
        for i in (1..=n).rev() {
            if reach[i] {
                let l = ju(&self.nodes[i - 1][1]); let r = ju(&self.nodes[i - 1][2]);
                if l != 0 { reach[l] = true; }
                if r != 0 { reach[r] = true; }
            }
        }
        // root must be last: nodes after root are unreachable by construction order (children precede parents)
        let mut map = vec![0usize; n + 1];
        let mut out = vec![];
        for i in 1..=n {
            if reach[i] && i <= root {
                let mut nd = self.nodes[i - 1].clone();
                let l = ju(&nd[1]); let r = ju(&nd[2]);
                nd[1] = json!(map[l]); nd[2] = json!(map[r]);
                out.push(nd);
                map[i] = out.len();
            }
        }
        json!(out)
    }
}

/// nodes of an expression E_T : T -> 1 whose source type can only be inferred as T; returns its index (1-based)
pub fn elim_dag(nodes: &mut Vec<J>, t: &Ty) -> usize {
    let mut push = |nodes: &mut Vec<J>, nd: J| -> usize { nodes.push(nd); nodes.len() };
    match t {
        Ty::Unit => push(nodes, json!(["unit", 0, 0])),
        Ty::Sum(a, b) => {
            let i = push(nodes, json!(["iden", 0, 0]));
            let u = push(nodes, json!(["unit", 0, 0]));
            let p = push(nodes, json!(["pair", i, u]));
            let ea = elim_dag(nodes, a);
            let ta = push(nodes, json!(["take", ea, 0]));
            let eb = elim_dag(nodes, b);
            let tb = push(nodes, json!(["take", eb, 0]));
            let c = push(nodes, json!(["case", ta, tb]));
            push(nodes, json!(["comp", p, c]))
        }
        Ty::Prod(a, b) => {
            let ea = elim_dag(nodes, a);
            let ta = push(nodes, json!(["take", ea, 0]));
            let eb = elim_dag(nodes, b);
            let db = push(nodes, json!(["drop", eb, 0]));
            let p = push(nodes, json!(["pair", ta, db]));
            let u = push(nodes, json!(["unit", 0, 0]));
            push(nodes, json!(["comp", p, u]))
        }
    }
}
/// all types of depth <= d
pub fn tys_up_to(d: usize) -> Vec<Ty> {
    if d == 0 { return vec![Ty::Unit]; }
    let s = tys_up_to(d - 1);
    let mut out = s.clone();
    for a in &s { for b in &s { out.push(Ty::sum(a.clone(), b.clone())); out.push(Ty::prod(a.clone(), b.clone())); } }
    out
}
/// all values of a type (as the spec's trees), for small types
pub fn all_vals(t: &Ty) -> Vec<J> {
    match t {
        Ty::Unit => vec![json!(["u"])],
        Ty::Sum(a, b) => all_vals(a).into_iter().map(|v| json!(["L", v])).chain(all_vals(b).into_iter().map(|v| json!(["R", v]))).collect(),
        Ty::Prod(a, b) => { let (x, y) = (all_vals(a), all_vals(b)); x.iter().flat_map(|p| y.iter().map(move |q| json!(["P", p, q]))).collect() }
    }
}
/// sums of two different depth-2 types of equal bit width: the layouts in which padding of one arm meets none in the other
pub fn equal_width_sums() -> Vec<Ty> {
    fn has_padding(t: &Ty) -> bool {
        match t { Ty::Unit => false, Ty::Sum(a, b) => a.width() != b.width() || has_padding(a) || has_padding(b), Ty::Prod(a, b) => has_padding(a) || has_padding(b) }
    }
    let mut s = tys_up_to(2);
    s.dedup();
    let mut uniq: Vec<Ty> = vec![];
    for t in s { if !uniq.contains(&t) { uniq.push(t); } }
    let (mut first, mut rest) = (vec![], vec![]);
    for a in &uniq { for b in &uniq {
        if a != b && a.width() == b.width() && a.width() > 0 {
            // one arm padded, the other not: first in line
            if has_padding(a) != has_padding(b) { first.push(Ty::sum(a.clone(), b.clone())); } else { rest.push(Ty::sum(a.clone(), b.clone())); }
        }
    } }
    first.extend(rest);
    first
}
/// every (type, value) pair over `equal_width_sums`, in that order
pub fn equal_width_cases() -> Vec<(Ty, J)> {
    equal_width_sums().into_iter().flat_map(|t| { let vs = all_vals(&t); vs.into_iter().map(move |v| (t.clone(), v)) }).collect()
}
/// main := comp (pair w1 w2) (comp (pair (take E_T) (drop E_U)) unit): two witnesses whose types the program forces
pub fn typed_witness_pair(t: &Ty, u: &Ty) -> J {
    let mut nodes: Vec<J> = vec![json!(["witness", 0, 0]), json!(["witness", 0, 0]), json!(["pair", 1, 2])];
    let et = elim_dag(&mut nodes, t);
    nodes.push(json!(["take", et, 0])); let tt = nodes.len();
    let eu = elim_dag(&mut nodes, u);
    nodes.push(json!(["drop", eu, 0])); let du = nodes.len();
    nodes.push(json!(["pair", tt, du])); let p = nodes.len();
    nodes.push(json!(["unit", 0, 0])); let un = nodes.len();
    nodes.push(json!(["comp", p, un])); let body = nodes.len();
    nodes.push(json!(["comp", 3, body]));
    json!(nodes)
}

pub fn jet_sigs_core() -> Vec<JetSig> {
    use simplicity::jet::{Core, Jet};
    Core::ALL.iter().map(|j| JetSig { name: j.to_string(), src: Ty::from_final(&j.source_ty().to_final()), tgt: Ty::from_final(&j.target_ty().to_final()) }).collect()
}
pub fn jet_sigs_elements() -> Vec<JetSig> {
    use simplicity::jet::{Elements, Jet};
    Elements::ALL.iter().map(|j| JetSig { name: j.to_string(), src: Ty::from_final(&j.source_ty().to_final()), tgt: Ty::from_final(&j.target_ty().to_final()) }).collect()
}

/// a random topological order of the nodes (children before parents)
pub fn rand_topo(rng: &mut Rng, dag: &J) -> Vec<usize> {
    let nodes = dag.as_array().unwrap();
    let n = nodes.len();
    let mut done = vec![false; n + 1];
    let mut order = vec![];
    while order.len() < n {
        let ready: Vec<usize> = (1..=n).filter(|&i| !done[i] && {
            let l = ju(&nodes[i - 1][1]); let r = ju(&nodes[i - 1][2]);
            (l == 0 || done[l]) && (r == 0 || done[r])
        }).collect();
        let pick = ready[rng.below(ready.len())];
        done[pick] = true;
        order.push(pick);
    }
    order
}
