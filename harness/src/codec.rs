//! C01 / C02: the program codec driven through the public encoders and decoders.
use crate::prog::*;
use crate::tyval::*;
use crate::util::*;
use serde_json::{json, Value as J};
use simplicity::dag::{DagLike, InternalSharing};
use simplicity::jet::{Core, Elements, Jet};
use simplicity::node::{CommitNode, ConstructNode, Inner, RedeemNode};
use simplicity::types;
use simplicity::BitIter;
use std::sync::Arc;
use std::time::Instant;

fn measured<T, F: FnOnce() -> T>(f: F) -> (Result<T, String>, usize, u64) {
    let base = crate::alloc::reset_peak();
    let t = Instant::now();
    let r = guarded(f);
    (r, crate::alloc::peak_since(base), t.elapsed().as_millis() as u64)
}

fn redeem_info(p: &Arc<RedeemNode>) -> J {
    let mut nodes = vec![];
    for it in (&**p).post_order_iter::<InternalSharing>() {
        let n = it.node;
        // a witness value as it is attached to the node: its compact bits, its own type and its padded bits
        let wit = if let Inner::Witness(v) = n.inner() { json!([bits_j(v.iter_compact()), ty_cz(v.ty()), bits_j(v.iter_padded())]) } else { J::Null };
        nodes.push(json!({"cmr": n.cmr().to_string(), "ihr": n.ihr().to_string(), "amr": n.amr().to_string(),
                          "arrow": [ty_cz(&n.arrow().source), ty_cz(&n.arrow().target)], "wit": wit}));
    }
    json!(nodes)
}

/// decode with one decoder; report outcome class, re-encoding equality, allocation and time
fn one_redeem<JT: Jet>(pb: &[u8], wb: &[u8]) -> J {
    let (r, peak, ms) = measured(|| RedeemNode::decode::<_, _, JT>(BitIter::from(pb), BitIter::from(wb)));
    match r {
        Err(p) => json!({"out": "panic", "msg": p, "peak": peak, "ms": ms}),
        Ok(Err(e)) => json!({"out": "err", "msg": e.to_string(), "peak": peak, "ms": ms}),
        Ok(Ok(prog)) => {
            let enc = guarded(|| prog.to_vec_with_witness());
            match enc {
                Err(p) => json!({"out": "ok", "reenc": "panic", "msg": p, "peak": peak, "ms": ms}),
                Ok((p2, w2)) => json!({"out": "ok", "reenc_prog": p2 == pb, "reenc_wit": w2 == wb, "peak": peak, "ms": ms,
                                       "cmr": prog.cmr().to_string(), "n": redeem_info(&prog).as_array().unwrap().len()}),
            }
        }
    }
}
fn one_commit<JT: Jet>(pb: &[u8]) -> J {
    let (r, peak, ms) = measured(|| CommitNode::decode::<_, JT>(BitIter::from(pb)));
    match r {
        Err(p) => json!({"out": "panic", "msg": p, "peak": peak, "ms": ms}),
        Ok(Err(e)) => json!({"out": "err", "msg": e.to_string(), "peak": peak, "ms": ms}),
        Ok(Ok(prog)) => {
            // does the input attach a branch to a disconnect?  (the commit decoder accepts and discards it)
            let attached = types::Context::with_context(|ctx| {
                match ConstructNode::decode::<_, JT>(&ctx, BitIter::from(pb)) {
                    Ok(c) => (&*c).post_order_iter::<InternalSharing>().any(|it| matches!(it.node.inner(), Inner::Disconnect(_, Some(_)))),
                    Err(_) => false,
                }
            });
            let enc = guarded(|| prog.to_vec_without_witness());
            match enc {
                Err(p) => json!({"out": "ok", "reenc": "panic", "msg": p, "peak": peak, "ms": ms, "attached": attached}),
                Ok(p2) => json!({"out": "ok", "reenc_prog": p2 == pb, "peak": peak, "ms": ms, "attached": attached, "cmr": prog.cmr().to_string()}),
            }
        }
    }
}
fn one_construct<JT: Jet>(pb: &[u8]) -> J {
    let (r, peak, ms) = measured(|| {
        types::Context::with_context(|ctx| ConstructNode::decode::<_, JT>(&ctx, BitIter::from(pb)).map(|c| c.cmr().to_string()).map_err(|e| e.to_string()))
    });
    match r {
        Err(p) => json!({"out": "panic", "msg": p, "peak": peak, "ms": ms}),
        Ok(Err(e)) => json!({"out": "err", "msg": e, "peak": peak, "ms": ms}),
        Ok(Ok(cmr)) => json!({"out": "ok", "cmr": cmr, "peak": peak, "ms": ms}),
    }
}

pub fn decode_all(pb: &[u8], wb: &[u8]) -> J {
    json!({
        "redeem_core": one_redeem::<Core>(pb, wb),
        "redeem_elements": one_redeem::<Elements>(pb, wb),
        "commit_core": one_commit::<Core>(pb),
        "commit_elements": one_commit::<Elements>(pb),
        "construct_core": one_construct::<Core>(pb),
    })
}

/// C02 spec -> impl: TLC-made inputs (byte strings, hand-assembled node lists)
pub fn replay_c02(path: &str) {
    let mut out = Out::stdout();
    for (k, c) in read_ndjson(path).iter().enumerate() {
        let pb = bytes_from_bits(&jbits(&c["pb"]));
        let wb = bytes_from_bits(&jbits(&c["wb"]));
        out.emit(&json!({"k": k, "got": decode_all(&pb, &wb)}));
    }
}

/// C01 spec -> impl: build the program (distinct objects per spec node), encode, decode, compare, re-encode
pub fn replay_c01(path: &str) {
    let mut out = Out::stdout();
    for (k, c) in read_ndjson(path).iter().enumerate() {
        let got = guarded(|| {
            types::Context::with_context(|ctx| {
                let nodes = c["dag"].as_array().unwrap();
                let mut built: Vec<CN> = vec![];
                for (i, nd) in nodes.iter().enumerate() {
                    let op = nd[0].as_str().unwrap();
                    let nd2 = match op {
                        "witness" => json!(["witness", 0, 0, [c["ty"][i][1], c["wit"][i]]]),
                        "word" => json!(["word", 0, 0, nd[4]]),
                        "leaf" => json!(["jetA", 0, 0]),
                        _ => nd.clone(),
                    };
                    let get = |j: usize| built[j - 1].clone();
                    match build_node(&ctx, Family::Core, &nd2, &get) {
                        Ok(n) => built.push(n),
                        Err(e) => return json!({"build_err": format!("node {}: {}", i + 1, e)}),
                    }
                }
                let root = built.last().unwrap().clone();
                if let Err(e) = root.set_arrow_to_program() { return json!({"build_err": format!("program arrow: {}", e)}); }
                let mut rec = json!({});
                // redemption time
                match root.finalize_unpruned() {
                    Err(e) => { rec["redeem"] = json!({"finalize_err": e.to_string()}); }
                    Ok(p) => {
                        let (pb, wb) = p.to_vec_with_witness();
                        let dec = RedeemNode::decode::<_, _, Core>(BitIter::from(&pb[..]), BitIter::from(&wb[..]));
                        rec["redeem"] = match dec {
                            Err(e) => json!({"decode_err": e.to_string(), "pb": bits_j(BitIter::from(&pb[..])), "wb": bits_j(BitIter::from(&wb[..]))}),
                            Ok(d) => {
                                let (pb2, wb2) = d.to_vec_with_witness();
                                // the decoded program against the original: same multiset of node data, same root
                                let mut a = redeem_info(&p).as_array().unwrap().iter().map(|x| x.to_string()).collect::<Vec<_>>();
                                let mut b = redeem_info(&d).as_array().unwrap().iter().map(|x| x.to_string()).collect::<Vec<_>>();
                                a.sort(); a.dedup(); b.sort(); b.dedup();
                                json!({"ok": true, "same_bytes": pb == pb2 && wb == wb2, "same_nodes": a == b,
                                       "same_root": p.cmr() == d.cmr() && p.ihr() == d.ihr() && p.amr() == d.amr() && p.arrow() == d.arrow(),
                                       "pb": bits_j(BitIter::from(&pb[..])), "wb": bits_j(BitIter::from(&wb[..]))})
                            }
                        };
                    }
                }
                // commitment time (sub-expressions with witness / disconnect must occur once: the spec's population)
                match root.finalize_types() {
                    Err(e) => { rec["commit"] = json!({"finalize_err": e.to_string()}); }
                    Ok(cm) => {
                        let cb = cm.to_vec_without_witness();
                        rec["commit"] = match CommitNode::decode::<_, Core>(BitIter::from(&cb[..])) {
                            Err(e) => json!({"decode_err": e.to_string(), "cb": bits_j(BitIter::from(&cb[..]))}),
                            Ok(d) => json!({"ok": true, "same_bytes": d.to_vec_without_witness() == cb, "same_root": d.cmr() == cm.cmr() && d.arrow() == cm.arrow(),
                                            "cb": bits_j(BitIter::from(&cb[..]))}),
                        };
                    }
                }
                rec
            })
        })
        .unwrap_or_else(|p| json!({"panic": p}));
        out.emit(&json!({"k": k, "got": got}));
    }
}

// ---------------------------------------------------------------- impl -> spec
use crate::c05::{build_typed, val_cz};
use crate::gen::*;

fn bits_of_bytes(b: &[u8]) -> J {
    bits_j(BitIter::from(b))
}

/// program-level description for the spec (payload bits for assertions / fail / words, code bits for jets)
pub fn describe_prog(p: &RedeemNode) -> (J, J, J) {
    let mut dag = vec![];
    let mut ty = vec![];
    let mut wit = vec![];
    for it in p.post_order_iter::<InternalSharing>() {
        let n = it.node;
        let l = it.left_index.map(|x| x + 1).unwrap_or(0);
        let r = it.right_index.map(|x| x + 1).unwrap_or(0);
        let a = n.arrow();
        ty.push(json!([ty_cz(&a.source), ty_cz(&a.target)]));
        let mut w = json!(["u"]);
        let bits256 = |c: &simplicity::Cmr| -> J { bits_of_bytes(c.as_ref()) };
        let nd = match n.inner() {
            Inner::Iden => json!(["iden", 0, 0, []]),
            Inner::Unit => json!(["unit", 0, 0, []]),
            Inner::InjL(_) => json!(["injl", l, 0, []]),
            Inner::InjR(_) => json!(["injr", l, 0, []]),
            Inner::Take(_) => json!(["take", l, 0, []]),
            Inner::Drop(_) => json!(["drop", l, 0, []]),
            Inner::Comp(..) => json!(["comp", l, r, []]),
            Inner::Case(..) => json!(["case", l, r, []]),
            Inner::Pair(..) => json!(["pair", l, r, []]),
            Inner::AssertL(_, c) => json!(["assertl", l, 0, bits256(c)]),
            Inner::AssertR(c, _) => json!(["assertr", l, 0, bits256(c)]),
            Inner::Disconnect(..) => json!(["disc", l, r, []]),
            Inner::Witness(v) => { w = val_cz(&v.as_ref(), &a.target); json!(["witness", 0, 0, []]) }
            Inner::Fail(e) => json!(["fail", 0, 0, bits_of_bytes(e.as_ref())]),
            Inner::Jet(j) => {
                let mut code: Vec<u8> = vec![];
                let nb = {
                    let mut sink: &mut dyn std::io::Write = &mut code;
                    let mut w = simplicity::BitWriter::new(&mut sink as &mut dyn std::io::Write);
                    let nb = j.encode(&mut w).unwrap();
                    w.flush_all().unwrap();
                    nb
                };
                json!(["leaf", 0, 0, [ty_cz(&a.source), ty_cz(&a.target)], "jet", bits_j(BitIter::from(&code[..]).take(nb)), j.to_string()])
            }
            Inner::Word(wd) => {
                w = val_cz(&wd.as_value().as_ref(), &a.target);
                json!(["word", 0, 0, [ty_cz(&a.source), ty_cz(&a.target)], bits_j(word_bits_by_accessors(&wd.as_value().as_ref()))])
            }
        };
        dag.push(nd);
        wit.push(w);
    }
    (json!(dag), json!(ty), json!(wit))
}

fn round_trip<JT: Jet>(p: &Arc<RedeemNode>) -> J {
    let (pb, wb) = p.to_vec_with_witness();
    let dec = guarded(|| RedeemNode::decode::<_, _, JT>(BitIter::from(&pb[..]), BitIter::from(&wb[..])));
    let mut rec = json!({"pb": bits_of_bytes(&pb), "wb": bits_of_bytes(&wb)});
    match dec {
        Err(pn) => { rec["redeem"] = json!({"res": "panic", "msg": pn}); }
        Ok(Err(e)) => { rec["redeem"] = json!({"res": "err", "msg": e.to_string()}); }
        Ok(Ok(d)) => {
            let (pb2, wb2) = d.to_vec_with_witness();
            let mut a = redeem_info(p).as_array().unwrap().iter().map(|x| x.to_string()).collect::<Vec<_>>();
            let mut b = redeem_info(&d).as_array().unwrap().iter().map(|x| x.to_string()).collect::<Vec<_>>();
            a.sort(); a.dedup(); b.sort(); b.dedup();
            rec["redeem"] = json!({"res": "ok", "same_bytes": pb == pb2 && wb == wb2, "same_nodes": a == b,
                                   "same_root": p.cmr() == d.cmr() && p.ihr() == d.ihr() && p.amr() == d.amr() && p.arrow() == d.arrow()});
        }
    }
    rec
}

/// C01 record: generated 1 -> 1 programs of both jet families, some pruned (hidden branches), round-tripped
pub fn record_c01(runs: usize, path: &str) {
    let mut rng = Rng::from_env(1);
    let mut out = Out::file(path);
    let core: Vec<JetSig> = jet_sigs_core().into_iter().filter(|j| j.src.size() <= 600 && j.tgt.size() <= 600).collect();
    let elems: Vec<JetSig> = jet_sigs_elements().into_iter().filter(|j| j.src.size() <= 600 && j.tgt.size() <= 600).collect();
    let mut done = 0;
    let mut attempts = 0;
    while done < runs && attempts < runs * 40 {
        attempts += 1;
        let fam = if attempts % 2 == 0 { Family::Core } else { Family::Elements };
        let jets = if fam == Family::Core { &core } else { &elems };
        let budget = rng.range(4, 60);
        let use_jets = rng.chance(2, 3);
        let empty: Vec<JetSig> = vec![];
        let dag = {
            let mut g = Gen::new(&mut rng, if use_jets { jets } else { &empty }, budget);
            g.allow_fail = attempts % 5 == 0;
            g.share_witness = attempts % 3 == 0;
            let root = g.expr(&Ty::Unit, &Ty::Unit, 8);
            g.finish(root)
        };
        // every fourth program: two witnesses whose (small, sum-rich) types are forced by the program, so that compact
        // witness values of every type shape are followed by further data in the stream
        // (half of them cycle through the sums of two different equal-width types with every value of theirs)
        let mut fixed_w1: Option<J> = None;
        let dag = if attempts % 4 == 1 {
            let k = attempts / 4;
            if k % 2 == 0 {
                let cases = equal_width_cases();
                let (t, v) = &cases[(k / 2) % cases.len()];
                fixed_w1 = Some(v.clone());
                typed_witness_pair(t, &Ty::word(1))
            } else { typed_witness_pair(&rand_small_ty(&mut rng, 3), &Ty::word(rng.below(4))) }
        } else { dag };
        // the first program is fixed: two copies of `injl unit` under a disconnect whose attached branch forces the type of
        // the second one (comp (disconnect (drop (pair (injl unit) (injl unit))) t) unit) -- commitment-time serialisation
        // of a program whose types depend on a branch that is not serialised
        let dag = if attempts == 1 {
            json!([["unit", 0, 0], ["injl", 1, 0], ["unit", 0, 0], ["injl", 3, 0], ["pair", 2, 4], ["drop", 5, 0],
                   ["iden", 0, 0], ["unit", 0, 0], ["pair", 7, 8], ["unit", 0, 0], ["case", 10, 10], ["comp", 9, 11],
                   ["take", 12, 0], ["unit", 0, 0], ["case", 14, 13], ["iden", 0, 0], ["unit", 0, 0], ["pair", 16, 17], ["comp", 18, 15],
                   ["disc", 6, 19], ["unit", 0, 0], ["comp", 20, 21]])
        } else { dag };
        let n = dag.as_array().unwrap().len();
        let mut ty = vec![J::Null; n];
        ty[n - 1] = json!([["1"], ["1"]]);
        let aux0 = json!(vec![json!(["none"]); n]);
        let learned: Option<Vec<J>> = guarded(|| {
            types::Context::with_context(|ctx| {
                let (_, _, built) = build_typed(&ctx, fam, &dag, &json!(ty), &aux0).ok()?;
                Some(built.iter().map(|b| { let a = b.arrow().finalize().unwrap(); json!([ty_j(&a.source), ty_j(&a.target)]) }).collect())
            })
        }).ok().flatten();
        let Some(full_ty) = learned else { continue };
        let mut auxv = vec![json!(["u"]); n];
        for (i, nd) in dag.as_array().unwrap().iter().enumerate() {
            if nd[0] == "witness" { auxv[i] = Ty::from_final(&ty_of(&full_ty[i][1])).rand_val(&mut rng); }
        }
        if let Some(v) = fixed_w1 { auxv[0] = v; }
        let prune_it = attempts != 1 && rng.chance(1, 3);
        let ev = guarded(|| {
            types::Context::with_context(|ctx| {
                let (mut redeem, _, built) = match build_typed(&ctx, fam, &dag, &json!(full_ty), &json!(auxv)) { Ok(x) => x, Err(_) => return J::Null };
                // commitment time: the same construction finalised to a CommitNode, serialised, decoded, re-encoded
                let commit_rt = match built.last().unwrap().finalize_types() {
                    Err(e) => json!({"out": "finalize_err", "msg": e.to_string()}),
                    Ok(cm) => {
                        let cb = cm.to_vec_without_witness();
                        let mut r = if fam == Family::Core { one_commit::<Core>(&cb) } else { one_commit::<Elements>(&cb) };
                        r["cb"] = bits_of_bytes(&cb);
                        r["same_cmr"] = json!(r.get("cmr").and_then(|c| c.as_str()) == Some(cm.cmr().to_string().as_str()));
                        r
                    }
                };
                let cdag = dag.clone();
                if prune_it {
                    // hidden branches come from pruning
                    let pruned = if fam == Family::Core { redeem.prune(&simplicity::jet::CoreEnv::new()) } else { redeem.prune(&crate::env::dummy()) };
                    match pruned { Ok(p) => redeem = p, Err(_) => return J::Null }
                }
                let (sdag, sty, swit) = describe_prog(&redeem);
                if sdag.as_array().unwrap().len() > 130 { return J::Null; }
                let rt = if fam == Family::Core { round_trip::<Core>(&redeem) } else { round_trip::<Elements>(&redeem) };
                let cdec = commit_rt;
                json!({"ev": "c01", "family": if fam == Family::Core { "core" } else { "elements" }, "pruned": prune_it,
                       "dag": sdag, "ty": sty, "wit": swit, "rt": rt, "commit": cdec, "cdag": cdag, "has_jets": sdag.as_array().unwrap().iter().any(|x| x[0] == "leaf")})
            })
        });
        match ev {
            Ok(J::Null) => {}
            Ok(e) => { out.emit(&e); done += 1; }
            Err(p) => { out.emit(&json!({"ev": "c01", "rt": {"redeem": {"res": "panic", "msg": p}}, "dag": dag})); done += 1; }
        }
    }
}

/// C02 record: random byte strings and mutations (bit flips, truncation, extension) of valid encodings
pub fn record_c02(runs: usize, path: &str) {
    let mut rng = Rng::from_env(2);
    let mut out = Out::file(path);
    // a pool of valid encodings from the C01 generator
    let tmp = format!("{}.pool", path);
    record_c01(40, &tmp);
    let mut pool: Vec<(Vec<u8>, Vec<u8>)> = vec![];
    for e in read_ndjson(&tmp) {
        if let (Some(pb), Some(wb)) = (e["rt"].get("pb"), e["rt"].get("wb")) {
            pool.push((bytes_from_bits(&jbits(pb)), bytes_from_bits(&jbits(wb))));
        }
    }
    let _ = std::fs::remove_file(&tmp);
    // one canonicity rule broken at a time on valid Elements programs (the re-encoding clause judges them)
    let (mut made, mut dups) = (0, 0);
    for attempt in 0..(runs * 30) {
        if pool.is_empty() || (made >= runs / 3 && dups >= runs / 12) { break; }
        let force_dup = dups < runs / 12 && attempt % 2 == 0;
        if !force_dup && made >= runs / 3 { continue; }
        let (p, w) = pool[rng.below(pool.len())].clone();
        let Ok(r) = RedeemNode::decode::<_, _, simplicity::jet::Elements>(BitIter::from(&p[..]), BitIter::from(&w[..])) else { continue };
        // compact widths of the witnesses in stream order = encoding order
        let widths: Vec<usize> = { use simplicity::dag::MaxSharing; (&*r).post_order_iter::<MaxSharing<simplicity::node::Redeem>>().filter_map(|it| if let Inner::Witness(v) = it.node.inner() { Some(v.compact_len()) } else { None }).collect() };
        if let Some((what, pb, wb)) = structural_mutation(&mut rng, &p, &w, &widths, force_dup) {
            out.emit(&json!({"ev": "decode", "pb": bits_of_bytes(&pb), "wb": bits_of_bytes(&wb), "nbytes": pb.len() + wb.len(), "mutation": what, "got": decode_all(&pb, &wb)}));
            if force_dup { dups += 1; } else { made += 1; }
        }
    }
    // witnesses with sums of two different, equally wide types: the valid encoding and every single-bit change of its witness bytes
    for (k, (pb, w)) in equal_width_encodings().into_iter().enumerate() {
        if runs < 2000 && k % 3 != (runs % 3) { continue; }          // the quick tier takes a third of them (which third depends on the run count)
        for wb in std::iter::once(w.clone()).chain(single_bit_changes(&w)) {
            out.emit(&json!({"ev": "decode", "pb": bits_of_bytes(&pb), "wb": bits_of_bytes(&wb), "nbytes": pb.len() + wb.len(), "mutation": "witness-bit", "got": decode_all(&pb, &wb)}));
        }
    }
    for k in 0..runs {
        let (pb, wb): (Vec<u8>, Vec<u8>) = if k % 3 == 0 || pool.is_empty() {
            let n = rng.range(1, 40);
            ((0..n).map(|_| rng.next_u64() as u8).collect(), (0..rng.below(6)).map(|_| rng.next_u64() as u8).collect())
        } else {
            let (mut p, mut w) = pool[rng.below(pool.len())].clone();
            for _ in 0..rng.range(1, 3) {
                match rng.below(6) {
                    0 if !p.is_empty() => { let i = rng.below(p.len() * 8); p[i / 8] ^= 1 << (7 - i % 8); }
                    1 if !w.is_empty() => { let i = rng.below(w.len() * 8); w[i / 8] ^= 1 << (7 - i % 8); }
                    2 if !p.is_empty() => { p.truncate(rng.below(p.len()).max(1)); }
                    3 => { p.push(if rng.bool() { 0 } else { rng.next_u64() as u8 }); }
                    4 => { w.push(if rng.bool() { 0 } else { rng.next_u64() as u8 }); }
                    _ => { if !w.is_empty() { w.pop(); } }
                }
            }
            (p, w)
        };
        out.emit(&json!({"ev": "decode", "pb": bits_of_bytes(&pb), "wb": bits_of_bytes(&wb), "nbytes": pb.len() + wb.len(), "got": decode_all(&pb, &wb)}));
    }
}

// ---------------------------------------------------------------- structural mutations of valid encodings
/// one entry of an encoded node list: the code bits in front of the back references, the back references
/// (distances, 1-based as encoded), and the payload bits after them
#[derive(Clone)]
struct LEntry { head: Vec<bool>, refs: Vec<usize>, tail: Vec<bool>, is_witness: bool, is_hidden: bool }

fn nat_bits(n: usize) -> Vec<bool> {
    let mut buf: Vec<u8> = vec![];
    let nb = { let mut w = simplicity::BitWriter::new(&mut buf); let nb = simplicity::encode_natural(n, &mut w).unwrap(); w.flush_all().unwrap(); nb };
    BitIter::from(&buf[..]).take(nb).collect()
}
/// parse a (valid, Elements family) program encoding into its entries
fn parse_list(pb: &[u8]) -> Option<Vec<LEntry>> {
    let mut it = BitIter::from(pb);
    let len = it.read_natural::<usize>(None).ok()?;
    let mut out = vec![];
    let mut bit = |it: &mut BitIter<_>| -> Option<bool> { it.next() };
    for i in 0..len {
        let b0 = bit(&mut it)?;
        let mut e = LEntry { head: vec![b0], refs: vec![], tail: vec![], is_witness: false, is_hidden: false };
        if b0 {
            let b1 = bit(&mut it)?; e.head.push(b1);
            if b1 {
                // jet: let the crate find the end of the code
                let before = it.n_total_read();
                let mut probe = it.clone();
                simplicity::jet::Elements::decode(&mut probe).ok()?;
                let n = probe.n_total_read() - before;
                for _ in 0..n { e.tail.push(bit(&mut it)?); }
            } else {
                let n = it.read_natural::<usize>(Some(32)).ok()?;
                e.tail.extend(nat_bits(n));
                for _ in 0..(1usize << (n - 1)) { e.tail.push(bit(&mut it)?); }
            }
        } else {
            let (b1, b2) = (bit(&mut it)?, bit(&mut it)?); e.head.extend([b1, b2]);
            if b1 && b2 {
                let b3 = bit(&mut it)?; e.head.push(b3);
                if b3 { e.is_witness = true; } else { e.is_hidden = true; for _ in 0..256 { e.tail.push(bit(&mut it)?); } }
            } else {
                let (b3, b4) = (bit(&mut it)?, bit(&mut it)?); e.head.extend([b3, b4]);
                let nrefs = match (b1, b2) { (false, false) => 2, (false, true) => 1, _ => if b3 && b4 { 1 } else { 0 } };
                for _ in 0..nrefs { e.refs.push(it.read_natural::<usize>(Some(i.max(1))).ok()?); }
                if b1 && !b2 && b3 && !b4 { for _ in 0..512 { e.tail.push(bit(&mut it)?); } }   // fail entropy
            }
        }
        out.push(e);
    }
    Some(out)
}
fn serialize_list(l: &[LEntry]) -> Vec<u8> {
    let mut bits = nat_bits(l.len());
    for e in l { bits.extend(&e.head); for r in &e.refs { bits.extend(nat_bits(*r)); } bits.extend(&e.tail); }
    bytes_from_bits(&bits)
}
/// absolute child indices (0-based) of entry i
fn abs_refs(l: &[LEntry], i: usize) -> Vec<usize> { l[i].refs.iter().map(|d| i - d).collect() }
fn set_abs(l: &mut [LEntry], i: usize, k: usize, child: usize) { l[i].refs[k] = i - child; }

/// One canonicity rule broken at a time, starting from a valid program (program bytes, witness bytes, compact
/// widths of the witnesses in stream order).  Returns (what, program, witness).
fn structural_mutation(rng: &mut Rng, pb: &[u8], wb: &[u8], wit_widths: &[usize], force_dup: bool) -> Option<(String, Vec<u8>, Vec<u8>)> {
    let l = parse_list(pb)?;
    if serialize_list(&l) != pb { return None; }            // the parser must reproduce the input exactly
    let n = l.len();
    let wbits: Vec<bool> = BitIter::from(wb).collect();
    match if force_dup { 0 } else { [0usize, 1, 2, 3, 3][rng.below(5)] } {
        // an entry written twice, one later reference redirected to the copy (witness entries: the value is repeated too)
        0 => {
            let users: Vec<(usize, usize, usize)> = (0..n).flat_map(|i| abs_refs(&l, i).into_iter().enumerate().map(move |(k, c)| (i, k, c)).collect::<Vec<_>>()).collect();
            if users.is_empty() { return None; }
            let wusers: Vec<(usize, usize, usize)> = users.iter().copied().filter(|u| l[u.2].is_witness).collect();
            let (ui, uk, c) = if !wusers.is_empty() && rng.bool() { wusers[rng.below(wusers.len())] } else { users[rng.below(users.len())] };
            // copy entry c to position c + 1
            let mut m: Vec<LEntry> = vec![];
            let mut children: Vec<Vec<usize>> = (0..n).map(|i| abs_refs(&l, i)).collect();
            for ch in children.iter_mut() { for x in ch.iter_mut() { if *x > c { *x += 1; } } }
            for i in 0..n {
                m.push(l[i].clone());
                if i == c { m.push(l[c].clone()); }
            }
            // rewrite references with the new numbering; the chosen user points to the copy
            let newpos = |i: usize| if i > c { i + 1 } else { i };
            for i in 0..n {
                let ni = newpos(i);
                for k in 0..children[i].len() {
                    let mut child = children[i][k];
                    if i == ui && k == uk { child = c + 1; }
                    if child >= ni { return None; }
                    set_abs(&mut m, ni, k, child);
                }
            }
            let copy_children: Vec<usize> = abs_refs(&l, c);
            for (k, ch) in copy_children.iter().enumerate() { set_abs(&mut m, c + 1, k, *ch); }
            // put the list into canonical (post-order from the root) order again, so that only the sharing rule is broken
            let m = {
                let nn = m.len();
                let ch: Vec<Vec<usize>> = (0..nn).map(|i| abs_refs(&m, i)).collect();
                let mut order: Vec<usize> = vec![];
                let mut seen = vec![false; nn];
                let mut stack: Vec<(usize, usize)> = vec![(nn - 1, 0)];
                while let Some((node, k)) = stack.pop() {
                    if k == 0 && seen[node] { continue; }
                    if k < ch[node].len() { stack.push((node, k + 1)); if !seen[ch[node][k]] { stack.push((ch[node][k], 0)); } }
                    else if !seen[node] { seen[node] = true; order.push(node); }
                }
                if order.len() != nn { return None; }
                let mut pos = vec![0usize; nn];
                for (p, o) in order.iter().enumerate() { pos[*o] = p; }
                let mut out: Vec<LEntry> = order.iter().map(|o| m[*o].clone()).collect();
                for (p, o) in order.iter().enumerate() { for (k, c0) in ch[*o].iter().enumerate() { if pos[*c0] >= p { return None; } set_abs(&mut out, p, k, pos[*c0]); } }
                // the witness stream follows the entry order: only handled when the witness order did not change
                let worder_old: Vec<usize> = (0..nn).filter(|i| m[*i].is_witness).collect();
                let worder_new: Vec<usize> = order.iter().copied().filter(|i| m[*i].is_witness).collect();
                if worder_old != worder_new { return None; }
                out
            };
            // witness stream: repeat the value of a duplicated witness entry right after the original
            let mut w2 = wbits.clone();
            if l[c].is_witness {
                let order: Vec<usize> = (0..n).filter(|i| l[*i].is_witness).collect();
                let pos = order.iter().position(|i| *i == c)?;
                let start: usize = wit_widths[..pos].iter().sum();
                let width = *wit_widths.get(pos)?;
                let val: Vec<bool> = wbits.get(start..start + width)?.to_vec();
                let total: usize = wit_widths.iter().sum();
                w2 = wbits[..start + width].to_vec(); w2.extend(val); w2.extend(&wbits[start + width..total]);
            }
            Some((format!("duplicate entry {}{}", c, if l[c].is_witness { " (witness, same value)" } else if l[c].is_hidden { " (hidden)" } else { "" }), serialize_list(&m), bytes_from_bits(&w2)))
        }
        // two adjacent entries that do not refer to each other, swapped
        1 => {
            let cands: Vec<usize> = (0..n.saturating_sub(1)).filter(|i| !abs_refs(&l, i + 1).contains(i) && !l[*i].is_witness && !l[i + 1].is_witness).collect();
            if cands.is_empty() { return None; }
            let i = cands[rng.below(cands.len())];
            let children: Vec<Vec<usize>> = (0..n).map(|k| abs_refs(&l, k)).collect();
            let map = |x: usize| if x == i { i + 1 } else if x == i + 1 { i } else { x };
            let mut m = l.clone();
            m.swap(i, i + 1);
            for k in 0..n {
                let nk = map(k);
                for (j, ch) in children[k].iter().enumerate() { let c = map(*ch); if c >= nk { return None; } set_abs(&mut m, nk, j, c); }
            }
            Some((format!("swap entries {} and {}", i, i + 1), serialize_list(&m), wb.to_vec()))
        }
        // an entry nobody uses, before the root
        2 => {
            let mut m = l.clone();
            let extra = LEntry { head: vec![false, true, false, false, true], refs: vec![], tail: vec![], is_witness: false, is_hidden: false }; // unit
            let children: Vec<Vec<usize>> = (0..n).map(|k| abs_refs(&l, k)).collect();
            m.insert(n - 1, extra);
            for (j, ch) in children[n - 1].iter().enumerate() { set_abs(&mut m, n, j, *ch); }
            Some(("unused entry".to_string(), serialize_list(&m), wb.to_vec()))
        }
        // a stray bit in the padding, or a trailing zero byte, of program or witness
        _ => {
            let nbits = { let mut b = nat_bits(l.len()); for e in &l { b.extend(&e.head); for r in &e.refs { b.extend(nat_bits(*r)); } b.extend(&e.tail); } b.len() };
            let mut p = pb.to_vec();
            let mut w = wb.to_vec();
            match rng.below(3) {
                0 if nbits % 8 != 0 => { let last = p.len() - 1; p[last] |= 1; Some(("program padding bit".to_string(), p, w)) }
                1 => { w.push(0); Some(("trailing witness byte".to_string(), p, w)) }
                _ => { p.push(0); Some(("trailing program byte".to_string(), p, w)) }
            }
        }
    }
}

/// Valid Elements encodings whose first witness has a sum of two different, equally wide types somewhere in its type
/// (`equal_width_cases`: every such type with every value of it), followed by a second, one-bit witness: the witness
/// stream of such a program is where an error in the padding bookkeeping of sums shows.  Used by C02 and C03, which
/// also offer every single-bit change of the witness bytes.
pub fn equal_width_encodings() -> Vec<(Vec<u8>, Vec<u8>)> {
    let mut out = vec![];
    for (k, (t, v)) in equal_width_cases().into_iter().enumerate() {
        let dag = typed_witness_pair(&t, &Ty::word(1));
        let n = dag.as_array().unwrap().len();
        let mut ty = vec![J::Null; n];
        ty[n - 1] = json!([["1"], ["1"]]);
        let aux0 = json!(vec![json!(["none"]); n]);
        let r = guarded(|| {
            types::Context::with_context(|ctx| {
                let (_, _, built) = build_typed(&ctx, Family::Elements, &dag, &json!(ty), &aux0).ok()?;
                let full_ty: Vec<J> = built.iter().map(|b| { let a = b.arrow().finalize().unwrap(); json!([ty_j(&a.source), ty_j(&a.target)]) }).collect();
                let mut auxv = vec![json!(["u"]); n];
                auxv[0] = v.clone();
                auxv[1] = json!(["P", if k % 2 == 0 { json!(["L", ["u"]]) } else { json!(["R", ["u"]]) }, if k % 3 == 0 { json!(["L", ["u"]]) } else { json!(["R", ["u"]]) }]);
                let (redeem, _, _) = build_typed(&ctx, Family::Elements, &dag, &json!(full_ty), &json!(auxv)).ok()?;
                Some(redeem.to_vec_with_witness())
            })
        });
        if let Ok(Some(pw)) = r { out.push(pw); }
    }
    out
}
/// the witness bytes with each single bit changed
pub fn single_bit_changes(w: &[u8]) -> Vec<Vec<u8>> {
    (0..w.len() * 8).map(|i| { let mut x = w.to_vec(); x[i / 8] ^= 1 << (7 - i % 8); x }).collect()
}

/// probe: build a construction DAG (Core, JSON file), finalise its types to a CommitNode, serialise it and decode the bytes
pub fn commit_probe(path: &str) {
    let dag: J = serde_json::from_str(&std::fs::read_to_string(path).unwrap()).unwrap();
    let n = dag.as_array().unwrap().len();
    let ty = json!(vec![J::Null; n]);
    let aux = json!(vec![json!(["none"]); n]);
    types::Context::with_context(|ctx| {
        let (_, _, built) = build_typed(&ctx, Family::Core, &dag, &ty, &aux).expect("builds");
        let cm = built.last().unwrap().finalize_types().expect("well-typed");
        for it in (&*cm).post_order_iter::<InternalSharing>() {
            println!("  {:3} {:<40} ihr {}", it.index, format!("{}", it.node.arrow()), it.node.ihr().map(|x| x.to_string()).unwrap_or("-".into()));
        }
        let bytes = cm.to_vec_without_witness();
        println!("commit program: cmr {} bytes {}", cm.cmr(), crate::c15::hex(&bytes));
        match CommitNode::decode::<_, Core>(BitIter::from(&bytes[..])) {
            Ok(d) => println!("decodes: cmr {} same {}", d.cmr(), d.cmr() == cm.cmr()),
            Err(e) => println!("DECODE ERROR: {}", e),
        }
    });
}

/// impl -> spec for Display.tla (not a listed property; bin/spec-extras): generated jet-free, word-free Core programs with their
/// bytes, the crate's base64 / hex / DisplayExpr strings, and the result of parsing the two strings back.
pub fn record_display(runs: usize, path: &str) {
    let mut rng = Rng::from_env(101);
    let mut out = Out::file(path);
    let empty: Vec<JetSig> = vec![];
    let mut done = 0;
    let mut attempts = 0;
    while done < runs && attempts < runs * 60 {
        attempts += 1;
        let budget = rng.range(6, 40);
        let dag = {
            let mut g = Gen::new(&mut rng, &empty, budget);
            g.allow_fail = attempts % 5 == 0;
            let root = g.expr(&Ty::Unit, &Ty::Unit, 8);
            g.finish(root)
        };
        if dag.as_array().unwrap().iter().any(|nd| nd[0] == "word" || nd[0] == "jet") { continue; }
        let n = dag.as_array().unwrap().len();
        if n < 3 && attempts % 50 != 0 { continue; }
        let mut ty = vec![J::Null; n];
        ty[n - 1] = json!([["1"], ["1"]]);
        let aux0 = json!(vec![json!(["none"]); n]);
        let ev = guarded(|| {
            types::Context::with_context(|ctx| {
                let (_, _, built) = build_typed(&ctx, Family::Core, &dag, &json!(ty), &aux0).ok()?;
                let full_ty: Vec<J> = built.iter().map(|b| { let a = b.arrow().finalize().unwrap(); json!([ty_j(&a.source), ty_j(&a.target)]) }).collect();
                let mut auxv = vec![json!(["u"]); n];
                for (i, nd) in dag.as_array().unwrap().iter().enumerate() {
                    if nd[0] == "witness" { auxv[i] = Ty::from_final(&ty_of(&full_ty[i][1])).rand_val(&mut rng); }
                }
                let (redeem, _, _) = build_typed(&ctx, Family::Core, &dag, &json!(full_ty), &json!(auxv)).ok()?;
                let (sdag, _, _) = describe_prog(&redeem);
                if sdag.as_array().unwrap().len() > 60 { return None; }
                let (pb, wb) = redeem.to_vec_with_witness();
                let disp = redeem.display();
                let (b64, hx) = (disp.program().to_string(), disp.witness().to_string());
                let expr = redeem.display_expr().to_string();
                let back = match RedeemNode::from_str::<Core>(&b64, &hx) {
                    Ok(r) => if r.cmr() == redeem.cmr() && r.ihr() == redeem.ihr() && r.to_vec_with_witness() == (pb.clone(), wb.clone()) { "same".to_string() } else { "differs".to_string() },
                    Err(e) => format!("error: {}", e),
                };
                let short: Vec<J> = sdag.as_array().unwrap().iter().map(|nd| json!([nd[0], nd[1], nd[2]])).collect();
                Some(json!({"ev": "display", "dag": short, "pb": bits_of_bytes(&pb), "wb": bits_of_bytes(&wb), "b64": b64, "wit_hex": hx, "expr": expr, "from_str": back}))
            })
        });
        match ev {
            Ok(Some(e)) => { out.emit(&e); done += 1; }
            Ok(None) => {}
            Err(p) => { out.emit(&json!({"ev": "display", "dag": [], "pb": [], "wb": [], "b64": "", "wit_hex": "", "expr": "", "from_str": format!("panic: {}", p)})); done += 1; }
        }
    }
}

/// Transliterate the three non-ASCII signs the crate's Display texts use (Display.tla speaks ASCII); a text that already
/// contains one of the replacements would make the transliteration ambiguous and is reported as such.
fn ascii_text(s: &str) -> String {
    if s.contains(" * ") || s.contains("->") || s.contains('E') { return format!("ambiguous: {}", s); }
    s.replace('\u{d7}', "*").replace('\u{2192}', "->").replace('\u{3b5}', "E")
}

/// impl -> spec for the text forms of Display.tla (not a listed property; bin/spec-extras): random types, values, arrows,
/// words (constructed directly and taken out of a larger value at an unaligned offset) and Merkle roots with their Display
/// texts, and FromStr of the root text.
pub fn record_text(runs: usize, path: &str) {
    use std::str::FromStr;
    let mut rng = Rng::from_env(102);
    let mut out = Out::file(path);
    for k in 0..runs {
        let ev = guarded(|| {
            let t = match k % 6 { 0 => Ty::word(rng.range(0, 7)), 1 => Ty::sum(Ty::Unit, rand_small_ty(&mut rng, 2)), _ => rand_small_ty(&mut rng, 3) };
            let t2 = rand_small_ty(&mut rng, 2);
            let (ft, ft2) = (ty_of(&t.to_j()), ty_of(&t2.to_j()));
            let vj = t.rand_val(&mut rng);
            let v = val_of(&vj, &ft);
            let arrow = simplicity::types::arrow::FinalArrow { source: ft.clone(), target: ft2.clone() };
            // a word: every third directly from bits, the others as the second half of (2^a x 2^(2^n)) with a in {1, 2, 4}: a view
            // into the parent's buffer at a bit offset that is no multiple of eight
            let n = rng.range(0, 7);
            let wt = Ty::word(n);
            let wj = wt.rand_val(&mut rng);
            let word = if k % 3 == 0 {
                val_of(&wj, &ty_of(&wt.to_j())).to_word().unwrap()
            } else {
                let lead = Ty::word(rng.range(0, 3));
                let pt = Ty::prod(lead.clone(), wt.clone());
                let pv = val_of(&json!(["P", lead.rand_val(&mut rng), wj.clone()]), &ty_of(&pt.to_j()));
                let w = pv.as_ref().as_product().unwrap().1.to_word().unwrap();
                w
            };
            let expect_bits: Vec<bool> = val_of(&wj, &ty_of(&wt.to_j())).iter_compact().collect();
            let word_bits: Vec<bool> = word.iter().collect();
            let cmr = simplicity::Cmr::from_byte_array({ let mut b = [0u8; 32]; for x in b.iter_mut() { *x = rng.below(256) as u8; } b });
            let cmr_text = cmr.to_string();
            let cmr_back = match simplicity::Cmr::from_str(&cmr_text) { Ok(c) if c == cmr => "same".to_string(), Ok(_) => "differs".to_string(), Err(e) => format!("error: {}", e) };
            json!({"ev": "text", "ty": t.to_j(), "ty2": t2.to_j(), "val": vj, "ty_text": ascii_text(&ft.to_string()), "val_text": ascii_text(&v.to_string()),
                   "arrow_text": ascii_text(&arrow.to_string()), "wbits": bits_j(expect_bits), "word_iter_ok": word_bits == val_of(&wj, &ty_of(&wt.to_j())).iter_compact().collect::<Vec<bool>>(),
                   "word_text": word.to_string(), "cmr_bits": bits_of_bytes(cmr.as_ref()), "cmr_text": cmr_text, "cmr_back": cmr_back})
        });
        match ev {
            Ok(e) => out.emit(&e),
            Err(p) => out.emit(&json!({"ev": "text", "ty": ["1"], "ty2": ["1"], "val": ["u"], "ty_text": format!("panic: {}", p), "val_text": "", "arrow_text": "", "wbits": [], "word_iter_ok": false, "word_text": "", "cmr_bits": [], "cmr_text": "", "cmr_back": ""})),
        }
    }
}
