//! C01 / C02: the program codec driven through the public encoders and decoders.
use crate::prog::*;
use crate::tyval::*;
use crate::util::*;
use serde_json::{json, Value as J};
use simplicity::dag::{DagLike, InternalSharing};
use simplicity::jet::{Core, Elements, Jet};
use simplicity::node::{CommitNode, ConstructNode, Inner, RedeemNode};
use simplicity::types;
use simplicity::BitIter;
use std::sync::Arc;
use std::time::Instant;

fn measured<T, F: FnOnce() -> T>(f: F) -> (Result<T, String>, usize, u64) {
    let base = crate::alloc::reset_peak();
    let t = Instant::now();
    let r = guarded(f);
    (r, crate::alloc::peak_since(base), t.elapsed().as_millis() as u64)
}

fn redeem_info(p: &Arc<RedeemNode>) -> J {
    let mut nodes = vec![];
    for it in (&**p).post_order_iter::<InternalSharing>() {
        let n = it.node;
        let wit = if let Inner::Witness(v) = n.inner() { bits_j(v.iter_compact()) } else { J::Null };
        nodes.push(json!({"cmr": n.cmr().to_string(), "ihr": n.ihr().to_string(), "amr": n.amr().to_string(),
                          "arrow": [ty_cz(&n.arrow().source), ty_cz(&n.arrow().target)], "wit": wit}));
    }
    json!(nodes)
}

/// decode with one decoder; report outcome class, re-encoding equality, allocation and time
fn one_redeem<JT: Jet>(pb: &[u8], wb: &[u8]) -> J {
    let (r, peak, ms) = measured(|| RedeemNode::decode::<_, _, JT>(BitIter::from(pb), BitIter::from(wb)));
    match r {
        Err(p) => json!({"out": "panic", "msg": p, "peak": peak, "ms": ms}),
        Ok(Err(e)) => json!({"out": "err", "msg": e.to_string(), "peak": peak, "ms": ms}),
        Ok(Ok(prog)) => {
            let enc = guarded(|| prog.to_vec_with_witness());
            match enc {
                Err(p) => json!({"out": "ok", "reenc": "panic", "msg": p, "peak": peak, "ms": ms}),
                Ok((p2, w2)) => json!({"out": "ok", "reenc_prog": p2 == pb, "reenc_wit": w2 == wb, "peak": peak, "ms": ms,
                                       "cmr": prog.cmr().to_string(), "n": redeem_info(&prog).as_array().unwrap().len()}),
            }
        }
    }
}
fn one_commit<JT: Jet>(pb: &[u8]) -> J {
    let (r, peak, ms) = measured(|| CommitNode::decode::<_, JT>(BitIter::from(pb)));
    match r {
        Err(p) => json!({"out": "panic", "msg": p, "peak": peak, "ms": ms}),
        Ok(Err(e)) => json!({"out": "err", "msg": e.to_string(), "peak": peak, "ms": ms}),
        Ok(Ok(prog)) => {
            // does the input attach a branch to a disconnect?  (the commit decoder accepts and discards it)
            let attached = types::Context::with_context(|ctx| {
                match ConstructNode::decode::<_, JT>(&ctx, BitIter::from(pb)) {
                    Ok(c) => (&*c).post_order_iter::<InternalSharing>().any(|it| matches!(it.node.inner(), Inner::Disconnect(_, Some(_)))),
                    Err(_) => false,
                }
            });
            let enc = guarded(|| prog.to_vec_without_witness());
            match enc {
                Err(p) => json!({"out": "ok", "reenc": "panic", "msg": p, "peak": peak, "ms": ms, "attached": attached}),
                Ok(p2) => json!({"out": "ok", "reenc_prog": p2 == pb, "peak": peak, "ms": ms, "attached": attached, "cmr": prog.cmr().to_string()}),
            }
        }
    }
}
fn one_construct<JT: Jet>(pb: &[u8]) -> J {
    let (r, peak, ms) = measured(|| {
        types::Context::with_context(|ctx| ConstructNode::decode::<_, JT>(&ctx, BitIter::from(pb)).map(|c| c.cmr().to_string()).map_err(|e| e.to_string()))
    });
    match r {
        Err(p) => json!({"out": "panic", "msg": p, "peak": peak, "ms": ms}),
        Ok(Err(e)) => json!({"out": "err", "msg": e, "peak": peak, "ms": ms}),
        Ok(Ok(cmr)) => json!({"out": "ok", "cmr": cmr, "peak": peak, "ms": ms}),
    }
}

pub fn decode_all(pb: &[u8], wb: &[u8]) -> J {
    json!({
        "redeem_core": one_redeem::<Core>(pb, wb),
        "redeem_elements": one_redeem::<Elements>(pb, wb),
        "commit_core": one_commit::<Core>(pb),
        "commit_elements": one_commit::<Elements>(pb),
        "construct_core": one_construct::<Core>(pb),
    })
}

/// C02 spec -> impl: TLC-made inputs (byte strings, hand-assembled node lists)
pub fn replay_c02(path: &str) {
    let mut out = Out::stdout();
    for (k, c) in read_ndjson(path).iter().enumerate() {
        let pb = bytes_from_bits(&jbits(&c["pb"]));
        let wb = bytes_from_bits(&jbits(&c["wb"]));
        out.emit(&json!({"k": k, "got": decode_all(&pb, &wb)}));
    }
}

/// C01 spec -> impl: build the program (distinct objects per spec node), encode, decode, compare, re-encode
pub fn replay_c01(path: &str) {
    let mut out = Out::stdout();
    for (k, c) in read_ndjson(path).iter().enumerate() {
        let got = guarded(|| {
            types::Context::with_context(|ctx| {
                let nodes = c["dag"].as_array().unwrap();
                let mut built: Vec<CN> = vec![];
                for (i, nd) in nodes.iter().enumerate() {
                    let op = nd[0].as_str().unwrap();
                    let nd2 = match op {
                        "witness" => json!(["witness", 0, 0, [c["ty"][i][1], c["wit"][i]]]),
                        "word" => json!(["word", 0, 0, nd[4]]),
                        "leaf" => json!(["jetA", 0, 0]),
                        _ => nd.clone(),
                    };
                    let get = |j: usize| built[j - 1].clone();
                    match build_node(&ctx, Family::Core, &nd2, &get) {
                        Ok(n) => built.push(n),
                        Err(e) => return json!({"build_err": format!("node {}: {}", i + 1, e)}),
                    }
                }
                let root = built.last().unwrap().clone();
                if let Err(e) = root.set_arrow_to_program() { return json!({"build_err": format!("program arrow: {}", e)}); }
                let mut rec = json!({});
                // redemption time
                match root.finalize_unpruned() {
                    Err(e) => { rec["redeem"] = json!({"finalize_err": e.to_string()}); }
                    Ok(p) => {
                        let (pb, wb) = p.to_vec_with_witness();
                        let dec = RedeemNode::decode::<_, _, Core>(BitIter::from(&pb[..]), BitIter::from(&wb[..]));
                        rec["redeem"] = match dec {
                            Err(e) => json!({"decode_err": e.to_string(), "pb": bits_j(BitIter::from(&pb[..])), "wb": bits_j(BitIter::from(&wb[..]))}),
                            Ok(d) => {
                                let (pb2, wb2) = d.to_vec_with_witness();
                                // the decoded program against the original: same multiset of node data, same root
                                let mut a = redeem_info(&p).as_array().unwrap().iter().map(|x| x.to_string()).collect::<Vec<_>>();
                                let mut b = redeem_info(&d).as_array().unwrap().iter().map(|x| x.to_string()).collect::<Vec<_>>();
                                a.sort(); a.dedup(); b.sort(); b.dedup();
                                json!({"ok": true, "same_bytes": pb == pb2 && wb == wb2, "same_nodes": a == b,
                                       "same_root": p.cmr() == d.cmr() && p.ihr() == d.ihr() && p.amr() == d.amr() && p.arrow() == d.arrow(),
                                       "pb": bits_j(BitIter::from(&pb[..])), "wb": bits_j(BitIter::from(&wb[..]))})
                            }
                        };
                    }
                }
                // commitment time (sub-expressions with witness / disconnect must occur once: the spec's population)
                match root.finalize_types() {
                    Err(e) => { rec["commit"] = json!({"finalize_err": e.to_string()}); }
                    Ok(cm) => {
                        let cb = cm.to_vec_without_witness();
                        rec["commit"] = match CommitNode::decode::<_, Core>(BitIter::from(&cb[..])) {
                            Err(e) => json!({"decode_err": e.to_string(), "cb": bits_j(BitIter::from(&cb[..]))}),
                            Ok(d) => json!({"ok": true, "same_bytes": d.to_vec_without_witness() == cb, "same_root": d.cmr() == cm.cmr() && d.arrow() == cm.arrow(),
                                            "cb": bits_j(BitIter::from(&cb[..]))}),
                        };
                    }
                }
                rec
            })
        })
        .unwrap_or_else(|p| json!({"panic": p}));
        out.emit(&json!({"k": k, "got": got}));
    }
}

// ---------------------------------------------------------------- impl -> spec
use crate::c05::{build_typed, val_cz};
use crate::gen::*;

fn bits_of_bytes(b: &[u8]) -> J {
    bits_j(BitIter::from(b))
}

/// program-level description for the spec (payload bits for assertions / fail / words, code bits for jets)
pub fn describe_prog(p: &RedeemNode) -> (J, J, J) {
    let mut dag = vec![];
    let mut ty = vec![];
    let mut wit = vec![];
    for it in p.post_order_iter::<InternalSharing>() {
        let n = it.node;
        let l = it.left_index.map(|x| x + 1).unwrap_or(0);
        let r = it.right_index.map(|x| x + 1).unwrap_or(0);
        let a = n.arrow();
        ty.push(json!([ty_cz(&a.source), ty_cz(&a.target)]));
        let mut w = json!(["u"]);
        let bits256 = |c: &simplicity::Cmr| -> J { bits_of_bytes(c.as_ref()) };
        let nd = match n.inner() {
            Inner::Iden => json!(["iden", 0, 0, []]),
            Inner::Unit => json!(["unit", 0, 0, []]),
            Inner::InjL(_) => json!(["injl", l, 0, []]),
            Inner::InjR(_) => json!(["injr", l, 0, []]),
            Inner::Take(_) => json!(["take", l, 0, []]),
            Inner::Drop(_) => json!(["drop", l, 0, []]),
            Inner::Comp(..) => json!(["comp", l, r, []]),
            Inner::Case(..) => json!(["case", l, r, []]),
            Inner::Pair(..) => json!(["pair", l, r, []]),
            Inner::AssertL(_, c) => json!(["assertl", l, 0, bits256(c)]),
            Inner::AssertR(c, _) => json!(["assertr", l, 0, bits256(c)]),
            Inner::Disconnect(..) => json!(["disc", l, r, []]),
            Inner::Witness(v) => { w = val_cz(&v.as_ref(), &a.target); json!(["witness", 0, 0, []]) }
            Inner::Fail(e) => json!(["fail", 0, 0, bits_of_bytes(e.as_ref())]),
            Inner::Jet(j) => {
                let mut code: Vec<u8> = vec![];
                let nb = {
                    let mut sink: &mut dyn std::io::Write = &mut code;
                    let mut w = simplicity::BitWriter::new(&mut sink as &mut dyn std::io::Write);
                    let nb = j.encode(&mut w).unwrap();
                    w.flush_all().unwrap();
                    nb
                };
                json!(["leaf", 0, 0, [ty_cz(&a.source), ty_cz(&a.target)], "jet", bits_j(BitIter::from(&code[..]).take(nb)), j.to_string()])
            }
            Inner::Word(wd) => {
                w = val_cz(&wd.as_value().as_ref(), &a.target);
                json!(["word", 0, 0, [ty_cz(&a.source), ty_cz(&a.target)], bits_j(wd.iter())])
            }
        };
        dag.push(nd);
        wit.push(w);
    }
    (json!(dag), json!(ty), json!(wit))
}

fn round_trip<JT: Jet>(p: &Arc<RedeemNode>) -> J {
    let (pb, wb) = p.to_vec_with_witness();
    let dec = guarded(|| RedeemNode::decode::<_, _, JT>(BitIter::from(&pb[..]), BitIter::from(&wb[..])));
    let mut rec = json!({"pb": bits_of_bytes(&pb), "wb": bits_of_bytes(&wb)});
    match dec {
        Err(pn) => { rec["redeem"] = json!({"res": "panic", "msg": pn}); }
        Ok(Err(e)) => { rec["redeem"] = json!({"res": "err", "msg": e.to_string()}); }
        Ok(Ok(d)) => {
            let (pb2, wb2) = d.to_vec_with_witness();
            let mut a = redeem_info(p).as_array().unwrap().iter().map(|x| x.to_string()).collect::<Vec<_>>();
            let mut b = redeem_info(&d).as_array().unwrap().iter().map(|x| x.to_string()).collect::<Vec<_>>();
            a.sort(); a.dedup(); b.sort(); b.dedup();
            rec["redeem"] = json!({"res": "ok", "same_bytes": pb == pb2 && wb == wb2, "same_nodes": a == b,
                                   "same_root": p.cmr() == d.cmr() && p.ihr() == d.ihr() && p.amr() == d.amr() && p.arrow() == d.arrow()});
        }
    }
    rec
}

/// C01 record: generated 1 -> 1 programs of both jet families, some pruned (hidden branches), round-tripped
pub fn record_c01(runs: usize, path: &str) {
    let mut rng = Rng::from_env(1);
    let mut out = Out::file(path);
    let core: Vec<JetSig> = jet_sigs_core().into_iter().filter(|j| j.src.size() <= 600 && j.tgt.size() <= 600).collect();
    let elems: Vec<JetSig> = jet_sigs_elements().into_iter().filter(|j| j.src.size() <= 600 && j.tgt.size() <= 600).collect();
    let mut done = 0;
    let mut attempts = 0;
    while done < runs && attempts < runs * 40 {
        attempts += 1;
        let fam = if attempts % 2 == 0 { Family::Core } else { Family::Elements };
        let jets = if fam == Family::Core { &core } else { &elems };
        let budget = rng.range(4, 60);
        let use_jets = rng.chance(2, 3);
        let empty: Vec<JetSig> = vec![];
        let dag = {
            let mut g = Gen::new(&mut rng, if use_jets { jets } else { &empty }, budget);
            g.allow_fail = attempts % 5 == 0;
            let root = g.expr(&Ty::Unit, &Ty::Unit, 8);
            g.finish(root)
        };
        let n = dag.as_array().unwrap().len();
        let mut ty = vec![J::Null; n];
        ty[n - 1] = json!([["1"], ["1"]]);
        let aux0 = json!(vec![json!(["none"]); n]);
        let learned: Option<Vec<J>> = guarded(|| {
            types::Context::with_context(|ctx| {
                let (_, _, built) = build_typed(&ctx, fam, &dag, &json!(ty), &aux0).ok()?;
                Some(built.iter().map(|b| { let a = b.arrow().finalize().unwrap(); json!([ty_j(&a.source), ty_j(&a.target)]) }).collect())
            })
        }).ok().flatten();
        let Some(full_ty) = learned else { continue };
        let mut auxv = vec![json!(["u"]); n];
        for (i, nd) in dag.as_array().unwrap().iter().enumerate() {
            if nd[0] == "witness" { auxv[i] = Ty::from_final(&ty_of(&full_ty[i][1])).rand_val(&mut rng); }
        }
        let prune_it = rng.chance(1, 3);
        let ev = guarded(|| {
            types::Context::with_context(|ctx| {
                let (mut redeem, _, built) = match build_typed(&ctx, fam, &dag, &json!(full_ty), &json!(auxv)) { Ok(x) => x, Err(_) => return J::Null };
                // commitment time: the same construction finalised to a CommitNode, serialised, decoded, re-encoded
                let commit_rt = match built.last().unwrap().finalize_types() {
                    Err(e) => json!({"out": "finalize_err", "msg": e.to_string()}),
                    Ok(cm) => {
                        let cb = cm.to_vec_without_witness();
                        let mut r = if fam == Family::Core { one_commit::<Core>(&cb) } else { one_commit::<Elements>(&cb) };
                        r["cb"] = bits_of_bytes(&cb);
                        r["same_cmr"] = json!(r.get("cmr").and_then(|c| c.as_str()) == Some(cm.cmr().to_string().as_str()));
                        r
                    }
                };
                let cdag = dag.clone();
                if prune_it {
                    // hidden branches come from pruning
                    let pruned = if fam == Family::Core { redeem.prune(&simplicity::jet::CoreEnv::new()) } else { redeem.prune(&crate::env::dummy()) };
                    match pruned { Ok(p) => redeem = p, Err(_) => return J::Null }
                }
                let (sdag, sty, swit) = describe_prog(&redeem);
                if sdag.as_array().unwrap().len() > 80 { return J::Null; }
                let rt = if fam == Family::Core { round_trip::<Core>(&redeem) } else { round_trip::<Elements>(&redeem) };
                let cdec = commit_rt;
                json!({"ev": "c01", "family": if fam == Family::Core { "core" } else { "elements" }, "pruned": prune_it,
                       "dag": sdag, "ty": sty, "wit": swit, "rt": rt, "commit": cdec, "cdag": cdag, "has_jets": sdag.as_array().unwrap().iter().any(|x| x[0] == "leaf")})
            })
        });
        match ev {
            Ok(J::Null) => {}
            Ok(e) => { out.emit(&e); done += 1; }
            Err(p) => { out.emit(&json!({"ev": "c01", "rt": {"redeem": {"res": "panic", "msg": p}}, "dag": dag})); done += 1; }
        }
    }
}

/// C02 record: random byte strings and mutations (bit flips, truncation, extension) of valid encodings
pub fn record_c02(runs: usize, path: &str) {
    let mut rng = Rng::from_env(2);
    let mut out = Out::file(path);
    // a pool of valid encodings from the C01 generator
    let tmp = format!("{}.pool", path);
    record_c01(40, &tmp);
    let mut pool: Vec<(Vec<u8>, Vec<u8>)> = vec![];
    for e in read_ndjson(&tmp) {
        if let (Some(pb), Some(wb)) = (e["rt"].get("pb"), e["rt"].get("wb")) {
            pool.push((bytes_from_bits(&jbits(pb)), bytes_from_bits(&jbits(wb))));
        }
    }
    let _ = std::fs::remove_file(&tmp);
    for k in 0..runs {
        let (pb, wb): (Vec<u8>, Vec<u8>) = if k % 3 == 0 || pool.is_empty() {
            let n = rng.range(1, 40);
            ((0..n).map(|_| rng.next_u64() as u8).collect(), (0..rng.below(6)).map(|_| rng.next_u64() as u8).collect())
        } else {
            let (mut p, mut w) = pool[rng.below(pool.len())].clone();
            for _ in 0..rng.range(1, 3) {
                match rng.below(6) {
                    0 if !p.is_empty() => { let i = rng.below(p.len() * 8); p[i / 8] ^= 1 << (7 - i % 8); }
                    1 if !w.is_empty() => { let i = rng.below(w.len() * 8); w[i / 8] ^= 1 << (7 - i % 8); }
                    2 if !p.is_empty() => { p.truncate(rng.below(p.len()).max(1)); }
                    3 => { p.push(if rng.bool() { 0 } else { rng.next_u64() as u8 }); }
                    4 => { w.push(if rng.bool() { 0 } else { rng.next_u64() as u8 }); }
                    _ => { if !w.is_empty() { w.pop(); } }
                }
            }
            (p, w)
        };
        out.emit(&json!({"ev": "decode", "pb": bits_of_bytes(&pb), "wb": bits_of_bytes(&wb), "nbytes": pb.len() + wb.len(), "got": decode_all(&pb, &wb)}));
    }
}
