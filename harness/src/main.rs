#![allow(dead_code)]
mod util;
mod alloc;
#[global_allocator]
static GLOBAL: alloc::Counting = alloc::Counting;
mod c18;
mod c13;
mod tyval;
mod c10;
mod prog;
mod c04;
mod gen;
mod c05;
mod cffi;
mod env;
mod c08;
mod c12;
mod codec;
mod sym;
mod c09;
mod c03;
mod c14;
mod c15;
mod c06;
mod c16;
mod c19;
mod c17;
mod c20;

fn main() {
    util::quiet_panics();
    let a: Vec<String> = std::env::args().skip(1).collect();
    let s: Vec<&str> = a.iter().map(|x| x.as_str()).collect();
    match s.as_slice() {
        ["c18", "replay", path] => c18::replay(path),
        ["c18", "record", runs, max_n, path] => c18::record(runs.parse().unwrap(), max_n.parse().unwrap(), path),
        ["c13", "replay", path] => c13::replay(path),
        ["c13", "record", runs, ops, path] => c13::record(runs.parse().unwrap(), ops.parse().unwrap(), path),
        ["c19", "replay", path] => c19::replay(path),
        ["c19", "record", runs, path] => c19::record(runs.parse().unwrap(), path),
        ["c10", "replay", path] => c10::replay(path),
        ["c10", "record", runs, path] => c10::record(runs.parse().unwrap(), path),
        ["c04", "replay", path] => c04::replay(path),
        ["c04", "record", runs, path] => c04::record(runs.parse().unwrap(), path),
        ["c05", "replay", path] => c05::replay(path),
        ["c05", "record", runs, path] => c05::record(runs.parse().unwrap(), path),
        ["c05", "jets", n, path] => c05::record_jets(n.parse().unwrap(), path),
        ["c05", "eljets", n, t, path] => c05::record_el_jets(n.parse().unwrap(), t.parse().unwrap(), path),
        ["c05", "sigjets", n, path] => c05::record_sig_jets(n.parse().unwrap(), path),
        ["c05", "ecjets", n, path] => c05::record_ec_jets(n.parse().unwrap(), path),
        ["c05", "hashjets", n, path] => c05::record_hash_jets(n.parse().unwrap(), path),
        ["c08", "replay", path] => c08::replay(path),
        ["c08", "record", runs, path] => c08::record(runs.parse().unwrap(), path),
        ["c12", "replay", path] => c12::replay(path),
        ["c01", "display", runs, path] => codec::record_display(runs.parse().unwrap(), path),
        ["c01", "text", runs, path] => codec::record_text(runs.parse().unwrap(), path),
        ["c01", "commitprobe", path] => codec::commit_probe(path),
        ["c01", "replay", path] => codec::replay_c01(path),
        ["c01", "record", runs, path] => codec::record_c01(runs.parse().unwrap(), path),
        ["c02", "record", runs, path] => codec::record_c02(runs.parse().unwrap(), path),
        ["c02", "replay", path] => codec::replay_c02(path),
        ["c09", "replay", path] => c09::replay(path),
        ["c09", "record", runs, path] => c09::record(runs.parse().unwrap(), path),
        ["c09", "concretise", terms, trace] => c09::concretise(terms, trace),
        ["c03", "replay", path] => c03::replay(path),
        ["c03", "record", runs, path] => c03::record(runs.parse().unwrap(), path),
        ["c14", "table", path] => c14::table(path),
        ["c14", "noncodes", n, path] => c14::noncodes(n.parse().unwrap(), path),
        ["c06", "record", runs, path] => c06::record(runs.parse().unwrap(), path),
        ["c16", "replay", path] => c16::replay(path),
        ["c16", "sort", runs, path] => c16::record_sort(runs.parse().unwrap(), path),
        ["c20", "deepgen", shape, n, path] => c20::deepgen(shape, n.parse().unwrap(), path),
        ["c20", "deepdec", path, place] => c20::deepdec(path, *place == "thread"),
        ["c20", "deepbuild", shape, n, place] => c20::deepbuild(shape, n.parse().unwrap(), *place == "thread"),
        ["c20", "record", rounds, threads, ops, path] => c20::record(rounds.parse().unwrap(), threads.parse().unwrap(), ops.parse().unwrap(), path),
        ["c15", "record", runs, path] => c15::record(runs.parse().unwrap(), path),
        ["c15", "replay", cases, path] => c15::replay(cases, path),
        ["c15", "atoms", path] => c15::atoms(path),
        ["c15", "concretise", path] => c15::concretise(path),
        ["c17", "replay", path] => c17::replay(path),
        ["c17", "probe", text] => c17::probe(text),
        ["c17", "types", path] => c17::types(path),
        ["c17", "record", runs, path] => c17::record(runs.parse().unwrap(), path),
        ["c17", "totality", runs, path] => c17::totality(runs.parse().unwrap(), path),
        ["c17", "parse1", path] => c17::parse1(path),
        _ => {
            eprintln!("usage: vh <prop> <replay|record> ...");
            std::process::exit(2);
        }
    }
}
