//! Interpreter of the spec's symbolic Merkle roots (Roots.tla): tag -> SHA-256 midstate of the tagged IV,
//! then one compression per 64-byte block.  Uses only the hashes crate (the compression function).
use crate::tyval::*;
use crate::util::*;
use serde_json::Value as J;
use simplicity::hashes::sha256::{HashEngine, Midstate};
use simplicity::hashes::HashEngine as _;
use std::collections::HashMap;

pub struct Sym<'a> {
    /// values of <<"ref", kind, j>>: kind -> per-node bytes (1-based j)
    pub refs: HashMap<String, Vec<[u8; 32]>>,
    /// roots of jets by name (atoms from the crate's tables; tied to C by C14)
    pub jet_root: &'a dyn Fn(&str) -> [u8; 32],
}

fn tag_bytes(tag: &str) -> Vec<u8> {
    let mut v = b"Simplicity".to_vec();
    for part in tag.split('|') {
        v.push(0x1f);
        v.extend_from_slice(part.as_bytes());
    }
    v
}

/// compact bits of an abstract value tree
fn compact_bits(v: &J, out: &mut Vec<bool>) {
    match v[0].as_str().unwrap() {
        "u" => {}
        "L" => { out.push(false); compact_bits(&v[1], out); }
        "R" => { out.push(true); compact_bits(&v[1], out); }
        "P" => { compact_bits(&v[1], out); compact_bits(&v[2], out); }
        "bits" => out.extend(jbits(&v[2])),
        x => panic!("value tag {}", x),
    }
}

/// SHA-256 of a bit string (message length in bits), as the 32-byte state
fn sha256_bits(bits: &[bool]) -> [u8; 32] {
    let mut bytes = bytes_from_bits(bits);
    let bit_len = bits.len();
    if bit_len % 8 == 0 { bytes.push(0x80); } else { let last = bytes.len() - 1; bytes[last] |= 1 << (7 - bit_len % 8); }
    while bytes.len() % 64 != 56 { bytes.push(0); }
    bytes.extend_from_slice(&(bit_len as u64).to_be_bytes());
    let mut engine = HashEngine::default();
    engine.input(&bytes);
    engine.midstate().expect("whole blocks").to_parts().0
}

impl Sym<'_> {
    pub fn item(&self, t: &J) -> Vec<u8> {
        match t[0].as_str().unwrap() {
            "z" => vec![0u8; 32],
            "raw" => bytes_from_bits(&jbits(&t[1])),
            "weight" => { let mut b = vec![0u8; 24]; b.extend_from_slice(&t[1].as_u64().unwrap().to_be_bytes()); b }
            "cv" => { let mut bits = vec![]; compact_bits(&t[1], &mut bits); sha256_bits(&bits).to_vec() }
            "jet" => (self.jet_root)(t[1].as_str().unwrap()).to_vec(),
            "ref" => self.refs[t[1].as_str().unwrap()][ju(&t[2]) - 1].to_vec(),
            "H" => self.eval(t).to_vec(),
            x => panic!("item {}", x),
        }
    }
    pub fn eval(&self, t: &J) -> [u8; 32] {
        match t[0].as_str().unwrap() {
            "H" => {
                let mut mid = Midstate::hash_tag(&tag_bytes(t[1].as_str().unwrap()));
                for blk in t[2].as_array().unwrap() {
                    let mut bytes = vec![];
                    // a block is a pair of 32-byte items, or one 64-byte raw item
                    if blk[0].is_string() { bytes.extend(self.item(blk)); } else { for it in blk.as_array().unwrap() { bytes.extend(self.item(it)); } }
                    assert_eq!(bytes.len(), 64, "block of {} bytes in {}", bytes.len(), t[1]);
                    let mut e = HashEngine::from_midstate(mid);
                    e.input(&bytes);
                    mid = e.midstate().expect("whole block");
                }
                mid.to_parts().0
            }
            _ => { let b = self.item(t); let mut a = [0u8; 32]; a.copy_from_slice(&b); a }
        }
    }
}
pub fn hex32(b: &[u8]) -> String {
    b.iter().map(|x| format!("{:02x}", x)).collect()
}
