//! C10 / C11: Value constructors, accessors, decoders, prune, comparison traits.
use crate::tyval::*;
use crate::util::*;
use serde_json::{json, Value as J};
use simplicity::{BitIter, Value};
use std::collections::hash_map::DefaultHasher;
use std::hash::{Hash, Hasher};

fn hash_of<T: Hash>(v: &T) -> u64 {
    let mut h = DefaultHasher::new();
    v.hash(&mut h);
    h.finish()
}

/// everything the properties talk about, for one value
pub fn observe(v: &Value) -> J {
    let padded: Vec<bool> = v.iter_padded().collect();
    let compact: Vec<bool> = v.iter_compact().collect();
    // decoders consume exactly what the encoders produced (followed by foreign bits)
    let mut pb = padded.clone();
    pb.extend([true, false, true]);
    let pbytes = bytes_from_bits(&pb);
    let mut it = BitIter::from(&pbytes[..]);
    let dp = Value::from_padded_bits(&mut it, v.ty());
    let dp_used = it.n_total_read();
    let mut cb = compact.clone();
    cb.extend([true, true, false]);
    let cbytes = bytes_from_bits(&cb);
    let mut it2 = BitIter::from(&cbytes[..]);
    let dc = Value::from_compact_bits(&mut it2, v.ty());
    let dc_used = it2.n_total_read();
    json!({
        "ty": ty_j(v.ty()),
        "padded": bits_j(padded.iter().copied()),
        "compact": bits_j(compact.iter().copied()),
        "padded_len": v.padded_len(),
        "compact_len": v.compact_len(),
        "tree": val_j(&v.as_ref()),
        "dec_padded": dp.as_ref().map(|d| val_j(&d.as_ref())).unwrap_or(json!("err")),
        "dec_padded_used": dp_used,
        "dec_padded_eq": dp.as_ref().map(|d| d == v).unwrap_or(false),
        "dec_compact": dc.as_ref().map(|d| val_j(&d.as_ref())).unwrap_or(json!("err")),
        "dec_compact_used": dc_used,
        "dec_compact_eq": dc.as_ref().map(|d| d == v).unwrap_or(false),
        "of_type": v.is_of_type(v.ty()),
    })
}

/// pairwise relations of a pool: eq, cmp, hash equality (and the same for words)
pub fn relations(pool: &[Value]) -> J {
    let mut rel = vec![];
    for i in 0..pool.len() {
        for j in 0..pool.len() {
            let (a, b) = (&pool[i], &pool[j]);
            let mut r = json!({"i": i + 1, "j": j + 1, "eq": a == b,
                "cmp": match a.cmp(b) { std::cmp::Ordering::Less => -1, std::cmp::Ordering::Equal => 0, _ => 1 },
                "hash_eq": hash_of(a) == hash_of(b)});
            if let (Some(wa), Some(wb)) = (a.to_word(), b.to_word()) {
                r["weq"] = json!(wa == wb);
                r["whash_eq"] = json!(hash_of(&wa) == hash_of(&wb));
                r["wcmp"] = json!(match wa.cmp(&wb) { std::cmp::Ordering::Less => -1, std::cmp::Ordering::Equal => 0, _ => 1 });
            }
            rel.push(r);
        }
    }
    json!(rel)
}

fn apply(pool: &mut Vec<Value>, op: &J) -> J {
    let name = op[0].as_str().unwrap();
    let at = |pool: &Vec<Value>, k: &J| pool[ju(k) - 1].shallow_clone();
    let v = match name {
        "unit" => Value::unit(),
        "u1" => Value::u1(ju(&op[1]) as u8),
        "u2" => Value::u2(ju(&op[1]) as u8),
        "u4" => Value::u4(ju(&op[1]) as u8),
        "left" => Value::left(at(pool, &op[1]), ty_of(&op[2])),
        "right" => Value::right(ty_of(&op[1]), at(pool, &op[2])),
        "product" => Value::product(at(pool, &op[1]), at(pool, &op[2])),
        "asleft" => match pool[ju(&op[1]) - 1].as_left() { Some(r) => r.to_value(), None => return json!("none") },
        "asright" => match pool[ju(&op[1]) - 1].as_right() { Some(r) => r.to_value(), None => return json!("none") },
        "fst" => match pool[ju(&op[1]) - 1].as_product() { Some((a, _)) => a.to_value(), None => return json!("none") },
        "snd" => match pool[ju(&op[1]) - 1].as_product() { Some((_, b)) => b.to_value(), None => return json!("none") },
        "padded" | "compact" => {
            let t = ty_of(&op[1]);
            let bytes = bytes_from_bits(&jbits(&op[2]));
            let mut it = BitIter::from(&bytes[..]);
            let r = if name == "padded" { Value::from_padded_bits(&mut it, &t) } else { Value::from_compact_bits(&mut it, &t) };
            match r { Ok(v) => v, Err(_) => return json!("err") }
        }
        "zero" => Value::zero(&ty_of(&op[1])),
        "prune" => match pool[ju(&op[1]) - 1].prune(&ty_of(&op[2])) {
            Some(v) => {
                if op[3] == "some" { v } else { return json!({"lenient": observe(&v)}) }
            }
            None => return json!("none"),
        },
        x => panic!("op {}", x),
    };
    pool.push(v);
    json!("ok")
}

/// spec -> impl: replay TLC histories on a pool of real values
pub fn replay(path: &str) {
    let mut out = Out::stdout();
    for (k, c) in read_ndjson(path).iter().enumerate() {
        let got = guarded(|| {
            let mut pool: Vec<Value> = vec![];
            let mut rets = vec![];
            for op in c["hist"].as_array().unwrap() {
                rets.push(apply(&mut pool, op));
            }
            json!({"rets": rets, "obs": pool.iter().map(observe).collect::<Vec<_>>(), "rel": relations(&pool)})
        })
        .unwrap_or_else(|e| json!({"panic": e}));
        out.emit(&json!({"k": k, "got": got}));
    }
}

// ---------------------------------------------------------------- impl -> spec
use simplicity::types::Final;
use std::sync::Arc;

fn rand_ty(rng: &mut Rng, depth: usize) -> Arc<Final> {
    if depth == 0 || rng.chance(1, 5) {
        return match rng.below(6) {
            0 | 1 => Final::unit(),
            2 => Final::two_two_n(0).unwrap(),
            3 => Final::two_two_n(rng.range(1, 3)).unwrap(),
            4 => Final::two_two_n(rng.range(3, 6)).unwrap(),
            _ => Final::sum(Final::unit(), Final::two_two_n(rng.range(0, 4)).unwrap()),
        };
    }
    let a = rand_ty(rng, depth - 1);
    let b = rand_ty(rng, depth - 1);
    if rng.bool() { Final::sum(a, b) } else { Final::product(a, b) }
}
fn rand_tree(rng: &mut Rng, t: &Final) -> J {
    use simplicity::types::CompleteBound;
    match t.bound() {
        CompleteBound::Unit => json!(["u"]),
        CompleteBound::Sum(a, b) => if rng.bool() { json!(["L", rand_tree(rng, a)]) } else { json!(["R", rand_tree(rng, b)]) },
        CompleteBound::Product(a, b) => json!(["P", rand_tree(rng, a), rand_tree(rng, b)]),
    }
}
/// a random type <= t (for prune), or an unrelated one
fn rand_smaller(rng: &mut Rng, t: &Arc<Final>) -> Arc<Final> {
    use simplicity::types::CompleteBound;
    if rng.chance(1, 6) { return Final::unit(); }
    match t.bound() {
        CompleteBound::Unit => Final::unit(),
        CompleteBound::Sum(a, b) => Final::sum(rand_smaller(rng, a), rand_smaller(rng, b)),
        CompleteBound::Product(a, b) => Final::product(rand_smaller(rng, a), rand_smaller(rng, b)),
    }
}

pub fn record(runs: usize, path: &str) {
    let mut rng = Rng::from_env(10);
    let mut out = Out::file(path);
    for run in 0..runs {
        out.emit(&json!({"ev": "reset"}));
        let mut pool: Vec<Value> = vec![];
        let nops = rng.range(3, 9);
        // every fourth run follows a script: parts taken out of a product at a byte-aligned, non-zero offset of the
        // shared buffer (8, 16, 24 bits in), then wrapped into sums, paired again and pruned -- the tag bit of a sum is
        // written in front of the part, in the byte before it
        let mut script: Vec<J> = vec![];
        if run % 4 == 3 {
            // (on odd scripted runs the leading part is narrower than a byte: a value that shares its last byte with what follows it)
            let first = if run % 8 == 7 { Final::two_two_n(rng.range(0, 3)).unwrap() } else { Final::two_two_n(rng.range(3, 5)).unwrap() };   // 1, 2, 4 or 8, 16 bits
            let lead: Arc<Final> = if rng.bool() { first.clone() } else { Final::product(first.clone(), Final::two_two_n(if run % 8 == 7 { 2 } else { 3 }).unwrap()) };
            let part = if rng.bool() { Final::two_two_n(rng.range(0, 5)).unwrap() } else { rand_ty(&mut rng, 2) };
            let t = Final::product(lead.clone(), part.clone());
            let v = rand_tree(&mut rng, &t);
            script.push(json!(["build", ty_j(&t), v]));
            script.push(json!(["snd", 1]));
            let other = if rng.bool() { Final::unit() } else { rand_smaller(&mut rng, &part) };
            let as_left = rng.bool();
            script.push(if as_left { json!(["left", 2, ty_j(&other)]) } else { json!(["right", ty_j(&other), 2]) });      // 3
            script.push(json!(["left", 1, ty_j(&Final::unit())]));                                                        // 4
            script.push(json!([if as_left { "asleft" } else { "asright" }, 3]));                                          // 5
            script.push(json!(["product", 2, 3]));                                                                        // 6
            let t3 = if as_left { Final::sum(part.clone(), other.clone()) } else { Final::sum(other.clone(), part.clone()) };
            script.push(json!(["prune", 3, ty_j(&rand_smaller(&mut rng, &t3))]));
            let whole = Final::sum(t.clone(), Final::unit());
            script.push(json!(["prune", 4, ty_j(&rand_smaller(&mut rng, &whole))]));
            // the two parts once more, taken out of the product and built from scratch: equal values of different
            // provenance (own buffer / shared buffer with other bits around them) for the equality, order and hash relations
            script.push(json!(["fst", 1]));
            script.push(json!(["build", ty_j(&lead), v[1].clone()]));
            script.push(json!(["build", ty_j(&part), v[2].clone()]));
            script.reverse();
        }
        for _ in 0..(if script.is_empty() { nops } else { script.len() }) {
            let pick = |rng: &mut Rng, pool: &Vec<Value>| 1 + rng.below(pool.len());
            let op: J = if let Some(op) = script.pop() { op } else if pool.is_empty() || rng.chance(1, 4) {
                match rng.below(5) {
                    0 => json!(["unit"]),
                    1 => { let n = rng.below(7); let bits: Vec<u8> = (0..(1usize << n)).map(|_| rng.below(2) as u8).collect(); json!(["word", n, bits]) }
                    2 => { let t = rand_ty(&mut rng, 3); let v = rand_tree(&mut rng, &t); json!(["build", ty_j(&t), v]) }
                    3 => json!(["zero", ty_j(&rand_ty(&mut rng, 3))]),
                    _ => {
                        // decode from padded bits with random padding, or from compact bits; sometimes truncated
                        let t = rand_ty(&mut rng, 3);
                        let v = val_of(&rand_tree(&mut rng, &t), &t);
                        let padded = rng.bool();
                        let mut bits: Vec<bool> = if padded { v.iter_padded().collect() } else { v.iter_compact().collect() };
                        if padded {
                            // overwrite padding positions: flip bits where a differently-padded legal encoding exists
                            let z = Value::zero(&t);
                            let _ = z;
                        }
                        if rng.chance(1, 8) && !bits.is_empty() { bits.truncate(rng.below(bits.len())); }
                        else { bits.extend((0..rng.below(12)).map(|_| rng.bool())); }
                        // the reader works on whole bytes: log exactly the bits it will see
                        while bits.len() % 8 != 0 { bits.push(false); }
                        json!([if padded { "padded" } else { "compact" }, ty_j(&t), bits_j(bits)])
                    }
                }
            } else {
                match rng.below(8) {
                    0 => json!(["left", pick(&mut rng, &pool), ty_j(&rand_ty(&mut rng, 2))]),
                    1 => json!(["right", ty_j(&rand_ty(&mut rng, 2)), pick(&mut rng, &pool)]),
                    2 => json!(["product", pick(&mut rng, &pool), pick(&mut rng, &pool)]),
                    3 => json!(["asleft", pick(&mut rng, &pool)]),
                    4 => json!(["asright", pick(&mut rng, &pool)]),
                    5 => json!([if rng.bool() { "fst" } else { "snd" }, pick(&mut rng, &pool)]),
                    6 => {
                        // re-decode the padded encoding of a pool value with every padding bit set (machine output)
                        let i = pick(&mut rng, &pool);
                        json!(["dirty", i])
                    }
                    _ => {
                        let i = pick(&mut rng, &pool);
                        let t = Arc::new(pool[i - 1].ty().clone());
                        let s = if rng.chance(1, 5) { rand_ty(&mut rng, 2) } else { rand_smaller(&mut rng, &t) };
                        json!(["prune", i, ty_j(&s)])
                    }
                }
            };
            let before = pool.len();
            let ret = guarded(|| apply2(&mut pool, &op)).unwrap_or_else(|e| json!({"panic": e}));
            let obs = if pool.len() > before { observe(pool.last().unwrap()) } else { json!({}) };
            let mut ev = json!({"ev": "op", "op": op, "ret": ret, "obs": obs});
            if op[0] == "prune" {
                // the source as the crate sees it (already validated by the earlier events of this run)
                let src = &pool[ju(&op[1]) - 1];
                ev["src"] = json!({"ty": ty_j(src.ty()), "tree": val_j(&src.as_ref())});
            }
            out.emit(&ev);
        }
        if !pool.is_empty() {
            out.emit(&json!({"ev": "rel", "n": pool.len(), "rel": relations(&pool)}));
        }
    }
}

/// ops of the recorded direction (superset of the replayed ones)
fn apply2(pool: &mut Vec<Value>, op: &J) -> J {
    let name = op[0].as_str().unwrap();
    match name {
        "word" => {
            let bits = jbits(&op[2]);
            let n = ju(&op[1]);
            let v = match n {
                0 => Value::u1(bits[0] as u8),
                1 => Value::u2(bits.iter().fold(0u8, |a, b| a * 2 + *b as u8)),
                2 => Value::u4(bits.iter().fold(0u8, |a, b| a * 2 + *b as u8)),
                3 => Value::u8(bits.iter().fold(0u8, |a, b| a.wrapping_mul(2) + *b as u8)),
                4 => Value::u16(bits.iter().fold(0u16, |a, b| a.wrapping_mul(2) + *b as u16)),
                5 => Value::u32(bits.iter().fold(0u32, |a, b| a.wrapping_mul(2) + *b as u32)),
                6 => Value::u64(bits.iter().fold(0u64, |a, b| a.wrapping_mul(2) + *b as u64)),
                _ => panic!("word n"),
            };
            pool.push(v);
            json!("ok")
        }
        "build" => {
            let t = ty_of(&op[1]);
            pool.push(val_of(&op[2], &t));
            json!("ok")
        }
        "dirty" => {
            // the value as the Bit Machine would hand it back: same bits, every padding bit set to 1
            let v = &pool[ju(&op[1]) - 1];
            let t = v.ty().clone();
            let mut bits = vec![true; t.bit_width()];
            fn fill(v: &simplicity::ValueRef, t: &Final, pos: usize, bits: &mut Vec<bool>) {
                use simplicity::types::CompleteBound;
                match t.bound() {
                    CompleteBound::Unit => {}
                    CompleteBound::Sum(a, b) => {
                        if let Some(l) = v.as_left() { bits[pos] = false; fill(&l, a, pos + 1 + a.pad_left(b), bits); }
                        else if let Some(r) = v.as_right() { bits[pos] = true; fill(&r, b, pos + 1 + a.pad_right(b), bits); }
                    }
                    CompleteBound::Product(a, b) => {
                        let (x, y) = v.as_product().unwrap();
                        fill(&x, a, pos, bits);
                        fill(&y, b, pos + a.bit_width(), bits);
                    }
                }
            }
            fill(&v.as_ref(), &t, 0, &mut bits);
            let bytes = bytes_from_bits(&bits);
            let mut it = BitIter::from(&bytes[..]);
            pool.push(Value::from_padded_bits(&mut it, &t).unwrap());
            json!("ok")
        }
        _ => apply(pool, &{
            let mut o = op.clone();
            if name == "prune" { o.as_array_mut().unwrap().push(json!("some")); }
            o
        }),
    }
}
