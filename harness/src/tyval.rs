//! JSON <-> crate objects for types and values (nested-array form used by the spec).
use crate::util::*;
use serde_json::{json, Value as J};
use simplicity::types::{CompleteBound, Final};
use simplicity::Value;
use std::sync::Arc;

pub fn ty_of(j: &J) -> Arc<Final> {
    match j[0].as_str().unwrap() {
        "1" => Final::unit(),
        "+" => Final::sum(ty_of(&j[1]), ty_of(&j[2])),
        "*" => Final::product(ty_of(&j[1]), ty_of(&j[2])),
        x => panic!("bad type tag {}", x),
    }
}
pub fn ty_j(t: &Final) -> J {
    match t.bound() {
        CompleteBound::Unit => json!(["1"]),
        CompleteBound::Sum(a, b) => json!(["+", ty_j(a), ty_j(b)]),
        CompleteBound::Product(a, b) => json!(["*", ty_j(a), ty_j(b)]),
    }
}
/// abstract value (tree) -> crate value of the given type, built with the constructors
pub fn val_of(j: &J, t: &Arc<Final>) -> Value {
    match j[0].as_str().unwrap() {
        "u" => Value::unit(),
        "L" => {
            let (a, b) = t.as_sum().unwrap();
            Value::left(val_of(&j[1], a), b.clone())
        }
        "R" => {
            let (a, b) = t.as_sum().unwrap();
            Value::right(a.clone(), val_of(&j[1], b))
        }
        "P" => {
            let (a, b) = t.as_product().unwrap();
            Value::product(val_of(&j[1], a), val_of(&j[2], b))
        }
        x => panic!("bad value tag {}", x),
    }
}
/// crate value -> abstract tree, using only the public accessors
pub fn val_j(v: &simplicity::ValueRef) -> J {
    if v.is_unit() {
        json!(["u"])
    } else if let Some(l) = v.as_left() {
        json!(["L", val_j(&l)])
    } else if let Some(r) = v.as_right() {
        json!(["R", val_j(&r)])
    } else if let Some((a, b)) = v.as_product() {
        json!(["P", val_j(&a), val_j(&b)])
    } else {
        json!(["?"])
    }
}
pub fn bits_of<I: Iterator<Item = bool>>(it: I) -> J {
    bits_j(it)
}
pub fn bytes_from_bits(bits: &[bool]) -> Vec<u8> {
    let (bytes, _) = simplicity::BitCollector::collect_bits(bits.iter().copied());
    bytes
}
