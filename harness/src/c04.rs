//! C04: type inference driven through ConstructNode construction in a given order + finalisation.
use crate::prog::*;
use crate::util::*;
use serde_json::{json, Value as J};
use simplicity::types;
use std::time::Instant;

/// Build `dag` in `order` (1-based node ids) in one fresh context, finalize, report.
pub fn infer(dag: &J, order: &[usize], prog: bool, fam: Family) -> J {
    let nodes = dag.as_array().unwrap();
    types::Context::with_context(|ctx| {
        let mut built: Vec<Option<CN>> = vec![None; nodes.len()];
        let t0 = Instant::now();
        for &i in order {
            let r = {
                let get = |k: usize| built[k - 1].clone().expect("child built before parent");
                build_node(&ctx, fam, &nodes[i - 1], &get)
            };
            match r {
                Ok(n) => built[i - 1] = Some(n),
                Err(e) => return reject("build", i, &e, t0),
            }
        }
        let root = built[nodes.len() - 1].clone().unwrap();
        let fin = if prog { root.finalize_types() } else { root.finalize_types_non_program() };
        match fin {
            Err(e) => reject("finalize", 0, &e, t0),
            Ok(commit) => {
                // every node's final arrow, through the construct node's own (now complete) arrow
                let mut arrows = vec![];
                for b in built.iter() {
                    match b.as_ref().unwrap().arrow().finalize() {
                        Ok(a) => arrows.push(json!([ty_cz(&a.source), ty_cz(&a.target)])),
                        Err(_) => arrows.push(json!("err")),
                    }
                }
                let ra = commit.arrow();
                json!({"res": "ok", "arrows": arrows, "root": [ty_cz(&ra.source), ty_cz(&ra.target)],
                       "ms": t0.elapsed().as_millis() as u64})
            }
        }
    })
}

fn reject(stage: &str, at: usize, e: &types::Error, t0: Instant) -> J {
    // the error must be displayable in bounded time and space
    let t1 = Instant::now();
    let s1 = format!("{}", e);
    let s2 = format!("{:?}", e);
    json!({"res": "reject", "stage": stage, "at": at, "display_len": s1.len(), "debug_len": s2.len(),
           "display_ms": t1.elapsed().as_millis() as u64, "ms": t0.elapsed().as_millis() as u64})
}

pub fn replay(path: &str) {
    let mut out = Out::stdout();
    for (k, c) in read_ndjson(path).iter().enumerate() {
        let order: Vec<usize> = c["order"].as_array().unwrap().iter().map(ju).collect();
        let prog = c["prog"].as_bool().unwrap();
        let dag = c["dag"].clone();
        // nodes the spec did not build (construction stopped at an error) are simply never requested
        let got = guarded(|| infer(&dag, &order, prog, Family::Core)).unwrap_or_else(|e| json!({"panic": e}));
        out.emit(&json!({"k": k, "got": got}));
    }
}

// ---------------------------------------------------------------- impl -> spec
use crate::gen::*;

/// replace jet / word leaves by "leaf" nodes carrying the declared (compressed) types, for the trace spec
pub fn dag_for_spec(dag: &J, fam: Family) -> J {
    use simplicity::jet::Jet;
    let mut out = vec![];
    for nd in dag.as_array().unwrap() {
        let op = nd[0].as_str().unwrap();
        let nd2 = match op {
            "jet" => {
                let name = nd[3].as_str().unwrap();
                let (s, t) = match fam {
                    Family::Core => { let j = core_jet(name); (j.source_ty().to_final(), j.target_ty().to_final()) }
                    Family::Elements => { let j = elements_jet(name); (j.source_ty().to_final(), j.target_ty().to_final()) }
                };
                json!(["leaf", 0, 0, [ty_cz(&s), ty_cz(&t)], name])
            }
            "word" => {
                let n = nd[3].as_array().unwrap().len().trailing_zeros();
                let t = simplicity::types::Final::two_two_n(n as usize).unwrap();
                json!(["leaf", 0, 0, [["1"], ty_cz(&t)], nd[3]])
            }
            "witness" | "fail" | "assertl" | "assertr" => json!([op, nd[1], nd[2]]),
            _ => nd.clone(),
        };
        out.push(nd2);
    }
    json!(out)
}

/// purely random DAG over all combinators (mostly ill-typed: exercises clash / occurs-check paths)
fn rand_dag(rng: &mut Rng, n: usize, jets: &[JetSig]) -> J {
    let mut nodes = vec![];
    for i in 1..=n {
        let k = if i == 1 { 0 } else { rng.below(10) };
        let c = |rng: &mut Rng| if rng.chance(2, 3) { i - 1 - rng.below((i - 1).min(3)) } else { 1 + rng.below(i - 1) };
        nodes.push(match k {
            0 | 1 => match rng.below(7) {
                0 => json!(["iden", 0, 0]), 1 => json!(["unit", 0, 0]), 2 => json!(["witness", 0, 0]),
                3 => json!(["word", 0, 0, (0..(1usize << rng.below(4))).map(|_| rng.below(2) as u8).collect::<Vec<_>>()]),
                4 => json!(["jet", 0, 0, jets[rng.below(jets.len())].name]),
                5 => json!(["fail", 0, 0, 1]),
                _ => json!(["iden", 0, 0]),
            },
            2 => json!([*rng.pick(&["injl", "injr"]), c(rng), 0]),
            3 | 4 => json!([*rng.pick(&["take", "drop"]), c(rng), 0]),
            5 => json!([*rng.pick(&["assertl", "assertr", "disc1"]), c(rng), 0, 3]),
            6 => json!(["comp", c(rng), c(rng)]),
            7 => json!(["pair", c(rng), c(rng)]),
            8 => json!(["case", c(rng), c(rng)]),
            _ => json!([*rng.pick(&["comp", "disc", "pair"]), c(rng), c(rng)]),
        });
    }
    // keep only what the root reaches
    let g = Gen::new(rng, jets, 0);
    let mut g = g;
    g.nodes = nodes;
    g.finish(n)
}

pub fn record(runs: usize, path: &str) {
    let mut rng = Rng::from_env(4);
    let mut out = Out::file(path);
    let core = jet_sigs_core();
    let elems = jet_sigs_elements();
    for run in 0..runs {
        let fam = if run % 3 == 2 { Family::Elements } else { Family::Core };
        let jets: &[JetSig] = if fam == Family::Core { &core } else { &elems };
        // small-typed jets only, so that TLC can follow (the widest kept type is 2^256-based)
        let small: Vec<JetSig> = jets.iter().filter(|j| j.src.size() <= 1100 && j.tgt.size() <= 1100).cloned().collect();
        let mut prog = rng.chance(2, 3);
        let dag = match rng.below(5) {
            0 => { let n = rng.range(2, 14); rand_dag(&mut rng, n, &small) }
            1 => {
                // type bomb / deep sharing: pair x x repeatedly, then an occurs-check or a valid close
                let mut nodes = vec![json!([*rng.pick(&["iden", "unit", "witness"]), 0, 0])];
                let depth = rng.range(3, 9);
                for i in 1..=depth { nodes.push(json!([*rng.pick(&["pair", "pair", "comp", "case"]), i, i])); }
                json!(nodes)
            }
            _ => {
                let budget = rng.range(4, 40);
                let (src, tgt) = if rng.chance(2, 3) { (Ty::Unit, Ty::Unit) } else { (rand_small_ty(&mut rng, 2), rand_small_ty(&mut rng, 2)) };
                prog = src == Ty::Unit && tgt == Ty::Unit && rng.chance(5, 6);
                let mut g = Gen::new(&mut rng, &small, budget);
                g.allow_fail = true;
                let root = g.expr(&src, &tgt, 6);
                g.finish(root)
            }
        };
        let sdag = dag_for_spec(&dag, fam);
        let n = dag.as_array().unwrap().len();
        let norders = if n > 1 { 3 } else { 1 };
        for _ in 0..norders {
            let order = rand_topo(&mut rng, &dag);
            let got = guarded(|| infer(&dag, &order, prog, fam)).unwrap_or_else(|e| json!({"res": "panic", "panic": e}));
            let mut ev = json!({"ev": "infer", "dag": sdag, "prog": prog, "order": order, "res": got["res"],
                                "arrows": got.get("arrows").cloned().unwrap_or(json!([])),
                                "display_len": got.get("display_len").cloned().unwrap_or(json!(0)),
                                "display_ms": got.get("display_ms").cloned().unwrap_or(json!(0))});
            if got["res"] == "panic" { ev["panic"] = got["panic"].clone(); }
            out.emit(&ev);
        }
    }
}
