//! C05 / C07: typed programs executed on the real Bit Machine.
use crate::prog::*;
use crate::tyval::*;
use crate::util::*;
use serde_json::{json, Value as J};
use simplicity::bit_machine::{ExecTracker, ExecutionError, NodeOutput};
use simplicity::dag::{DagLike, InternalSharing};
use simplicity::jet::{CoreEnv, JetEnvironment};
use simplicity::node::RedeemNode;
use simplicity::types::{self, Type};
use simplicity::{BitMachine, Value};
use std::collections::HashMap;
use std::sync::Arc;

/// Build the typed program of a case: nodes in index order, witness/word values from `aux`,
/// every node's arrow pinned to `ty` (complete types), then finalize_unpruned.
/// Returns the redeem root and, for every redeem node (by address), its spec index.
pub fn build_typed<'b>(
    ctx: &types::Context<'b>,
    fam: Family,
    dag: &J,
    ty: &J,
    aux: &J,
) -> Result<(Arc<RedeemNode>, HashMap<usize, usize>, Vec<CN<'b>>), String> {
    let nodes = dag.as_array().unwrap();
    let mut built: Vec<CN> = vec![];
    for (i, nd) in nodes.iter().enumerate() {
        let op = nd[0].as_str().unwrap();
        let mut nd2 = nd.clone();
        // values the spec chose for this node
        if op == "witness" {
            // a value only when the spec gives both the node's type and the value; otherwise none
            nd2 = if !ty[i].is_null() && aux[i].is_array() && aux[i][0] != "none" {
                json!(["witness", 0, 0, [ty[i][1].clone(), aux[i].clone()]])
            } else {
                json!(["witness", 0, 0])
            };
        } else if op == "word0" || op == "word1" {
            let t = ty_of(&ty[i][1]);
            let v = val_of(&aux[i], &t);
            let bits: Vec<u8> = v.iter_padded().map(|b| b as u8).collect();
            nd2 = json!(["word", 0, 0, bits]);
        }
        let n = {
            let get = |k: usize| built[k - 1].clone();
            build_node(ctx, fam, &nd2, &get).map_err(|e| format!("build node {}: {}", i + 1, e))?
        };
        // pin the arrow to the spec's typing
        if !ty[i].is_null() {
            let s = Type::complete(ctx, ty_of(&ty[i][0]));
            let t = Type::complete(ctx, ty_of(&ty[i][1]));
            ctx.unify(&n.arrow().source, &s, "pin source").map_err(|e| format!("pin source {}: {}", i + 1, e))?;
            ctx.unify(&n.arrow().target, &t, "pin target").map_err(|e| format!("pin target {}: {}", i + 1, e))?;
        }
        built.push(n);
    }
    let root = built.last().unwrap().clone();
    let redeem = root.finalize_unpruned().map_err(|e| format!("finalize_unpruned: {}", e))?;
    // map redeem nodes to spec indices: both DAGs have the same pointer structure
    let cidx: HashMap<usize, usize> = built.iter().enumerate().map(|(i, n)| (Arc::as_ptr(n) as usize, i + 1)).collect();
    let mut map = HashMap::new();
    for (c, r) in (&*root).post_order_iter::<InternalSharing>().zip((&*redeem).post_order_iter::<InternalSharing>()) {
        if let Some(i) = cidx.get(&(c.node as *const _ as usize)) {
            map.insert(r.node as *const _ as usize, *i);
        }
    }
    Ok((redeem, map, built))
}

pub struct LogTracker<'a> {
    pub map: &'a HashMap<usize, usize>,
    pub visits: Vec<J>,
    pub detail: bool,
}
impl ExecTracker for LogTracker<'_> {
    fn visit_node(&mut self, node: &RedeemNode, mut input: simplicity::bit_machine::FrameIter, output: NodeOutput) {
        let idx = self.map.get(&(node as *const _ as usize)).copied().unwrap_or(0);
        if !self.detail {
            // first input bit, as SetTracker reads it
            let first = input.next().map(|b| b as i64).unwrap_or(-1);
            self.visits.push(json!([idx, first]));
            return;
        }
        let inb: Vec<u8> = input.by_ref().take(node.arrow().source.bit_width()).map(|b| b as u8).collect();
        let out = match output {
            NodeOutput::NonTerminal => json!("nonterminal"),
            NodeOutput::JetFailed => json!("jetfailed"),
            NodeOutput::Success(it) => json!(it.take(node.arrow().target.bit_width()).map(|b| b as u8).collect::<Vec<_>>()),
        };
        self.visits.push(json!({"i": idx, "in": inb, "out": out}));
    }
}

pub fn err_class(e: &ExecutionError) -> &'static str {
    match e {
        ExecutionError::ReachedPrunedBranch(_) => "assert",
        ExecutionError::ReachedFailNode(_) => "failnode",
        ExecutionError::JetFailed(_) => "jetfail",
        ExecutionError::InputWrongType(_) => "inputtype",
        ExecutionError::LimitExceeded(_) => "limit",
        ExecutionError::JetTypeMismatch => "jettype",
    }
}

/// one execution: returns the JSON record of everything C05/C07 look at
pub fn execute<JE: JetEnvironment>(redeem: &RedeemNode, map: &HashMap<usize, usize>, input: &Value, env: &JE, fill: Option<u8>, detail: bool) -> J {
    let b = redeem.bounds();
    let mut rec = json!({"bounds": {"cells": b.extra_cells, "frames": b.extra_frames},
                         "io": [redeem.arrow().source.bit_width(), redeem.arrow().target.bit_width()]});
    let mut mac = match BitMachine::for_program(redeem) {
        Ok(m) => m,
        Err(e) => { rec["res"] = json!("limit"); rec["msg"] = json!(e.to_string()); return rec; }
    };
    if let Some(f) = fill { mac.verif_fill(f); }
    rec["cap"] = json!(mac.verif_capacity().0);
    if let Err(e) = mac.input(input) { rec["res"] = json!(err_class(&e)); return rec; }
    let mut tr = LogTracker { map, visits: vec![], detail };
    let r = guarded(|| mac.exec_with_tracker(redeem, env, &mut tr));
    match r {
        Err(p) => { rec["res"] = json!("panic"); rec["msg"] = json!(p); }
        Ok(Ok(v)) => {
            rec["res"] = json!("ok");
            rec["out"] = val_j(&v.as_ref());
            rec["out_ty_ok"] = json!(v.is_of_type(&redeem.arrow().target));
            rec["out_bits"] = bits_j(v.iter_compact());
        }
        Ok(Err(e)) => { rec["res"] = json!(err_class(&e)); }
    }
    let (hc, hf) = mac.verif_high_water();
    rec["hw"] = json!([hc, hf]);
    rec["visits"] = json!(tr.visits);
    rec
}

/// spec -> impl
pub fn replay(path: &str) {
    let mut out = Out::stdout();
    for (k, c) in read_ndjson(path).iter().enumerate() {
        let has_disc = c["dag"].as_array().unwrap().iter().any(|n| n[0] == "disc");
        if has_disc {
            // the design model scales the CMR word down; such cases are bound by the recorded direction
            out.emit(&json!({"k": k, "got": {"skip": "disc"}}));
            continue;
        }
        let got = guarded(|| {
            types::Context::with_context(|ctx| {
                let (redeem, map, _) = match build_typed(&ctx, Family::Core, &c["dag"], &c["ty"], &c["aux"]) {
                    Ok(x) => x,
                    Err(e) => return json!({"build_err": e}),
                };
                let inp = val_of(&c["inp"], &redeem.arrow().source);
                let env = CoreEnv::new();
                let a = execute(&redeem, &map, &inp, &env, None, false);
                let b = execute(&redeem, &map, &inp, &env, Some(0xff), false);
                // the arrows the crate ended up with
                json!({"run": a, "run_ff": b, "root": [ty_j(&redeem.arrow().source), ty_j(&redeem.arrow().target)]})
            })
        })
        .unwrap_or_else(|e| json!({"panic": e}));
        out.emit(&json!({"k": k, "got": got}));
    }
}

// ---------------------------------------------------------------- impl -> spec
use crate::gen::*;

/// value as JSON with word-typed sub-values compressed to ["bits", n, [..]]
pub fn val_cz(v: &simplicity::ValueRef, t: &types::Final) -> J {
    use simplicity::types::CompleteBound;
    if let Some(n) = t.as_word() {
        if n >= 2 {
            return json!(["bits", n, v.iter_padded().map(|b| b as u8).collect::<Vec<_>>()]);
        }
    }
    match t.bound() {
        CompleteBound::Unit => json!(["u"]),
        CompleteBound::Sum(a, b) => {
            if let Some(l) = v.as_left() { json!(["L", val_cz(&l, a)]) } else { json!(["R", val_cz(&v.as_right().unwrap(), b)]) }
        }
        CompleteBound::Product(a, b) => {
            let (x, y) = v.as_product().unwrap();
            json!(["P", val_cz(&x, a), val_cz(&y, b)])
        }
    }
}

/// describe a redeem program for the trace spec: dag (leaf nodes for jets/words), arrows, embedded values
pub fn describe(redeem: &RedeemNode) -> (J, J, J, HashMap<usize, usize>) {
    use simplicity::node::Inner;
    let mut dag = vec![];
    let mut ty = vec![];
    let mut aux = vec![];
    let mut map = HashMap::new();
    for it in redeem.post_order_iter::<InternalSharing>() {
        let n = it.node;
        map.insert(n as *const _ as usize, it.index + 1);
        let l = it.left_index.map(|x| x + 1).unwrap_or(0);
        let r = it.right_index.map(|x| x + 1).unwrap_or(0);
        let a = n.arrow();
        ty.push(json!([ty_cz(&a.source), ty_cz(&a.target)]));
        let mut ax = json!(["u"]);
        let nd = match n.inner() {
            Inner::Iden => json!(["iden", 0, 0]),
            Inner::Unit => json!(["unit", 0, 0]),
            Inner::InjL(_) => json!(["injl", l, 0]),
            Inner::InjR(_) => json!(["injr", l, 0]),
            Inner::Take(_) => json!(["take", l, 0]),
            Inner::Drop(_) => json!(["drop", l, 0]),
            Inner::Comp(..) => json!(["comp", l, r]),
            Inner::Case(..) => json!(["case", l, r]),
            Inner::Pair(..) => json!(["pair", l, r]),
            Inner::AssertL(..) => json!(["assertl", l, 0]),
            Inner::AssertR(..) => json!(["assertr", l, 0]),
            Inner::Disconnect(_, right) => {
                let bits: Vec<u8> = right.cmr().as_ref().iter().flat_map(|b| (0..8).map(move |i| (b >> (7 - i)) & 1)).collect();
                ax = json!(["bits", 8, bits]);
                json!(["disc", l, r])
            }
            Inner::Witness(v) => { ax = val_cz(&v.as_ref(), &a.target); json!(["witness", 0, 0]) }
            Inner::Fail(_) => json!(["fail", 0, 0]),
            Inner::Jet(j) => json!(["leaf", 0, 0, [ty_cz(&a.source), ty_cz(&a.target)], "jet", j.to_string()]),
            Inner::Word(w) => { ax = val_cz(&w.as_value().as_ref(), &a.target); json!(["word", 0, 0, [ty_cz(&a.source), ty_cz(&a.target)]]) }
        };
        dag.push(nd);
        aux.push(ax);
    }
    (json!(dag), json!(ty), json!(aux), map)
}

/// programs whose static bounds exceed the machine's hard limits must be refused, not allocated
fn limit_events(out: &mut Out, rng: &mut Rng) {
    for _ in 0..6 {
        let depth = rng.range(27, 70);
        let leaf = *rng.pick(&["word", "jet"]);
        let ev = guarded(|| {
            types::Context::with_context(|ctx| {
                let mut nodes = vec![if leaf == "word" { json!(["word", 0, 0, [1, 0, 1, 1, 0, 0, 1, 0]]) } else { json!(["jet", 0, 0, "ch_8"]) }];
                if leaf == "jet" { nodes.insert(0, json!(["witness", 0, 0])); nodes.push(json!(["comp", 1, 2])); }
                let base = nodes.len();
                for i in 0..depth { nodes.push(json!(["pair", base + i, base + i])); }
                if depth % 2 == 0 {
                    // hide the wide type in the middle of a composition: only extra_cells is large
                    let b = nodes.len();
                    nodes.push(json!(["unit", 0, 0]));
                    nodes.push(json!(["comp", b, b + 1]));
                }
                let n = nodes.len();
                let dag = json!(nodes);
                let ty = json!(vec![J::Null; n]);
                let aux = json!(vec![json!(["none"]); n]);
                let base_mem = crate::alloc::reset_peak();
                let r = build_typed(&ctx, Family::Core, &dag, &ty, &aux);
                let res = match r {
                    Err(e) => json!({"res": "build_err", "msg": e}),
                    Ok((redeem, _, _)) => match BitMachine::for_program(&redeem) {
                        Ok(_) => json!({"res": "allocated"}),
                        Err(e) => json!({"res": "limit", "msg": e.to_string()}),
                    },
                };
                let peak = crate::alloc::peak_since(base_mem);
                json!({"ev": "limit", "depth": depth, "leaf": leaf, "res": res["res"], "msg": res.get("msg").cloned().unwrap_or(json!("")), "peak_alloc": peak})
            })
        }).unwrap_or_else(|p| json!({"ev": "limit", "depth": depth, "leaf": leaf, "res": "panic", "msg": p, "peak_alloc": 0}));
        out.emit(&ev);
    }
}

pub fn record(runs: usize, path: &str) {
    let mut rng = Rng::from_env(5);
    let mut out = Out::file(path);
    limit_events(&mut out, &mut rng);
    let core = jet_sigs_core();
    // jets TLC can follow as oracle pairs: keep types moderate
    let jets: Vec<JetSig> = core.iter().filter(|j| j.src.size() <= 300 && j.tgt.size() <= 300).cloned().collect();
    let env = CoreEnv::new();
    let mut done = 0;
    let mut attempts = 0;
    while done < runs && attempts < runs * 20 {
        attempts += 1;
        let src = rand_small_ty(&mut rng, 3);
        let tgt = rand_small_ty(&mut rng, 3);
        let budget = rng.range(3, 45);
        let allow_fail = rng.chance(1, 4);
        let dag = {
            let mut g = Gen::new(&mut rng, &jets, budget);
            g.allow_fail = allow_fail;
            let root = g.expr(&src, &tgt, 7);
            g.finish(root)
        };
        let n = dag.as_array().unwrap().len();
        // pin only the root arrow (everything else is inferred), then finalize
        let mut ty = vec![J::Null; n];
        ty[n - 1] = json!([src.to_j(), tgt.to_j()]);
        // pass 1: no witness values; learn every node's final arrow
        let aux0 = json!(vec![json!(["none"]); n]);
        let learned: Option<Vec<J>> = guarded(|| {
            types::Context::with_context(|ctx| {
                let (_, _, built) = build_typed(&ctx, Family::Core, &dag, &json!(ty), &aux0).ok()?;
                Some(built.iter().map(|b| { let a = b.arrow().finalize().unwrap(); json!([ty_j(&a.source), ty_j(&a.target)]) }).collect())
            })
        }).ok().flatten();
        let Some(full_ty) = learned else { continue };
        // pass 2: the same program with every arrow pinned and type-correct random witness values
        let mut auxv = vec![json!(["u"]); n];
        for (i, nd) in dag.as_array().unwrap().iter().enumerate() {
            if nd[0] == "witness" {
                auxv[i] = Ty::from_final(&ty_of(&full_ty[i][1])).rand_val(&mut rng);
            }
        }
        let ty = full_ty;
        let aux = json!(auxv);
        let ev = guarded(|| {
            types::Context::with_context(|ctx| {
                let (redeem, _, _) = match build_typed(&ctx, Family::Core, &dag, &json!(ty), &aux) {
                    Ok(x) => x,
                    Err(_) => return J::Null,     // generated program does not type: not a case
                };
                let (sdag, sty, saux, map) = describe(&redeem);
                if sdag.as_array().unwrap().len() > 70 || redeem.arrow().source.bit_width() + redeem.arrow().target.bit_width() + redeem.bounds().extra_cells > 6000 {
                    return J::Null;
                }
                let inp_tree = Ty::from_final(&redeem.arrow().source).rand_val(&mut Rng::new(attempts as u64));
                let inp = val_of(&inp_tree, &redeem.arrow().source);
                let a = execute(&redeem, &map, &inp, &env, None, true);
                let b = execute(&redeem, &map, &inp, &env, Some(0xff), true);
                let same = a["res"] == b["res"] && a.get("out") == b.get("out") && a.get("out_bits") == b.get("out_bits")
                    && a["visits"].as_array().unwrap().len() == b["visits"].as_array().unwrap().len();
                let out_cz = if a["res"] == "ok" {
                    let v = val_of(&a["out"], &redeem.arrow().target);
                    val_cz(&v.as_ref(), &redeem.arrow().target)
                } else { json!(["u"]) };
                json!({"ev": "run", "dag": sdag, "ty": sty, "aux": saux,
                       "inp": val_cz(&inp.as_ref(), &redeem.arrow().source),
                       "res": a["res"], "out": out_cz, "out_ty_ok": a.get("out_ty_ok").cloned().unwrap_or(json!(true)),
                       "visits": a["visits"], "bounds": a["bounds"], "io": a["io"], "hw": a["hw"], "cap": a.get("cap").cloned().unwrap_or(json!(0)),
                       "same_with_dirty_memory": same, "msg": a.get("msg").cloned().unwrap_or(json!(""))})
            })
        });
        match ev {
            Ok(J::Null) => {}
            Ok(e) => { out.emit(&e); done += 1; }
            Err(p) => { out.emit(&json!({"ev": "run", "res": "panic", "msg": p, "dag": dag})); done += 1; }
        }
    }
}

/// impl -> spec for the jet library (JetLib.tla): every Core jet whose source and target are flat (units, words
/// and products of them) is run through the Bit Machine on patterned and random inputs; input and output bits
/// are logged.  TLC judges the ones JetLib specifies.
pub fn record_jets(per_jet: usize, path: &str) {
    use simplicity::jet::{Core, CoreEnv, Jet};
    use simplicity::node::CoreConstructible;
    use simplicity::types::Final;
    fn flat(t: &Final) -> bool {
        if t.is_unit() || t.as_word().is_some() { return true; }
        match t.as_product() { Some((a, b)) => flat(a) && flat(b), None => false }
    }
    let mut rng = Rng::from_env(55);
    let mut out = Out::file(path);
    let env = CoreEnv::new();
    for j in Core::ALL.iter() {
        let (src, tgt) = (j.source_ty().to_final(), j.target_ty().to_final());
        if !flat(&src) || !flat(&tgt) || src.bit_width() > 2048 { continue; }
        let n = src.bit_width();
        let mut inputs: Vec<Vec<bool>> = vec![vec![false; n], vec![true; n]];
        if n > 0 {
            let mut one = vec![false; n]; one[n - 1] = true; inputs.push(one);
            // equal halves, halves differing in the last bit, carries rippling through
            let h = n / 2;
            if h > 0 && n % 2 == 0 {
                let a: Vec<bool> = (0..h).map(|_| rng.bool()).collect();
                let mut eq = a.clone(); eq.extend(a.iter()); inputs.push(eq);
                let mut ne = a.clone(); let mut b = a.clone(); b[h - 1] = !b[h - 1]; ne.extend(b); inputs.push(ne);
                let mut carry = vec![true; h]; carry.extend(std::iter::repeat(false).take(h - 1)); carry.push(true); inputs.push(carry);
            }
        }
        for _ in 0..per_jet { inputs.push((0..n).map(|_| rng.bool()).collect()); }
        for bits in inputs {
            let res = guarded(|| types::Context::with_context(|ctx| {
                let node = CN::jet(&ctx, j);
                let rn = node.finalize_unpruned().expect("one-jet program");
                let bytes = bytes_from_bits(&bits);
                let input = Value::from_compact_bits(&mut simplicity::BitIter::from(&bytes[..]), &src).expect("input");
                let mut mac = BitMachine::for_program(&rn).expect("machine");
                mac.input(&input).expect("input");
                match mac.exec(&rn, &env) {
                    Ok(v) => bits_j(v.iter_padded()),
                    Err(_) => json!("jetfailed"),
                }
            })).unwrap_or_else(|p| json!(format!("panic: {}", p)));
            out.emit(&json!({"ev": "jet", "name": j.to_string(), "in": bits_j(bits.iter().copied()), "out": res}));
        }
    }
    out.flush();
}
