//! C05 / C07: typed programs executed on the real Bit Machine.
use crate::prog::*;
use crate::tyval::*;
use crate::util::*;
use serde_json::{json, Value as J};
use simplicity::bit_machine::{ExecTracker, ExecutionError, NodeOutput};
use simplicity::dag::{DagLike, InternalSharing};
use simplicity::jet::{CoreEnv, JetEnvironment};
use simplicity::node::RedeemNode;
use simplicity::types::{self, Type};
use simplicity::{BitMachine, Value};
use std::collections::HashMap;
use std::sync::Arc;

/// Build the typed program of a case: nodes in index order, witness/word values from `aux`,
/// every node's arrow pinned to `ty` (complete types), then finalize_unpruned.
/// Returns the redeem root and, for every redeem node (by address), its spec index.
pub fn build_typed<'b>(
    ctx: &types::Context<'b>,
    fam: Family,
    dag: &J,
    ty: &J,
    aux: &J,
) -> Result<(Arc<RedeemNode>, HashMap<usize, usize>, Vec<CN<'b>>), String> {
    let nodes = dag.as_array().unwrap();
    let mut built: Vec<CN> = vec![];
    for (i, nd) in nodes.iter().enumerate() {
        let op = nd[0].as_str().unwrap();
        let mut nd2 = nd.clone();
        // values the spec chose for this node
        if op == "witness" {
            // a value only when the spec gives both the node's type and the value; otherwise none
            nd2 = if !ty[i].is_null() && aux[i].is_array() && aux[i][0] != "none" {
                json!(["witness", 0, 0, [ty[i][1].clone(), aux[i].clone()]])
            } else {
                json!(["witness", 0, 0])
            };
        } else if op == "word0" || op == "word1" {
            let t = ty_of(&ty[i][1]);
            let v = val_of(&aux[i], &t);
            let bits: Vec<u8> = v.iter_padded().map(|b| b as u8).collect();
            nd2 = json!(["word", 0, 0, bits]);
        }
        let n = {
            let get = |k: usize| built[k - 1].clone();
            build_node(ctx, fam, &nd2, &get).map_err(|e| format!("build node {}: {}", i + 1, e))?
        };
        // pin the arrow to the spec's typing
        if !ty[i].is_null() {
            let s = Type::complete(ctx, ty_of(&ty[i][0]));
            let t = Type::complete(ctx, ty_of(&ty[i][1]));
            ctx.unify(&n.arrow().source, &s, "pin source").map_err(|e| format!("pin source {}: {}", i + 1, e))?;
            ctx.unify(&n.arrow().target, &t, "pin target").map_err(|e| format!("pin target {}: {}", i + 1, e))?;
        }
        built.push(n);
    }
    let root = built.last().unwrap().clone();
    let redeem = root.finalize_unpruned().map_err(|e| format!("finalize_unpruned: {}", e))?;
    // map redeem nodes to spec indices: both DAGs have the same pointer structure
    let cidx: HashMap<usize, usize> = built.iter().enumerate().map(|(i, n)| (Arc::as_ptr(n) as usize, i + 1)).collect();
    let mut map = HashMap::new();
    for (c, r) in (&*root).post_order_iter::<InternalSharing>().zip((&*redeem).post_order_iter::<InternalSharing>()) {
        if let Some(i) = cidx.get(&(c.node as *const _ as usize)) {
            map.insert(r.node as *const _ as usize, *i);
        }
    }
    Ok((redeem, map, built))
}

pub struct LogTracker<'a> {
    pub map: &'a HashMap<usize, usize>,
    pub visits: Vec<J>,
    pub detail: bool,
}
impl ExecTracker for LogTracker<'_> {
    fn visit_node(&mut self, node: &RedeemNode, mut input: simplicity::bit_machine::FrameIter, output: NodeOutput) {
        let idx = self.map.get(&(node as *const _ as usize)).copied().unwrap_or(0);
        if !self.detail {
            // first input bit, as SetTracker reads it
            let first = input.next().map(|b| b as i64).unwrap_or(-1);
            self.visits.push(json!([idx, first]));
            return;
        }
        let inb: Vec<u8> = input.by_ref().take(node.arrow().source.bit_width()).map(|b| b as u8).collect();
        let out = match output {
            NodeOutput::NonTerminal => json!("nonterminal"),
            NodeOutput::JetFailed => json!("jetfailed"),
            NodeOutput::Success(it) => json!(it.take(node.arrow().target.bit_width()).map(|b| b as u8).collect::<Vec<_>>()),
        };
        self.visits.push(json!({"i": idx, "in": inb, "out": out}));
    }
}

pub fn err_class(e: &ExecutionError) -> &'static str {
    match e {
        ExecutionError::ReachedPrunedBranch(_) => "assert",
        ExecutionError::ReachedFailNode(_) => "failnode",
        ExecutionError::JetFailed(_) => "jetfail",
        ExecutionError::InputWrongType(_) => "inputtype",
        ExecutionError::LimitExceeded(_) => "limit",
        ExecutionError::JetTypeMismatch => "jettype",
    }
}

/// one execution: returns the JSON record of everything C05/C07 look at
pub fn execute<JE: JetEnvironment>(redeem: &RedeemNode, map: &HashMap<usize, usize>, input: &Value, env: &JE, fill: Option<u8>, detail: bool) -> J {
    let b = redeem.bounds();
    let mut rec = json!({"bounds": {"cells": b.extra_cells, "frames": b.extra_frames},
                         "io": [redeem.arrow().source.bit_width(), redeem.arrow().target.bit_width()]});
    let mut mac = match BitMachine::for_program(redeem) {
        Ok(m) => m,
        Err(e) => { rec["res"] = json!("limit"); rec["msg"] = json!(e.to_string()); return rec; }
    };
    if let Some(f) = fill { mac.verif_fill(f); }
    rec["cap"] = json!(mac.verif_capacity().0);
    if let Err(e) = mac.input(input) { rec["res"] = json!(err_class(&e)); return rec; }
    let mut tr = LogTracker { map, visits: vec![], detail };
    let r = guarded(|| mac.exec_with_tracker(redeem, env, &mut tr));
    match r {
        Err(p) => { rec["res"] = json!("panic"); rec["msg"] = json!(p); }
        Ok(Ok(v)) => {
            rec["res"] = json!("ok");
            rec["out"] = val_j(&v.as_ref());
            rec["out_ty_ok"] = json!(v.is_of_type(&redeem.arrow().target));
            rec["out_bits"] = bits_j(v.iter_compact());
        }
        Ok(Err(e)) => { rec["res"] = json!(err_class(&e)); }
    }
    let (hc, hf) = mac.verif_high_water();
    rec["hw"] = json!([hc, hf]);
    rec["visits"] = json!(tr.visits);
    rec
}

/// spec -> impl
pub fn replay(path: &str) {
    let mut out = Out::stdout();
    for (k, c) in read_ndjson(path).iter().enumerate() {
        let has_disc = c["dag"].as_array().unwrap().iter().any(|n| n[0] == "disc");
        if has_disc {
            // the design model scales the CMR word down; such cases are bound by the recorded direction
            out.emit(&json!({"k": k, "got": {"skip": "disc"}}));
            continue;
        }
        let got = guarded(|| {
            types::Context::with_context(|ctx| {
                let (redeem, map, _) = match build_typed(&ctx, Family::Core, &c["dag"], &c["ty"], &c["aux"]) {
                    Ok(x) => x,
                    Err(e) => return json!({"build_err": e}),
                };
                let inp = val_of(&c["inp"], &redeem.arrow().source);
                let env = CoreEnv::new();
                let a = execute(&redeem, &map, &inp, &env, None, false);
                let b = execute(&redeem, &map, &inp, &env, Some(0xff), false);
                // the same input value as a view into a larger shared buffer, byte-aligned (offset 8 or 16) or not (offset 4):
                // where a value sits in its buffer is not part of the value
                let lead = match k % 3 { 0 => Value::u8(0xa5), 1 => Value::u16(0xc33c), _ => Value::u4(0x9) };
                let wrapped = Value::product(lead, inp.shallow_clone());
                let view = wrapped.as_product().expect("product").1.to_value();
                let v = execute(&redeem, &map, &view, &env, None, false);
                // the arrows the crate ended up with
                json!({"run": a, "run_ff": b, "run_view": v, "root": [ty_j(&redeem.arrow().source), ty_j(&redeem.arrow().target)]})
            })
        })
        .unwrap_or_else(|e| json!({"panic": e}));
        out.emit(&json!({"k": k, "got": got}));
    }
}

// ---------------------------------------------------------------- impl -> spec
use crate::gen::*;

/// value as JSON with word-typed sub-values compressed to ["bits", n, [..]]
pub fn val_cz(v: &simplicity::ValueRef, t: &types::Final) -> J {
    use simplicity::types::CompleteBound;
    if let Some(n) = t.as_word() {
        if n >= 2 {
            return json!(["bits", n, v.iter_padded().map(|b| b as u8).collect::<Vec<_>>()]);
        }
    }
    match t.bound() {
        CompleteBound::Unit => json!(["u"]),
        CompleteBound::Sum(a, b) => {
            if let Some(l) = v.as_left() { json!(["L", val_cz(&l, a)]) } else { json!(["R", val_cz(&v.as_right().unwrap(), b)]) }
        }
        CompleteBound::Product(a, b) => {
            let (x, y) = v.as_product().unwrap();
            json!(["P", val_cz(&x, a), val_cz(&y, b)])
        }
    }
}

/// describe a redeem program for the trace spec: dag (leaf nodes for jets/words), arrows, embedded values
pub fn describe(redeem: &RedeemNode) -> (J, J, J, HashMap<usize, usize>) {
    use simplicity::node::Inner;
    let mut dag = vec![];
    let mut ty = vec![];
    let mut aux = vec![];
    let mut map = HashMap::new();
    for it in redeem.post_order_iter::<InternalSharing>() {
        let n = it.node;
        map.insert(n as *const _ as usize, it.index + 1);
        let l = it.left_index.map(|x| x + 1).unwrap_or(0);
        let r = it.right_index.map(|x| x + 1).unwrap_or(0);
        let a = n.arrow();
        ty.push(json!([ty_cz(&a.source), ty_cz(&a.target)]));
        let mut ax = json!(["u"]);
        let nd = match n.inner() {
            Inner::Iden => json!(["iden", 0, 0]),
            Inner::Unit => json!(["unit", 0, 0]),
            Inner::InjL(_) => json!(["injl", l, 0]),
            Inner::InjR(_) => json!(["injr", l, 0]),
            Inner::Take(_) => json!(["take", l, 0]),
            Inner::Drop(_) => json!(["drop", l, 0]),
            Inner::Comp(..) => json!(["comp", l, r]),
            Inner::Case(..) => json!(["case", l, r]),
            Inner::Pair(..) => json!(["pair", l, r]),
            Inner::AssertL(..) => json!(["assertl", l, 0]),
            Inner::AssertR(..) => json!(["assertr", l, 0]),
            Inner::Disconnect(_, right) => {
                let bits: Vec<u8> = right.cmr().as_ref().iter().flat_map(|b| (0..8).map(move |i| (b >> (7 - i)) & 1)).collect();
                ax = json!(["bits", 8, bits]);
                json!(["disc", l, r])
            }
            Inner::Witness(v) => { ax = val_cz(&v.as_ref(), &a.target); json!(["witness", 0, 0]) }
            Inner::Fail(_) => json!(["fail", 0, 0]),
            Inner::Jet(j) => json!(["leaf", 0, 0, [ty_cz(&a.source), ty_cz(&a.target)], "jet", j.to_string()]),
            Inner::Word(w) => { ax = val_cz(&w.as_value().as_ref(), &a.target); json!(["word", 0, 0, [ty_cz(&a.source), ty_cz(&a.target)]]) }
        };
        dag.push(nd);
        aux.push(ax);
    }
    (json!(dag), json!(ty), json!(aux), map)
}

/// programs whose static bounds exceed the machine's hard limits must be refused, not allocated
fn limit_events(out: &mut Out, rng: &mut Rng) {
    for k in 0..8 {
        // (two of the eight are always beyond 64 doublings, where the bounds saturate)
        let depth = if k == 0 { 66 } else if k == 1 { 68 } else { rng.range(27, 70) };
        let leaf = *rng.pick(&["word", "jet"]);
        let ev = guarded(|| {
            types::Context::with_context(|ctx| {
                let mut nodes = vec![if leaf == "word" { json!(["word", 0, 0, [1, 0, 1, 1, 0, 0, 1, 0]]) } else { json!(["jet", 0, 0, "ch_8"]) }];
                if leaf == "jet" { nodes.insert(0, json!(["witness", 0, 0])); nodes.push(json!(["comp", 1, 2])); }
                let base = nodes.len();
                for i in 0..depth { nodes.push(json!(["pair", base + i, base + i])); }
                if depth % 2 == 0 {
                    // hide the wide type in the middle of a composition: only extra_cells is large
                    let b = nodes.len();
                    nodes.push(json!(["unit", 0, 0]));
                    nodes.push(json!(["comp", b, b + 1]));
                    if depth % 4 == 2 {
                        // ... and give the root a non-empty target: the (possibly saturated) extra-cell bound then has
                        // to be refused on its own, before it is added to the widths of source and target
                        nodes.push(json!(["pair", b + 2, base]));
                    }
                }
                let n = nodes.len();
                let dag = json!(nodes);
                let ty = json!(vec![J::Null; n]);
                let aux = json!(vec![json!(["none"]); n]);
                let base_mem = crate::alloc::reset_peak();
                let r = build_typed(&ctx, Family::Core, &dag, &ty, &aux);
                let res = match r {
                    Err(e) => json!({"res": "build_err", "msg": e}),
                    Ok((redeem, _, _)) => match BitMachine::for_program(&redeem) {
                        Ok(_) => json!({"res": "allocated"}),
                        Err(e) => json!({"res": "limit", "msg": e.to_string()}),
                    },
                };
                let peak = crate::alloc::peak_since(base_mem);
                json!({"ev": "limit", "depth": depth, "leaf": leaf, "res": res["res"], "msg": res.get("msg").cloned().unwrap_or(json!("")), "peak_alloc": peak})
            })
        }).unwrap_or_else(|p| json!({"ev": "limit", "depth": depth, "leaf": leaf, "res": "panic", "msg": p, "peak_alloc": 0}));
        out.emit(&ev);
    }
}

/// one recorded run of a program given as a DAG with its root arrow: inferred types pinned, random type-correct witnesses, a
/// random input, executed on fresh and on dirty memory
fn record_one(dag: &J, src: &Ty, tgt: &Ty, rng: &mut Rng, attempts: usize, env: &CoreEnv) -> Result<J, String> {
    let n = dag.as_array().unwrap().len();
    // pin only the root arrow (everything else is inferred), then finalize
    let mut ty = vec![J::Null; n];
    ty[n - 1] = json!([src.to_j(), tgt.to_j()]);
    // pass 1: no witness values; learn every node's final arrow
    let aux0 = json!(vec![json!(["none"]); n]);
    let learned: Option<Vec<J>> = guarded(|| {
        types::Context::with_context(|ctx| {
            let (_, _, built) = build_typed(&ctx, Family::Core, &dag, &json!(ty), &aux0).ok()?;
            Some(built.iter().map(|b| { let a = b.arrow().finalize().unwrap(); json!([ty_j(&a.source), ty_j(&a.target)]) }).collect())
        })
    }).ok().flatten();
    let Some(full_ty) = learned else { return Ok(J::Null) };
    // pass 2: the same program with every arrow pinned and type-correct random witness values
    let mut auxv = vec![json!(["u"]); n];
    for (i, nd) in dag.as_array().unwrap().iter().enumerate() {
        if nd[0] == "witness" {
            auxv[i] = Ty::from_final(&ty_of(&full_ty[i][1])).rand_val(rng);
        }
    }
    let ty = full_ty;
    let aux = json!(auxv);
    let ev = guarded(|| {
        types::Context::with_context(|ctx| {
            let (redeem, _, _) = match build_typed(&ctx, Family::Core, &dag, &json!(ty), &aux) {
                Ok(x) => x,
                Err(_) => return J::Null,     // generated program does not type: not a case
            };
            let (sdag, sty, saux, map) = describe(&redeem);
            if sdag.as_array().unwrap().len() > 70 || redeem.arrow().source.bit_width() + redeem.arrow().target.bit_width() + redeem.bounds().extra_cells > 6000 {
                return J::Null;
            }
            let inp_tree = Ty::from_final(&redeem.arrow().source).rand_val(&mut Rng::new(attempts as u64));
            let inp = val_of(&inp_tree, &redeem.arrow().source);
            let a = execute(&redeem, &map, &inp, env, None, true);
            let b = execute(&redeem, &map, &inp, env, Some(0xff), true);
            let same = a["res"] == b["res"] && a.get("out") == b.get("out") && a.get("out_bits") == b.get("out_bits")
                && a["visits"].as_array().unwrap().len() == b["visits"].as_array().unwrap().len();
            let out_cz = if a["res"] == "ok" {
                let v = val_of(&a["out"], &redeem.arrow().target);
                val_cz(&v.as_ref(), &redeem.arrow().target)
            } else { json!(["u"]) };
            json!({"ev": "run", "dag": sdag, "ty": sty, "aux": saux,
                   "inp": val_cz(&inp.as_ref(), &redeem.arrow().source),
                   "res": a["res"], "out": out_cz, "out_ty_ok": a.get("out_ty_ok").cloned().unwrap_or(json!(true)),
                   "visits": a["visits"], "bounds": a["bounds"], "io": a["io"], "hw": a["hw"], "cap": a.get("cap").cloned().unwrap_or(json!(0)),
                   "same_with_dirty_memory": same, "msg": a.get("msg").cloned().unwrap_or(json!(""))})
        })
    });
    ev
}

/// A type of exactly `w` bits: the product of the words of its binary digits, largest first (13 = 2^8 x (2^4 x 2)).
pub fn ty_of_width(w: usize) -> Ty {
    let parts: Vec<Ty> = (0..12).rev().filter(|k| w >> k & 1 == 1).map(Ty::word).collect();
    let mut it = parts.into_iter().rev();
    match it.next() { None => Ty::Unit, Some(last) => it.fold(last, |acc, p| Ty::prod(p, acc)) }
}

/// Copy sweep: rearrangements of A x B (x 2) for every pair of widths, so that `iden` under take / drop copies values of every
/// width between read and write cursors at every pair of bit alignments (both byte-aligned with a width that is no multiple
/// of eight included), directly, through an intermediate frame, and inside a case.
fn copy_sweep(out: &mut Out, rng: &mut Rng, env: &CoreEnv, thorough: bool) -> usize {
    let widths: Vec<usize> = if thorough { (0..=40).collect() } else { (0..=13).chain([15, 16, 17, 23, 24, 25]).collect() };
    let mut k = 0;
    let mut done = 0;
    for &wa in &widths {
        for &wb in &widths {
            k += 1;
            let (a, b) = (ty_of_width(wa), ty_of_width(wb));
            let ab = Ty::prod(a.clone(), b.clone());
            let ba = Ty::prod(b.clone(), a.clone());
            // 1 iden  2 iden  3 take 1  4 drop 2  5 pair 4 3 = swap   (one iden object per type)
            let swap = vec![json!(["iden", 0, 0]), json!(["iden", 0, 0]), json!(["take", 1, 0]), json!(["drop", 2, 0]), json!(["pair", 4, 3])];
            let (dag, src, tgt) = match k % 4 {
                0 => (json!(swap), ab.clone(), ba.clone()),
                1 => {      // swap ; swap', through an intermediate frame
                    let mut d = swap.clone();
                    d.extend([json!(["iden", 0, 0]), json!(["iden", 0, 0]), json!(["take", 6, 0]), json!(["drop", 7, 0]), json!(["pair", 9, 8]), json!(["comp", 5, 10])]);
                    (json!(d), ab.clone(), ab.clone())
                }
                2 => {      // (whole x A) x swap
                    let mut d = swap.clone();
                    d.extend([json!(["iden", 0, 0]), json!(["iden", 0, 0]), json!(["take", 7, 0]), json!(["pair", 6, 8]), json!(["pair", 9, 5])]);
                    (json!(d), ab.clone(), Ty::prod(Ty::prod(ab.clone(), a.clone()), ba.clone()))
                }
                _ => (json!([]), Ty::Unit, Ty::Unit),
            };
            // the case program's two branches have different targets unless made equal: use (drop iden) in both instead
            let (dag, tgt) = if k % 4 == 3 { (json!([["iden", 0, 0], ["drop", 1, 0], ["case", 2, 2]]), ab.clone()) } else { (dag, tgt) };
            match record_one(&dag, &src, &tgt, rng, 1000 + k, env) {
                Ok(J::Null) => {}
                Ok(e) => { out.emit(&e); done += 1; }
                Err(p) => { out.emit(&json!({"ev": "run", "res": "panic", "msg": p, "dag": dag})); done += 1; }
            }
        }
    }
    done
}

pub fn record(runs: usize, path: &str) {
    let mut rng = Rng::from_env(5);
    let mut out = Out::file(path);
    limit_events(&mut out, &mut rng);
    let core = jet_sigs_core();
    // jets TLC can follow as oracle pairs: keep types moderate
    let jets: Vec<JetSig> = core.iter().filter(|j| j.src.size() <= 300 && j.tgt.size() <= 300).cloned().collect();
    let env = CoreEnv::new();
    let swept = copy_sweep(&mut out, &mut rng, &env, runs > 1000);
    eprintln!("copy sweep: {} runs", swept);
    let mut done = 0;
    let mut attempts = 0;
    while done < runs && attempts < runs * 20 {
        attempts += 1;
        let src = rand_small_ty(&mut rng, 3);
        let tgt = rand_small_ty(&mut rng, 3);
        let budget = rng.range(3, 45);
        let allow_fail = rng.chance(1, 4);
        let dag = {
            let mut g = Gen::new(&mut rng, &jets, budget);
            g.allow_fail = allow_fail;
            let root = g.expr(&src, &tgt, 7);
            g.finish(root)
        };
        let ev = record_one(&dag, &src, &tgt, &mut rng, attempts, &env);
        match ev {
            Ok(J::Null) => {}
            Ok(e) => { out.emit(&e); done += 1; }
            Err(p) => { out.emit(&json!({"ev": "run", "res": "panic", "msg": p, "dag": dag})); done += 1; }
        }
    }
}

/// impl -> spec for the jet library (JetLib.tla): every Core jet whose source and target are flat (units, words
/// and products of them) is run through the Bit Machine on patterned and random inputs; input and output bits
/// are logged.  TLC judges the ones JetLib specifies.
pub fn record_jets(per_jet: usize, path: &str) {
    use simplicity::jet::{Core, CoreEnv, Jet};
    use simplicity::node::CoreConstructible;
    use simplicity::types::Final;
    fn flat(t: &Final) -> bool {
        if t.is_unit() || t.as_word().is_some() { return true; }
        match t.as_product() { Some((a, b)) => flat(a) && flat(b), None => false }
    }
    let mut rng = Rng::from_env(55);
    let mut out = Out::file(path);
    let env = CoreEnv::new();
    for j in Core::ALL.iter() {
        let (src, tgt) = (j.source_ty().to_final(), j.target_ty().to_final());
        if !flat(&src) || !flat(&tgt) || src.bit_width() > 2048 { continue; }
        // specified through an inversion or a scalar multiplication (minutes per input in TLC): record_ec_jets picks their inputs
        let name = j.to_string();
        if ["gej_y_is_odd", "generate", "linear_combination_1", "scale", "linear_verify_1", "point_verify_1", "bip_0340_verify", "check_sig_verify", "swu", "hash_to_curve"].contains(&name.as_str()) { continue; }
        // the secp256k1 jets cost TLC a few hundred limb products per input
        let ec = ["fe_", "ge_", "gej_", "scalar_", "linear_", "point_", "bip_", "check_sig", "swu", "hash_to"].iter().any(|p| name.starts_with(p));
        let per_jet = if ec { 2 + per_jet / 6 } else { per_jet };
        let n = src.bit_width();
        let mut inputs: Vec<Vec<bool>> = vec![vec![false; n], vec![true; n]];
        if n > 0 {
            let mut one = vec![false; n]; one[n - 1] = true; inputs.push(one);
            // equal halves, halves differing in the last bit, carries rippling through
            let h = n / 2;
            if h > 0 && n % 2 == 0 {
                let a: Vec<bool> = (0..h).map(|_| rng.bool()).collect();
                let mut eq = a.clone(); eq.extend(a.iter()); inputs.push(eq);
                let mut ne = a.clone(); let mut b = a.clone(); b[h - 1] = !b[h - 1]; ne.extend(b); inputs.push(ne);
                let mut carry = vec![true; h]; carry.extend(std::iter::repeat(false).take(h - 1)); carry.push(true); inputs.push(carry);
            }
        }
        for _ in 0..per_jet { inputs.push((0..n).map(|_| rng.bool()).collect()); }
        for bits in inputs {
            let res = guarded(|| types::Context::with_context(|ctx| {
                let node = CN::jet(&ctx, j);
                let rn = node.finalize_unpruned().expect("one-jet program");
                let bytes = bytes_from_bits(&bits);
                let input = Value::from_compact_bits(&mut simplicity::BitIter::from(&bytes[..]), &src).expect("input");
                let mut mac = BitMachine::for_program(&rn).expect("machine");
                mac.input(&input).expect("input");
                match mac.exec(&rn, &env) {
                    Ok(v) => bits_j(v.iter_padded()),
                    Err(_) => json!("jetfailed"),
                }
            })).unwrap_or_else(|p| json!(format!("panic: {}", p)));
            out.emit(&json!({"ev": "jet", "name": j.to_string(), "in": bits_j(bits.iter().copied()), "out": res}));
        }
    }
    out.flush();
}

/// impl -> spec for the hashing / parsing jets of JetLib.tla (sums in their types, so inputs and outputs are
/// logged in the padded layout): sha_256_iv, sha_256_block, the sha_256_ctx_8_* family, tapdata_init, parse_lock,
/// parse_sequence.  Contexts are synthesised (any buffer occupancy, block counts around the 2^55 limit) and also
/// produced by chains init -> add_* -> finalize whose intermediate contexts are fed back in.
pub fn record_hash_jets(per_jet: usize, path: &str) {
    use simplicity::jet::{Core, CoreEnv, Jet};
    use simplicity::node::CoreConstructible;
    let mut rng = Rng::from_env(56);
    let mut out = Out::file(path);
    let env = CoreEnv::new();
    // run one jet on an input given in compact bits; log padded input and padded output; return the output value
    let mut run = |j: Core, compact: &[bool], out: &mut Out| -> Option<Value> {
        let src = j.source_ty().to_final();
        let bytes = bytes_from_bits(compact);
        let input = Value::from_compact_bits(&mut simplicity::BitIter::from(&bytes[..]), &src).expect("input");
        let inp = input.clone();
        let res = guarded(|| types::Context::with_context(|ctx| {
            let node = CN::jet(&ctx, &j);
            let rn = node.finalize_unpruned().expect("one-jet program");
            let mut mac = BitMachine::for_program(&rn).expect("machine");
            mac.input(&inp).expect("input");
            mac.exec(&rn, &env).ok()
        }));
        let (o, v) = match res {
            Ok(Some(v)) => (bits_j(v.iter_padded()), Some(v)),
            Ok(None) => (json!("jetfailed"), None),
            Err(p) => (json!(format!("panic: {}", p)), None),
        };
        out.emit(&json!({"ev": "jet", "name": j.to_string(), "in": bits_j(input.iter_padded()), "out": o}));
        v
    };
    fn rand_bits(rng: &mut Rng, n: usize) -> Vec<bool> { (0..n).map(|_| rng.bool()).collect() }
    fn u64_bits(x: u64) -> Vec<bool> { (0..64).rev().map(|i| (x >> i) & 1 == 1).collect() }
    // a buffer (2^8)^<2^(n+1) in compact bits: tag, then the chunk if present
    fn buffer(rng: &mut Rng, n: u32, fill: Option<bool>) -> Vec<bool> {
        let mut v = vec![];
        for i in (0..=n).rev() {
            let t = fill.unwrap_or_else(|| rng.bool());
            v.push(t);
            if t { v.extend(rand_bits(rng, 8 << i)); }
        }
        v
    }
    let limit = 1u64 << 55;
    let counts = |rng: &mut Rng| -> Vec<u64> { vec![0, 1, limit - 1, limit - 2, limit, rng.next_u64(), rng.next_u64() % (1 << 20)] };
    let ctx = |rng: &mut Rng, cc: u64, fill: Option<bool>| -> Vec<bool> {
        let mut v = buffer(rng, 5, fill);
        v.extend(u64_bits(cc));
        v.extend(rand_bits(rng, 256));
        v
    };
    let by_name = |n: &str| -> Core { *Core::ALL.iter().find(|j| j.to_string() == n).unwrap_or_else(|| panic!("no jet {}", n)) };
    let adds: Vec<(usize, Core)> = (0..10).map(|k| (1usize << k, by_name(&format!("sha_256_ctx_8_add_{}", 1 << k)))).collect();
    run(by_name("sha_256_iv"), &[], &mut out);
    run(by_name("sha_256_ctx_8_init"), &[], &mut out);
    run(by_name("tapdata_init"), &[], &mut out);
    for k in 0..per_jet + 2 {
        let bits = match k { 0 => vec![false; 768], 1 => vec![true; 768], _ => rand_bits(&mut rng, 768) };
        run(by_name("sha_256_block"), &bits, &mut out);
    }
    for x in [0u32, 1, 499_999_999, 500_000_000, 500_000_001, 0x7fff_ffff, 0x8000_0000, 0xffff_ffff, 0x0040_0000, 0x0040_ffff, 0x003f_ffff, 0x8040_0001]
        .into_iter().chain((0..4 * per_jet).map(|_| rng.next_u64() as u32).collect::<Vec<_>>()) {
        let bits: Vec<bool> = (0..32).rev().map(|i| (x >> i) & 1 == 1).collect();
        run(by_name("parse_lock"), &bits, &mut out);
        run(by_name("parse_sequence"), &bits, &mut out);
    }
    // synthesised contexts
    for (n, j) in &adds {
        let reps = if *n >= 128 { 1 + per_jet / 4 } else { per_jet };
        for r in 0..reps {
            for cc in counts(&mut rng) {
                // around the limit only full and empty buffers matter; elsewhere any occupancy
                let fill = if cc >= limit - 2 && cc <= limit { Some(r % 2 == 0) } else { None };
                if *n >= 128 && cc > (1 << 20) && cc < limit - 2 { continue; }
                let mut v = ctx(&mut rng, cc, fill);
                v.extend(rand_bits(&mut rng, 8 * n));
                run(*j, &v, &mut out);
            }
        }
    }
    for r in 0..per_jet {
        for cc in counts(&mut rng) {
            let fill = if cc >= limit - 2 && cc <= limit { Some(r % 2 == 0) } else { None };
            run(by_name("sha_256_ctx_8_finalize"), &ctx(&mut rng, cc, fill), &mut out);
        }
        for cc in [0, limit - 1, rng.next_u64() % (1 << 20)] {
            let mut v = ctx(&mut rng, cc, None);
            v.extend(buffer(&mut rng, 8, if r == 0 { Some(true) } else { None }));
            run(by_name("sha_256_ctx_8_add_buffer_511"), &v, &mut out);
        }
    }
    // chains: the context a jet returned is the next jet's input
    for c in 0..per_jet + 1 {
        let start = if c % 3 == 2 { "tapdata_init" } else { "sha_256_ctx_8_init" };
        let mut cur = run(by_name(start), &[], &mut out).expect("init");
        for _ in 0..rng.range(1, 5) {
            let (n, j) = adds[rng.below(if c == 0 { 10 } else { 7 })];
            let mut v: Vec<bool> = cur.iter_compact().collect();
            v.extend(rand_bits(&mut rng, 8 * n));
            match run(j, &v, &mut out) { Some(x) => cur = x, None => break }
        }
        let v: Vec<bool> = cur.iter_compact().collect();
        run(by_name("sha_256_ctx_8_finalize"), &v, &mut out);
    }
    out.flush();
}

/// impl -> spec for the secp256k1 jets of JetLib.tla that need meaningful inputs: points on the curve (obtained
/// from the `generate` jet itself and re-scaled to non-trivial z), points at infinity, equal / opposite points,
/// small scalars for the jets whose specification multiplies a point, squares and non-squares for the roots.
/// The field and scalar jets with flat types are covered by `record_jets` on patterned and random inputs.
pub fn record_ec_jets(per_jet: usize, path: &str) {
    use simplicity::jet::{Core, CoreEnv, Jet};
    use simplicity::node::CoreConstructible;
    let mut rng = Rng::from_env(57);
    let mut out = Out::file(path);
    let env = CoreEnv::new();
    type Bits = Vec<bool>;
    let mut run = |name: &str, compact: &[bool], log: bool, out: &mut Out| -> Option<Bits> {
        let j = *Core::ALL.iter().find(|j| j.to_string() == name).unwrap_or_else(|| panic!("no jet {}", name));
        let src = j.source_ty().to_final();
        let bytes = bytes_from_bits(compact);
        let input = Value::from_compact_bits(&mut simplicity::BitIter::from(&bytes[..]), &src).expect("input");
        let inp = input.clone();
        let res = guarded(|| types::Context::with_context(|ctx| {
            let node = CN::jet(&ctx, &j);
            let rn = node.finalize_unpruned().expect("one-jet program");
            let mut mac = BitMachine::for_program(&rn).expect("machine");
            mac.input(&inp).expect("input");
            mac.exec(&rn, &env).ok()
        }));
        let (o, v) = match res {
            Ok(Some(v)) => (bits_j(v.iter_padded()), Some(v.iter_padded().collect::<Bits>())),
            Ok(None) => (json!("jetfailed"), None),
            Err(p) => (json!(format!("panic: {}", p)), None),
        };
        if log { out.emit(&json!({"ev": "jet", "name": name, "in": bits_j(input.iter_padded()), "out": o})); }
        v
    };
    fn rand_bits(rng: &mut Rng, n: usize) -> Bits { (0..n).map(|_| rng.bool()).collect() }
    fn small(x: u64) -> Bits { let mut v = vec![false; 192]; v.extend((0..64).rev().map(|i| (x >> i) & 1 == 1)); v }
    fn cat(parts: &[&Bits]) -> Bits { parts.iter().flat_map(|p| p.iter().copied()).collect() }
    let zero = vec![false; 256];
    let ones = vec![true; 256];
    // the pool: on-curve Jacobian points with z = 1 (from generate, not logged), re-scaled copies, their affine forms
    let mut pool: Vec<Bits> = vec![];
    for _ in 0..(3 + per_jet) {
        let p = run("generate", &rand_bits(&mut rng, 256), false, &mut out).expect("generate");
        let c = rand_bits(&mut rng, 256);
        let q = run("gej_rescale", &cat(&[&p, &c]), true, &mut out).expect("rescale");
        pool.push(p);
        pool.push(q);
    }
    let neg = |p: &Bits, out: &mut Out, run: &mut dyn FnMut(&str, &[bool], bool, &mut Out) -> Option<Bits>| run("gej_negate", p, true, out).expect("negate");
    let inf: Bits = cat(&[&rand_bits(&mut rng, 512), &zero]);
    let inf0: Bits = vec![false; 768];
    let off: Bits = rand_bits(&mut rng, 768);
    // y = 0: satisfies no curve equation, but makes the doubling / cancelling branches of the formulas visible
    let yzero: Bits = cat(&[&rand_bits(&mut rng, 256), &zero, &small(1)]);
    let affine = |p: &Bits, out: &mut Out, run: &mut dyn FnMut(&str, &[bool], bool, &mut Out) -> Option<Bits>| -> Bits {
        let n = run("gej_normalize", p, true, out).expect("normalize");
        n[1..].to_vec()
    };
    run("gej_infinity", &[], true, &mut out);
    let n = pool.len();
    let mut singles: Vec<Bits> = pool.clone();
    singles.extend([inf.clone(), inf0.clone(), off.clone(), yzero.clone(), vec![true; 768]]);
    for p in &singles {
        for name in ["gej_double", "gej_negate", "gej_is_on_curve", "gej_is_infinity", "gej_normalize"] { run(name, p, true, &mut out); }
        run("gej_rescale", &cat(&[p, &rand_bits(&mut rng, 256)]), true, &mut out);
        run("gej_rescale", &cat(&[p, &zero]), true, &mut out);
    }
    // pairs: different points, the same point in two representations, opposite points, infinity on either side
    let mut pairs: Vec<(Bits, Bits)> = vec![];
    for i in 0..n {
        let p = pool[i].clone();
        let q = pool[(i + 3) % n].clone();
        let same = pool[i ^ 1].clone();
        let np = neg(&same, &mut out, &mut run);
        pairs.push((p.clone(), q));
        pairs.push((p.clone(), same));
        pairs.push((p.clone(), p.clone()));
        pairs.push((p.clone(), np));
        if i < 2 { pairs.push((p.clone(), inf.clone())); pairs.push((inf0.clone(), p.clone())); pairs.push((p.clone(), off.clone())); }
    }
    pairs.push((inf.clone(), inf0.clone()));
    pairs.push((yzero.clone(), yzero.clone()));
    pairs.push((off.clone(), off.clone()));
    for (a, b) in &pairs {
        run("gej_add", &cat(&[a, b]), true, &mut out);
        run("gej_equiv", &cat(&[a, b]), true, &mut out);
        // the affine form of b, where it has one
        if b[512..].iter().any(|x| *x) && b != &off && b != &yzero {
            let bg = affine(b, &mut out, &mut run);
            for name in ["gej_ge_add", "gej_ge_add_ex", "gej_ge_equiv"] { run(name, &cat(&[a, &bg]), true, &mut out); }
            let x: Bits = bg[..256].to_vec();
            run("gej_x_equiv", &cat(&[&x, a]), true, &mut out);
            run("ge_is_on_curve", &bg, true, &mut out);
            run("ge_negate", &bg, true, &mut out);
        }
    }
    run("gej_ge_add", &cat(&[&pool[0], &rand_bits(&mut rng, 512)]), true, &mut out);
    run("gej_x_equiv", &cat(&[&rand_bits(&mut rng, 256), &pool[1]]), true, &mut out);
    run("gej_x_equiv", &cat(&[&zero, &inf0]), true, &mut out);
    run("ge_is_on_curve", &rand_bits(&mut rng, 512), true, &mut out);
    run("ge_is_on_curve", &vec![false; 512], true, &mut out);
    // the jets whose specification needs an inversion or a root (a quarter of a minute each in TLC): few inputs
    let few = 1 + per_jet / 8;
    for i in 0..few {
        run("gej_y_is_odd", &pool[(2 * i + 1) % n], true, &mut out);
        let bg = affine(&pool[(2 * i) % n], &mut out, &mut run);
        let x: Bits = bg[..256].to_vec();
        let parity = bg[511];
        run("decompress", &cat(&[&vec![parity], &x]), true, &mut out);
        run("decompress", &cat(&[&vec![!parity], &x]), true, &mut out);
        run("decompress", &cat(&[&vec![rng.bool()], &rand_bits(&mut rng, 256)]), true, &mut out);
        // a square (the y^2 of a point is x^3 + 7), a random element, the boundary values
        let y: Bits = bg[256..].to_vec();
        let sq = run("fe_square", &y, true, &mut out).expect("square");
        run("fe_square_root", &sq, true, &mut out);
        run("fe_square_root", &rand_bits(&mut rng, 256), true, &mut out);
    }
    // the map to the curve and the hash to the curve (an inversion and up to three roots per image in the specification)
    run("swu", &zero, true, &mut out);
    run("swu", &small(1), true, &mut out);
    run("swu", &ones, true, &mut out);
    for _ in 0..few {
        run("swu", &rand_bits(&mut rng, 256), true, &mut out);
        run("hash_to_curve", &rand_bits(&mut rng, 256), true, &mut out);
    }
    run("gej_y_is_odd", &inf, true, &mut out);
    run("fe_square_root", &zero, true, &mut out);
    run("fe_square_root", &ones, true, &mut out);
    // scalar multiplication: the specification doubles and adds over the scalar's bits, so the scalars are short
    let scalars: Vec<u64> = vec![0, 1, 2, 3, 7, 255].into_iter().chain((0..few).map(|_| rng.next_u64() % 4096)).collect();
    for k in &scalars { run("generate", &small(*k), true, &mut out); }
    // the group order: n * G is the point at infinity (the scalar is reduced first, so this is scalar 0)
    for (i, k) in scalars.iter().enumerate().take(3 + few) {
        let a = &pool[i % n];
        run("linear_combination_1", &cat(&[&small(*k), a, &small(scalars[(i + 2) % scalars.len()])]), true, &mut out);
    }
    // the verification forms: B = na * A + ng * G computed by linear_combination_1, normalised, then offered as the claim
    for i in 0..(1 + few) {
        let (na, ng) = (scalars[(i + 3) % scalars.len()], scalars[(i + 4) % scalars.len()]);
        let a = pool[(2 * i) % n].clone();
        let ag = affine(&a, &mut out, &mut run);
        if let Some(b) = run("linear_combination_1", &cat(&[&small(na), &a, &small(ng)]), true, &mut out) {
            if b[512..].iter().any(|x| *x) {
                let bg = affine(&b, &mut out, &mut run);
                run("linear_verify_1", &cat(&[&small(na), &ag, &small(ng), &bg]), true, &mut out);
                run("linear_verify_1", &cat(&[&small(na + 1), &ag, &small(ng), &bg]), true, &mut out);
                if i == 0 {
                    let comp = |g: &Bits| -> Bits { let mut v = vec![g[511]]; v.extend(g[..256].iter().copied()); v };
                    run("point_verify_1", &cat(&[&small(na), &comp(&ag), &small(ng), &comp(&bg)]), true, &mut out);
                    let mut wrong = comp(&bg); wrong[0] = !wrong[0];
                    run("point_verify_1", &cat(&[&small(na), &comp(&ag), &small(ng), &wrong]), true, &mut out);
                }
            }
        }
    }
    for (i, k) in scalars.iter().enumerate().take(2 + few) { run("scale", &cat(&[&small(*k), &pool[(i + 1) % n]]), true, &mut out); }
    run("scale", &cat(&[&small(3), &off]), true, &mut out);
    run("scale", &cat(&[&small(3), &inf0]), true, &mut out);
    run("linear_verify_1", &cat(&[&small(1), &rand_bits(&mut rng, 512), &small(1), &rand_bits(&mut rng, 512)]), true, &mut out);
    run("linear_combination_1", &cat(&[&small(2), &off, &small(1)]), true, &mut out);
    run("linear_combination_1", &cat(&[&small(2), &inf0, &small(3)]), true, &mut out);
    out.flush();
}

/// impl -> spec for the signature and point verification jets (their specification multiplies points by full-size
/// scalars: about a minute per accepted signature in TLC, so `valid` is small): valid BIP-340 signatures made with
/// libsecp256k1's signer, the same with one bit of the key / message / signature changed, out-of-range r, s and keys.
pub fn record_sig_jets(valid: usize, path: &str) {
    use simplicity::elements::bitcoin::key::Keypair;
    use simplicity::elements::secp256k1_zkp as secp;
    use simplicity::jet::{Core, CoreEnv, Jet};
    use simplicity::node::CoreConstructible;
    use simplicity::hashes::{sha256, Hash, HashEngine};
    let mut rng = Rng::from_env(58);
    let mut out = Out::file(path);
    let env = CoreEnv::new();
    type Bits = Vec<bool>;
    let mut run = |name: &str, compact: &[bool], out: &mut Out| -> Option<Bits> {
        let j = *Core::ALL.iter().find(|j| j.to_string() == name).unwrap_or_else(|| panic!("no jet {}", name));
        let src = j.source_ty().to_final();
        let bytes = bytes_from_bits(compact);
        let input = Value::from_compact_bits(&mut simplicity::BitIter::from(&bytes[..]), &src).expect("input");
        let inp = input.clone();
        let res = guarded(|| types::Context::with_context(|ctx| {
            let node = CN::jet(&ctx, &j);
            let rn = node.finalize_unpruned().expect("one-jet program");
            let mut mac = BitMachine::for_program(&rn).expect("machine");
            mac.input(&inp).expect("input");
            mac.exec(&rn, &env).ok()
        }));
        let (o, v) = match res {
            Ok(Some(v)) => (bits_j(v.iter_padded()), Some(v.iter_padded().collect::<Bits>())),
            Ok(None) => (json!("jetfailed"), None),
            Err(p) => (json!(format!("panic: {}", p)), None),
        };
        out.emit(&json!({"ev": "jet", "name": name, "in": bits_j(input.iter_padded()), "out": o}));
        v
    };
    fn bits_of(bytes: &[u8]) -> Bits { bytes.iter().flat_map(|b| (0..8).rev().map(move |i| (b >> i) & 1 == 1)).collect() }
    fn cat(parts: &[&Bits]) -> Bits { parts.iter().flat_map(|p| p.iter().copied()).collect() }
    let ctx = secp::Secp256k1::new();
    let p_bytes = { let mut v = vec![0xffu8; 32]; v[27] = 0xfe; v[28] = 0xff; v[29] = 0xff; v[30] = 0xfc; v[31] = 0x2f; v };
    let tag = sha256::Hash::hash(b"Simplicity\x1fSignature");
    for k in 0..valid.max(1) {
        let mut sk = [0u8; 32];
        for b in sk.iter_mut() { *b = rng.next_u64() as u8; }
        sk[0] &= 0x7f; sk[31] |= 1;
        let kp = Keypair::from_seckey_slice(&ctx, &sk).unwrap();
        let pk = bits_of(&kp.x_only_public_key().0.serialize());
        let mut m32 = [0u8; 32];
        for b in m32.iter_mut() { *b = rng.next_u64() as u8; }
        let mut m64 = [0u8; 64];
        for b in m64.iter_mut() { *b = rng.next_u64() as u8; }
        let sig = bits_of(ctx.sign_schnorr_no_aux_rand(&secp::Message::from_digest(m32), &kp).as_ref());
        let mut eng = sha256::Hash::engine();
        eng.input(tag.as_ref()); eng.input(tag.as_ref()); eng.input(&m64);
        let digest = sha256::Hash::from_engine(eng).to_byte_array();
        let sig64 = bits_of(ctx.sign_schnorr_no_aux_rand(&secp::Message::from_digest(digest), &kp).as_ref());
        let (m32b, m64b) = (bits_of(&m32), bits_of(&m64));
        if k < valid {
            // accepted signatures (the expensive ones for the specification)
            run("bip_0340_verify", &cat(&[&pk, &m32b, &sig]), &mut out);
            if k % 2 == 0 { run("check_sig_verify", &cat(&[&pk, &m64b, &sig64]), &mut out); }
        }
        // rejected before any point multiplication: r = P, s = N (all ones is above both), a key that is no x coordinate or not reduced
        let mut bad_r = sig.clone(); for (i, b) in bits_of(&p_bytes).into_iter().enumerate() { bad_r[i] = b; }
        let mut bad_s = sig.clone(); for i in 256..512 { bad_s[i] = true; }
        run("bip_0340_verify", &cat(&[&pk, &m32b, &bad_r]), &mut out);
        run("bip_0340_verify", &cat(&[&pk, &m32b, &bad_s]), &mut out);
        run("bip_0340_verify", &cat(&[&bits_of(&p_bytes), &m32b, &sig]), &mut out);
        run("check_sig_verify", &cat(&[&vec![true; 256], &m64b, &sig64]), &mut out);
        let mut off_key = pk.clone();
        loop {          // a reduced x with no point: flip low bits until libsecp refuses the key
            let i = 200 + rng.below(56); off_key[i] = !off_key[i];
            if secp::XOnlyPublicKey::from_slice(&bytes_from_bits(&off_key)).is_err() { break; }
        }
        run("bip_0340_verify", &cat(&[&off_key, &m32b, &sig]), &mut out);
        if k < valid && k % 2 == 1 {
            // rejected at the end: one bit of the message changed
            let mut m2 = m32b.clone(); let i = rng.below(256); m2[i] = !m2[i];
            run("bip_0340_verify", &cat(&[&pk, &m2, &sig]), &mut out);
        }
    }
    out.flush();
}

/// impl -> spec for the Elements jets that do not read the transaction (JetLib.tla, ElementsOut / TapTweakOk):
/// hashing of outpoints, assets, amounts, nonces and annexes into a SHA-256 context, issuance entropy / asset /
/// token arithmetic, tapleaf / tapbranch / taptweak.  `tweaks` valid taptweaks (a full-size point multiplication
/// in the specification each) are recorded on top of the rejected ones.
pub fn record_el_jets(per_jet: usize, tweaks: usize, path: &str) {
    use simplicity::elements::bitcoin::key::Keypair;
    use simplicity::elements::secp256k1_zkp as secp;
    use simplicity::jet::{Elements, Jet};
    use simplicity::node::CoreConstructible;
    let mut rng = Rng::from_env(59);
    let mut out = Out::file(path);
    let envs = crate::c15::env_family(&mut Rng::from_env(66), 1);
    let env = &envs[0].1;
    type Bits = Vec<bool>;
    let mut run = |name: &str, compact: &[bool], out: &mut Out| {
        let j = *Elements::ALL.iter().find(|j| j.to_string() == name).unwrap_or_else(|| panic!("no jet {}", name));
        let src = j.source_ty().to_final();
        let bytes = bytes_from_bits(compact);
        let input = Value::from_compact_bits(&mut simplicity::BitIter::from(&bytes[..]), &src).expect("input");
        let inp = input.clone();
        let res = guarded(|| types::Context::with_context(|ctx| {
            let node = CN::jet(&ctx, &j);
            let rn = node.finalize_unpruned().expect("one-jet program");
            let mut mac = BitMachine::for_program(&rn).expect("machine");
            mac.input(&inp).expect("input");
            mac.exec(&rn, env).ok()
        }));
        let o = match res {
            Ok(Some(v)) => bits_j(v.iter_padded()),
            Ok(None) => json!("jetfailed"),
            Err(p) => json!(format!("panic: {}", p)),
        };
        out.emit(&json!({"ev": "jet", "name": name, "in": bits_j(input.iter_padded()), "out": o}));
    };
    fn rand_bits(rng: &mut Rng, n: usize) -> Bits { (0..n).map(|_| rng.bool()).collect() }
    fn cat(parts: &[&Bits]) -> Bits { parts.iter().flat_map(|p| p.iter().copied()).collect() }
    fn bits_of(bytes: &[u8]) -> Bits { bytes.iter().flat_map(|b| (0..8).rev().map(move |i| (b >> i) & 1 == 1)).collect() }
    let limit = 1u64 << 55;
    // a context in compact bits: buffer occupancy random, or full / empty next to the counter limit
    let ctx = |rng: &mut Rng, k: usize| -> Bits {
        let cc = match k % 5 { 0 => 0, 1 => rng.next_u64() % 1000, 2 => limit - 1, 3 => limit, _ => rng.next_u64() % (1 << 40) };
        let fill = if cc + 1 >= limit { Some(k % 2 == 0) } else { None };
        let mut v = vec![];
        for i in (0..=5u32).rev() {
            let t = fill.unwrap_or_else(|| rng.bool());
            v.push(t);
            if t { v.extend(rand_bits(rng, 8 << i)); }
        }
        v.extend((0..64).rev().map(|i| (cc >> i) & 1 == 1));
        v.extend(rand_bits(rng, 256));
        v
    };
    // Conf A in compact bits: explicit (tag 1, the value) or confidential (tag 0, parity, 256 bits)
    let conf = |rng: &mut Rng, explicit_bits: usize| -> Bits {
        if rng.bool() { let mut v = vec![true]; v.extend(rand_bits(rng, explicit_bits)); v }
        else { let mut v = vec![false, rng.bool()]; v.extend(rand_bits(rng, 256)); v }
    };
    for k in 0..(5 * per_jet) {
        let c = ctx(&mut rng, k);
        let opt256 = |rng: &mut Rng| -> Bits { if rng.bool() { let mut v = vec![true]; v.extend(rand_bits(rng, 256)); v } else { vec![false] } };
        run("outpoint_hash", &cat(&[&c, &opt256(&mut rng), &rand_bits(&mut rng, 288)]), &mut out);
        run("annex_hash", &cat(&[&c, &opt256(&mut rng)]), &mut out);
        let nonce = if k % 3 == 0 { vec![false] } else { let mut v = vec![true]; v.extend(conf(&mut rng, 256)); v };
        run("nonce_hash", &cat(&[&c, &nonce]), &mut out);
        run("asset_amount_hash", &cat(&[&c, &conf(&mut rng, 256), &conf(&mut rng, 64)]), &mut out);
    }
    run("lbtc_asset", &[], &mut out);
    for k in 0..(2 + per_jet) {
        let e = match k { 0 => vec![false; 256], 1 => vec![true; 256], _ => rand_bits(&mut rng, 256) };
        for name in ["calculate_asset", "calculate_explicit_token", "calculate_confidential_token", "build_tapleaf_simplicity"] { run(name, &e, &mut out); }
        run("calculate_issuance_entropy", &cat(&[&e, &rand_bits(&mut rng, 32), &rand_bits(&mut rng, 256)]), &mut out);
        let a = rand_bits(&mut rng, 256);
        let mut b = a.clone(); let i = rng.below(256); b[i] = !b[i];
        run("build_tapbranch", &cat(&[&a, &b]), &mut out);
        run("build_tapbranch", &cat(&[&b, &a]), &mut out);
        run("build_tapbranch", &cat(&[&a, &a]), &mut out);
        run("build_tapbranch", &cat(&[&e, &rand_bits(&mut rng, 256)]), &mut out);
    }
    // taptweak: keys that are no x coordinate, or not reduced (the jet fails before multiplying); then valid keys
    let p_bytes = { let mut v = vec![0xffu8; 32]; v[27] = 0xfe; v[28] = 0xff; v[29] = 0xff; v[30] = 0xfc; v[31] = 0x2f; v };
    run("build_taptweak", &cat(&[&bits_of(&p_bytes), &rand_bits(&mut rng, 256)]), &mut out);
    let sctx = secp::Secp256k1::new();
    let mut done_off = false;
    for k in 0..tweaks.max(1) {
        let mut sk = [0u8; 32];
        for b in sk.iter_mut() { *b = rng.next_u64() as u8; }
        sk[0] &= 0x7f; sk[31] |= 1;
        let kp = Keypair::from_seckey_slice(&sctx, &sk).unwrap();
        let pk = bits_of(&kp.x_only_public_key().0.serialize());
        if !done_off {
            let mut off_key = pk.clone();
            loop {
                let i = 200 + rng.below(56); off_key[i] = !off_key[i];
                if secp::XOnlyPublicKey::from_slice(&bytes_from_bits(&off_key)).is_err() { break; }
            }
            run("build_taptweak", &cat(&[&off_key, &rand_bits(&mut rng, 256)]), &mut out);
            done_off = true;
        }
        if k < tweaks { run("build_taptweak", &cat(&[&pk, &rand_bits(&mut rng, 256)]), &mut out); }
    }
    out.flush();
}
