"""Driver library shared by all property checks (see DESIGN.md section 2.2).

Verdict contract:
  exit 0  property held on everything explored (KNOWN-FINDING lines allowed)
  exit 1  at least one line `VIOLATION property=<id> replay=<path>` was printed
  exit 2  tool error (build failure, TLC crash / spec error, timeout of the tooling)
"""
import json, os, re, subprocess, sys, time, hashlib, shutil

VERIF = os.path.dirname(os.path.dirname(os.path.abspath(__file__)))
SPEC = os.path.join(VERIF, "spec")
HARNESS = os.path.join(VERIF, "harness")
WORK = os.path.join(VERIF, "work")
EVID = os.environ.get("VERIF_EVID_DIR") or os.path.join(VERIF, "evidence")   # seeded-change runs write elsewhere
REPLAY = os.environ.get("VERIF_REPLAY_DIR") or os.path.join(VERIF, "replay")
VH = os.path.join(HARNESS, "target", "debug", "vh")
KNOWN = os.path.join(VERIF, "known_findings.json")


class ToolError(Exception):
    pass


def log(*a):
    print(*a, flush=True)


class TlcResult:
    def __init__(self):
        self.generated = 0
        self.distinct = 0
        self.depth = 0
        self.out = ""
        self.prints = []      # parsed PrintT tuples (raw strings)
        self.ok = False       # finished without error
        self.inv_violated = None
        self.postcondition_failed = False
        self.coverage = {}    # action name -> (distinct, total)
        self.wall = 0.0
        self.initial = 0


class Check:
    def __init__(self, pid, argv=None):
        argv = sys.argv[1:] if argv is None else argv
        self.pid = pid
        self.tier = os.environ.get("VERIF_TIER", "quick")
        self.replay = None
        i = 0
        while i < len(argv):
            if argv[i] in ("quick", "thorough"):
                self.tier = argv[i]
            elif argv[i] == "--replay":
                self.replay = argv[i + 1]; i += 1
            i += 1
        self.seed = int(os.environ.get("VERIF_SEED", "1"))
        self.t0 = time.time()
        self.work = os.path.join(WORK, pid)
        shutil.rmtree(self.work, ignore_errors=True)
        os.makedirs(self.work, exist_ok=True)
        os.makedirs(REPLAY, exist_ok=True)
        os.makedirs(EVID, exist_ok=True)
        os.makedirs(EVID, exist_ok=True)
        self.violations = 0
        self.known_hits = []
        self.states = 0
        self.transitions = 0
        self.traces = 0
        self.evaluations = 0
        self.samples = []
        self.cov = {}
        self.notes = []
        self.assumptions = []
        self.extra = {}
        self.skipped = 0
        try:
            self.known = json.load(open(KNOWN)) if os.path.exists(KNOWN) else {"findings": []}
        except Exception as e:
            raise ToolError("known_findings.json unreadable: %s" % e)
        self.thorough = self.tier == "thorough"

    # ------------------------------------------------------------------ build
    def build(self):
        t = time.time()
        env = dict(os.environ)
        env["CARGO_NET_OFFLINE"] = "true"
        p = subprocess.run(["cargo", "build", "--offline", "--quiet", "--manifest-path",
                            os.path.join(HARNESS, "Cargo.toml")],
                           cwd=HARNESS, env=env, stdout=subprocess.PIPE, stderr=subprocess.STDOUT, text=True)
        if p.returncode != 0:
            log(p.stdout[-6000:])
            raise ToolError("harness build failed (tree does not compile with hooks on)")
        self.extra["build_s"] = round(time.time() - t, 1)

    # ------------------------------------------------------------------ harness
    def vh(self, args, stdin_path=None, stdout_path=None, timeout=3600, env=None, check=True):
        """Run the harness binary. Returns (returncode, stdout text or None)."""
        e = dict(os.environ)
        e["VERIF_SEED"] = str(self.seed)
        e["RUST_BACKTRACE"] = "0"
        if env:
            e.update(env)
        fin = open(stdin_path, "rb") if stdin_path else subprocess.DEVNULL
        fout = open(stdout_path, "wb") if stdout_path else subprocess.PIPE
        try:
            p = subprocess.run([VH] + [str(a) for a in args], stdin=fin, stdout=fout,
                               stderr=subprocess.PIPE, timeout=timeout, env=e)
        except subprocess.TimeoutExpired:
            raise ToolError("harness timed out: vh %s" % " ".join(map(str, args)))
        finally:
            if stdin_path: fin.close()
            if stdout_path: fout.close()
        if check and p.returncode != 0:
            sys.stderr.write(p.stderr.decode(errors="replace")[-4000:])
            raise ToolError("harness failed (%d): vh %s" % (p.returncode, " ".join(map(str, args))))
        self.last_stderr = p.stderr.decode(errors="replace")
        return p.returncode, (None if stdout_path else p.stdout.decode(errors="replace"))

    def vh_abortable(self, args, fingerprint, what, **kw):
        """Run the harness; if the process is killed by a signal (abort after a failed allocation, stack overflow, segfault)
        while it drives the code under test in-process, that is an outcome of the property, not a tool error: it is
        reported under `fingerprint` and None is returned.  A harness panic (exit 101) or usage error stays a tool error."""
        rc, out = self.vh(args, check=False, **kw)
        if rc == 0:
            return out
        if rc < 0 or rc in (134, 139):
            tail = (self.last_stderr or "")[-300:].strip()
            self.report(fingerprint, "%s: the process was killed (exit %d): %s" % (what, rc, tail), {"args": [str(a) for a in args], "exit": rc, "stderr": tail})
            return None
        sys.stderr.write((self.last_stderr or "")[-4000:])
        raise ToolError("harness failed (%d): vh %s" % (rc, " ".join(map(str, args))))

    # ------------------------------------------------------------------ TLC
    def tlc(self, module, cfg=None, workers=None, heap="8g", timeout=1800, env=None, extra=(),
            name=None, coverage=False, deque=False):
        """Run TLC on spec/<module>.tla with spec/<cfg>. Returns TlcResult.
        Spec errors raise ToolError unless allow_violation is used by the caller (check r.ok)."""
        cfg = cfg or (module + ".cfg")
        name = name or cfg.replace(".cfg", "")
        workers = workers or ("16" if self.thorough else "8")
        wd = os.path.join(self.work, "tlc-" + name)
        e = dict(os.environ)
        if env:
            e.update({k: str(v) for k, v in env.items()})
        opts = "-Dtlc2.tool.queue.IStateQueue=StateDeque" if deque else ""
        e["VERIF_TLC_JVM_OPTS"] = opts
        args = [os.path.join(VERIF, "bin", "tlc-run"), wd, heap, str(workers), module + ".tla", cfg]
        if coverage:
            args += ["-coverage", "1"]
        args += list(extra)
        t = time.time()
        try:
            p = subprocess.run(args, stdout=subprocess.PIPE, stderr=subprocess.STDOUT, text=True,
                               timeout=timeout, env=e)
        except subprocess.TimeoutExpired:
            raise ToolError("TLC timed out on %s" % cfg)
        r = TlcResult()
        r.wall = time.time() - t
        r.out = p.stdout
        open(os.path.join(self.work, "tlc-" + name + ".out"), "w").write(p.stdout)
        shutil.rmtree(os.path.join(wd, "states"), ignore_errors=True)
        m = None
        for m in re.finditer(r"(\d+) states generated, (\d+) distinct states found, (\d+) states left", p.stdout):
            pass
        if m:
            r.generated, r.distinct = int(m.group(1)), int(m.group(2))
        m = re.search(r"The depth of the complete state graph search is (\d+)", p.stdout)
        if m:
            r.depth = int(m.group(1))
        m = re.search(r"Finished computing initial states: (\d+) distinct state", p.stdout)
        if m:
            r.initial = int(m.group(1))
        for m in re.finditer(r"^<(\w+) line \d+, col \d+ to line \d+, col \d+ of module (\w+)>: (\d+):(\d+)", p.stdout, re.M):
            r.coverage[m.group(1)] = (int(m.group(3)), int(m.group(4)))
        m = re.search(r"Invariant (\w+) is violated", p.stdout)
        if m:
            r.inv_violated = m.group(1)
        if "Postcondition" in p.stdout and "violated" in p.stdout:
            r.postcondition_failed = True
        for m in re.finditer(r"^<<\"(\w+)\", (.*)>>$", p.stdout, re.M):
            r.prints.append((m.group(1), m.group(2)))
        r.ok = ("Model checking completed. No error has been found" in p.stdout) or \
               ("Finished in" in p.stdout and "Error" not in p.stdout and p.returncode == 0)
        r.rc = p.returncode
        return r

    def tlc_design(self, module, cfg=None, **kw):
        """Design step: spec invariants must hold (they do not depend on /repo). Failure => tool error."""
        r = self.tlc(module, cfg, **kw)
        if not r.ok:
            log(tlc_error_excerpt(r.out))
            raise ToolError("design step failed for %s (spec defect, not a property violation)" % (cfg or module))
        self.states += r.distinct
        self.transitions += r.generated
        for k, v in r.coverage.items():
            self.cov[(cfg or module) + ":" + k] = v[1]
        zero = [k for k, v in r.coverage.items() if v[1] == 0]
        if zero:
            self.notes.append("actions never taken in %s: %s" % (cfg or module, ",".join(zero)))
        log("  design %-34s states=%d generated=%d depth=%d wall=%.1fs" %
            (cfg or module, r.distinct, r.generated, r.depth, r.wall))
        return r

    def tlc_trace(self, module, cfg, trace_path, n_events, env=None, heap="4g", timeout=1800):
        """Trace validation: returns (accepted, first_unmatched_index or None, TlcResult)."""
        ev = {"TRACE": trace_path}
        if env:
            ev.update(env)
        r = self.tlc(module, cfg, workers=1, heap=heap, timeout=timeout, env=ev, coverage=False,
                     deque=True, name=cfg.replace(".cfg", "") + "-" + os.path.basename(trace_path))
        rej = None
        for k, v in r.prints:
            if k == "REJECTED":
                try:
                    rej = int(v.split(",")[0].strip())
                except ValueError:
                    rej = -1
        accepted = r.ok and rej is None and not r.postcondition_failed
        if not accepted and rej is None and not r.postcondition_failed:
            log(tlc_error_excerpt(r.out))
            raise ToolError("trace validation of %s crashed (tool error)" % trace_path)
        self.transitions += r.generated
        self.states += r.distinct
        self.last_trace_prints = r.prints
        # deviations the trace specification followed on purpose (named deviation actions count them in a register)
        for k, v in r.prints:
            if k == "DEVIATION":
                try:
                    self.deviations = max(getattr(self, "deviations", 0), int(v.strip()))
                except ValueError:
                    pass
        return accepted, rej, r

    # ------------------------------------------------------------------ verdicts
    def fingerprint_known(self, fp):
        for f in self.known.get("findings", []):
            if f.get("property") == self.pid and f.get("status", "open") == "open" and f.get("fingerprint") == fp:
                return f
        return None

    def report(self, fp, what, case):
        """Report a mismatch with cause-class fingerprint `fp`. Known findings are printed once per fingerprint."""
        k = self.fingerprint_known(fp) if fp else None
        if k is not None:
            if fp not in self.known_hits:
                self.known_hits.append(fp)
                log("KNOWN-FINDING: property=%s %s [%s]" % (self.pid, k.get("what", what), fp))
            return
        self.violations += 1
        if self.violations <= 20:
            h = hashlib.sha1(json.dumps(case, sort_keys=True, default=str).encode()).hexdigest()[:10]
            path = os.path.join(REPLAY, "%s-%s.json" % (self.pid, h))
            json.dump({"property": self.pid, "what": what, "fingerprint": fp, "case": case,
                       "seed": self.seed, "tier": self.tier}, open(path, "w"), indent=1, default=str)
            log("VIOLATION property=%s replay=%s" % (self.pid, path))
            log("  " + what[:600])

    def sample(self, s):
        if len(self.samples) < 6:
            self.samples.append(s)

    # ------------------------------------------------------------------ evidence
    def finish(self, exhaustive=False, rule=""):
        ev = {
            "property_id": self.pid, "tier": self.tier, "seed": self.seed, "level": "model_checking",
            "coverage": {
                "states": max(self.states, 0), "transitions": max(self.transitions, 0),
                "traces_validated_against_impl": self.traces,
                "evaluations": self.evaluations,
                "samples": self.samples if self.samples else ["(none)"],
                "rule": rule, "exhaustive": exhaustive,
                "per_action": self.cov, "skipped": self.skipped, "notes": self.notes,
                "known_findings_hit": self.known_hits,
            },
            "assumptions": self.assumptions,
            "wall_s": round(time.time() - self.t0, 1),
            "violations": self.violations,
        }
        ev["coverage"].update(self.extra)
        json.dump(ev, open(os.path.join(EVID, self.pid + ".json"), "w"), indent=1, default=str)
        log("%s %s: states=%d transitions=%d traces=%d evaluations=%d violations=%d known=%d wall=%.0fs" % (
            self.pid, self.tier, self.states, self.transitions, self.traces, self.evaluations,
            self.violations, len(self.known_hits), time.time() - self.t0))
        return 1 if self.violations else 0


def main(pid, body):
    try:
        c = Check(pid)
        c.build()
        body(c)
        rc = c.finish(**getattr(c, "finish_kw", {}))
    except ToolError as e:
        log("TOOL-ERROR %s: %s" % (pid, e))
        sys.exit(2)
    except SystemExit:
        raise
    except BaseException as e:                       # a defect of the machinery is a tool error, never a verdict
        import traceback
        traceback.print_exc()
        log("TOOL-ERROR %s: unexpected %s: %s" % (pid, type(e).__name__, e))
        sys.exit(2)
    sys.exit(rc)


def tlc_error_excerpt(out):
    """first error lines of a TLC run, with huge values cut"""
    lines = out.split("\n")
    idx = [i for i, l in enumerate(lines) if l.startswith("Error") or "Exception" in l or "violated" in l]
    if not idx:
        return "\n".join(l[:300] for l in lines[-25:])
    res = []
    for i in idx[:4]:
        res += [l[:300] for l in lines[i:i + 12]]
    return "\n".join(res[:60])


def read_ndjson(path):
    out = []
    with open(path) as f:
        for line in f:
            line = line.strip()
            if line:
                out.append(json.loads(line))
    return out


def tla_to_json_lines(prints, key):
    """PrintT(<<"KEY", ToJson(x)>>) prints <<"KEY", "json-with-escapes">>; return parsed JSON values."""
    res = []
    for k, v in prints:
        if k != key:
            continue
        v = v.strip()
        if v.startswith('"') and v.endswith('"'):
            s = v[1:-1].replace('\\"', '"').replace("\\\\", "\\")
            res.append(json.loads(s))
    if key == "CASE" and not res:
        # a design run whose emission sample is too sparse prints nothing to replay: that is a tool error, not a pass
        raise ToolError("the design run printed no CASE lines (emission sample too sparse for this tier)")
    return res


def validate_trace_sharded(c, module, cfg, path, describe, shards, **kw):
    """impl -> spec for traces of mutually independent events whose validation is slow: the events are dealt
    round-robin into `shards` files, each validated by its own TLC (one worker each, in parallel); reports and
    counters are merged afterwards.  Returns the number of rejected events."""
    import threading
    lines = [l for l in open(path).read().split("\n") if l.strip()]
    shards = max(1, min(shards, len(lines)))
    lock = threading.Lock()

    class Proxy:
        def __init__(self):
            self.reports, self.notes, self.traces, self.evaluations, self.error = [], [], 0, 0, None
        def tlc_trace(self, *a, **k):
            return c.tlc_trace(*a, **k)
        def report(self, *a):
            self.reports.append(a)
    proxies = []
    threads = []
    for k in range(shards):
        sp = "%s.shard%d" % (path, k)
        open(sp, "w").write("\n".join(lines[k::shards]) + "\n")
        px = Proxy()
        proxies.append(px)
        def work(px=px, sp=sp):
            try:
                px.rejected = validate_trace(px, module, cfg, sp, describe, **kw)
            except BaseException as e:          # re-raised in the caller's thread
                px.error = e
        t = threading.Thread(target=work)
        t.start()
        threads.append(t)
    for t in threads:
        t.join()
    rejected = 0
    for px in proxies:
        if px.error is not None:
            raise px.error
        for a in px.reports:
            c.report(*a)
        c.notes += px.notes
        c.traces += px.traces
        c.evaluations += px.evaluations
        rejected += px.rejected
    return rejected


def validate_trace(c, module, cfg, path, describe, max_rejects=8, env=None, heap="4g", timeout=1800, count_runs=True,
                   run_start=None):
    """impl -> spec: validate an NDJSON trace; every rejected line is reported via describe(event) ->
    (fingerprint, text) and cut out so that the rest of the trace is still checked."""
    lines = [l for l in open(path).read().split("\n") if l.strip()]
    total = len(lines)
    rejected = 0
    cur = path
    while True:
        n = len(lines)
        if n == 0:
            break
        accepted, rej, r = c.tlc_trace(module, cfg, cur, n, env=env, heap=heap, timeout=timeout)
        if accepted:
            break
        # diameter d: lines 1..d-1 consumed, line d is the first unmatched one
        if rej is None or rej < 1 or rej > n:
            raise ToolError("trace validation gave an unusable rejection index %r" % rej)
        ev = json.loads(lines[rej - 1])
        fp, text = describe(ev)
        c.report(fp, "trace event rejected by %s: %s" % (module, text), ev)
        rejected += 1
        if run_start is None:
            del lines[rej - 1]
        else:
            # events of one run depend on each other: cut the whole run (from its start marker to the next one)
            a = rej - 1
            while a > 0 and not run_start(json.loads(lines[a])):
                a -= 1
            b = rej
            while b < len(lines) and not run_start(json.loads(lines[b])):
                b += 1
            del lines[a:b]
            rej = a + 1
        if rejected >= max_rejects:
            c.notes.append("stopped after %d rejected events; %d events left unvalidated" % (rejected, len(lines) - rej + 1))
            total = rej - 1 + rejected
            break
        cur = path + ".cut%d" % rejected
        open(cur, "w").write("\n".join(lines) + "\n")
    if count_runs:
        c.traces += total - rejected
    c.evaluations += total
    return rejected
