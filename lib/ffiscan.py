"""Text scan of foreign-function declarations (C14, FFI clause): every `extern "C"` function item of
simplicity-sys/src/**.rs and the C prototype / definition it binds (depend/**).  The scan is the trusted part."""
import os, re

def split_args(s):
    out, depth, cur = [], 0, ""
    for ch in s:
        if ch in "(<[": depth += 1
        if ch in ")>]": depth -= 1
        if ch == "," and depth == 0:
            out.append(cur.strip()); cur = ""
        else:
            cur += ch
    if cur.strip(): out.append(cur.strip())
    return out

def strip_comments(t):
    t = re.sub(r"/\*.*?\*/", " ", t, flags=re.S)
    t = re.sub(r"//[^\n]*", " ", t)
    return t

def rust_decls(root):
    decls = []
    for dp, _, fs in os.walk(os.path.join(root, "simplicity-sys", "src")):
        for f in fs:
            if not f.endswith(".rs"): continue
            path = os.path.join(dp, f)
            t = strip_comments(open(path).read())
            for blk in re.finditer(r'extern\s+"C"\s*\{', t):
                # find the matching brace
                i, depth = blk.end(), 1
                while depth and i < len(t):
                    depth += {"{": 1, "}": -1}.get(t[i], 0); i += 1
                body = t[blk.end():i - 1]
                for m in re.finditer(r'(?:#\[link_name\s*=\s*"([^"]+)"\]\s*)?pub\s+fn\s+(\w+)\s*\((.*?)\)\s*(?:->\s*([^;]+?))?\s*;', body, flags=re.S):
                    link, name, args, ret = m.group(1), m.group(2), m.group(3), m.group(4)
                    params = []
                    for a in split_args(args):
                        ty = a.split(":", 1)[1].strip() if ":" in a else a
                        params.append(ty)
                    decls.append({"symbol": link or name, "rust_name": name, "file": os.path.relpath(path, root), "params": params, "ret": (ret or "()").strip()})
    return decls

def c_prototypes(root):
    """symbol -> list of parameter type spellings, from headers and sources under depend/"""
    protos = {}
    files = []
    for dp, _, fs in os.walk(os.path.join(root, "simplicity-sys", "depend")):
        if "secp256k1" in dp: continue
        for f in fs:
            if f.endswith((".h", ".c", ".inc")): files.append(os.path.join(dp, f))
    files.sort(key=lambda p: (not p.endswith(".h"), p))
    wrapper_sig = None
    for path in files:
        t = strip_comments(open(path, errors="replace").read())
        if path.endswith("wrapper.h"):
            m = re.search(r"#define\s+WRAP_\(jet\)\s*\\\s*\n\s*\w+\s+rustsimplicity_0_7_c_##jet\((.*?)\)", t, flags=re.S)
            if m: wrapper_sig = split_args(m.group(1))
        for m in re.finditer(r"\b(rustsimplicity_0_7_\w+|c_\w+|rust_0_7_\w+)\s*\(", t):
            sym = m.group(1)
            i, depth = m.end(), 1
            while depth and i < len(t):
                depth += {"(": 1, ")": -1}.get(t[i], 0); i += 1
            args = t[m.end():i - 1]
            after = t[i:i + 40].lstrip()
            # a declaration or definition: followed by ; or { and every argument looks like "type name"
            if not (after.startswith(";") or after.startswith("{")): continue
            before = t[max(0, m.start() - 60):m.start()]
            if re.search(r"(return|=|\(|,)\s*$", before): continue
            al = split_args(re.sub(r"\s+", " ", args))
            if al == ["void"]: al = []
            if any(not re.search(r"[\s\*]", a) for a in al): continue
            protos.setdefault(sym, al)
    # jets defined through the WRAP_ macro
    jw = os.path.join(root, "simplicity-sys", "depend", "jets_wrapper.c")
    if wrapper_sig and os.path.exists(jw):
        for m in re.finditer(r"^WRAP_\((\w+)\)", open(jw).read(), flags=re.M):
            protos.setdefault("rustsimplicity_0_7_c_" + m.group(1), wrapper_sig)
    return protos

def shape_rust(ty):
    ty = ty.strip()
    if ty.startswith("*mut") or ty.startswith("*const") or ty.startswith("&"):
        return "ptr"
    if "fn(" in ty or ty.startswith("CCallback") or ty.startswith("Option<"): return "ptr"
    return "val"

def shape_c(p):
    p = p.strip()
    # function pointer parameters and arrays decay to pointers
    if "(*" in p or "[" in p or "*" in p: return "ptr"
    # callback typedefs used by libsimplicity
    if "callback" in p or re.match(r"^\s*\w+_ptr\b", p): return "ptr"
    return "val"
