---- MODULE TraceDag ----
EXTENDS Naturals, Sequences, TLC, Json, IOUtils
Rec == ndJsonDeserialize(IOEnv.TRACE)
RECURSIVE Visit(_,_,_)
Visit(dag, st, n) ==
  IF st.seen[n] # 99 THEN st
  ELSE LET L == dag[n][1] R == dag[n][2]
           s1 == IF L # 0 THEN Visit(dag, st, L) ELSE st
           s2 == IF R # 0 THEN Visit(dag, s1, R) ELSE s1
       IN [seen |-> [s2.seen EXCEPT ![n] = s2.idx], idx |-> s2.idx + 1,
           out |-> Append(s2.out, <<n, s2.idx, IF L # 0 THEN s2.seen[L] ELSE 99, IF R # 0 THEN s2.seen[R] ELSE 99>>)]
Ref(dag) == Visit(dag, [seen |-> [i \in 1..Len(dag) |-> 99], idx |-> 0, out |-> <<>>], Len(dag)).out
VARIABLE l
Init == l = 1
Next == /\ l <= Len(Rec) /\ Rec[l].ev = "post" /\ Rec[l].items = Ref(Rec[l].nodes) /\ l' = l + 1
Spec == Init /\ [][Next]_l
Accepted == IF TLCGet("stats").diameter - 1 = Len(Rec) THEN TRUE
            ELSE PrintT(<<"REJECTED at event", TLCGet("stats").diameter>>) /\ FALSE
====
