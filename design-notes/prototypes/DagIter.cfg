SPECIFICATION Spec
INVARIANT AssertInv
INVARIANT Correct
INVARIANT ChildrenFirst
CONSTANT N = 5
CHECK_DEADLOCK FALSE
