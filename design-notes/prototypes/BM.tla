---- MODULE BM ----
EXTENDS Naturals, Sequences, FiniteSets, TLC
CONSTANT N
Fail == [ok |-> FALSE, b |-> <<>>]
Ok(b) == [ok |-> TRUE, b |-> b]
Nullary == {"iden","unit","witness","fail","word1"}
Unary == {"injl","injr","take","drop","assertl","assertr","disc1"}
Binary == {"comp","case","pair","disc"}
NodeSet(i) == {<<op,0,0>> : op \in Nullary} \cup {<<op,l,0>> : op \in Unary, l \in 1..(i-1)}
              \cup {<<op,l,r>> : op \in Binary, l \in 1..(i-1), r \in 1..(i-1)}
\* ---- store: sequence of bounds
New(s, b) == Append(s, b)
RECURSIVE Find(_,_)
Find(s, x) == IF s[x][1] = "ref" THEN Find(s, s[x][2]) ELSE x
RECURSIVE UnifyB(_,_,_)
UnifyB(S, x, y) ==
  IF ~S.ok THEN S ELSE
  LET s == S.b rx == Find(s,x) ry == Find(s,y) IN
  IF rx = ry THEN S ELSE
  LET bx == s[rx] by == s[ry] IN
  IF bx[1] = "free" THEN Ok([s EXCEPT ![rx] = <<"ref", ry>>])
  ELSE IF by[1] = "free" THEN Ok([s EXCEPT ![ry] = <<"ref", rx>>])
  ELSE IF bx[1] # by[1] THEN Fail
  ELSE IF bx[1] = "unit" THEN Ok([s EXCEPT ![ry] = <<"ref", rx>>])
  ELSE LET s0 == Ok([s EXCEPT ![ry] = <<"ref", rx>>])
           s1 == UnifyB(s0, bx[2], by[2]) IN UnifyB(s1, bx[3], by[3])
Unify(S, x, y) == UnifyB(S, x, y)
\* state while processing: [s |-> store or Fail, ar |-> seq of <<src,tgt>>]
Free == <<"free">>
Step(st, nd) ==
  IF ~st.s.ok THEN st ELSE
  LET s == st.s.b ar == st.ar n == Len(s) op == nd[1]
      L == IF nd[2] # 0 THEN ar[nd[2]] ELSE <<0,0>>
      R == IF nd[3] # 0 THEN ar[nd[3]] ELSE <<0,0>> IN
  CASE op = "iden" -> [s |-> Ok(New(s, Free)), ar |-> Append(ar, <<n+1, n+1>>)]
    [] op = "unit" -> [s |-> Ok(s \o <<Free, <<"unit">>>>), ar |-> Append(ar, <<n+1, n+2>>)]
    [] op \in {"witness","fail"} -> [s |-> Ok(s \o <<Free, Free>>), ar |-> Append(ar, <<n+1, n+2>>)]
    [] op = "word1" -> [s |-> Ok(s \o <<<<"unit">>, <<"unit">>, <<"+", n+2, n+2>>>>), ar |-> Append(ar, <<n+1, n+3>>)]
    [] op = "injl" -> [s |-> Ok(s \o <<Free, <<"+", L[2], n+1>>>>), ar |-> Append(ar, <<L[1], n+2>>)]
    [] op = "injr" -> [s |-> Ok(s \o <<Free, <<"+", n+1, L[2]>>>>), ar |-> Append(ar, <<L[1], n+2>>)]
    [] op = "take" -> [s |-> Ok(s \o <<Free, <<"*", L[1], n+1>>>>), ar |-> Append(ar, <<n+2, L[2]>>)]
    [] op = "drop" -> [s |-> Ok(s \o <<Free, <<"*", n+1, L[1]>>>>), ar |-> Append(ar, <<n+2, L[2]>>)]
    [] op = "comp" -> [s |-> Unify(Ok(s), L[2], R[1]), ar |-> Append(ar, <<L[1], R[2]>>)]
    [] op = "pair" -> [s |-> Unify(Ok(s \o << <<"*", L[2], R[2]>> >>), L[1], R[1]), ar |-> Append(ar, <<L[1], n+1>>)]
    [] op \in {"case","assertl","assertr"} ->
         LET s0 == Ok(s \o <<Free, Free, Free, <<"+", n+1, n+2>>, <<"*", n+4, n+3>>, <<"*", n+1, n+3>>, <<"*", n+2, n+3>>, Free>>)
             \* a=n+1 b=n+2 c=n+3 sum=n+4 src=n+5 AxC=n+6 BxC=n+7 tgt=n+8
             hasL == op \in {"case","assertl"}
             hasR == op \in {"case","assertr"}
             lch == L  \* for assertr the single child is nd[2] as well
             s1 == IF hasL THEN Unify(Unify(s0, lch[1], n+6), n+8, lch[2]) ELSE s0
             rch == IF op = "case" THEN R ELSE L
             s2 == IF hasR THEN Unify(Unify(s1, rch[1], n+7), n+8, rch[2]) ELSE s1
         IN [s |-> s2, ar |-> Append(ar, <<n+5, n+8>>)]
    [] op \in {"disc","disc1"} ->
         LET s0 == s \o <<Free, Free, <<"unit">>, <<"+", n+3, n+3>>, <<"*", n+4, n+1>>, Free, Free>>
             \* a=n+1 b=n+2 ; use 2 instead of 2^256 in this prototype: w=n+4 ; WxA = n+5 ; c=n+6 d=n+7
             c == IF op = "disc" THEN R[1] ELSE n+6
             d == IF op = "disc" THEN R[2] ELSE n+7
             s1 == Ok(s0 \o << <<"*", n+2, c>>, <<"*", n+2, d>> >>)   \* BxC = n+8, BxD = n+9
             s2 == Unify(Unify(s1, L[1], n+5), L[2], n+8)
         IN [s |-> s2, ar |-> Append(ar, <<n+1, n+9>>)]
RECURSIVE Run(_,_,_)
Run(st, dag, i) == IF i > Len(dag) THEN st ELSE Run(Step(st, dag[i]), dag, i+1)
\* occurs check: is there a cycle through structural edges
RECURSIVE Acyc(_,_,_)
Acyc(s, x, path) == LET r == Find(s,x) IN
   IF r \in path THEN FALSE
   ELSE IF s[r][1] \in {"free","unit"} THEN TRUE
   ELSE Acyc(s, s[r][2], path \cup {r}) /\ Acyc(s, s[r][3], path \cup {r})
RECURSIVE Res(_,_)
Res(s, x) == LET r == Find(s,x) IN
   IF s[r][1] \in {"free","unit"} THEN <<"1">> ELSE <<s[r][1], Res(s, s[r][2]), Res(s, s[r][3])>>
InferDag(dag) ==
  LET st == Run([s |-> Ok(<<>>), ar |-> <<>>], dag, 1) IN
  IF ~st.s.ok THEN <<"clash">>
  ELSE IF \E i \in 1..Len(dag) : ~Acyc(st.s.b, st.ar[i][1], {}) \/ ~Acyc(st.s.b, st.ar[i][2], {}) THEN <<"occurs">>
  ELSE <<"ok", [i \in 1..Len(dag) |-> <<Res(st.s.b, st.ar[i][1]), Res(st.s.b, st.ar[i][2])>>]>>

Max(a,b) == IF a > b THEN a ELSE b
RECURSIVE W(_)
W(t) == IF t[1] = "1" THEN 0 ELSE IF t[1] = "+" THEN 1 + Max(W(t[2]), W(t[3])) ELSE W(t[2]) + W(t[3])
RECURSIVE Vals(_)
Vals(t) == IF t[1] = "1" THEN {<<"u">>}
           ELSE IF t[1] = "+" THEN {<<"L",v>> : v \in Vals(t[2])} \cup {<<"R",v>> : v \in Vals(t[3])}
           ELSE {<<"P",a,b>> : a \in Vals(t[2]), b \in Vals(t[3])}
Rep(n, x) == [i \in 1..n |-> x]
RECURSIVE Pad(_,_)
Pad(v, t) == IF t[1] = "1" THEN <<>>
             ELSE IF t[1] = "*" THEN Pad(v[2], t[2]) \o Pad(v[3], t[3])
             ELSE IF v[1] = "L" THEN <<0>> \o Rep(Max(W(t[2]),W(t[3])) - W(t[2]), 0) \o Pad(v[2], t[2])
             ELSE <<1>> \o Rep(Max(W(t[2]),W(t[3])) - W(t[3]), 0) \o Pad(v[2], t[3])
RECURSIVE Read(_,_)   \* bits (cells, may contain "?" in padding) -> value
Read(bits, t) == IF t[1] = "1" THEN <<"u">>
             ELSE IF t[1] = "*" THEN <<"P", Read(SubSeq(bits,1,W(t[2])), t[2]), Read(SubSeq(bits, W(t[2])+1, W(t)), t[3])>>
             ELSE IF bits[1] = 0 THEN <<"L", Read(SubSeq(bits, W(t) - W(t[2]) + 1, W(t)), t[2])>>
             ELSE <<"R", Read(SubSeq(bits, W(t) - W(t[3]) + 1, W(t)), t[3])>>
\* ---- denotational semantics over a typed dag: ty[i] = <<src,tgt>> ; wit[i] value for witness nodes
FAILV == <<"FAIL">>
RECURSIVE Eval(_,_,_,_,_)
Eval(dag, ty, wit, i, v) ==
  IF v = FAILV THEN FAILV ELSE
  LET nd == dag[i] op == nd[1] IN
  CASE op = "iden" -> v
    [] op = "unit" -> <<"u">>
    [] op = "witness" -> wit[i]
    [] op = "fail" -> FAILV
    [] op = "word1" -> <<"R", <<"u">>>>
    [] op = "injl" -> LET r == Eval(dag,ty,wit,nd[2],v) IN IF r = FAILV THEN FAILV ELSE <<"L", r>>
    [] op = "injr" -> LET r == Eval(dag,ty,wit,nd[2],v) IN IF r = FAILV THEN FAILV ELSE <<"R", r>>
    [] op = "take" -> Eval(dag,ty,wit,nd[2],v[2])
    [] op = "drop" -> Eval(dag,ty,wit,nd[2],v[3])
    [] op = "comp" -> Eval(dag,ty,wit,nd[3], Eval(dag,ty,wit,nd[2],v))
    [] op = "pair" -> LET a == Eval(dag,ty,wit,nd[2],v) b == Eval(dag,ty,wit,nd[3],v) IN
                      IF a = FAILV \/ b = FAILV THEN FAILV ELSE <<"P", a, b>>
    [] op = "case" -> IF v[2][1] = "L" THEN Eval(dag,ty,wit,nd[2], <<"P", v[2][2], v[3]>>)
                      ELSE Eval(dag,ty,wit,nd[3], <<"P", v[2][2], v[3]>>)
    [] op = "assertl" -> IF v[2][1] = "L" THEN Eval(dag,ty,wit,nd[2], <<"P", v[2][2], v[3]>>) ELSE FAILV
    [] op = "assertr" -> IF v[2][1] = "R" THEN Eval(dag,ty,wit,nd[2], <<"P", v[2][2], v[3]>>) ELSE FAILV
    [] OTHER -> FAILV
\* ---- static bounds (analysis.rs)
RECURSIVE Cells(_,_,_)
Cells(dag, ty, i) == LET nd == dag[i] op == nd[1] IN
  CASE op \in {"iden","unit","fail","word1"} -> 0
    [] op = "witness" -> W(ty[i][2])
    [] op \in {"injl","injr","take","drop","assertl","assertr"} -> Cells(dag,ty,nd[2])
    [] op = "comp" -> W(ty[nd[2]][2]) + Max(Cells(dag,ty,nd[2]), Cells(dag,ty,nd[3]))
    [] op \in {"case","pair"} -> Max(Cells(dag,ty,nd[2]), Cells(dag,ty,nd[3]))
    [] OTHER -> 0
RECURSIVE Frames(_,_,_)
Frames(dag, ty, i) == LET nd == dag[i] op == nd[1] IN
  CASE op \in {"iden","unit","fail","word1","witness"} -> 0
    [] op \in {"injl","injr","take","drop","assertl","assertr"} -> Frames(dag,ty,nd[2])
    [] op = "comp" -> 1 + Max(Frames(dag,ty,nd[2]), Frames(dag,ty,nd[3]))
    [] op \in {"case","pair"} -> Max(Frames(dag,ty,nd[2]), Frames(dag,ty,nd[3]))
    [] OTHER -> 0
\* ---- the machine
VARIABLES dag, ty, wit, inp, cells, nfs, rd, wr, ip, cs, phase, hwc, hwf
vars == <<dag, ty, wit, inp, cells, nfs, rd, wr, ip, cs, phase, hwc, hwf>>
NoDisc(d) == \A i \in 1..Len(d) : d[i][1] \notin {"disc","disc1"}
AllReach(d) == LET RECURSIVE R(_) R(i) == {i} \cup (IF d[i][2] # 0 THEN R(d[i][2]) ELSE {}) \cup (IF d[i][3] # 0 THEN R(d[i][3]) ELSE {}) IN R(Len(d)) = 1..Len(d)
Dags == {<<a,b,c>> : a \in NodeSet(1), b \in NodeSet(2), c \in NodeSet(3)} \cup {<<a,b>> : a \in NodeSet(1), b \in NodeSet(2)} \cup {<<a>> : a \in NodeSet(1)}
WitChoices(d, t) == [ {i \in 1..Len(d) : d[i][1] = "witness"} -> {<<"u">>} ] \* placeholder replaced below
Frame(s, l) == [start |-> s, len |-> l, cur |-> s]
Init == \E d \in Dags : NoDisc(d) /\ AllReach(d) /\
          LET r == InferDag(d) IN r[1] = "ok" /\
          LET t == r[2] n == Len(d) IN
          \E w \in [1..n -> UNION {Vals(t[i][2]) : i \in 1..n}] :
            /\ \A i \in 1..n : IF d[i][1] = "witness" THEN w[i] \in Vals(t[i][2]) ELSE w[i] = CHOOSE x \in Vals(t[i][2]) : TRUE
            /\ \E v \in Vals(t[n][1]) :
               /\ dag = d /\ ty = t /\ wit = w /\ inp = v
               /\ LET iw == W(t[n][1]) ow == W(t[n][2]) IN
                  /\ cells = [k \in 1..(iw + ow + Cells(d,t,n)) |-> IF k <= iw THEN Pad(v, t[n][1])[k] ELSE "?"]
                  /\ rd = IF iw > 0 THEN <<[start |-> 1, len |-> iw, cur |-> 1]>> ELSE <<>>
                  /\ wr = IF ow > 0 THEN <<Frame(iw+1, ow)>> ELSE <<>>
                  /\ nfs = iw + ow + 1
               /\ ip = n /\ cs = <<>> /\ phase = "exec" /\ hwc = 0 /\ hwf = 0
TopR == rd[Len(rd)]
TopW == wr[Len(wr)]
WriteBits(c, w, bits) == \* returns <<cells', wr'>>
   LET f == w[Len(w)] IN
   << [k \in DOMAIN c |-> IF k >= f.cur /\ k < f.cur + Len(bits) THEN bits[k - f.cur + 1] ELSE c[k]],
      [w EXCEPT ![Len(w)].cur = f.cur + Len(bits)] >>
Exec ==
  /\ phase = "exec"
  /\ LET nd == dag[ip] op == nd[1] src == ty[ip][1] tgt == ty[ip][2] IN
     CASE op = "unit" -> /\ UNCHANGED <<cells, wr, rd, nfs>> /\ cs' = cs /\ phase' = "unwind"
       [] op = "iden" -> LET n == W(src) bits == IF n = 0 THEN <<>> ELSE SubSeq(cells, TopR.cur, TopR.cur + n - 1)
                             res == IF n = 0 THEN <<cells, wr>> ELSE WriteBits(cells, wr, bits) IN
                         /\ cells' = res[1] /\ wr' = res[2] /\ UNCHANGED <<rd, nfs>> /\ cs' = cs /\ phase' = "unwind"
       [] op \in {"witness","word1"} ->
                         LET val == IF op = "witness" THEN wit[ip] ELSE <<"R", <<"u">>>>
                             bits == Pad(val, tgt)
                             res == IF bits = <<>> THEN <<cells, wr>> ELSE WriteBits(cells, wr, bits) IN
                         /\ cells' = res[1] /\ wr' = res[2] /\ UNCHANGED <<rd, nfs>> /\ cs' = cs /\ phase' = "unwind"
       [] op = "fail" -> /\ phase' = "failed" /\ UNCHANGED <<cells, wr, rd, nfs, cs>>
       [] op \in {"injl","injr"} ->
                         LET b == tgt[2] c == tgt[3]
                             pad == IF op = "injl" THEN Max(W(b),W(c)) - W(b) ELSE Max(W(b),W(c)) - W(c)
                             r1 == WriteBits(cells, wr, <<IF op = "injl" THEN 0 ELSE 1>>)
                             w2 == [r1[2] EXCEPT ![Len(wr)].cur = @ + pad] IN
                         /\ cells' = r1[1] /\ wr' = w2 /\ UNCHANGED <<rd, nfs>> /\ cs' = Append(cs, <<"goto", nd[2]>>) /\ phase' = "unwind"
       [] op = "take" -> /\ UNCHANGED <<cells, wr, rd, nfs>> /\ cs' = Append(cs, <<"goto", nd[2]>>) /\ phase' = "unwind"
       [] op = "drop" -> LET a == W(src[2]) IN
                         /\ rd' = IF a = 0 THEN rd ELSE [rd EXCEPT ![Len(rd)].cur = @ + a]
                         /\ UNCHANGED <<cells, wr, nfs>> /\ cs' = cs \o << <<"back", a>>, <<"goto", nd[2]>> >> /\ phase' = "unwind"
       [] op = "pair" -> /\ UNCHANGED <<cells, wr, rd, nfs>> /\ cs' = cs \o << <<"goto", nd[3]>>, <<"goto", nd[2]>> >> /\ phase' = "unwind"
       [] op = "comp" -> LET b == W(ty[nd[2]][2]) IN
                         /\ wr' = Append(wr, Frame(nfs, b)) /\ nfs' = nfs + b
                         /\ UNCHANGED <<cells, rd>>
                         /\ cs' = cs \o << <<"dropframe">>, <<"goto", nd[3]>>, <<"moveframe">>, <<"goto", nd[2]>> >> /\ phase' = "unwind"
       [] op \in {"case","assertl","assertr"} ->
                         LET bit == cells[TopR.cur] a == src[2][2] b == src[2][3]
                             padl == Max(W(a),W(b)) - W(a) padr == Max(W(a),W(b)) - W(b) IN
                         IF (op = "assertl" /\ bit = 1) \/ (op = "assertr" /\ bit = 0) THEN
                             /\ phase' = "failed" /\ UNCHANGED <<cells, wr, rd, nfs, cs>>
                         ELSE LET amt == 1 + (IF bit = 0 THEN padl ELSE padr)
                                  child == IF op = "case" THEN (IF bit = 0 THEN nd[2] ELSE nd[3]) ELSE nd[2] IN
                             /\ rd' = [rd EXCEPT ![Len(rd)].cur = @ + amt]
                             /\ UNCHANGED <<cells, wr, nfs>>
                             /\ cs' = cs \o << <<"back", amt>>, <<"goto", child>> >> /\ phase' = "unwind"
  /\ hwc' = Max(hwc, nfs' - 1) /\ hwf' = Max(hwf, Len(rd') + Len(wr'))
  /\ UNCHANGED <<dag, ty, wit, inp, ip>>
Unwind ==
  /\ phase = "unwind"
  /\ IF cs = <<>> THEN phase' = "done" /\ UNCHANGED <<cells, nfs, rd, wr, ip, cs>>
     ELSE LET top == cs[Len(cs)] rest == SubSeq(cs, 1, Len(cs)-1) IN
          /\ cs' = rest
          /\ CASE top[1] = "goto" -> ip' = top[2] /\ phase' = "exec" /\ UNCHANGED <<cells, nfs, rd, wr>>
               [] top[1] = "moveframe" -> /\ rd' = Append(rd, [TopW EXCEPT !.cur = TopW.start]) /\ wr' = SubSeq(wr, 1, Len(wr)-1)
                                          /\ UNCHANGED <<cells, nfs, ip, phase>>
               [] top[1] = "dropframe" -> /\ nfs' = nfs - TopR.len /\ rd' = SubSeq(rd, 1, Len(rd)-1) /\ UNCHANGED <<cells, wr, ip, phase>>
               [] top[1] = "back" -> /\ rd' = (IF top[2] = 0 THEN rd ELSE [rd EXCEPT ![Len(rd)].cur = @ - top[2]])
                                     /\ UNCHANGED <<cells, nfs, wr, ip, phase>>
  /\ UNCHANGED <<dag, ty, wit, inp, hwc, hwf>>
Next == Exec \/ Unwind
Spec == Init /\ [][Next]_vars
N0 == Len(dag)
FrameInv == /\ \A k \in 1..Len(rd) : rd[k].cur >= rd[k].start /\ rd[k].cur <= rd[k].start + rd[k].len
            /\ \A k \in 1..Len(wr) : wr[k].cur >= wr[k].start /\ wr[k].cur <= wr[k].start + wr[k].len
            /\ nfs - 1 <= Len(cells)
BoundInv == hwc <= W(ty[N0][1]) + W(ty[N0][2]) + Cells(dag, ty, N0) /\ hwf <= Frames(dag, ty, N0) + 2
Expected == Eval(dag, ty, wit, N0, inp)
SemInv == /\ (phase = "done" => LET ow == W(ty[N0][2]) iw == W(ty[N0][1])
                                  out == Read(IF ow = 0 THEN <<>> ELSE SubSeq(cells, iw+1, iw+ow), ty[N0][2]) IN
                                  Expected # FAILV /\ out = Expected)
          /\ (phase = "failed" => Expected = FAILV)
====
