SPECIFICATION Spec
INVARIANT FrameInv
INVARIANT BoundInv
INVARIANT SemInv
CONSTANT N = 3
CHECK_DEADLOCK FALSE
