---- MODULE Infer ----
EXTENDS Naturals, Sequences, FiniteSets, TLC
CONSTANT N
Fail == [ok |-> FALSE, b |-> <<>>]
Ok(b) == [ok |-> TRUE, b |-> b]
Nullary == {"iden","unit","witness","fail","word1"}
Unary == {"injl","injr","take","drop","assertl","assertr","disc1"}
Binary == {"comp","case","pair","disc"}
NodeSet(i) == {<<op,0,0>> : op \in Nullary} \cup {<<op,l,0>> : op \in Unary, l \in 1..(i-1)}
              \cup {<<op,l,r>> : op \in Binary, l \in 1..(i-1), r \in 1..(i-1)}
\* ---- store: sequence of bounds
New(s, b) == Append(s, b)
RECURSIVE Find(_,_)
Find(s, x) == IF s[x][1] = "ref" THEN Find(s, s[x][2]) ELSE x
RECURSIVE UnifyB(_,_,_)
UnifyB(S, x, y) ==
  IF ~S.ok THEN S ELSE
  LET s == S.b rx == Find(s,x) ry == Find(s,y) IN
  IF rx = ry THEN S ELSE
  LET bx == s[rx] by == s[ry] IN
  IF bx[1] = "free" THEN Ok([s EXCEPT ![rx] = <<"ref", ry>>])
  ELSE IF by[1] = "free" THEN Ok([s EXCEPT ![ry] = <<"ref", rx>>])
  ELSE IF bx[1] # by[1] THEN Fail
  ELSE IF bx[1] = "unit" THEN Ok([s EXCEPT ![ry] = <<"ref", rx>>])
  ELSE LET s0 == Ok([s EXCEPT ![ry] = <<"ref", rx>>])
           s1 == UnifyB(s0, bx[2], by[2]) IN UnifyB(s1, bx[3], by[3])
Unify(S, x, y) == UnifyB(S, x, y)
\* state while processing: [s |-> store or Fail, ar |-> seq of <<src,tgt>>]
Free == <<"free">>
Step(st, nd) ==
  IF ~st.s.ok THEN st ELSE
  LET s == st.s.b ar == st.ar n == Len(s) op == nd[1]
      L == IF nd[2] # 0 THEN ar[nd[2]] ELSE <<0,0>>
      R == IF nd[3] # 0 THEN ar[nd[3]] ELSE <<0,0>> IN
  CASE op = "iden" -> [s |-> Ok(New(s, Free)), ar |-> Append(ar, <<n+1, n+1>>)]
    [] op = "unit" -> [s |-> Ok(s \o <<Free, <<"unit">>>>), ar |-> Append(ar, <<n+1, n+2>>)]
    [] op \in {"witness","fail"} -> [s |-> Ok(s \o <<Free, Free>>), ar |-> Append(ar, <<n+1, n+2>>)]
    [] op = "word1" -> [s |-> Ok(s \o <<<<"unit">>, <<"unit">>, <<"+", n+2, n+2>>>>), ar |-> Append(ar, <<n+1, n+3>>)]
    [] op = "injl" -> [s |-> Ok(s \o <<Free, <<"+", L[2], n+1>>>>), ar |-> Append(ar, <<L[1], n+2>>)]
    [] op = "injr" -> [s |-> Ok(s \o <<Free, <<"+", n+1, L[2]>>>>), ar |-> Append(ar, <<L[1], n+2>>)]
    [] op = "take" -> [s |-> Ok(s \o <<Free, <<"*", L[1], n+1>>>>), ar |-> Append(ar, <<n+2, L[2]>>)]
    [] op = "drop" -> [s |-> Ok(s \o <<Free, <<"*", n+1, L[1]>>>>), ar |-> Append(ar, <<n+2, L[2]>>)]
    [] op = "comp" -> [s |-> Unify(Ok(s), L[2], R[1]), ar |-> Append(ar, <<L[1], R[2]>>)]
    [] op = "pair" -> [s |-> Unify(Ok(s \o << <<"*", L[2], R[2]>> >>), L[1], R[1]), ar |-> Append(ar, <<L[1], n+1>>)]
    [] op \in {"case","assertl","assertr"} ->
         LET s0 == Ok(s \o <<Free, Free, Free, <<"+", n+1, n+2>>, <<"*", n+4, n+3>>, <<"*", n+1, n+3>>, <<"*", n+2, n+3>>, Free>>)
             \* a=n+1 b=n+2 c=n+3 sum=n+4 src=n+5 AxC=n+6 BxC=n+7 tgt=n+8
             hasL == op \in {"case","assertl"}
             hasR == op \in {"case","assertr"}
             lch == L  \* for assertr the single child is nd[2] as well
             s1 == IF hasL THEN Unify(Unify(s0, lch[1], n+6), n+8, lch[2]) ELSE s0
             rch == IF op = "case" THEN R ELSE L
             s2 == IF hasR THEN Unify(Unify(s1, rch[1], n+7), n+8, rch[2]) ELSE s1
         IN [s |-> s2, ar |-> Append(ar, <<n+5, n+8>>)]
    [] op \in {"disc","disc1"} ->
         LET s0 == s \o <<Free, Free, <<"unit">>, <<"+", n+3, n+3>>, <<"*", n+4, n+1>>, Free, Free>>
             \* a=n+1 b=n+2 ; use 2 instead of 2^256 in this prototype: w=n+4 ; WxA = n+5 ; c=n+6 d=n+7
             c == IF op = "disc" THEN R[1] ELSE n+6
             d == IF op = "disc" THEN R[2] ELSE n+7
             s1 == Ok(s0 \o << <<"*", n+2, c>>, <<"*", n+2, d>> >>)   \* BxC = n+8, BxD = n+9
             s2 == Unify(Unify(s1, L[1], n+5), L[2], n+8)
         IN [s |-> s2, ar |-> Append(ar, <<n+1, n+9>>)]
RECURSIVE Run(_,_,_)
Run(st, dag, i) == IF i > Len(dag) THEN st ELSE Run(Step(st, dag[i]), dag, i+1)
\* occurs check: is there a cycle through structural edges
RECURSIVE Acyc(_,_,_)
Acyc(s, x, path) == LET r == Find(s,x) IN
   IF r \in path THEN FALSE
   ELSE IF s[r][1] \in {"free","unit"} THEN TRUE
   ELSE Acyc(s, s[r][2], path \cup {r}) /\ Acyc(s, s[r][3], path \cup {r})
RECURSIVE Res(_,_)
Res(s, x) == LET r == Find(s,x) IN
   IF s[r][1] \in {"free","unit"} THEN <<"1">> ELSE <<s[r][1], Res(s, s[r][2]), Res(s, s[r][3])>>
InferDag(dag) ==
  LET st == Run([s |-> Ok(<<>>), ar |-> <<>>], dag, 1) IN
  IF ~st.s.ok THEN <<"clash">>
  ELSE IF \E i \in 1..Len(dag) : ~Acyc(st.s.b, st.ar[i][1], {}) \/ ~Acyc(st.s.b, st.ar[i][2], {}) THEN <<"occurs">>
  ELSE <<"ok", [i \in 1..Len(dag) |-> <<Res(st.s.b, st.ar[i][1]), Res(st.s.b, st.ar[i][2])>>]>>
VARIABLE dag
Init == \E a \in NodeSet(1), b \in NodeSet(2), c \in NodeSet(3), d \in NodeSet(4) : dag = <<a,b,c,d>>
Next == UNCHANGED dag
Inv == LET r == InferDag(dag) k == IF r[1]="ok" THEN 1 ELSE IF r[1]="occurs" THEN 2 ELSE 3 IN TLCSet(k, TLCGet(k)+1)
Post == PrintT(<<"ok",TLCGet(1),"occurs",TLCGet(2),"clash",TLCGet(3)>>)
ASSUME TLCSet(1,0) /\ TLCSet(2,0) /\ TLCSet(3,0)
Count == TLCSet(1, 0)
Stat == LET r == InferDag(dag) IN
   /\ (r[1] = "ok" => TLCSet(1, TLCGet(1)+1))
   /\ (r[1] = "occurs" => TLCSet(2, TLCGet(2)+1))
====
