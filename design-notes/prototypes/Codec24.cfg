SPECIFICATION Spec
INVARIANT Inv
CONSTANT N = 4
CHECK_DEADLOCK FALSE
