---- MODULE TI ----
EXTENDS Naturals, Sequences, FiniteSets, TLC
CONSTANT N
Fail == [ok |-> FALSE, b |-> <<>>]
Ok(b) == [ok |-> TRUE, b |-> b]
Nullary == {"iden","unit","witness","fail","word1"}
Unary == {"injl","injr","take","drop","assertl","assertr","disc1"}
Binary == {"comp","case","pair","disc"}
NodeSet(i) == {<<op,0,0>> : op \in Nullary} \cup {<<op,l,0>> : op \in Unary, l \in 1..(i-1)}
              \cup {<<op,l,r>> : op \in Binary, l \in 1..(i-1), r \in 1..(i-1)}
\* ---- store: sequence of bounds
New(s, b) == Append(s, b)
RECURSIVE Find(_,_)
Find(s, x) == IF s[x][1] = "ref" THEN Find(s, s[x][2]) ELSE x
RECURSIVE UnifyB(_,_,_)
UnifyB(S, x, y) ==
  IF ~S.ok THEN S ELSE
  LET s == S.b rx == Find(s,x) ry == Find(s,y) IN
  IF rx = ry THEN S ELSE
  LET bx == s[rx] by == s[ry] IN
  IF bx[1] = "free" THEN Ok([s EXCEPT ![rx] = <<"ref", ry>>])
  ELSE IF by[1] = "free" THEN Ok([s EXCEPT ![ry] = <<"ref", rx>>])
  ELSE IF bx[1] # by[1] THEN Fail
  ELSE IF bx[1] = "unit" THEN Ok([s EXCEPT ![ry] = <<"ref", rx>>])
  ELSE LET s0 == Ok([s EXCEPT ![ry] = <<"ref", rx>>])
           s1 == UnifyB(s0, bx[2], by[2]) IN UnifyB(s1, bx[3], by[3])
Unify(S, x, y) == UnifyB(S, x, y)
\* state while processing: [s |-> store or Fail, ar |-> seq of <<src,tgt>>]
Free == <<"free">>
Step(st, nd) ==
  IF ~st.s.ok THEN st ELSE
  LET s == st.s.b ar == st.ar n == Len(s) op == nd[1]
      L == IF nd[2] # 0 THEN ar[nd[2]] ELSE <<0,0>>
      R == IF nd[3] # 0 THEN ar[nd[3]] ELSE <<0,0>> IN
  CASE op = "iden" -> [s |-> Ok(New(s, Free)), ar |-> Append(ar, <<n+1, n+1>>)]
    [] op = "unit" -> [s |-> Ok(s \o <<Free, <<"unit">>>>), ar |-> Append(ar, <<n+1, n+2>>)]
    [] op \in {"witness","fail"} -> [s |-> Ok(s \o <<Free, Free>>), ar |-> Append(ar, <<n+1, n+2>>)]
    [] op = "word1" -> [s |-> Ok(s \o <<<<"unit">>, <<"unit">>, <<"+", n+2, n+2>>>>), ar |-> Append(ar, <<n+1, n+3>>)]
    [] op = "injl" -> [s |-> Ok(s \o <<Free, <<"+", L[2], n+1>>>>), ar |-> Append(ar, <<L[1], n+2>>)]
    [] op = "injr" -> [s |-> Ok(s \o <<Free, <<"+", n+1, L[2]>>>>), ar |-> Append(ar, <<L[1], n+2>>)]
    [] op = "take" -> [s |-> Ok(s \o <<Free, <<"*", L[1], n+1>>>>), ar |-> Append(ar, <<n+2, L[2]>>)]
    [] op = "drop" -> [s |-> Ok(s \o <<Free, <<"*", n+1, L[1]>>>>), ar |-> Append(ar, <<n+2, L[2]>>)]
    [] op = "comp" -> [s |-> Unify(Ok(s), L[2], R[1]), ar |-> Append(ar, <<L[1], R[2]>>)]
    [] op = "pair" -> [s |-> Unify(Ok(s \o << <<"*", L[2], R[2]>> >>), L[1], R[1]), ar |-> Append(ar, <<L[1], n+1>>)]
    [] op \in {"case","assertl","assertr"} ->
         LET s0 == Ok(s \o <<Free, Free, Free, <<"+", n+1, n+2>>, <<"*", n+4, n+3>>, <<"*", n+1, n+3>>, <<"*", n+2, n+3>>, Free>>)
             \* a=n+1 b=n+2 c=n+3 sum=n+4 src=n+5 AxC=n+6 BxC=n+7 tgt=n+8
             hasL == op \in {"case","assertl"}
             hasR == op \in {"case","assertr"}
             lch == L  \* for assertr the single child is nd[2] as well
             s1 == IF hasL THEN Unify(Unify(s0, lch[1], n+6), n+8, lch[2]) ELSE s0
             rch == IF op = "case" THEN R ELSE L
             s2 == IF hasR THEN Unify(Unify(s1, rch[1], n+7), n+8, rch[2]) ELSE s1
         IN [s |-> s2, ar |-> Append(ar, <<n+5, n+8>>)]
    [] op \in {"disc","disc1"} ->
         LET s0 == s \o <<Free, Free, <<"unit">>, <<"+", n+3, n+3>>, <<"*", n+4, n+1>>, Free, Free>>
             \* a=n+1 b=n+2 ; use 2 instead of 2^256 in this prototype: w=n+4 ; WxA = n+5 ; c=n+6 d=n+7
             c == IF op = "disc" THEN R[1] ELSE n+6
             d == IF op = "disc" THEN R[2] ELSE n+7
             s1 == Ok(s0 \o << <<"*", n+2, c>>, <<"*", n+2, d>> >>)   \* BxC = n+8, BxD = n+9
             s2 == Unify(Unify(s1, L[1], n+5), L[2], n+8)
         IN [s |-> s2, ar |-> Append(ar, <<n+1, n+9>>)]
RECURSIVE Run(_,_,_)
Run(st, dag, i) == IF i > Len(dag) THEN st ELSE Run(Step(st, dag[i]), dag, i+1)
\* occurs check: is there a cycle through structural edges
RECURSIVE Acyc(_,_,_)
Acyc(s, x, path) == LET r == Find(s,x) IN
   IF r \in path THEN FALSE
   ELSE IF s[r][1] \in {"free","unit"} THEN TRUE
   ELSE Acyc(s, s[r][2], path \cup {r}) /\ Acyc(s, s[r][3], path \cup {r})
RECURSIVE Res(_,_)
Res(s, x) == LET r == Find(s,x) IN
   IF s[r][1] \in {"free","unit"} THEN <<"1">> ELSE <<s[r][1], Res(s, s[r][2]), Res(s, s[r][3])>>
InferDag(dag) ==
  LET st == Run([s |-> Ok(<<>>), ar |-> <<>>], dag, 1) IN
  IF ~st.s.ok THEN <<"clash">>
  ELSE IF \E i \in 1..Len(dag) : ~Acyc(st.s.b, st.ar[i][1], {}) \/ ~Acyc(st.s.b, st.ar[i][2], {}) THEN <<"occurs">>
  ELSE <<"ok", [i \in 1..Len(dag) |-> <<Res(st.s.b, st.ar[i][1]), Res(st.s.b, st.ar[i][2])>>]>>

\* =========================================================================================
\* L1 model of types::Context : slab of bounds + union-bound elements (rank, path halving)
\* S = [ok, slab, el]   slab[k] = <<"free">> | <<"comp", FinalTree>> | <<"+", e1, e2>> | <<"*", e1, e2>>   (e = element id)
\*                      el[e]   = [p |-> parent element or 0, b |-> slab index (valid when p = 0), rank |-> Nat]
S0 == [ok |-> TRUE, slab |-> <<>>, el |-> <<>>]
Bad(S) == [S EXCEPT !.ok = FALSE]
U1 == <<"1">>
\* allocate bound + fresh element ; returns <<S', elem>>
Alloc(S, bnd) == LET k == Len(S.slab) + 1 e == Len(S.el) + 1 IN
   << [S EXCEPT !.slab = Append(@, bnd), !.el = Append(@, [p |-> 0, b |-> k, rank |-> 0])], e >>
\* root element with path halving ; returns <<S', rootElem>>
RECURSIVE RootE(_,_)
RootE(S, x) ==
   IF S.el[x].p = 0 THEN <<S, x>>
   ELSE LET par == S.el[x].p IN
        IF S.el[par].p = 0 THEN <<S, par>>
        ELSE LET gp == S.el[par].p IN RootE([S EXCEPT !.el[x].p = gp], gp)
RootB(S, x) == LET r == RootE(S, x) IN << r[1], r[1].el[r[2]].b >>   \* <<S', slab index of root>>
IsComp(S, k) == S.slab[k][1] = "comp"
\* Type constructors (alloc_sum / alloc_product with eager completion)
AllocBin(S, tag, e1, e2) ==
   LET r1 == RootB(S, e1) r2 == RootB(r1[1], e2) S2 == r2[1] IN
   IF IsComp(S2, r1[2]) /\ IsComp(S2, r2[2])
   THEN Alloc(S2, <<"comp", <<tag, S2.slab[r1[2]][2], S2.slab[r2[2]][2]>>>>)
   ELSE Alloc(S2, <<tag, e1, e2>>)
RECURSIVE UnifyE(_,_,_), Bind(_,_,_)
\* bind(existing slab index, new bound) -> S'
Bind(S, ex, new) ==
  IF ~S.ok THEN S ELSE
  LET eb == S.slab[ex] IN
  IF new[1] = "free" THEN S
  ELSE IF eb[1] = "free" THEN [S EXCEPT !.slab[ex] = new]
  ELSE IF eb[1] = "comp" /\ new[1] = "comp" THEN (IF eb[2] = new[2] THEN S ELSE Bad(S))
  ELSE IF eb[1] = "comp" \/ new[1] = "comp" THEN
       LET c == IF eb[1] = "comp" THEN eb[2] ELSE new[2]
           inc == IF eb[1] = "comp" THEN new ELSE eb IN
       IF c[1] = "1" THEN Bad(S)
       ELSE IF c[1] # inc[1] THEN Bad(S)
       ELSE LET r1 == RootB(S, inc[2]) r2 == RootB(r1[1], inc[3])
                S1 == Bind(r2[1], r1[2], <<"comp", c[2]>>) IN
            Bind(S1, r2[2], <<"comp", c[3]>>)
  ELSE IF eb[1] = new[1] THEN   \* both Sum or both Product
       LET S1 == UnifyE(S, eb[2], new[2])
           S2 == UnifyE(S1, eb[3], new[3]) IN
       IF ~S2.ok THEN S2 ELSE
       LET r1 == RootB(S2, new[2]) r2 == RootB(r1[1], new[3]) S3 == r2[1] IN
       IF IsComp(S3, r1[2]) /\ IsComp(S3, r2[2])
       THEN [S3 EXCEPT !.slab[ex] = <<"comp", <<eb[1], S3.slab[r1[2]][2], S3.slab[r2[2]][2]>>>>]   \* reassign_non_complete
       ELSE S3
  ELSE Bad(S)
UnifyE(S, x, y) ==
  IF ~S.ok THEN S ELSE
  LET rx == RootE(S, x) ry == RootE(rx[1], y) S1 == ry[1]
      xr0 == rx[2] yr0 == ry[2] IN
  IF S1.el[xr0].b = S1.el[yr0].b THEN S1 ELSE
  LET swap == S1.el[xr0].rank < S1.el[yr0].rank
      xr == IF swap THEN yr0 ELSE xr0
      yr == IF swap THEN xr0 ELSE yr0
      S2 == IF S1.el[xr0].rank = S1.el[yr0].rank THEN [S1 EXCEPT !.el[xr].rank = @ + 1] ELSE S1
      xb == S2.el[xr].b  yb == S2.el[yr].b
      S3 == [S2 EXCEPT !.el[yr].p = xr]
      S4 == Bind(S3, xb, S3.slab[yb]) IN
  IF S4.ok THEN S4 ELSE [S4 EXCEPT !.el[yr].p = 0]    \* "put the old data back"
BindProduct(S, ex, e1, e2) == LET r == RootB(S, ex) IN Bind(r[1], r[2], <<"*", e1, e2>>)
\* ---- arrow construction per combinator (arrow.rs). st = [S, ar] ; ar[i] = <<srcElem, tgtElem>>
FreeB == <<"free">>
TwoT == <<"+", U1, U1>>
BuildNode(st, i, nd) ==
  LET S == st.S ar == st.ar op == nd[1]
      L == IF nd[2] # 0 THEN ar[nd[2]] ELSE <<0,0>>
      R == IF nd[3] # 0 THEN ar[nd[3]] ELSE <<0,0>> IN
  CASE op = "iden" -> LET a == Alloc(S, FreeB) IN [S |-> a[1], ar |-> [ar EXCEPT ![i] = <<a[2], a[2]>>]]
    [] op = "unit" -> LET a == Alloc(S, FreeB) b == Alloc(a[1], <<"comp", U1>>) IN [S |-> b[1], ar |-> [ar EXCEPT ![i] = <<a[2], b[2]>>]]
    [] op \in {"witness","fail"} -> LET a == Alloc(S, FreeB) b == Alloc(a[1], FreeB) IN [S |-> b[1], ar |-> [ar EXCEPT ![i] = <<a[2], b[2]>>]]
    [] op = "word1" -> LET a == Alloc(S, <<"comp", U1>>) b == Alloc(a[1], <<"comp", TwoT>>) IN [S |-> b[1], ar |-> [ar EXCEPT ![i] = <<a[2], b[2]>>]]
    [] op = "injl" -> LET f == Alloc(S, FreeB) t == AllocBin(f[1], "+", L[2], f[2]) IN [S |-> t[1], ar |-> [ar EXCEPT ![i] = <<L[1], t[2]>>]]
    [] op = "injr" -> LET f == Alloc(S, FreeB) t == AllocBin(f[1], "+", f[2], L[2]) IN [S |-> t[1], ar |-> [ar EXCEPT ![i] = <<L[1], t[2]>>]]
    [] op = "take" -> LET f == Alloc(S, FreeB) t == AllocBin(f[1], "*", L[1], f[2]) IN [S |-> t[1], ar |-> [ar EXCEPT ![i] = <<t[2], L[2]>>]]
    [] op = "drop" -> LET f == Alloc(S, FreeB) t == AllocBin(f[1], "*", f[2], L[1]) IN [S |-> t[1], ar |-> [ar EXCEPT ![i] = <<t[2], L[2]>>]]
    [] op = "comp" -> [S |-> UnifyE(S, L[2], R[1]), ar |-> [ar EXCEPT ![i] = <<L[1], R[2]>>]]
    [] op = "pair" -> LET S1 == UnifyE(S, L[1], R[1]) IN
                      IF ~S1.ok THEN [S |-> S1, ar |-> ar]
                      ELSE LET t == AllocBin(S1, "*", L[2], R[2]) IN [S |-> t[1], ar |-> [ar EXCEPT ![i] = <<L[1], t[2]>>]]
    [] op \in {"case","assertl","assertr"} ->
         LET a == Alloc(S, FreeB) b == Alloc(a[1], FreeB) c == Alloc(b[1], FreeB)
             sum == AllocBin(c[1], "+", a[2], b[2])
             src == AllocBin(sum[1], "*", sum[2], c[2])
             tgt == Alloc(src[1], FreeB)
             lch == IF op \in {"case","assertl"} THEN L ELSE <<0,0>>
             rch == IF op = "case" THEN R ELSE IF op = "assertr" THEN L ELSE <<0,0>>
             S1 == IF lch[1] # 0 THEN UnifyE(BindProduct(tgt[1], lch[1], a[2], c[2]), tgt[2], lch[2]) ELSE tgt[1]
             S2 == IF rch[1] # 0 THEN UnifyE(BindProduct(S1, rch[1], b[2], c[2]), tgt[2], rch[2]) ELSE S1
         IN [S |-> S2, ar |-> [ar EXCEPT ![i] = <<src[2], tgt[2]>>]]
    [] op \in {"disc","disc1"} ->
         LET a == Alloc(S, FreeB) b == Alloc(a[1], FreeB)
             cs == IF op = "disc" THEN <<b[1], R[1]>> ELSE Alloc(b[1], FreeB)
             ds == IF op = "disc" THEN <<cs[1], R[2]>> ELSE Alloc(cs[1], FreeB)
             w == Alloc(ds[1], <<"comp", TwoT>>)       \* prototype: 2 instead of 2^256
             S1 == BindProduct(w[1], L[1], w[2], a[2])
             S2 == BindProduct(S1, L[2], b[2], cs[2])
         IN IF ~S2.ok THEN [S |-> S2, ar |-> ar]
            ELSE LET t == AllocBin(S2, "*", b[2], ds[2]) IN [S |-> t[1], ar |-> [ar EXCEPT ![i] = <<a[2], t[2]>>]]
\* ---- finalize: occurs check + completion with free -> unit (functional form)
RECURSIVE AcycT(_,_,_)
AcycT(S, e, path) == LET k == RootB(S, e)[2] bnd == S.slab[k] IN
   IF k \in path THEN FALSE
   ELSE IF bnd[1] \in {"free","comp"} THEN TRUE
   ELSE AcycT(S, bnd[2], path \cup {k}) /\ AcycT(S, bnd[3], path \cup {k})
RECURSIVE ResT(_,_)
ResT(S, e) == LET k == RootB(S, e)[2] bnd == S.slab[k] IN
   IF bnd[1] = "free" THEN U1 ELSE IF bnd[1] = "comp" THEN bnd[2] ELSE <<bnd[1], ResT(S, bnd[2]), ResT(S, bnd[3])>>
VARIABLES dag, st, built
vars == <<dag, st, built>>
AllReach(d) == LET RECURSIVE Rr(_) Rr(i) == {i} \cup (IF d[i][2] # 0 THEN Rr(d[i][2]) ELSE {}) \cup (IF d[i][3] # 0 THEN Rr(d[i][3]) ELSE {}) IN Rr(Len(d)) = 1..Len(d)
Dags == IF N = 3 THEN {<<a,b,c>> : a \in NodeSet(1), b \in NodeSet(2), c \in NodeSet(3)}
        ELSE {<<a,b,c,d>> : a \in NodeSet(1), b \in NodeSet(2), c \in NodeSet(3), d \in NodeSet(4)}
Init == /\ dag \in {d \in Dags : AllReach(d)}
        /\ st = [S |-> S0, ar |-> [i \in 1..N |-> <<0,0>>]] /\ built = {}
Build(i) == /\ i \notin built /\ st.S.ok
            /\ (dag[i][2] # 0 => dag[i][2] \in built) /\ (dag[i][3] # 0 => dag[i][3] \in built)
            /\ st' = BuildNode(st, i, dag[i]) /\ built' = built \cup {i} /\ UNCHANGED dag
Next == \E i \in 1..N : Build(i)
Spec == Init /\ [][Next]_vars
Ref == InferDag(dag)
Final == IF ~st.S.ok THEN <<"reject">>
         ELSE IF \E i \in 1..N : ~AcycT(st.S, st.ar[i][1], {}) \/ ~AcycT(st.S, st.ar[i][2], {}) THEN <<"reject">>
         ELSE <<"ok", [i \in 1..N |-> <<ResT(st.S, st.ar[i][1]), ResT(st.S, st.ar[i][2])>>]>>
Agree == /\ (~st.S.ok => Ref[1] # "ok")           \* an early error implies the whole DAG is untypable
         /\ (built = 1..N => IF Ref[1] = "ok" THEN Final = Ref ELSE Final[1] = "reject")
\* union-find sanity: parent pointers strictly increase rank, no cycles
Forest == st.S.ok => \A e \in 1..Len(st.S.el) : st.S.el[e].p # 0 => st.S.el[st.S.el[e].p].rank > st.S.el[e].rank \/ st.S.el[st.S.el[e].p].rank >= st.S.el[e].rank
====
