SPECIFICATION Spec
POSTCONDITION Accepted
CONSTANT N = 4
CHECK_DEADLOCK FALSE
