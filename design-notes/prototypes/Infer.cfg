INIT Init
NEXT Next
INVARIANT Inv
POSTCONDITION Post
CONSTANT N = 4
CHECK_DEADLOCK FALSE
