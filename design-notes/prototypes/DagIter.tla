---- MODULE DagIter ----
EXTENDS Naturals, Sequences, FiniteSets, TLC
CONSTANT N
Null == 0
\* dag[i] = <<l, r>> with 0 for absent; r # 0 => l # 0 ; children < i ; root = N
Shapes(i) == {<<0,0>>} \cup {<<l,0>> : l \in 1..(i-1)} \cup {<<l,r>> : l \in 1..(i-1), r \in 1..(i-1)}
VARIABLES dag, stack, index, seen, out
vars == <<dag, stack, index, seen, out>>
\* pointer sharing only (InternalSharing): class of node = node id
Item(e, p) == [e |-> e, proc |-> FALSE, l |-> Null - 0, r |-> 0, li |-> 99, ri |-> 99, prev |-> p]
Init == /\ dag \in [1..N -> UNION {Shapes(i) : i \in 1..N}]
        /\ \A i \in 1..N : dag[i] \in Shapes(i)
        /\ stack = <<Item(N, "Root")>>
        /\ index = 0 /\ seen = [i \in 1..N |-> 99] /\ out = <<>>
Top == stack[Len(stack)]
Pop == SubSeq(stack, 1, Len(stack)-1)
Step ==
  /\ stack # <<>>
  /\ LET cur == Top rest == Pop IN
     IF ~cur.proc THEN
        LET L == dag[cur.e][1] R == dag[cur.e][2]
            lnew == L # 0 /\ seen[L] = 99
            rnew == R # 0 /\ seen[R] = 99
            c1 == [cur EXCEPT !.proc = TRUE,
                              !.li = IF L # 0 /\ ~lnew THEN seen[L] ELSE 99,
                              !.ri = IF R # 0 /\ ~rnew THEN seen[R] ELSE 99]
        IN /\ stack' = IF L = 0 THEN Append(rest, c1)
                       ELSE IF R = 0 THEN (IF lnew THEN rest \o <<c1, Item(L, "ParentLeft")>> ELSE Append(rest, c1))
                       ELSE IF lnew /\ rnew THEN rest \o <<c1, Item(R, "ParentRight"), Item(L, "SiblingLeft")>>
                       ELSE IF lnew THEN rest \o <<c1, Item(L, "ParentLeft")>>
                       ELSE IF rnew THEN rest \o <<c1, Item(R, "ParentRight")>>
                       ELSE Append(rest, c1)
           /\ UNCHANGED <<dag, index, seen, out>>
     ELSE
        LET already == seen[cur.e] # 99
            ci == IF already THEN seen[cur.e] ELSE index
            n == Len(rest)
            patched == CASE cur.prev = "Root" -> rest
                         [] cur.prev = "ParentLeft" -> [rest EXCEPT ![n].li = ci]
                         [] cur.prev = "ParentRight" -> [rest EXCEPT ![n].ri = ci]
                         [] cur.prev = "SiblingLeft" -> [rest EXCEPT ![n-1].li = ci]
        IN /\ (cur.prev = "Root" => n = 0)
           /\ stack' = patched
           /\ seen' = IF already THEN seen ELSE [seen EXCEPT ![cur.e] = index]
           /\ index' = IF already THEN index ELSE index + 1
           /\ out' = IF already THEN out ELSE Append(out, <<cur.e, ci, cur.li, cur.ri>>)
           /\ UNCHANGED dag
Next == Step
Spec == Init /\ [][Next]_vars
\* asserts in the code
AssertInv == stack # <<>> /\ Top.proc =>
   LET n == Len(stack) - 1 IN
   CASE Top.prev = "Root" -> n = 0
     [] Top.prev \in {"ParentLeft","ParentRight"} -> stack[n].proc
     [] Top.prev = "SiblingLeft" -> stack[n-1].proc
\* declarative reference: recursive memo DFS
RECURSIVE Visit(_,_)
Visit(st, n) == \* st = [seen, idx, out]; returns new st
  IF st.seen[n] # 99 THEN st
  ELSE LET L == dag[n][1] R == dag[n][2]
           s1 == IF L # 0 THEN Visit(st, L) ELSE st
           s2 == IF R # 0 THEN Visit(s1, R) ELSE s1
       IN [seen |-> [s2.seen EXCEPT ![n] = s2.idx], idx |-> s2.idx + 1,
           out |-> Append(s2.out, <<n, s2.idx, IF L # 0 THEN s2.seen[L] ELSE 99, IF R # 0 THEN s2.seen[R] ELSE 99>>)]
Ref == Visit([seen |-> [i \in 1..N |-> 99], idx |-> 0, out |-> <<>>], N).out
Done == stack = <<>>
Correct == Done => out = Ref
ChildrenFirst == \A k \in 1..Len(out) : (out[k][3] # 99 => out[k][3] < out[k][2]) /\ (out[k][4] # 99 => out[k][4] < out[k][2]) /\ out[k][2] = k - 1
====
