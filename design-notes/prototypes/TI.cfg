SPECIFICATION Spec
INVARIANT Agree
INVARIANT Forest
CONSTANT N = 4
CHECK_DEADLOCK FALSE
