---- MODULE Codec ----
EXTENDS Naturals, Sequences, FiniteSets, TLC, Json, IOUtils
CONSTANT N
Fail == [ok |-> FALSE, b |-> <<>>]
Ok(b) == [ok |-> TRUE, b |-> b]
Nullary == {"iden","unit","witness","fail","word1"}
Unary == {"injl","injr","take","drop","assertl","assertr","disc1"}
Binary == {"comp","case","pair","disc"}
NodeSet(i) == {<<op,0,0>> : op \in Nullary} \cup {<<op,l,0>> : op \in Unary, l \in 1..(i-1)}
              \cup {<<op,l,r>> : op \in Binary, l \in 1..(i-1), r \in 1..(i-1)}
\* ---- store: sequence of bounds
New(s, b) == Append(s, b)
RECURSIVE Find(_,_)
Find(s, x) == IF s[x][1] = "ref" THEN Find(s, s[x][2]) ELSE x
RECURSIVE UnifyB(_,_,_)
UnifyB(S, x, y) ==
  IF ~S.ok THEN S ELSE
  LET s == S.b rx == Find(s,x) ry == Find(s,y) IN
  IF rx = ry THEN S ELSE
  LET bx == s[rx] by == s[ry] IN
  IF bx[1] = "free" THEN Ok([s EXCEPT ![rx] = <<"ref", ry>>])
  ELSE IF by[1] = "free" THEN Ok([s EXCEPT ![ry] = <<"ref", rx>>])
  ELSE IF bx[1] # by[1] THEN Fail
  ELSE IF bx[1] = "unit" THEN Ok([s EXCEPT ![ry] = <<"ref", rx>>])
  ELSE LET s0 == Ok([s EXCEPT ![ry] = <<"ref", rx>>])
           s1 == UnifyB(s0, bx[2], by[2]) IN UnifyB(s1, bx[3], by[3])
Unify(S, x, y) == UnifyB(S, x, y)
\* state while processing: [s |-> store or Fail, ar |-> seq of <<src,tgt>>]
Free == <<"free">>
Step(st, nd) ==
  IF ~st.s.ok THEN st ELSE
  LET s == st.s.b ar == st.ar n == Len(s) op == nd[1]
      L == IF nd[2] # 0 THEN ar[nd[2]] ELSE <<0,0>>
      R == IF nd[3] # 0 THEN ar[nd[3]] ELSE <<0,0>> IN
  CASE op = "iden" -> [s |-> Ok(New(s, Free)), ar |-> Append(ar, <<n+1, n+1>>)]
    [] op = "unit" -> [s |-> Ok(s \o <<Free, <<"unit">>>>), ar |-> Append(ar, <<n+1, n+2>>)]
    [] op \in {"witness","fail"} -> [s |-> Ok(s \o <<Free, Free>>), ar |-> Append(ar, <<n+1, n+2>>)]
    [] op = "word1" -> [s |-> Ok(s \o <<<<"unit">>, <<"unit">>, <<"+", n+2, n+2>>>>), ar |-> Append(ar, <<n+1, n+3>>)]
    [] op = "injl" -> [s |-> Ok(s \o <<Free, <<"+", L[2], n+1>>>>), ar |-> Append(ar, <<L[1], n+2>>)]
    [] op = "injr" -> [s |-> Ok(s \o <<Free, <<"+", n+1, L[2]>>>>), ar |-> Append(ar, <<L[1], n+2>>)]
    [] op = "take" -> [s |-> Ok(s \o <<Free, <<"*", L[1], n+1>>>>), ar |-> Append(ar, <<n+2, L[2]>>)]
    [] op = "drop" -> [s |-> Ok(s \o <<Free, <<"*", n+1, L[1]>>>>), ar |-> Append(ar, <<n+2, L[2]>>)]
    [] op = "comp" -> [s |-> Unify(Ok(s), L[2], R[1]), ar |-> Append(ar, <<L[1], R[2]>>)]
    [] op = "pair" -> [s |-> Unify(Ok(s \o << <<"*", L[2], R[2]>> >>), L[1], R[1]), ar |-> Append(ar, <<L[1], n+1>>)]
    [] op \in {"case","assertl","assertr"} ->
         LET s0 == Ok(s \o <<Free, Free, Free, <<"+", n+1, n+2>>, <<"*", n+4, n+3>>, <<"*", n+1, n+3>>, <<"*", n+2, n+3>>, Free>>)
             \* a=n+1 b=n+2 c=n+3 sum=n+4 src=n+5 AxC=n+6 BxC=n+7 tgt=n+8
             hasL == op \in {"case","assertl"}
             hasR == op \in {"case","assertr"}
             lch == L  \* for assertr the single child is nd[2] as well
             s1 == IF hasL THEN Unify(Unify(s0, lch[1], n+6), n+8, lch[2]) ELSE s0
             rch == IF op = "case" THEN R ELSE L
             s2 == IF hasR THEN Unify(Unify(s1, rch[1], n+7), n+8, rch[2]) ELSE s1
         IN [s |-> s2, ar |-> Append(ar, <<n+5, n+8>>)]
    [] op \in {"disc","disc1"} ->
         LET s0 == s \o <<Free, Free, <<"unit">>, <<"+", n+3, n+3>>, <<"*", n+4, n+1>>, Free, Free>>
             \* a=n+1 b=n+2 ; use 2 instead of 2^256 in this prototype: w=n+4 ; WxA = n+5 ; c=n+6 d=n+7
             c == IF op = "disc" THEN R[1] ELSE n+6
             d == IF op = "disc" THEN R[2] ELSE n+7
             s1 == Ok(s0 \o << <<"*", n+2, c>>, <<"*", n+2, d>> >>)   \* BxC = n+8, BxD = n+9
             s2 == Unify(Unify(s1, L[1], n+5), L[2], n+8)
         IN [s |-> s2, ar |-> Append(ar, <<n+1, n+9>>)]
RECURSIVE Run(_,_,_)
Run(st, dag, i) == IF i > Len(dag) THEN st ELSE Run(Step(st, dag[i]), dag, i+1)
\* occurs check: is there a cycle through structural edges
RECURSIVE Acyc(_,_,_)
Acyc(s, x, path) == LET r == Find(s,x) IN
   IF r \in path THEN FALSE
   ELSE IF s[r][1] \in {"free","unit"} THEN TRUE
   ELSE Acyc(s, s[r][2], path \cup {r}) /\ Acyc(s, s[r][3], path \cup {r})
RECURSIVE Res(_,_)
Res(s, x) == LET r == Find(s,x) IN
   IF s[r][1] \in {"free","unit"} THEN <<"1">> ELSE <<s[r][1], Res(s, s[r][2]), Res(s, s[r][3])>>
InferDag(dag) ==
  LET st == Run([s |-> Ok(<<>>), ar |-> <<>>], dag, 1) IN
  IF ~st.s.ok THEN <<"clash">>
  ELSE IF \E i \in 1..Len(dag) : ~Acyc(st.s.b, st.ar[i][1], {}) \/ ~Acyc(st.s.b, st.ar[i][2], {}) THEN <<"occurs">>
  ELSE <<"ok", [i \in 1..Len(dag) |-> <<Res(st.s.b, st.ar[i][1]), Res(st.s.b, st.ar[i][2])>>]>>

\* ================= bit-level decoder (decode.rs) for the jet-free, word-free fragment =================
ERR == [ok |-> FALSE]
\* read natural at position p (1-based index of next bit). returns [ok, n, p]
RECURSIVE UnaryRd(_,_)
UnaryRd(b, p) == IF p > Len(b) THEN [ok |-> FALSE, k |-> 0, p |-> p]
               ELSE IF b[p] = 1 THEN LET r == UnaryRd(b, p+1) IN [r EXCEPT !.k = @ + 1]
               ELSE [ok |-> TRUE, k |-> 0, p |-> p+1]
RECURSIVE ReadBitsN(_,_,_,_)
ReadBitsN(b, p, len, acc) == IF len = 0 THEN [ok |-> TRUE, n |-> acc, p |-> p]
                             ELSE IF p > Len(b) THEN [ok |-> FALSE, n |-> 0, p |-> p]
                             ELSE ReadBitsN(b, p+1, len-1, 2*acc + b[p])
RECURSIVE NatRounds(_,_,_,_)
NatRounds(b, p, depth, len) ==   \* mirrors the loop of read_natural
   LET r == ReadBitsN(b, p, len, 1) IN
   IF ~r.ok THEN [ok |-> FALSE, n |-> 0, p |-> p]
   ELSE IF depth = 0 THEN [ok |-> TRUE, n |-> r.n, p |-> r.p]
   ELSE IF r.n > 31 THEN [ok |-> FALSE, n |-> 0, p |-> p]
   ELSE NatRounds(b, r.p, depth - 1, r.n)
ReadNat(b, p) == LET u == UnaryRd(b, p) IN IF ~u.ok THEN [ok |-> FALSE, n |-> 0, p |-> p] ELSE NatRounds(b, u.p, u.k, 0)
\* decode one node at position p with 0-based index idx ; returns [ok, nd, p, skip]  (skip = jets/words/fail/hidden: outside prototype)
Bits2(b,p) == IF p+1 > Len(b) THEN 99 ELSE 2*b[p] + b[p+1]
BackRef(b, p, idx) == LET r == ReadNat(b, p) IN IF r.ok /\ r.n <= idx THEN [ok |-> TRUE, i |-> idx - r.n + 1, p |-> r.p] ELSE [ok |-> FALSE, i |-> 0, p |-> p]
DecNode(b, p, idx) ==
  IF p > Len(b) THEN [ok |-> FALSE, skip |-> FALSE]
  ELSE IF b[p] = 1 THEN [ok |-> FALSE, skip |-> TRUE]
  ELSE LET c == Bits2(b, p+1) IN
  IF c = 99 THEN [ok |-> FALSE, skip |-> FALSE]
  ELSE IF c = 0 THEN
     LET sc == Bits2(b, p+3) IN IF sc = 99 THEN [ok |-> FALSE, skip |-> FALSE] ELSE
     LET l == BackRef(b, p+5, idx) IN IF ~l.ok THEN [ok |-> FALSE, skip |-> FALSE] ELSE
     LET r == BackRef(b, l.p, idx) IN IF ~r.ok THEN [ok |-> FALSE, skip |-> FALSE] ELSE
     [ok |-> TRUE, skip |-> FALSE, p |-> r.p, nd |-> << CASE sc = 0 -> "comp" [] sc = 1 -> "case" [] sc = 2 -> "pair" [] sc = 3 -> "disc", l.i, r.i >>]
  ELSE IF c = 1 THEN
     LET sc == Bits2(b, p+3) IN IF sc = 99 THEN [ok |-> FALSE, skip |-> FALSE] ELSE
     LET l == BackRef(b, p+5, idx) IN IF ~l.ok THEN [ok |-> FALSE, skip |-> FALSE] ELSE
     [ok |-> TRUE, skip |-> FALSE, p |-> l.p, nd |-> << CASE sc = 0 -> "injl" [] sc = 1 -> "injr" [] sc = 2 -> "take" [] sc = 3 -> "drop", l.i, 0 >>]
  ELSE IF c = 2 THEN
     LET sc == Bits2(b, p+3) IN IF sc = 99 THEN [ok |-> FALSE, skip |-> FALSE]
     ELSE IF sc = 0 THEN [ok |-> TRUE, skip |-> FALSE, p |-> p+5, nd |-> <<"iden",0,0>>]
     ELSE IF sc = 1 THEN [ok |-> TRUE, skip |-> FALSE, p |-> p+5, nd |-> <<"unit",0,0>>]
     ELSE IF sc = 2 THEN [ok |-> FALSE, skip |-> TRUE]   \* fail: needs 512 bits
     ELSE LET l == BackRef(b, p+5, idx) IN IF ~l.ok THEN [ok |-> FALSE, skip |-> FALSE] ELSE
          [ok |-> TRUE, skip |-> FALSE, p |-> l.p, nd |-> <<"disc1", l.i, 0>>]
  ELSE \* c = 3
     IF p+3 > Len(b) THEN [ok |-> FALSE, skip |-> FALSE]
     ELSE IF b[p+3] = 1 THEN [ok |-> TRUE, skip |-> FALSE, p |-> p+4, nd |-> <<"witness",0,0>>]
     ELSE [ok |-> FALSE, skip |-> TRUE]                  \* hidden: needs 256 bits
RECURSIVE DecNodes(_,_,_,_,_)
DecNodes(b, p, len, idx, acc) ==
  IF idx = len THEN [ok |-> TRUE, skip |-> FALSE, p |-> p, dag |-> acc]
  ELSE LET r == DecNode(b, p, idx) IN
       IF ~r.ok THEN [ok |-> FALSE, skip |-> r.skip]
       ELSE DecNodes(b, r.p, len, idx+1, Append(acc, r.nd))
\* canonical order: post-order with pointer sharing from the last node must yield 1,2,..,len
RECURSIVE POV(_,_,_)
POV(d, st, n) == IF n \in st.seen THEN st
   ELSE LET s1 == IF d[n][2] # 0 THEN POV(d, st, d[n][2]) ELSE st
            s2 == IF d[n][3] # 0 THEN POV(d, s1, d[n][3]) ELSE s1
        IN [seen |-> s2.seen \cup {n}, out |-> Append(s2.out, n)]
Canon(d) == POV(d, [seen |-> {}, out |-> <<>>], Len(d)).out = [k \in 1..Len(d) |-> k]
\* close(): remaining bits (< 8) must be zero and no further byte
CloseOk(b, p) == (Len(b) - p + 1 < 8) /\ \A k \in p..Len(b) : b[k] = 0
\* ----- typing as a program (root 1->1)
InferProg(d) ==
  LET st == Run([s |-> Ok(<<>>), ar |-> <<>>], d, 1) IN
  IF ~st.s.ok THEN <<"clash">> ELSE
  LET n == Len(d)
      s1 == Ok(Append(st.s.b, <<"unit">>))
      u == Len(st.s.b) + 1
      s2 == Unify(Unify(s1, st.ar[n][1], u), st.ar[n][2], u) IN
  IF ~s2.ok THEN <<"clash">>
  ELSE IF \E i \in 1..n : ~Acyc(s2.b, st.ar[i][1], {}) \/ ~Acyc(s2.b, st.ar[i][2], {}) THEN <<"occurs">>
  ELSE <<"ok", [i \in 1..n |-> <<Res(s2.b, st.ar[i][1]), Res(s2.b, st.ar[i][2])>>]>>
\* ----- compact value reader
RECURSIVE RdC(_,_,_)
RdC(b, p, t) == IF t[1] = "1" THEN [ok |-> TRUE, v |-> <<"u">>, p |-> p]
   ELSE IF t[1] = "*" THEN LET a == RdC(b, p, t[2]) IN IF ~a.ok THEN a ELSE
                           LET c == RdC(b, a.p, t[3]) IN IF ~c.ok THEN c ELSE [ok |-> TRUE, v |-> <<"P", a.v, c.v>>, p |-> c.p]
   ELSE IF p > Len(b) THEN [ok |-> FALSE, v |-> <<"u">>, p |-> p]
   ELSE IF b[p] = 0 THEN LET a == RdC(b, p+1, t[2]) IN IF ~a.ok THEN a ELSE [ok |-> TRUE, v |-> <<"L", a.v>>, p |-> a.p]
   ELSE LET a == RdC(b, p+1, t[3]) IN IF ~a.ok THEN a ELSE [ok |-> TRUE, v |-> <<"R", a.v>>, p |-> a.p]
RECURSIVE RdWits(_,_,_,_,_,_)
RdWits(d, ty, wb, p, i, acc) ==
  IF i > Len(d) THEN [ok |-> TRUE, p |-> p, w |-> acc]
  ELSE IF d[i][1] = "witness" THEN LET r == RdC(wb, p, ty[i][2]) IN
        IF ~r.ok THEN [ok |-> FALSE, p |-> p, w |-> acc] ELSE RdWits(d, ty, wb, r.p, i+1, Append(acc, r.v))
  ELSE RdWits(d, ty, wb, p, i+1, Append(acc, <<"u">>))
\* ----- symbolic identity hash
RECURSIVE Imr(_,_,_,_)
Imr(d, ty, w, i) == LET op == d[i][1] IN
   IF op = "witness" THEN <<"witness", w[i], ty[i][2]>>
   ELSE IF d[i][2] = 0 THEN <<op>>
   ELSE IF d[i][3] = 0 THEN <<op, Imr(d,ty,w,d[i][2])>>
   ELSE <<op, Imr(d,ty,w,d[i][2]), Imr(d,ty,w,d[i][3])>>
Ihr(d, ty, w, i) == <<Imr(d,ty,w,i), ty[i][1], ty[i][2]>>
DecodeRedeem(pb, wb) ==
  LET ln == ReadNat(pb, 1) IN
  IF ~ln.ok THEN "err" ELSE
  LET ns == DecNodes(pb, ln.p, ln.n, 0, <<>>) IN
  IF ~ns.ok THEN (IF ns.skip THEN "skip" ELSE "err") ELSE
  LET d == ns.dag IN
  IF ~Canon(d) THEN "err"
  ELSE IF ~CloseOk(pb, ns.p) THEN "err"
  ELSE IF \E i \in 1..Len(d) : d[i][1] = "disc1" THEN "err?"      \* order of errors differs; decide below
  ELSE LET r == InferProg(d) IN
  IF r[1] # "ok" THEN "err" ELSE
  LET ws == RdWits(d, r[2], wb, 1, 1, <<>>) IN
  IF ~ws.ok THEN "err"
  ELSE IF ~CloseOk(wb, ws.p) THEN "err"
  ELSE IF \E i, j \in 1..Len(d) : i < j /\ Ihr(d, r[2], ws.w, i) = Ihr(d, r[2], ws.w, j) THEN "err"
  ELSE "ok"
Verdict(pb, wb) == LET v == DecodeRedeem(pb, wb) IN IF v = "err?" THEN "err" ELSE v
Cases == ndJsonDeserialize(IOEnv.CASES)
VARIABLE l
Init == l = 1
Next == l <= Len(Cases) /\ l' = l + 1
     /\ LET c == Cases[l] v == Verdict(c.p, c.w) IN
        /\ ((v = "skip" \/ v = c.rust) \/ (PrintT(<<"MISMATCH", c, v>>) /\ FALSE))
        /\ TLCSet(IF v = "skip" THEN 1 ELSE IF v = "ok" THEN 2 ELSE 3, TLCGet(IF v = "skip" THEN 1 ELSE IF v = "ok" THEN 2 ELSE 3) + 1)
Spec == Init /\ [][Next]_l
ASSUME TLCSet(1,0) /\ TLCSet(2,0) /\ TLCSet(3,0)
Accepted == PrintT(<<"skip",TLCGet(1),"ok",TLCGet(2),"err",TLCGet(3)>>) /\ IF TLCGet("stats").diameter - 1 = Len(Cases) THEN TRUE ELSE PrintT(<<"REJECTED at", TLCGet("stats").diameter>>) /\ FALSE
====
