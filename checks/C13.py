"""C13 -- Bit streams and natural numbers code exactly."""
import json, os
from vlib import *

# --- classification of the known window defect only: a mismatch on an unaligned-end window is the known
# finding iff the crate behaved exactly like "the window ends at the next byte boundary"; anything else on
# such a window is still a violation.  (Python re-statement of BitCodes!AbsRead, used for nothing else.)
def _dec(bits, maxb, bound):
    d = 0
    while d < len(bits) and bits[d] == 1:
        d += 1
    if d + 1 > len(bits):
        return ("err", len(bits))
    pos, ln = d + 1, 0
    while True:
        if pos + ln > len(bits):
            return ("err", len(bits))
        nb = [1] + bits[pos:pos + ln]
        pos += ln
        if d == 0:
            v = int("".join(map(str, nb)), 2)
            if len(nb) > maxb or (bound and v > int("".join(map(str, bound)), 2)):
                return ("err", pos)
            return (nb, pos)
        v = int("".join(map(str, nb)), 2)
        if v > 31:
            return ("err", pos)
        ln, d = v, d - 1

def abs_reads(bits, ops):
    pos, out = 0, []
    for op, maxb, bound in ops:
        if op == "bit":
            if pos < len(bits): out.append((bits[pos], pos + 1)); pos += 1
            else: out.append((-1, pos))
        elif op == "u2":
            if pos + 2 <= len(bits): out.append((2 * bits[pos] + bits[pos + 1], pos + 2)); pos += 2
            else: pos = len(bits); out.append((-1, pos))
        elif op == "u8":
            if pos + 8 <= len(bits): out.append((int("".join(map(str, bits[pos:pos + 8])), 2), pos + 8)); pos += 8
            else: out.append((-1, pos))
        else:
            r, used = _dec(bits[pos:], maxb, bound)
            pos += used; out.append((r, pos))
    return out

def window_fp(start, ops, got):
    """ops: [(op,maxb,bound)], got: [(res,total)] as the crate returned them"""
    if not (start.get("kind", start.get("ev")) == "window" and start["e"] % 8 != 0):
        return None
    allbits = [int(b) for byte in start["bytes"] for b in format(byte, "08b")]
    dev = allbits[start["s"]:(start["e"] + 7) // 8 * 8]
    exp = abs_reads(dev, ops)
    norm = lambda r: "err" if isinstance(r, str) else r
    if [(norm(r), t) for r, t in got] == [(norm(r), t) for r, t in exp]:
        return "c13:window-end-unaligned"
    return None

def body(c):
    q = not c.thorough
    tier = "quick" if q else "thorough"
    cases = []
    for cfg in ["MC_BitStream_rw_%s.cfg" % tier, "MC_BitStream_rd_%s.cfg" % tier]:
        r = c.tlc_design("MC_BitStream", cfg, heap="12g", timeout=3000, coverage=True)
        cases += tla_to_json_lines(r.prints, "CASE")
    r = c.tlc_design("MC_NatCode", "MC_NatCode_%s.cfg" % tier, heap="12g", timeout=3000, coverage=True)
    cases += tla_to_json_lines(r.prints, "CASE")
    cpath = os.path.join(c.work, "cases.ndjson")
    with open(cpath, "w") as f:
        for x in cases:
            f.write(json.dumps(x) + "\n")
    _, out = c.vh(["c13", "replay", cpath])
    got = [json.loads(l) for l in out.split("\n") if l.strip()]
    if len(got) != len(cases):
        raise ToolError("replay returned %d results for %d cases" % (len(got), len(cases)))
    nstream = nnat = 0
    for case, g in zip(cases, got):
        c.evaluations += 1
        g = g["got"]
        bad = None
        fp = "c13:replay"
        if isinstance(g, dict) and "panic" in g:
            bad = "panic: %s" % g["panic"]
        elif "kind" in case:
            nnat += 1
            # natural code: accept/reject class, exact value, exact consumption; 2^31 <= n < 2^32 may be
            # returned exactly or rejected (never truncated)
            exp = case["val"] if case["ok"] else "err"
            res = g["res"] if isinstance(g["res"], list) else "err"
            big = case["ok"] and len(case["val"]) == 32
            if not (res == exp or (big and res == "err")):
                bad = "read_natural(%s, maxb=%s, bound=%s): spec %s, crate %s" % (case["s"], case["maxb"], case["bound"], exp, g["res"])
            elif res != "err" and g["total"] != case["used"]:
                bad = "read_natural consumed %s bits, spec %s" % (g["total"], case["used"])
            elif case["kind"] == "num" and g["enc"] is not None and g["enc"] != case["enc"]:
                bad = "encode_natural(%s): spec %s, crate %s" % (case["b"], case["enc"], g["enc"])
            fp = "c13:natural"
        else:
            nstream += 1
            st = case["start"]
            exp = []
            for h in case["hist"]:
                if "res" in h:
                    exp.append({"res": h["res"], "total": h["total"]})
                else:
                    exp.append({"written": h["written"]})
                    if h["op"][0] == "flush":
                        exp.append({"bytes": st["bytes"]})
            # classes only for natural errors
            def norm(x):
                if isinstance(x, dict) and isinstance(x.get("res"), str) and x["res"] in ("eof", "overflow", "badindex"):
                    return dict(x, res="err")
                return x
            if [norm(x) for x in g] != [norm(x) for x in exp]:
                bad = "stream ops over %s: spec %s, crate %s" % (st, exp, g)
                ops = [(h["op"][0], 8 if h["op"][0] == "natb" else 32, [1, 0] if h["op"][0] == "natb" else [])
                       for h in case["hist"] if "res" in h and h["op"][0] != "close"]
                try:
                    gl = [(x["res"], x["total"]) for x in g if "res" in x]
                except Exception:
                    gl = None
                fp = (gl is not None and window_fp(st, ops, gl)) or "c13:stream"
        if bad:
            c.report(fp, bad, {"dir": "spec->impl", "case": case, "got": g})
        else:
            c.traces += 1
    c.sample({"spec->impl stream case": next(x for x in cases if "start" in x and x["start"]["kind"] == "written")})
    c.sample({"spec->impl natural case": next(x for x in cases if "kind" in x)})
    c.extra["stream_cases"] = nstream
    c.extra["natural_cases"] = nnat
    # impl -> spec
    runs, ops = (120, 60) if q else (1500, 120)
    tpath = os.path.join(c.work, "trace.ndjson")
    c.vh(["c13", "record", runs, ops, tpath])
    # known finding c13:window-end-unaligned as a named deviation of the trace specification: while the finding is
    # open the specification follows the crate past an unaligned window end (and counts how often), so that every
    # session is validated to its end; once the finding is closed the window ends at `end` and such reads are rejected
    evs = read_ndjson(tpath)
    allow = c.fingerprint_known("c13:window-end-unaligned") is not None
    def describe(ev):
        return ("c13:window-end-unaligned-strict" if not allow and ev.get("ev") == "r" else "c13:trace", json.dumps(ev)[:400])
    c.deviations = 0
    validate_trace(c, "Trace_BitStream", "Trace_BitStream.cfg", tpath, describe, max_rejects=8, count_runs=False,
                   env={"OVERRUN": "allow" if allow else "deny"})
    if c.deviations:
        c.report("c13:window-end-unaligned", "%d recorded reads on windows with an unaligned end returned bits beyond `end`" % c.deviations, {"reads_past_end": c.deviations})
        c.extra["reads_past_unaligned_window_end"] = c.deviations
    c.traces += runs
    c.sample({"impl->spec events": evs[1:4]})
    c.assumptions += ["usize behaves like u32 in read_natural (checked: both are driven and must agree)",
                      "naturals in [2^31, 2^32) may be returned exactly or rejected"]
    c.finish_kw = dict(exhaustive=True, rule=(
        "TLC: all write-op sequences (depth<=3 quick/4 thorough) x read-op sequences, all bit windows of a set of byte "
        "strings, all bit strings up to 15/20 bits through the natural decoder, naturals 1..4096/65536 and around every "
        "power of two up to 2^40 x result types x bounds; every terminal state replayed on BitWriter/BitIter/"
        "encode_natural; plus recorded random sessions validated by TLC"))

if __name__ == "__main__":
    main("C13", body)
