"""C16 -- Policies compile, satisfy and canonicalise consistently."""
import json, os
from vlib import *

def nested_commutative(p):
    """does the policy have an and/or directly below an and/or (where the pinned revision's sort did nothing)?"""
    if p[0] in ("and", "or"):
        return any(ch[0] in ("and", "or") for ch in p[1:3]) or any(nested_commutative(ch) for ch in p[1:3])
    if p[0] == "thresh":
        return any(nested_commutative(ch) for ch in p[2])
    return False

def judge(case, g):
    if "panic" in g: return ("c16:panic", "panic: %s" % g["panic"])
    if g["cmr_direct"] != g["cmr_commit"]:
        return ("c16:cmr", "Policy::cmr %s differs from commit().cmr() %s" % (g["cmr_direct"], g["cmr_commit"]))
    s = g["satisfy"]
    if s["res"] == "panic": return ("c16:satisfy-panic", "satisfy panicked: %s" % s.get("msg"))
    if (s["res"] == "ok") != case["holds"]:
        return ("c16:satisfy", "policy is %s of the satisfier's data but satisfy returned %s" % ("true" if case["holds"] else "false", s["res"]))
    if s["res"] == "ok":
        if s["cmr"] != g["cmr_direct"]:
            return ("c16:cmr-satisfied", "satisfied program has CMR %s, policy %s" % (s["cmr"], g["cmr_direct"]))
        if s["exec"] != "ok":
            return ("c16:exec", "satisfied program does not run: %s" % s["exec"])
    if not g["sort_idempotent"]:
        return ("c16:sort-idempotent", "sorted() is not idempotent: %s" % g["sorted"])
    if not g["sort_perm_equal"]:
        return ("c16:sort-nested" if nested_commutative(case["pol"]) else "c16:sort",
                "reordering commutative children changes sorted(): %s vs %s" % (g["sorted"], g["perm_sorted"]))
    return None

def body(c):
    q = not c.thorough
    r = c.tlc_design("MC_Policy", "MC_Policy_quick.cfg" if q else "MC_Policy_thorough.cfg", heap="24g", timeout=3400, workers=16)
    cases = tla_to_json_lines(r.prints, "CASE")
    cpath = os.path.join(c.work, "cases.ndjson")
    with open(cpath, "w") as f:
        for x in cases:
            f.write(json.dumps(x) + "\n")
    _, out = c.vh(["c16", "replay", cpath], timeout=3400)
    got = [json.loads(l)["got"] for l in out.split("\n") if l.strip()]
    if len(got) != len(cases):
        raise ToolError("replay returned %d results for %d cases" % (len(got), len(cases)))
    from collections import Counter
    cnt = Counter()
    for case, g in zip(cases, got):
        c.evaluations += 1
        cnt["holds=%s satisfy=%s" % (case["holds"], g.get("satisfy", {}).get("res"))] += 1
        v = judge(case, g)
        if v:
            c.report(v[0], "policy %s with sigs=%s pres=%s height=%s seq=%s: %s" % (case["pol"], case["sigs"], case["pres"], case["height"], case["seq"], v[1]),
                     {"case": case, "got": g})
        else:
            c.traces += 1
    c.extra["outcomes"] = dict(cnt)
    # impl -> spec: sorting of random nested policies (thresholds with compound children), validated by Trace_Policy.tla
    spath = os.path.join(c.work, "sort.ndjson")
    c.vh(["c16", "sort", 2000 if q else 40000, spath], timeout=3000)
    def describe_sort(ev):
        return ("c16:sort-nested", "sorted() of %s is %s; of the reordering %s it is %s (idempotent=%s)" % (
            json.dumps(ev.get("pol")), json.dumps(ev.get("sorted")), json.dumps(ev.get("perm")), json.dumps(ev.get("perm_sorted")), ev.get("idempotent")))
    validate_trace(c, "Trace_Policy", "Trace_Policy.cfg", spath, describe_sort, heap="4g", timeout=3000)
    c.sample({"policy": cases[len(cases) // 2]["pol"], "available": {k: cases[len(cases) // 2][k] for k in ("sigs", "pres", "height", "seq")},
              "holds": cases[len(cases) // 2]["holds"]})
    c.assumptions += ["keys are two fixed secret keys with real BIP-340 signatures over the environment's sighash_all; hashes have real preimages",
                      "lock-time answers come from the crate's reference satisfiers over the environment; the input is non-final so that the transaction lock height is effective",
                      "thresholds are non-empty with k <= n (compilation asserts this); timelocks are block heights",
                      "sorting clauses compare Rust with Rust (the order chosen by derive(Ord) is not constrained)"]
    c.finish_kw = dict(exhaustive=True, rule=(
        "TLC: every policy of depth <= 1 (2 in thorough: a depth-1 policy composed with a leaf under and, or, thresh) over {unsat, trivial, key k1|k2, sha h1, after 1|5, older 1|5} with and/or/"
        "thresh(k, 2-3) x every subset of available signatures/preimages x lock height/sequence in {0,3,9}: satisfier model = truth, "
        "sorting idempotent and permutation-invariant; sampled cases replayed with real keys, signatures, preimages and environments; "
        "random nested policies (depth 3, thresholds of 2-4 compound children) sorted by the crate and validated by Trace_Policy: sorting only reorders, is idempotent and independent of the given order"))

if __name__ == "__main__":
    main("C16", body)
