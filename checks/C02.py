"""C02 -- Decoder is total and accepts only the canonical encoding."""
import json, os
from vlib import *

# allocation bound: from_padded_bits' fixed 32 MiB initial cap + thread-local tables, plus a per-input-byte factor
ALLOC_C0 = 48 * 1024 * 1024
ALLOC_K = 64 * 1024
MS_MAX = 20000        # wall clock on a loaded machine: the bound is there for hangs, not for slowness

def judge_one(name, r, nbytes):
    if r["out"] == "panic":
        return ("c02:panic", "%s panicked: %s" % (name, r.get("msg")))
    if r["out"] not in ("ok", "err"):
        return ("c02:outcome", "%s: outcome %s" % (name, r["out"]))
    if r["peak"] > ALLOC_C0 + ALLOC_K * nbytes:
        return ("c02:alloc", "%s allocated %d bytes for %d input bytes" % (name, r["peak"], nbytes))
    if r["ms"] > MS_MAX:
        return ("c02:time", "%s took %d ms" % (name, r["ms"]))
    if r["out"] == "ok":
        if r.get("reenc") == "panic":
            return ("c02:reencode-panic", "%s: re-encoding the decoded program panicked: %s" % (name, r.get("msg")))
        if name.startswith("redeem") and not (r["reenc_prog"] and r["reenc_wit"]):
            return ("c02:noncanonical", "%s accepted the input but re-encodes it differently (program %s, witness %s)" % (name, r["reenc_prog"], r["reenc_wit"]))
        if name.startswith("commit") and not r["attached"] and not r["reenc_prog"]:
            return ("c02:noncanonical-commit", "%s accepted the input but re-encodes it differently" % name)
    return None

def judge(case, g, nbytes):
    for name, r in g.items():
        v = judge_one(name, r, nbytes)
        if v: return v
    return None

def jets_file(c):
    """the crate's jet tables for the spec decoder (Codec.tla JetRows)"""
    p = os.path.join(c.work, "jets.ndjson")
    if not os.path.exists(p) or os.path.getmtime(p) < c.t0:
        c.vh(["c14", "table", p])
    return p

def body(c):
    q = not c.thorough
    tier = "quick" if q else "thorough"
    cases = []
    for mode in ("strings", "lists"):
        r = c.tlc_design("MC_Codec", "MC_Codec_%s_%s.cfg" % (mode, tier), heap="24g", timeout=3400, workers=16, env={"JETS": jets_file(c)})
        cases += tla_to_json_lines(r.prints, "CASE")
    cpath = os.path.join(c.work, "cases.ndjson")
    with open(cpath, "w") as f:
        for x in cases:
            f.write(json.dumps(x) + "\n")
    # (a decoder that makes the process die -- an allocation the machine cannot satisfy, a stack overflow -- instead of
    #  returning is an outcome of the property; the run then ends with that violation)
    out = c.vh_abortable(["c02", "replay", cpath], "c02:abort", "decoding the specification's inputs", timeout=3000)
    if out is None:
        c.finish_kw = dict(exhaustive=False, rule="the decoders killed the process on one of the specification's inputs; the run ended there")
        return
    got = [json.loads(l)["got"] for l in out.split("\n") if l.strip()]
    if len(got) != len(cases):
        raise ToolError("replay returned %d results for %d cases" % (len(got), len(cases)))
    notes = {"crate_accepts_spec_rejects": 0, "spec_accepts_crate_rejects": 0, "spec_skipped_jet": 0, "accepted": 0}
    for case, g in zip(cases, got):
        c.evaluations += 1
        v = judge(case, g, len(case["pb"]) // 8 + len(case["wb"]) // 8)
        if v:
            c.report(v[0], "program bits %s witness bits %s: %s" % (case["pb"][:80], case["wb"], v[1]), {"dir": "spec->impl", "case": case, "got": g})
        else:
            c.traces += 1
        # agreement of accept sets with the spec decoder (jet-free fragment): recorded as notes here
        for k, tag in (("redeem", "redeem_core"), ("commit", "commit_core")):
            if case[k] == "skip": notes["spec_skipped_jet"] += 1
            elif (case[k] == "ok") != (g[tag]["out"] == "ok"):
                notes["crate_accepts_spec_rejects" if g[tag]["out"] == "ok" else "spec_accepts_crate_rejects"] += 1
        if g["redeem_core"]["out"] == "ok": notes["accepted"] += 1
    c.extra["spec_vs_crate"] = notes
    if notes["crate_accepts_spec_rejects"] or notes["spec_accepts_crate_rejects"]:
        c.notes.append("accept sets of spec decoder and crate differ on %d inputs (not a C02 clause; see C03)" % (
            notes["crate_accepts_spec_rejects"] + notes["spec_accepts_crate_rejects"]))
    acc = [x for x, g in zip(cases, got) if g["redeem_core"]["out"] == "ok"]
    c.sample({"accepted input": acc[0] if acc else None, "rejected input": cases[3]})
    # impl -> spec: random strings and mutations of valid encodings
    runs = 3000 if q else 60000
    tpath = os.path.join(c.work, "trace.ndjson")
    if c.vh_abortable(["c02", "record", runs, tpath], "c02:abort", "decoding random and mutated strings", timeout=3000) is None:
        c.finish_kw = dict(exhaustive=False, rule="the decoders killed the process on a random or mutated input; the run ended there")
        return
    def describe(ev):
        if "got" in ev:
            v = judge(None, ev["got"], len(ev["pb"]) // 8 + len(ev["wb"]) // 8)
            if v: return v
        return ("c02:trace", json.dumps(ev)[:400])
    validate_trace(c, "Trace_Codec", "Trace_Codec.cfg", tpath, describe, heap="8g", env={"JETS": jets_file(c), "ALLOC_C0": ALLOC_C0, "ALLOC_K": ALLOC_K})
    # ---- totality on deeply nested programs: one decode (+ display, execution, drop) per process, on the main
    # thread and on a thread with the default 2 MiB stack; a stack overflow kills the process and is an outcome
    import subprocess
    deep = {}
    for shape in ("injl", "take", "comp"):
        for depth in ((1000, 20000, 200000) if q else (1000, 5000, 20000, 100000, 200000, 1000000)):
            dp = os.path.join(c.work, "deep.bin")
            g = subprocess.run([VH, "c20", "deepgen", shape, str(depth), dp], stdout=subprocess.PIPE, stderr=subprocess.PIPE, timeout=900)
            if g.returncode != 0:
                raise ToolError("could not generate the %s program of depth %d: %s" % (shape, depth, g.stderr.decode(errors="replace")[-300:]))
            for place in ("main", "thread"):
                c.evaluations += 1
                try:
                    pr = subprocess.run([VH, "c20", "deepdec", dp, place], stdout=subprocess.PIPE, stderr=subprocess.PIPE, timeout=900)
                except subprocess.TimeoutExpired:
                    c.report("c02:deep-timeout", "decoding %s nested %d deep on the %s thread did not finish in 900 s" % (shape, depth, place), {"shape": shape, "depth": depth, "place": place})
                    continue
                if pr.returncode == 0:
                    cls = json.loads(pr.stdout.decode())["class"]
                    deep["%s %d %s" % (shape, depth, place)] = cls
                    if not (cls.startswith("ok") or cls.startswith("error")):
                        c.report("c02:deep-outcome", "decoding %s nested %d deep: %s" % (shape, depth, cls), {"shape": shape, "depth": depth, "place": place})
                    else:
                        c.traces += 1
                else:
                    overflow = b"overflowed its stack" in pr.stderr
                    deep["%s %d %s" % (shape, depth, place)] = "abort"
                    # the recorded finding: structural unification of two deeply nested types recurses per level
                    fp = "c02:deep-unification-overflow" if (overflow and shape == "take" and depth >= 10000) else "c02:deep-abort"
                    c.report(fp, "decoding a %d-byte program (%s nested %d deep) on the %s thread killed the process (exit %d%s)" % (
                        os.path.getsize(dp), shape, depth, place, pr.returncode, ", stack overflow" if overflow else ""),
                        {"shape": shape, "depth": depth, "place": place, "stderr": pr.stderr.decode(errors="replace")[-300:]})
    c.extra["deep_inputs"] = deep
    # ---- totality on length prefixes that announce far more nodes than the input can hold: one decode per process (an
    # allocation the machine cannot satisfy kills the process), peak allocation within the same bound as everywhere else
    announced = {}
    for hexs in ("f0000000", "f080000000", "f0f000000000", "f0ffffffffe0", "f0ffffffffe0" + "24" * 40, "efffffff", "f7ffffffffffffff"):
        bp = os.path.join(c.work, "announced.bin")
        open(bp, "wb").write(bytes.fromhex(hexs))
        c.evaluations += 1
        try:
            pr = subprocess.run([VH, "c20", "deepdec", bp, "main"], stdout=subprocess.PIPE, stderr=subprocess.PIPE, timeout=300)
        except subprocess.TimeoutExpired:
            c.report("c02:announced-length", "decoding %s did not finish in 300 s" % hexs, {"hex": hexs})
            continue
        if pr.returncode != 0:
            announced[hexs] = "abort"
            c.report("c02:announced-length", "decoding the %d bytes %s killed the process (exit %d): %s" % (len(hexs) // 2, hexs, pr.returncode, pr.stderr.decode(errors="replace")[-200:].strip()), {"hex": hexs})
            continue
        res = json.loads(pr.stdout.decode())
        announced[hexs] = "%s peak=%d" % (res["class"], res["peak"])
        if res["peak"] > ALLOC_C0 + ALLOC_K * (len(hexs) // 2):
            c.report("c02:announced-length", "decoding the %d bytes %s allocated %d bytes" % (len(hexs) // 2, hexs, res["peak"]), {"hex": hexs, "peak": res["peak"]})
        else:
            c.traces += 1
    c.extra["announced_lengths"] = announced
    c.assumptions += ["allocation bound %d + %d per input byte (fixed 32 MiB initial cap of from_padded_bits included)" % (ALLOC_C0, ALLOC_K),
                      "time bound %d ms per call in a debug build" % MS_MAX,
                      "spec verdicts exist for the jet-free fragment; inputs containing jets are judged by the property's clauses only"]
    c.finish_kw = dict(exhaustive=True, rule=(
        "TLC: every 1- and 2-byte string (3-byte in thorough) x 5 witness strings through the spec decoder (accept => re-encode = "
        "input), every node list up to 3 (4) entries serialised as given x padding variants; every such input decoded by "
        "RedeemNode/CommitNode/ConstructNode::decode (Core and Elements) under catch_unwind with allocation and time measured; "
        "random strings and mutated valid encodings recorded and validated"))

if __name__ == "__main__":
    main("C02", body)
