"""C10 -- Value encodings, accessors and pruning follow the type's bit layout.
   C11 -- Value equality, ordering and hashing are semantic (same pipeline, different clauses judged)."""
import json, os, sys
from vlib import *

def matches(bits, mask):
    return len(bits) == len(mask) and all(m == 2 or m == b for b, m in zip(bits, mask))

def lenient_prune(a, t, s):
    """what the crate's prune computes when it does not look at untaken branches (classification only)"""
    if s == t: return a
    if s[0] == "1": return ["u"]
    if s[0] == "+":
        if t[0] != "+": return None
        if a[0] == "L":
            r = lenient_prune(a[1], t[1], s[1]); return None if r is None else ["L", r]
        r = lenient_prune(a[1], t[2], s[2]); return None if r is None else ["R", r]
    if t[0] != "*": return None
    x, y = lenient_prune(a[1], t[1], s[1]), lenient_prune(a[2], t[2], s[2])
    return None if x is None or y is None else ["P", x, y]

def width(t):
    return 0 if t[0] == "1" else (1 + max(width(t[1]), width(t[2])) if t[0] == "+" else width(t[1]) + width(t[2]))
def padded_mask(a, t):
    if a[0] == "u": return []
    if a[0] == "P": return padded_mask(a[1], t[1]) + padded_mask(a[2], t[2])
    sub = t[1] if a[0] == "L" else t[2]
    return [0 if a[0] == "L" else 1] + [2] * (max(width(t[1]), width(t[2])) - width(sub)) + padded_mask(a[1], sub)
def compact_of(a, t):
    if a[0] == "u": return []
    if a[0] == "P": return compact_of(a[1], t[1]) + compact_of(a[2], t[2])
    return [0 if a[0] == "L" else 1] + compact_of(a[1], t[1] if a[0] == "L" else t[2])

def judge_c10(c, case, g):
    """layout clauses on the final pool of one replayed history"""
    exp = case["exp"]
    if len(g["obs"]) != len(exp):
        return ("c10:pool", "pool has %d entries, spec %d (rets %s)" % (len(g["obs"]), len(exp), g["rets"]))
    for k, (o, x) in enumerate(zip(g["obs"], exp)):
        c_ = x["c"]
        checks = [
            ("type", o["ty"] == x["ty"]),
            ("padded width", o["padded_len"] == len(x["m"]) and len(o["padded"]) == len(x["m"])),
            ("padded bits", matches(o["padded"], x["m"])),
            ("compact bits", o["compact"] == c_ and o["compact_len"] == len(c_)),
            ("accessors", o["tree"] == x["a"]),
            ("padded decode", o["dec_padded"] == x["a"] and o["dec_padded_used"] == len(x["m"])),
            ("compact decode", o["dec_compact"] == x["a"] and o["dec_compact_used"] == len(c_)),
        ]
        for name, ok in checks:
            if not ok:
                return ("c10:" + name.replace(" ", "-"), "entry %d after %s: %s differs: crate %s, spec %s" % (
                    k + 1, case["hist"], name, {kk: o[kk] for kk in ("ty", "padded", "compact", "tree")}, x))
    # prune with an incompatible target must give no value
    for op, ret in zip(case["hist"], g["rets"]):
        if op[0] == "prune" and op[3] != "some":
            if ret != "none":
                src = exp[op[1] - 1]
                o = ret.get("lenient", {}) if isinstance(ret, dict) else {}
                wellformed = o.get("ty") == op[2] and o.get("tree") == lenient_prune(src["a"], src["ty"], op[2]) \
                    and o.get("dec_padded") == o.get("tree") and o.get("dec_compact") == o.get("tree")
                return ("c10:prune-untaken-branch-unchecked" if wellformed else "c10:prune-malformed",
                        "prune of pool[%d]=%s:%s to incompatible type %s returned %s" % (
                            op[1], src["a"], src["ty"], op[2], str(o.get("tree"))[:200]))
    return None

def judge_c11(c, case, g):
    exp = case["exp"]
    n = len(exp)
    if len(g["obs"]) != n:
        return None  # judged by C10
    same = lambda i, j: exp[i]["ty"] == exp[j]["ty"] and exp[i]["a"] == exp[j]["a"]
    R = {(r["i"] - 1, r["j"] - 1): r for r in g["rel"]}
    for (i, j), r in R.items():
        s = same(i, j)
        if r["eq"] != s:
            return ("c11:eq", "pool[%d] == pool[%d] is %s but they %s (history %s)" % (
                i + 1, j + 1, r["eq"], "denote the same value" if s else "differ", case["hist"]))
        if (r["cmp"] == 0) != s:
            return ("c11:cmp", "cmp(pool[%d],pool[%d]) = %s inconsistent with equality %s" % (i + 1, j + 1, r["cmp"], s))
        if s and not r["hash_eq"]:
            return ("c11:hash", "equal values pool[%d], pool[%d] hash differently" % (i + 1, j + 1))
        if r["cmp"] != -R[(j, i)]["cmp"]:
            return ("c11:cmp", "cmp not antisymmetric on %d,%d" % (i + 1, j + 1))
        if "weq" in r and (r["weq"] != s or (r["wcmp"] == 0) != s or (s and not r["whash_eq"])):
            return ("c11:word", "Word relations on pool[%d], pool[%d] are not semantic" % (i + 1, j + 1))
    for i in range(n):
        for j in range(n):
            for k in range(n):
                if R[(i, j)]["cmp"] <= 0 and R[(j, k)]["cmp"] <= 0 and R[(i, k)]["cmp"] > 0:
                    return ("c11:cmp", "cmp not transitive on %d,%d,%d" % (i + 1, j + 1, k + 1))
    for k, o in enumerate(g["obs"]):
        if not (o["dec_padded_eq"] and o["dec_compact_eq"]):
            return ("c11:eq-redecode", "pool[%d] does not compare equal to its own re-decoded encoding (history %s)" % (k + 1, case["hist"]))
    return None

def body(c):
    pid = c.pid
    q = not c.thorough
    r = c.tlc_design("MC_Value", "MC_Value_quick.cfg" if q else "MC_Value_thorough.cfg", heap="16g", timeout=3400)
    cases = tla_to_json_lines(r.prints, "CASE")
    cpath = os.path.join(c.work, "cases.ndjson")
    with open(cpath, "w") as f:
        for x in cases:
            f.write(json.dumps(x) + "\n")
    _, out = c.vh(["c10", "replay", cpath])
    got = [json.loads(l)["got"] for l in out.split("\n") if l.strip()]
    if len(got) != len(cases):
        raise ToolError("replay returned %d results for %d cases" % (len(got), len(cases)))
    judge = judge_c10 if pid == "C10" else judge_c11
    for case, g in zip(cases, got):
        c.evaluations += 1
        if "panic" in g:
            c.report(pid.lower() + ":panic", "history %s panicked: %s" % (case["hist"], g["panic"]), {"case": case, "got": g})
            continue
        v = judge(c, case, g)
        if v:
            c.report(v[0], v[1], {"dir": "spec->impl", "case": case, "got": g})
        else:
            c.traces += 1
    c.sample({"spec->impl history": cases[len(cases) // 2]["hist"], "expected pool": cases[len(cases) // 2]["exp"]})
    runs = 400 if q else 6000
    tpath = os.path.join(c.work, "trace.ndjson")
    c.vh(["c10", "record", runs, tpath])
    def describe(ev):
        if ev["ev"] == "op" and ev["op"][0] == "prune" and ev["ret"] == "ok" and pid == "C10":
            o, src, tgt = ev["obs"], ev["src"], ev["op"][2]
            wellformed = o.get("ty") == tgt and o.get("tree") == lenient_prune(src["tree"], src["ty"], tgt) \
                and o.get("dec_padded") == o.get("tree") and o.get("dec_compact") == o.get("tree") \
                and matches(o["padded"], padded_mask(o["tree"], tgt)) and o["compact"] == compact_of(o["tree"], tgt)
            return ("c10:prune-untaken-branch-unchecked" if wellformed else "c10:prune-trace",
                    "prune %s of %s -> %s" % (str(tgt)[:150], str(src["tree"])[:150], str(o.get("tree"))[:150]))
        return (pid.lower() + ":trace", json.dumps(ev)[:500])
    validate_trace(c, "Trace_Value", "Trace_Value.cfg", tpath, describe, env={"PROP": pid}, count_runs=False,
                   run_start=lambda ev: ev["ev"] == "reset")
    c.traces += runs
    with open(tpath) as f:
        f.readline()
        c.sample({"impl->spec event": json.loads(f.readline())["op"]})
    c.assumptions += ["the harness maps abstract value trees to crate values with the public constructors/accessors",
                      "decoders are given whole bytes (the logged bit strings are what the reader sees)"]
    c.finish_kw = dict(exhaustive=True, rule=(
        "TLC: all histories of <=3 value-producing operations (constructors, sub-value extraction, padded decode with "
        "arbitrary padding, compact decode, zero, prune to every target of a type set) over a pool of views; each terminal "
        "pool replayed on simplicity::Value; plus recorded random histories (types to ~600 bits) validated by TLC"))

if __name__ == "__main__":
    main(os.environ.get("VERIF_PROP", "C10"), body)
