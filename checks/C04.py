"""C04 -- Type inference is sound, principal and order-independent."""
import json, os
from vlib import *

DISPLAY_MAX = 2_000_000   # bytes; MAX_DISPLAY_LENGTH is 10 000 nodes, names and word abbreviations are short
DISPLAY_MS = 3000

def judge(case, g):
    if "panic" in g:
        return ("c04:panic", "panic: %s" % g["panic"])
    if g["res"] != case["res"]:
        return ("c04:verdict", "crate %s (%s at node %s), spec %s" % (g["res"], g.get("stage"), g.get("at"), case["res"]))
    if g["res"] == "ok":
        if g["arrows"] != case["arrows"]:
            bad = [i + 1 for i, (a, b) in enumerate(zip(g["arrows"], case["arrows"])) if a != b]
            return ("c04:arrows", "arrows differ at nodes %s: crate %s, spec %s" % (bad, [g["arrows"][i - 1] for i in bad][:3], [case["arrows"][i - 1] for i in bad][:3]))
        if g["root"] != case["arrows"][-1]:
            return ("c04:arrows", "CommitNode root arrow %s differs from %s" % (g["root"], case["arrows"][-1]))
    else:
        if g["display_len"] > DISPLAY_MAX or g["debug_len"] > DISPLAY_MAX or g["display_ms"] > DISPLAY_MS:
            return ("c04:error-display", "error display unbounded: %s bytes / %s ms" % (g["display_len"], g["display_ms"]))
    return None

def body(c):
    q = not c.thorough
    cfgs = ["MC_TypeInference_n3.cfg", "MC_TypeInference_n4q.cfg"] if q else \
           ["MC_TypeInference_n3.cfg", "MC_TypeInference_n4core.cfg", "MC_TypeInference_n5small.cfg"]
    cases = []
    for cfg in cfgs:
        r = c.tlc_design("MC_TypeInference", cfg, heap="24g", timeout=3400, workers=16)
        cases += tla_to_json_lines(r.prints, "CASE")
    cpath = os.path.join(c.work, "cases.ndjson")
    with open(cpath, "w") as f:
        for x in cases:
            f.write(json.dumps(x) + "\n")
    _, out = c.vh(["c04", "replay", cpath])
    got = [json.loads(l)["got"] for l in out.split("\n") if l.strip()]
    if len(got) != len(cases):
        raise ToolError("replay returned %d results for %d cases" % (len(got), len(cases)))
    by_dag = {}
    for case, g in zip(cases, got):
        c.evaluations += 1
        v = judge(case, g)
        if v:
            c.report(v[0], "dag=%s prog=%s order=%s: %s" % (case["dag"], case["prog"], case["order"], v[1]),
                     {"dir": "spec->impl", "case": case, "got": g})
        else:
            c.traces += 1
        # order independence, crate against crate (only complete constructions are comparable)
        if len(case["order"]) == len(case["dag"]):
            key = json.dumps([case["dag"], case["prog"]])
            sig = (g.get("res"), json.dumps(g.get("arrows")))
            if key in by_dag and by_dag[key][0] != sig:
                c.report("c04:order", "construction orders %s and %s of dag=%s give different results" % (
                    by_dag[key][1], case["order"], case["dag"]), {"case": case, "got": g})
            by_dag.setdefault(key, (sig, case["order"]))
    c.extra["dags_with_all_orders"] = len(by_dag)
    c.sample({"spec->impl case": next(x for x in cases if x["res"] == "ok" and len(x["dag"]) >= 3)})
    c.sample({"rejected case": next(x for x in cases if x["res"] != "ok")})
    # impl -> spec: larger random DAGs, several orders each
    runs = 300 if q else 4000
    tpath = os.path.join(c.work, "trace.ndjson")
    c.vh(["c04", "record", runs, tpath])
    validate_trace(c, "Trace_TypeInference", "Trace_TypeInference.cfg", tpath,
                   lambda ev: ("c04:trace", json.dumps(ev)[:600]), heap="8g", env={"CMRN": 8})
    # ---- "never a panic": deeply nested programs through the construction API, one per process (a stack overflow
    # aborts the process), on the main thread and on a thread with the default 2 MiB stack: build, finalise, encode, drop
    import subprocess
    deep = {}
    # ("share": p_k = pair p_(k-1) p_(k-1) over a witness -- a type shared to depth k, whose finalisation must stay linear in k)
    gave_up = False
    for shape in ("share", "injl", "take", "comp", "unify"):
        for depth in ((24, 64) if shape == "share" else (1000, 20000, 400000) if q else (1000, 5000, 20000, 100000, 400000, 1000000)):
            if shape == "unify" and depth > 100000:
                continue
            limit = 120 if shape == "share" else 900
            if gave_up:
                break
            for place in ("main", "thread"):
                c.evaluations += 1
                try:
                    pr = subprocess.run([VH, "c20", "deepbuild", shape, str(depth), place], stdout=subprocess.PIPE, stderr=subprocess.PIPE, timeout=limit)
                except subprocess.TimeoutExpired:
                    c.report("c04:deep-timeout", "building and finalising %s nested %d deep on the %s thread did not finish in %d s" % (shape, depth, place, limit), {"shape": shape, "depth": depth, "place": place})
                    gave_up = True          # one non-terminating construction is enough; the remaining shapes would each wait for their limit
                    break
                if pr.returncode == 0:
                    deep["%s %d %s" % (shape, depth, place)] = "ok"
                    c.traces += 1
                else:
                    overflow = b"overflowed its stack" in pr.stderr
                    deep["%s %d %s" % (shape, depth, place)] = "abort"
                    fp = "c04:deep-unification-overflow" if (overflow and shape == "unify" and depth >= 10000) else "c04:deep-build-abort"
                    c.report(fp, "building, finalising and dropping a program (%s nested %d deep) on the %s thread killed the process (exit %d%s)" % (
                        shape, depth, place, pr.returncode, ", stack overflow" if overflow else ""),
                        {"shape": shape, "depth": depth, "place": place, "stderr": pr.stderr.decode(errors="replace")[-300:]})
    c.extra["deep_constructions"] = deep
    c.assumptions += ["representative typed leaves in TLC (word 2^1, 2^2; jets 2->1, 2x2->2, 1->2); all Core/Elements jets "
                      "appear as leaves in the recorded direction with their declared types",
                      "the reference Typing!Infer is plain unification + cycle check + free->unit"]
    c.finish_kw = dict(exhaustive=True, rule=(
        "TLC: every reachable DAG (typable or not) up to 3 nodes over 20 combinators and up to 4 (5) nodes over reduced "
        "alphabets x program/non-program x EVERY topological construction order; the context model must agree with the "
        "reference after the last build, hold the most general solution after every build, and satisfy every typing rule; "
        "each (dag, order) replayed on ConstructNode construction + finalize_types; random larger DAGs recorded and validated"))

if __name__ == "__main__":
    main("C04", body)
