"""C01 -- Program and witness bit-encoding round-trips."""
import json, os
from vlib import *

def judge(case, g):
    if "panic" in g: return ("c01:panic", "panic: %s" % g["panic"])
    if "build_err" in g: return ("c01:build", "spec's well-typed program rejected by the crate: %s" % g["build_err"])
    r = g["redeem"]
    if "finalize_err" in r: return ("c01:finalize", "finalize_unpruned failed: %s" % r["finalize_err"])
    if "decode_err" in r: return ("c01:redeem-decode", "own serialisation does not decode: %s" % r["decode_err"])
    if not r["same_bytes"]: return ("c01:redeem-reencode", "decode then encode changes the bytes")
    if not r["same_nodes"] or not r["same_root"]:
        return ("c01:redeem-differs", "decoded program differs from the original (nodes %s, root %s)" % (r["same_nodes"], r["same_root"]))
    cm = g["commit"]
    if "finalize_err" in cm: return ("c01:finalize", "finalize_types failed: %s" % cm["finalize_err"])
    if "decode_err" in cm:
        return ("c01:commit-decode", "commit-time serialisation does not decode: %s" % cm["decode_err"])
    has_disc = any(n[0] == "disc" for n in case["dag"])
    if not cm["same_root"] or (not has_disc and not cm["same_bytes"]):
        return ("c01:commit-reencode", "commit-time round trip changes root or bytes")
    return None

def shared_idless_at_commit(dag):
    """a witness/disconnect-containing sub-expression referenced more than once (outside the property's population)"""
    n = len(dag)
    idless = [False] * (n + 1)
    for i, nd in enumerate(dag, 1):
        idless[i] = nd[0] in ("witness", "disc", "disc1") or (nd[1] and idless[nd[1]]) or (nd[2] and idless[nd[2]])
    refs = [0] * (n + 1)
    for nd in dag:
        for ch in (nd[1], nd[2]):
            if ch: refs[ch] += 1
    return any(idless[i] and refs[i] > 1 for i in range(1, n + 1))

def jets_file(c):
    """the crate's jet tables for the spec decoder (Codec.tla JetRows)"""
    p = os.path.join(c.work, "jets.ndjson")
    if not os.path.exists(p) or os.path.getmtime(p) < c.t0:
        c.vh(["c14", "table", p])
    return p

def body(c):
    q = not c.thorough
    tier = "quick" if q else "thorough"
    r = c.tlc_design("MC_Codec", "MC_Codec_programs_%s.cfg" % tier, heap="24g", timeout=3400, workers=16, env={"JETS": jets_file(c)})
    cases = tla_to_json_lines(r.prints, "CASE")
    cpath = os.path.join(c.work, "cases.ndjson")
    with open(cpath, "w") as f:
        for x in cases:
            f.write(json.dumps(x) + "\n")
    out = c.vh_abortable(["c01", "replay", cpath], "c01:abort", "running the specification's cases", timeout=3000)
    if out is None:
        c.finish_kw = dict(exhaustive=False, rule="the code under test killed the process on one of the specification's cases; the run ended there")
        return
    got = [json.loads(l)["got"] for l in out.split("\n") if l.strip()]
    if len(got) != len(cases):
        raise ToolError("replay returned %d results for %d cases" % (len(got), len(cases)))
    notes = {"bytes_differ_from_spec": 0, "commit_bytes_differ_from_spec": 0, "outside_commit_population": 0}
    for case, g in zip(cases, got):
        c.evaluations += 1
        outside = shared_idless_at_commit(case["dag"])
        if outside:
            notes["outside_commit_population"] += 1
            if "commit" in g and isinstance(g["commit"], dict):
                g = dict(g, commit={"ok": True, "same_bytes": True, "same_root": True})
        v = judge(case, g)
        if v:
            c.report(v[0], "dag=%s wit=%s: %s" % (case["dag"], case["wit"], v[1]), {"dir": "spec->impl", "case": case, "got": g})
        else:
            c.traces += 1
        if isinstance(g.get("redeem"), dict) and g["redeem"].get("pb") is not None and (g["redeem"]["pb"] != case["pb"] or g["redeem"]["wb"] != case["wb"]):
            notes["bytes_differ_from_spec"] += 1
            if not v:
                c.report("c01:bytes-differ-from-spec", "dag=%s wit=%s: the crate serialises the program / witness differently from Codec.tla's encoder" % (case["dag"], case["wit"]),
                         {"dir": "spec->impl", "case": case, "got": g})
        if not outside and isinstance(g.get("commit"), dict) and g["commit"].get("cb") is not None and g["commit"]["cb"] != case["cb"]:
            # a CommitNode cannot hold the branch attached to a disconnect (documented as unsupported at commitment time),
            # so its encoding has one child where the spec's encoding of the full program has two
            if any(nd[0] == "disc" for nd in case["dag"]):
                notes["commit_encoding_without_attached_branch"] = notes.get("commit_encoding_without_attached_branch", 0) + 1
            else:
                notes["commit_bytes_differ_from_spec"] += 1
                if not v:
                    c.report("c01:commit-bytes-differ-from-spec", "dag=%s: the crate serialises the commitment-time program differently from Codec.tla's encoder" % (case["dag"],),
                             {"dir": "spec->impl", "case": case, "got": g})
    c.extra["spec_vs_crate"] = notes
    if notes["bytes_differ_from_spec"] or notes["commit_bytes_differ_from_spec"]:
        c.notes.append("the crate's bytes differ from the spec's canonical encoding for %d programs" % (notes["bytes_differ_from_spec"] + notes["commit_bytes_differ_from_spec"]))
    c.sample({"program": cases[len(cases) // 2]["dag"], "witnesses": cases[len(cases) // 2]["wit"], "spec bits": cases[len(cases) // 2]["pb"]})
    runs = 1000 if q else 8000
    tpath = os.path.join(c.work, "trace.ndjson")
    if c.vh_abortable(["c01", "record", runs, tpath], "c01:abort", "running generated and mutated inputs", timeout=3000) is None:
        c.finish_kw = dict(exhaustive=False, rule="the code under test killed the process on a generated input; the run ended there")
        return
    def describe(ev):
        return ("c01:trace", json.dumps({k: ev[k] for k in ev if k not in ("dag", "ty", "aux")})[:500])
    validate_trace(c, "Trace_Codec", "Trace_Codec.cfg", tpath, describe, heap="8g", env={"JETS": jets_file(c), "ALLOC_C0": 0, "ALLOC_K": 0})
    n_att = 0
    for l in open(tpath):
        e = json.loads(l)
        if e.get("ev") == "c01" and any(nd[0] == "disc" and nd[2] for nd in e.get("cdag", [])) and e.get("commit", {}).get("out") == "err":
            n_att += 1
    c.extra["commit_programs_with_attached_branch_not_decodable"] = n_att        # observation, not claimed (DESIGN 10.4 / 10.5)
    c.assumptions += ["hidden roots and fail entropies are arbitrary fixed bit patterns", "jets are bound in the recorded direction (their codes come from the crate's tables, see C14)"]
    c.finish_kw = dict(exhaustive=True, rule=(
        "TLC: every well-typed 1->1 program up to 4 (5) nodes incl. witnesses (3 values per node), assertions, fail, words, "
        "disconnect, with duplicate sub-expressions as distinct objects: spec encode -> spec decode -> spec encode; each program built "
        "in a fresh context, serialised by the crate, decoded, compared node by node (CMR, IHR, AMR, arrows, witness bits) and "
        "re-encoded; generated Core/Elements programs with jets recorded and validated"))

if __name__ == "__main__":
    main("C01", body)
