"""C19 -- Budget padding is sufficient and minimal."""
import json, os
from vlib import *

def body(c):
    q = not c.thorough
    r = c.tlc_design("MC_Budget", "MC_Budget_quick.cfg" if q else "MC_Budget_thorough.cfg", heap="12g", timeout=3000, coverage=True)
    cases = tla_to_json_lines(r.prints, "CASE")
    cases.sort(key=lambda x: json.dumps(x["st"]))
    cpath = os.path.join(c.work, "cases.ndjson")
    with open(cpath, "w") as f:
        for x in cases:
            f.write(json.dumps(x) + "\n")
    _, out = c.vh(["c19", "replay", cpath])
    got = [json.loads(l)["got"] for l in out.split("\n") if l.strip()]
    if len(got) != len(cases):
        raise ToolError("replay returned %d results for %d cases" % (len(got), len(cases)))
    for case, g in zip(cases, got):
        c.evaluations += 1
        bad = None
        if "panic" in g:
            bad = "panic: %s" % g["panic"]
        elif g["valid"] != case["valid"]:
            bad = "is_budget_valid=%s, spec %s" % (g["valid"], case["valid"])
        elif (g["pad"] == -1) != case["valid"]:
            bad = "get_padding=%s but validity %s" % (g["pad"], case["valid"])
        elif g["weight"] != case["weight"]:
            bad = "weight %s, spec %s" % (g["weight"], case["weight"])
        elif not case["valid"]:
            if g["tag"] != 0x50 or not g["zeros"]:
                bad = "annex is not 0x50 followed by zeros"
            elif not g["valid_after"]:
                bad = "padding %s does not bring the cost within budget" % g["pad"]
            elif not case["boundary"] and g["pad"] != case["pad"]:
                # case["pad"] = CodePad, which TLC has shown equal to MinAnnex-1 off the count boundary
                bad = "padding %s is not the minimal one (%s)" % (g["pad"], case["pad"])
            elif not case["boundary"] and g.get("valid_shorter"):
                bad = "a shorter annex than %s already suffices" % g["pad"]
        if bad:
            c.report("c19:replay", "cost=%s stack=%s: %s" % (case["c"], case["st"], bad), {"case": case, "got": g})
        else:
            c.traces += 1
    c.sample({"spec->impl case": cases[len(cases) // 3], "crate": got[len(cases) // 3]})
    runs = 400 if q else 6000
    tpath = os.path.join(c.work, "trace.ndjson")
    c.vh(["c19", "record", runs, tpath])
    validate_trace(c, "Trace_Budget", "Trace_Budget.cfg", tpath,
                   lambda ev: ("c19:trace", json.dumps(ev)[:400]))
    apalache(c)
    c.assumptions += ["witness stacks are abstracted to groups of equal-length items (the serialized length the harness "
                      "measures with consensus_encode must equal the spec's SerLen: checked per event)",
                      "costs above the consensus maximum are outside the property"]
    c.finish_kw = dict(exhaustive=True, rule=(
        "TLC: every (stack, deficit, remainder) with item counts/lengths straddling 252/253 and 65535/65536, deficits "
        "-2..300 (700), around 65536 and near the consensus maximum: formula of get_padding vs declarative least annex; "
        "replayed on Cost::is_budget_valid/get_padding with real Vec<Vec<u8>> stacks; random stacks/costs recorded and "
        "validated against the declarative definitions"))

def apalache(c):
    """unbounded integers: PadCorrect for all costs/stacks in range, as an Apalache invariant at length 0"""
    import subprocess, time, shutil
    t = time.time()
    out = os.path.join(c.work, "apalache")
    try:
        p = subprocess.run(["timeout", "600", "apalache-mc", "check", "--length=0", "--init=Init", "--next=Next",
                            "--inv=Inv", "--out-dir=" + out, "Apa_Budget.tla"], cwd=SPEC,
                           stdout=subprocess.PIPE, stderr=subprocess.STDOUT, text=True)
        ok = "The outcome is: NoError" in p.stdout
        c.extra["apalache"] = {"outcome": "NoError" if ok else "not completed", "wall_s": round(time.time() - t, 1),
                               "statement": "PadCorrect for ALL integer costs <= consensus max and all stack (count, size) pairs < 2^32"}
        if "violat" in p.stdout.lower() and "outcome is: Error" in p.stdout:
            raise ToolError("Apalache found a counterexample to the padding formula of the spec (spec defect)")
        if not ok:
            c.notes.append("apalache run did not complete: " + p.stdout[-300:])
    except Exception as e:
        c.notes.append("apalache unavailable: %s" % e)
    shutil.rmtree(out, ignore_errors=True)

if __name__ == "__main__":
    main("C19", body)
