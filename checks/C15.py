"""C15 -- The Elements environment shown to jets is the supplied transaction."""
import json, os
from collections import Counter
from vlib import *

def describe(ev):
    if ev.get("build") != "ok":
        return ("c15:build", "building the environment failed: %s" % ev.get("build"))
    if json.dumps(ev["sighash_jet"]) != json.dumps(ev["sighash_env"]):
        return ("c15:sighash", "c_tx_env().sighash_all() = %s but the sig_all_hash jet returns %s" % (ev["sighash_env"], ev["sighash_jet"]))
    d = ev["desc"]
    return ("c15:jet-answer", "an introspection jet's answer is not the field of the supplied data (%d inputs, %d outputs, ix %s); see the replay file, answers vs ElementsEnv.tla J"
            % (len(d["inputs"]), len(d["outputs"]), d["ix"]))

def hash_jets(c, label):
    """phase 2 for the aggregate hash jets: TLC printed, per environment, the symbolic digest of every hash-jet answer
    (TERMS); the harness hashes the terms with real SHA-256 and compares them with what the jets returned"""
    terms = tla_to_json_lines(c.last_trace_prints, "TERMS")
    tp = os.path.join(c.work, "terms-%s.ndjson" % label)
    with open(tp, "w") as f:
        for t in terms:
            f.write(json.dumps(t) + "\n")
    _, out = c.vh(["c15", "concretise", tp], timeout=3000)
    n = 0
    for l in out.split("\n"):
        if not l.strip(): continue
        r = json.loads(l)
        n += r["n"]
        c.evaluations += r["n"]
        for b in r["bad"]:
            c.report("c15:hash-jet", "environment %s of the %s set: %s(%s) returned %s, which is not the SHA-256 of the data ElementsEnv.tla prescribes%s"
                     % (r["ev"], label, b["jet"], b["arg"], b.get("got"), (" (" + b["error"] + ")") if "error" in b else ""), {"event": r["ev"], "set": label, "mismatch": b})
    c.extra["hash_jet_answers_checked_" + label] = n

def body(c):
    q = not c.thorough
    atoms = os.path.join(c.work, "atoms.json")
    c.vh(["c15", "atoms", atoms])
    # ---- design: laws of the model over enumerated environments; every environment emitted for replay
    r = c.tlc_design("MC_ElementsEnv", "MC_ElementsEnv_quick.cfg" if q else "MC_ElementsEnv_thorough.cfg", heap="24g", timeout=3400, workers=16,
                     env={"ATOMS": atoms})
    cases = tla_to_json_lines(r.prints, "CASE")
    cpath = os.path.join(c.work, "cases.ndjson")
    with open(cpath, "w") as f:
        for x in cases:
            f.write(json.dumps(x) + "\n")
    # ---- spec -> impl -> spec: the crate's answers on TLC's environments, judged by J
    rp = os.path.join(c.work, "replayed.ndjson")
    c.vh(["c15", "replay", cpath, rp], timeout=3400)
    validate_trace(c, "Trace_ElementsEnv", "Trace_ElementsEnv.cfg", rp, describe, heap="12g", timeout=3400,
                   env={"TERMS": "all" if q else "sample", "CONCRETE": 1500 if q else 4000})        # (CONCRETE: every m-th environment's global digests are recomputed inside TLC with Sha256.tla)
    hash_jets(c, "enumerated")
    # ---- impl -> spec: random transactions
    rec = os.path.join(c.work, "recorded.ndjson")
    c.vh(["c15", "record", 2000 if q else 30000, rec], timeout=3400)
    validate_trace(c, "Trace_ElementsEnv", "Trace_ElementsEnv.cfg", rec, describe, heap="12g", timeout=3400,
                   env={"TERMS": "all" if q else "sample", "CONCRETE": 250 if q else 400})
    hash_jets(c, "random")
    jets, shapes, answers = Counter(), Counter(), 0
    for path in (rp, rec):
        for k, e in enumerate(read_ndjson(path)):
            answers += len(e["answers"])
            if k % 10 == 0:
                for a in e["answers"]:
                    jets[a[0]] += 1
            d = e["desc"]
            shapes["%d in / %d out" % (min(len(d["inputs"]), 3), min(len(d["outputs"]), 3))] += 1
            for i in d["inputs"]:
                shapes["pegin" if i["pegin"] else "no pegin"] += 1
                shapes["annex" if i["annex"]["present"] else "no annex"] += 1
                shapes["issuance amount " + i["issuance"]["amount"][0]] += 1
            for o in d["outputs"]:
                shapes["output value " + o["value"][0]] += 1
                shapes["output nonce " + o["nonce"][0]] += 1
                shapes["null data" if o["spk"]["is_null_data"] else "ordinary script"] += 1
    c.extra["jet_answers_checked"] = answers
    c.extra["jets_covered"] = len(jets)
    c.extra["environment_shapes"] = dict(shapes)
    c.sample({"jets": sorted(jets)[:12], "answers_checked": answers})
    c.assumptions += ["hashes of variable-length data (scripts, annex, proofs, push data), the transaction id and the issuance-derived entropy / asset / token ids are computed outside the crate (bitcoin_hashes, elements::Transaction::txid, elements::AssetId) and carried in the description",
                      "a pegin input carries a well-formed pegin witness and vice versa; the annex is, as the crate documents, the last witness item if it starts with 0x50 (BIP 341 additionally requires a second item; single-item stacks are generated and follow the crate's rule)",
                      "null assets / amounts / nonces read as libsimplicity documents them: even-parity point with x = 0, explicit 0, absent",
                      "the 28 aggregate hash jets (incl. tx_hash, tap_env_hash, sig_all_hash) are specified as symbolic SHA-256 terms over the fields; TLC prints the terms, the harness hashes them (bitcoin_hashes) and compares with the jets' answers; the environment's sighash_all must equal the sig_all_hash jet"]
    c.finish_kw = dict(exhaustive=True, rule=(
        "TLC: 6 input templates x 6 output templates in all sequences of length 0..2, x version {1,2} x lock time {0, 100, 500000000} x current index 0..2 x "
        "taproot path {0,2}: current_* = indexed jet at ix, out-of-range = none, lock height/time exclusive, check_* succeed exactly up to tx_*, issuance jets consistent, "
        "fee totals; emitted environments and random transactions are built with ElementsEnv::new, 62 field jets and 28 hash jets run on every index incl. out-of-range ones, every answer = J(name, env, arg) / SHA-256 of JH(name, env, arg)"))

if __name__ == "__main__":
    main("C15", body)
