"""C09 -- The commitment root depends only on committed structure."""
import json, os
from vlib import *

def judge(case, g):
    if "panic" in g: return ("c09:panic", "panic: %s" % g["panic"])
    if "build_err" in g: return ("c09:build", "typable program rejected: %s" % g["build_err"])
    sc = g["scratch"]
    n = len(sc)
    if g["construct"] != sc:
        bad = [i + 1 for i in range(n) if g["construct"][i] != sc[i]]
        return ("c09:scratch", "construction-time CMR differs from hashing the tagged tree from scratch at nodes %s" % bad)
    root = sc[-1]
    for k in ("commit_root", "redeem_root", "unfinalize_root", "unfinalize_types_root", "to_construct_root", "human_root", "human_commit_root"):
        if k in g and g[k] != root:
            return ("c09:conversion", "%s = %s differs from the construction-time root %s" % (k, g[k], root))
    if "commit" in g and not set(g["commit"]) <= set(sc):
        return ("c09:conversion", "commit-time nodes have other roots than the construction-time nodes")
    h = g["hiding_root"]
    if "err" in h:
        return ("c09:hiding-build", "hiding wrapper failed to build a typable program: %s" % h["err"])
    if h["cmr"] != root:
        return ("c09:hiding", "hiding %s changes the root: %s vs %s" % ([i + 1 for i, x in enumerate(case["hide"]) if x], h["cmr"], root))
    if h["is_node"] != (case["hidden_root"] == "node"):
        return ("c09:hiding-state", "wrapper root is %s, model says %s" % ("a node" if h["is_node"] else "hidden", case["hidden_root"]))
    return None

def body(c):
    q = not c.thorough
    r = c.tlc_design("MC_Roots", "MC_Roots_quick.cfg" if q else "MC_Roots_thorough.cfg", heap="24g", timeout=3400, workers=16)
    cases = tla_to_json_lines(r.prints, "CASE")
    cpath = os.path.join(c.work, "cases.ndjson")
    with open(cpath, "w") as f:
        for x in cases:
            f.write(json.dumps(x) + "\n")
    _, out = c.vh(["c09", "replay", cpath], timeout=3000)
    got = [json.loads(l)["got"] for l in out.split("\n") if l.strip()]
    if len(got) != len(cases):
        raise ToolError("replay returned %d results for %d cases" % (len(got), len(cases)))
    # injectivity across the whole run: the partition by bytes equals the partition by symbolic term
    by_term, by_bytes = {}, {}
    for case, g in zip(cases, got):
        c.evaluations += 1
        v = judge(case, g)
        if v:
            c.report(v[0], "dag=%s: %s" % ([x[:3] for x in case["dag"]], v[1]), {"dir": "spec->impl", "case": case, "got": g})
        else:
            c.traces += 1
    c.sample({"program": [x[:3] for x in cases[len(cases) // 2]["dag"]], "hide": cases[len(cases) // 2]["hide"],
              "symbolic root": cases[len(cases) // 2]["cmr"][-1]})
    runs = 200 if q else 3000
    tpath = os.path.join(c.work, "trace.ndjson")
    c.vh(["c09", "record", runs, tpath], timeout=3000)
    # phase 1: TLC checks the partition clauses on the recorded class ids and emits the symbolic terms
    terms_out = validate_and_collect(c, tpath)
    # phase 2: the interpreter concretises the emitted terms and compares them with the recorded bytes
    tp = os.path.join(c.work, "terms.ndjson")
    with open(tp, "w") as f:
        for t in terms_out:
            f.write(json.dumps(t) + "\n")
    _, out = c.vh(["c09", "concretise", tp, tpath], timeout=3000)
    for line in out.split("\n"):
        if line.strip():
            m = json.loads(line)
            c.evaluations += 1
            if m["ok"]: c.traces += 1
            else: c.report("c09:concretise", "run %d: %s" % (m["run"], m["what"]), m)
    c.assumptions += ["SHA-256 collision resistance is assumed: symbolic roots are compared structurally; the bytes are recomputed twice, by the harness's interpreter (bitcoin_hashes compression function) for every run and by Sha256.tla inside TLC for a sample",
                      "jet roots are atoms taken from the crate's tables (tied to libsimplicity by C14)"]
    c.finish_kw = dict(exhaustive=True, rule=(
        "TLC: every typable program up to 3 (4) nodes x every subset of hidden sub-expressions: hiding algebra = plain root, "
        "disconnect commits to the left child only, roots injective on committed structure; each case built as ConstructNode, "
        "through the Hiding wrapper, converted to Commit/Redeem and back, and every node's root compared with the interpreter's "
        "hash of the spec's tagged tree; generated programs recorded (all conversions, witness variations) and validated"))

def validate_and_collect(c, tpath):
    terms = []
    lines = [l for l in open(tpath).read().split("\n") if l.strip()]
    # CONCRETE: every m-th run also has its bytes recomputed inside TLC (Sha256.tla / RootBytes.tla), the rest by the interpreter
    m = 8 if not c.thorough else 40
    accepted, rej, r = c.tlc_trace("Trace_Roots", "Trace_Roots.cfg", tpath, len(lines), heap="8g", env={"CONCRETE": m}, timeout=5000)
    c.extra["runs_with_bytes_recomputed_in_tlc"] = len([1 for l in lines if json.loads(l).get("run", 1) % m == 0])
    for k, v in r.prints:
        if k == "TERMS":
            terms += tla_to_json_lines([(k, v)], "TERMS")
    if not accepted:
        ev = json.loads(lines[rej - 1]) if rej and 1 <= rej <= len(lines) else {}
        c.report("c09:trace", "recorded run %s rejected by Trace_Roots: %s" % (rej, str({k: ev[k] for k in ev if k not in ("dag", "ty", "wit")})[:400]), ev)
    else:
        c.traces += len(lines)
    c.evaluations += len(lines)
    return terms

if __name__ == "__main__":
    main("C09", body)
