"""C05 -- Bit Machine execution equals the denotational semantics.
   C07 -- Static resource bounds cover every execution (same pipeline, different clauses judged)."""
import json, os
from vlib import *

def judge_c05(case, g):
    if "panic" in g: return ("c05:panic", "harness-level panic: %s" % g["panic"])
    if "build_err" in g: return ("c05:build", "the spec's typed program is rejected by the crate: %s" % g["build_err"])
    for tag in ("run", "run_ff", "run_view"):
        if tag not in g: continue
        r = g[tag]
        exp = "ok" if case["ok"] else case["why"]
        if r["res"] != exp:
            if r["res"] == "panic":
                return ("c05:exec-panic", "%s: execution panicked: %s" % (tag, r.get("msg")))
            return ("c05:verdict", "%s: crate %s, semantics %s" % (tag, r["res"], exp))
        if case["ok"]:
            if not r["out_ty_ok"] and r["io"][1] == 0 and case["ty"][-1][1] != ["1"]:
                return ("c05:zero-width-target-unit", "%s: zero-width target %s but the output is %s of another type" % (tag, case["ty"][-1][1], r["out"]))
            if r["out"] != case["out"]:
                fp = "c05:output-padding" if tag == "run_ff" and g["run"]["out"] == case["out"] else "c05:input-view" if tag == "run_view" and g["run"]["out"] == case["out"] else "c05:output"
                return (fp, "%s: output %s, semantics %s" % (tag, r["out"], case["out"]))
            if not r["out_ty_ok"]:
                # cause class: zero-width target type that is not the unit type
                zw = r["io"][1] == 0 and case["ty"][-1][1] != ["1"]
                return ("c05:zero-width-target-unit" if zw else "c05:output-type",
                        "%s: output value is not of the program's target type %s" % (tag, case["ty"][-1][1]))
    return None

def judge_c07(case, g):
    if "panic" in g or "build_err" in g: return None      # judged by C05
    for tag in ("run", "run_ff"):
        r = g[tag]
        if r["res"] == "panic":
            return ("c07:panic", "%s: machine panicked (out of bounds / debug assertion): %s" % (tag, r.get("msg")))
        if r["res"] == "limit":
            return ("c07:limit", "small program refused by the limit check: %s" % r.get("msg"))
        io = r["io"][0] + r["io"][1]
        if r["hw"][0] > io + r["bounds"]["cells"]:
            return ("c07:cells", "%s: used %d cells > io %d + extra_cells %d" % (tag, r["hw"][0], io, r["bounds"]["cells"]))
        if r["hw"][1] > r["bounds"]["frames"] + 2:
            return ("c07:frames", "%s: used %d frames > extra_frames %d + 2" % (tag, r["hw"][1], r["bounds"]["frames"]))
    return None

def body(c):
    pid = c.pid
    q = not c.thorough
    cfgs = ["MC_BitMachine_quick.cfg"] if q else ["MC_BitMachine_quick.cfg", "MC_BitMachine_n4.cfg"]
    cases = []
    for cfg in cfgs:
        r = c.tlc_design("MC_BitMachine", cfg, heap="24g", timeout=3400, workers=16)
        cases += tla_to_json_lines(r.prints, "CASE")
    cpath = os.path.join(c.work, "cases.ndjson")
    with open(cpath, "w") as f:
        for x in cases:
            f.write(json.dumps(x) + "\n")
    _, out = c.vh(["c05", "replay", cpath])
    got = [json.loads(l)["got"] for l in out.split("\n") if l.strip()]
    if len(got) != len(cases):
        raise ToolError("replay returned %d results for %d cases" % (len(got), len(cases)))
    judge = judge_c05 if pid == "C05" else judge_c07
    notes = {"hw_differs_from_model": 0, "bounds_differ_from_model": 0, "visits_differ_from_model": 0}
    for case, g in zip(cases, got):
        if "skip" in g:
            c.skipped += 1
            continue
        c.evaluations += 1
        v = judge(case, g)
        if v:
            c.report(v[0], "dag=%s ty=%s aux=%s inp=%s: %s" % (case["dag"], str(case["ty"])[:300], case["aux"], case["inp"], v[1]),
                     {"dir": "spec->impl", "case": case, "got": g})
        else:
            c.traces += 1
        if "run" in g and "hw" in g["run"]:
            r = g["run"]
            if r["hw"] != [case["hwc"], case["hwf"]]: notes["hw_differs_from_model"] += 1
            if [r["bounds"]["cells"], r["bounds"]["frames"]] != [case["cells"], case["frames"]]: notes["bounds_differ_from_model"] += 1
            if [x[0] for x in r["visits"]] != case["visited"]: notes["visits_differ_from_model"] += 1
    c.extra["model_vs_crate_notes"] = notes
    c.sample({"spec->impl case": {k: cases[len(cases) // 2][k] for k in ("dag", "ty", "aux", "inp", "ok", "out", "why")}})
    record_part(c, pid, q)
    if pid == "C05":
        # the jet library: every Core jet with flat source and target on patterned and random inputs, judged by JetLib.tla
        # (the hashing jets, the secp256k1 jets on meaningful points, and signature verification have inputs of their own)
        def describe_jet(ev):
            return ("c05:jet-function", "jet %s on input %s returned %s, JetLib.tla specifies something else" % (ev["name"], "".join(map(str, ev["in"]))[:140], str(ev["out"])[:140]))
        jpath = os.path.join(c.work, "jets.ndjson")
        # the limb arithmetic of Secp.tla against arithmetic facts (inverses, roots, beta^3 = lambda^3 = 1, wrap-around)
        c.tlc_design("MC_Secp", "MC_Secp.cfg", workers=1, heap="2g", timeout=900)
        if not q:
            # the bit-string arithmetic of JetLib.tla against TLC's integers: all 65 536 pairs of 8-bit operands
            c.tlc_design("MC_JetLib", "MC_JetLib.cfg", workers=16, heap="8g", timeout=5000)
            c.tlc_design("MC_Svdw", "MC_Svdw.cfg", workers=1, heap="2g", timeout=900)
        parts = []
        for sub, n in (("jets", [12 if q else 300]), ("hashjets", [3 if q else 40]), ("ecjets", [3 if q else 24]), ("sigjets", [0 if q else 6]),
                       ("eljets", [3 if q else 30, 0 if q else 4])):
            pp = os.path.join(c.work, "jets-%s.ndjson" % sub)
            c.vh(["c05", sub] + n + [pp], timeout=3000)
            parts.append(open(pp).read())
        open(jpath, "w").write("".join(parts))
        validate_trace_sharded(c, "Trace_JetLib", "Trace_JetLib.cfg", jpath, describe_jet, 12, heap="3g", timeout=6000)
        names = set(json.loads(l)["name"] for l in open(jpath))
        c.extra["core_jets_run"] = len(names)
    c.assumptions += ["the harness pins every node's arrow to the spec's typing through Context::unify (public API)",
                      "disconnect in the exhaustive model uses a scaled-down CMR word; real 256-bit disconnects are bound by recorded traces"]
    c.finish_kw = dict(exhaustive=True, rule=(
        "TLC: every reachable DAG up to 3 (4) nodes over all executable combinators, word constants and three jets, principal "
        "typing instantiated by K schemes, all inputs, witness/word values, memory fill 0/1, every machine step a state "
        "(frame/bound/semantic invariants); each finished run replayed on BitMachine (twice: zeroed and 0xFF-filled memory); "
        "plus recorded runs of generated programs validated by TLC; all 368 Core jets (arithmetic, logic, comparison, shifts, division, slicing, hashing and its contexts, lock parsing, secp256k1 field / scalar / point arithmetic, BIP-340 verification) are specified in JetLib.tla / Sha256.tla / Secp.tla; (arithmetic, logic, comparison, shifts, division, slicing, padding) are specified as "
        "bit-string functions (JetLib.tla) and judged on every recorded visit and on patterned and random inputs of their own"))

def record_part(c, pid, q):
    runs = 150 if q else 2500
    tpath = os.path.join(c.work, "trace.ndjson")
    c.vh(["c05", "record", runs, tpath])
    def describe(ev):
        return (pid.lower() + ":trace", json.dumps({k: ev[k] for k in ev if k not in ("visits",)})[:500])
    validate_trace(c, "Trace_BitMachine", "Trace_BitMachine.cfg", tpath, describe, env={"PROP": pid}, heap="8g")
    with open(tpath) as f:
        e = json.loads(f.readline())
        c.sample({"impl->spec run": {k: e[k] for k in ("dag", "inp", "res") if k in e}})

if __name__ == "__main__":
    main(os.environ.get("VERIF_PROP", "C05"), body)
