"""C08 -- Pruning preserves commitment and behaviour and satisfies anti-DoS."""
import json, os
from vlib import *

LEAVES = {"jetV", "jetA", "jetL", "word0", "word1", "word", "leaf", "jet"}       # the harness describes jets and words as "leaf"
def strip(dag):
    return [["leaf" if n[0] in LEAVES else n[0], n[1], n[2]] for n in dag]

def post_order_form(dag):
    """the DAG renumbered by a post-order walk from its root (children before parents, left before right, each once)"""
    order, seen = [], {}
    def walk(i):
        if i in seen: return
        nd = dag[i - 1]
        for c in (nd[1], nd[2]):
            if c: walk(c)
        seen[i] = len(order) + 1
        order.append(i)
    import sys
    sys.setrecursionlimit(10000)
    walk(len(dag))
    return [[dag[i - 1][0], seen.get(dag[i - 1][1], 0), seen.get(dag[i - 1][2], 0)] for i in order]

def judge(case, g, one_one_only=False):
    """case may be None (recorded direction): then only the property's clauses on the crate's own report"""
    if "panic" in g: return ("c08:panic", "harness-level panic: %s" % g["panic"])
    if "build_err" in g: return ("c08:build", "typed program rejected: %s" % g["build_err"])
    if g["first"]["res"] != "ok":
        if g["prune"]["res"] == "panic":
            return ("c08:prune-panic", "prune panicked on a failing program: %s" % g["prune"].get("msg"))
        return None
    p = g["prune"]
    if p["res"] != "ok":
        return ("c08:prune-failed", "program runs but prune returned %s %s" % (p["res"], p.get("msg", "")))
    if p["cmr"] != g["cmr"]:
        return ("c08:cmr", "pruned CMR %s differs from %s" % (p["cmr"], g["cmr"]))
    s = g["second"]
    if s["res"] != "ok":
        return ("c08:second-run", "pruned program does not run: %s %s" % (s["res"], s.get("msg", "")))
    if not s.get("ty_ok", True) or not g["witness_typed"]:
        return ("c08:types", "pruned program carries an ill-typed value")
    a = g["again"]
    # recorded finding: a node shared between the executed part and a hidden branch keeps the type the hidden branch
    # forced on it, so the pruned program's arrows are not its own principal ones; everything below follows from that
    if g.get("principal") is False and (a["res"] != "ok" or not a["same_bytes"] or g["redecode"] != "ok" or g["c"].get("err", 0) != 0):
        return ("c08:pruned-types-not-principal", "the pruned program's types are not the principal types of the pruned program "
                "(a shared node is still constrained by a hidden branch): pruning again %s, redecode %s, libsimplicity err %s"
                % ("changes it" if not a.get("same_bytes") else "is stable", g["redecode"], g["c"].get("err")))
    if a["res"] != "ok" or not a["same_bytes"]:
        return ("c08:not-idempotent", "pruning the pruned program changes it: %s" % a)
    c = g["c"]
    one_one = p["arrow"] == [["1"], ["1"]]
    if one_one and g["redecode"] != "ok":      # only programs (1 -> 1) have a decodable serialisation
        return ("c08:redecode", "serialisation of the pruned program: %s" % g["redecode"])
    if one_one:
        if c.get("err", 0) != 0 or c.get("eval") != 0:
            return ("c08:c-antidos", "libsimplicity with all anti-DoS checks: stage %s err %s eval %s" % (c.get("stage"), c.get("err"), c.get("eval")))
        if c["cmr"] != g["cmr"]:
            return ("c08:c-cmr", "C computes CMR %s, Rust %s" % (c["cmr"], g["cmr"]))
    if case is not None:
        # same output at the pruned type, as the spec computes it
        # (when the root arrows agree: the property is about unit-to-unit programs; for other roots the crate may keep a
        #  wider target type than the pruned program's own principal one -- the recorded finding -- and the values then
        #  live at different types)
        exp_out = case["pout"]
        if p["arrow"] == case["pty"][-1] and s["out"] != exp_out:
            return ("c08:output", "pruned program outputs %s, spec %s" % (s["out"], exp_out))
    return None

def body(c):
    q = not c.thorough
    cfgs = ["MC_Prune_quick.cfg", "MC_Prune_n5.cfg"] if q else ["MC_Prune_quick.cfg", "MC_Prune_n5.cfg", "MC_Prune_n5full.cfg"]
    cases = []
    for cfg in cfgs:
        r = c.tlc_design("MC_Prune", cfg, heap="24g", timeout=3400, workers=16)
        cases += tla_to_json_lines(r.prints, "CASE")
    cpath = os.path.join(c.work, "cases.ndjson")
    with open(cpath, "w") as f:
        for x in cases:
            f.write(json.dumps(x) + "\n")
    _, out = c.vh(["c08", "replay", cpath], timeout=3000)
    got = [json.loads(l)["got"] for l in out.split("\n") if l.strip()]
    if len(got) != len(cases):
        raise ToolError("replay returned %d results for %d cases" % (len(got), len(cases)))
    notes = {"pruned_dag_differs_from_model": 0, "c_one_one_checked": 0, "root_arrow_differs_from_model_not_unit_to_unit": 0}
    for case, g in zip(cases, got):
        c.evaluations += 1
        v = judge(case, g)
        if v:
            c.report(v[0], "dag=%s aux=%s: %s" % (case["dag"], case["aux"], v[1]), {"dir": "spec->impl", "case": case, "got": g})
        else:
            c.traces += 1
        pp = g.get("pruned_prog")
        if pp and post_order_form(strip(pp["dag"])) != post_order_form(strip(case["pdag"])):
            notes["pruned_dag_differs_from_model"] += 1
            if not v:
                c.report("c08:pruned-program-differs-from-model", "dag=%s aux=%s: the crate prunes to %s, Prune.tla to %s" % (
                    strip(case["dag"]), case["aux"], post_order_form(strip(pp["dag"])), post_order_form(strip(case["pdag"]))), {"dir": "spec->impl", "case": case, "got": g})
        if g.get("prune", {}).get("arrow") == [["1"], ["1"]]: notes["c_one_one_checked"] += 1
        elif g.get("prune", {}).get("res") == "ok" and g["prune"].get("arrow") != case["pty"][-1]: notes["root_arrow_differs_from_model_not_unit_to_unit"] += 1
    c.extra["notes"] = notes
    c.sample({"program": cases[0]["dag"], "witnesses": cases[0]["aux"], "pruned": cases[0]["pdag"]})
    # impl -> spec: generated 1->1 programs with cases at depth, shared cases, jets, disconnect
    runs = 400 if q else 4000
    tpath = os.path.join(c.work, "trace.ndjson")
    c.vh(["c08", "record", runs, tpath], timeout=3000)
    def describe(ev):
        v = judge(None, ev["got"]) if "got" in ev else None
        return (v[0] if v else "c08:trace", (v[1] if v else json.dumps(ev)[:500]))
    validate_trace(c, "Trace_Prune", "Trace_Prune.cfg", tpath, describe, heap="8g")
    with open(tpath) as f:
        e = json.loads(f.readline())
        c.sample({"recorded program": strip(e["dag"]), "taken": e.get("taken")})
    c.assumptions += ["RedeemNode::prune can only run programs of zero-width source; the exhaustive model uses unit source",
                      "anti-DoS acceptance by libsimplicity is checked for 1->1 programs (C refuses other arrows)",
                      "identity classes in the model = structure + embedded values + the node's own arrow (collision-free IHR)"]
    c.finish_kw = dict(exhaustive=True, rule=(
        "TLC: every typed program up to 4 (5) nodes with a case node and unit source, all witness values: run, prune per "
        "identity class, retype, prune witnesses, run again; invariants = same output, every node and both branches executed, "
        "fixed point; each successful case replayed through RedeemNode::prune + libsimplicity CHECK_ALL; generated 1->1 programs "
        "recorded and validated"))

if __name__ == "__main__":
    main("C08", body)
