"""C14 -- Jet tables and foreign bindings match libsimplicity."""
import json, os
from vlib import *
import ffiscan

def body(c):
    # 1. the tables, extracted from the working tree; the automaton and agreement invariants are checked by TLC
    tpath = os.path.join(c.work, "jets.ndjson")
    c.vh(["c14", "table", tpath])
    rows = read_ndjson(tpath)
    r = c.tlc("JetTable", "JetTable.cfg", workers=8, heap="8g", timeout=1800, env={"TABLE": tpath}, coverage=True)
    c.states += r.distinct; c.transitions += r.generated
    log("  design JetTable.cfg (constants from the tree)   states=%d generated=%d wall=%.1fs" % (r.distinct, r.generated, r.wall))
    if not r.ok:
        if r.inv_violated:
            # the model's constants ARE the working tree's tables: a violated invariant is a property violation
            what = {"PrefixFree": "a jet's code is a prefix of another's (or two jets share a code)",
                    "TableInv": "table-level statement violated: " + table_diagnosis(rows),
                    "Live": "decode automaton has a dead state"}.get(r.inv_violated, r.inv_violated)
            c.report("c14:" + r.inv_violated, what, {"table": tpath, "tlc": tlc_error_excerpt(r.out)})
        else:
            log(tlc_error_excerpt(r.out)); raise ToolError("JetTable run failed")
    else:
        c.traces += len(rows)
    c.evaluations += len(rows)
    c.sample({"row": {k: rows[0][k] for k in ("family", "name", "code", "cost", "cmr")}, "c row": rows[-1]})
    # 2. every bit string up to n bits through each family's decoder
    n = 16 if not c.thorough else 20
    spath = os.path.join(c.work, "sweep.ndjson")
    c.vh(["c14", "noncodes", n, spath], timeout=3000)
    for ev in read_ndjson(spath):
        c.evaluations += ev["decoded"] + ev["refused"]
        if ev["wrong"] or ev["panics"]:
            c.report("c14:decode-sweep", "%s decoder: %d bit strings decode to a jet whose code they are not, %d panics; e.g. %s" % (
                ev["family"], ev["wrong"], ev["panics"], ev["example"]), ev)
        else:
            c.traces += 1
    # 3. foreign functions: Rust extern declarations vs C prototypes
    rust = ffiscan.rust_decls("/repo")
    cp = ffiscan.c_prototypes("/repo")
    if len(rust) < 400 or len(cp) < 400:
        raise ToolError("FFI scan found too few declarations (%d Rust, %d C)" % (len(rust), len(cp)))
    fpath = os.path.join(c.work, "ffi.ndjson")
    seen = set()
    with open(fpath, "w") as f:
        for d in rust:
            s = d["symbol"]
            if s in cp and s not in seen:
                seen.add(s)
                f.write(json.dumps({"ev": "decl", "side": "c", "symbol": s, "arity": len(cp[s]), "shapes": [ffiscan.shape_c(x) for x in cp[s]], "params": cp[s]}) + "\n")
            f.write(json.dumps({"ev": "decl", "side": "rust", "symbol": s, "arity": len(d["params"]), "shapes": [ffiscan.shape_rust(x) for x in d["params"]],
                                "params": d["params"], "file": d["file"]}) + "\n")
    c.extra["ffi"] = {"rust_declarations": len(rust), "c_prototypes_found": len(seen)}
    def describe(ev):
        s = ev["symbol"]
        return ("c14:ffi:" + s, "Rust declares %s(%s) in %s; C has (%s)" % (s, ", ".join(ev["params"]), ev.get("file"), ", ".join(cp.get(s, ["<no prototype>"]))))
    validate_trace(c, "FfiSig", "FfiSig.cfg", fpath, describe, max_rejects=20)
    c.assumptions += ["the FFI clause is extraction + agreement: a text scan of extern \"C\" items and C prototypes (incl. the WRAP_ macro) is the trusted part; "
                      "parameter types are compared by arity and pointer/value shape",
                      "Bitcoin family: codes, names and type names only (roots and costs are unimplemented at this revision)"]
    c.finish_kw = dict(exhaustive=True, rule=(
        "all 368 Core, 471 Elements and 428 Bitcoin jets: table rows extracted from the working tree are the constants of "
        "JetTable.tla (prefix automaton explored by TLC; round trips, widths, Core-in-Elements, Rust row = C row through the one-jet "
        "expression in libsimplicity); every bit string up to %d bits through each decoder; all %d extern declarations against the C prototypes" % (n, len(rust))))

def table_diagnosis(rows):
    rust = {(r["family"], r["name"]): r for r in rows if "side" not in r}
    msgs = []
    for r in rows:
        if "side" in r:
            x = rust.get(("elements", r["name"]))
            if x is None: msgs.append("C row %s has no Rust row" % r["name"]); continue
            for k in ("cmr", "src_tmr", "tgt_tmr", "src_width", "tgt_width", "cost"):
                if r[k] != x[k]: msgs.append("%s: %s Rust %s / C %s" % (r["name"], k, x[k], r[k]))
            if r["err"] != 0: msgs.append("%s: C error %s at %s" % (r["name"], r["err"], r["stage"]))
        else:
            if not (r["decode_ok"] and r["parse_ok"]): msgs.append("%s/%s: decode_ok=%s parse_ok=%s" % (r["family"], r["name"], r["decode_ok"], r["parse_ok"]))
            if r["src_width"] != r["src_final_width"] or r["tgt_width"] != r["tgt_final_width"]: msgs.append("%s/%s: type-name width differs" % (r["family"], r["name"]))
            if r["family"] == "core":
                e = rust.get(("elements", r["name"]))
                if e is None: msgs.append("core %s has no Elements namesake" % r["name"])
                elif e["code"] != [0] + r["code"] or e["src_tmr"] != r["src_tmr"] or e["tgt_tmr"] != r["tgt_tmr"]:
                    msgs.append("core %s differs from its Elements namesake" % r["name"])
    return "; ".join(msgs[:6]) or "see TLC output"

if __name__ == "__main__":
    main("C14", body)
