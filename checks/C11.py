import os, runpy
os.environ["VERIF_PROP"] = "C11"
runpy.run_path(os.path.join(os.path.dirname(__file__), "C10.py"), run_name="__main__")
