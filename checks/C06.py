"""C06 -- Rust and C evaluators reach the same verdict."""
import json, os
from vlib import *

def body(c):
    q = not c.thorough
    # design content: the machine/semantics model of C05 (same module); a reduced instance is model-checked here
    r = c.tlc_design("MC_BitMachine", "MC_BitMachine_c06.cfg", heap="16g", timeout=1800, workers=16)
    runs = 250 if q else 60000
    tpath = os.path.join(c.work, "trace.ndjson")
    c.vh(["c06", "record", runs, tpath], timeout=3000)
    evs = read_ndjson(tpath)
    from collections import Counter
    c.extra["verdict_pairs"] = {"%s/%s" % k: v for k, v in Counter((e["rust"], e["c"]) for e in evs).items()}
    c.extra["jets_exercised"] = len({n[5] for e in evs for n in e["dag"] if n[0] == "leaf"})
    def describe(ev):
        if ev["rust"] == "panic": return ("c06:panic", "Rust machine panicked: %s" % ev["msg"])
        if ev["c"] not in ("budget", "memory") and ev["rust"] != ev["c"]:
            return ("c06:verdict", "Rust %s, C %s (stage %s, code %s) in env %s on %s" % (ev["rust"], ev["c"], ev["c_stage"], ev["c_eval"], ev["env"], [n[:3] + n[5:] for n in ev["dag"]]))
        return ("c06:semantics", "verdict %s/%s is not the one the semantics dictates: %s" % (ev["rust"], ev["c"], [n[:3] + n[5:] for n in ev["dag"]]))
    validate_trace(c, "Trace_Verdict", "Trace_Verdict.cfg", tpath, describe, heap="8g")
    c.sample({"program": [n[:3] + n[5:] for n in evs[0]["dag"]], "env": evs[0]["env"], "rust": evs[0]["rust"], "c": evs[0]["c"]})
    c.assumptions += ["what introspection, hashing and signature jets compute is taken from the run (oracle pairs): only the C code defines it",
                      "environment family: the dummy transaction with varied lock time / sequence (C15's generator extends it)",
                      "C evaluator through the harness's own 9-parameter binding of evalTCOExpression with CHECK_NONE"]
    c.finish_kw = dict(exhaustive=False, rule=(
        "generated well-typed 1->1 Elements programs (all jets with types up to ~1000 bits as leaves, witnesses, assertions, "
        "disconnect) x an environment family: the semantics with the logged jet answers gives the verdict; Rust exec and C "
        "evalTCOExpression(CHECK_NONE) must both report it; design content model-checked on the BitMachine/Semantics modules"))

if __name__ == "__main__":
    main("C06", body)
