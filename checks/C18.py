"""C18 -- DAG iteration visits every node once, children first, with true indices."""
import json, os
from vlib import *

def body(c):
    q = not c.thorough
    # 1. design step: the iterator machines refine the declarative references, for every DAG shape,
    #    sharing labelling and algorithm within the bound; terminal states are emitted as replay cases
    r = c.tlc_design("MC_DagIter", "MC_DagIter_quick.cfg" if q else "MC_DagIter_thorough.cfg",
                     heap="12g", timeout=3000, coverage=True)
    cases = tla_to_json_lines(r.prints, "CASE")
    if not cases:
        raise ToolError("no replay cases emitted")
    c.extra["initial_states"] = r.initial
    if not q:
        r2 = c.tlc_design("MC_DagIter", "MC_DagIter_thorough6.cfg", heap="16g", timeout=3000, coverage=True)
        cases += tla_to_json_lines(r2.prints, "CASE")
    # 2. spec -> impl
    cpath = os.path.join(c.work, "cases.ndjson")
    with open(cpath, "w") as f:
        for x in cases:
            f.write(json.dumps(x) + "\n")
    _, out = c.vh(["c18", "replay", cpath])
    got = [json.loads(l) for l in out.split("\n") if l.strip()]
    if len(got) != len(cases):
        raise ToolError("replay returned %d results for %d cases" % (len(got), len(cases)))
    for case, g in zip(cases, got):
        c.evaluations += 1
        bad = [x for x in g["got"] if x != case["out"]]
        bads = [x for x in g["got_shared"] if x != case["shared"]]
        if bad or bads:
            what = "%s over dag=%s sid=%s md=%s: spec %s, crate %s" % (
                case["algo"], case["dag"], case["sid"], case["md"],
                case["out"] if bad else case["shared"], (bad or bads)[0])
            c.report("c18:%s" % case["algo"], what, {"dir": "spec->impl", "case": case, "got": g})
        else:
            c.traces += 1
    c.sample({"spec->impl case": cases[len(cases) // 2]})
    # 3. impl -> spec
    runs, maxn = (3000, 40) if q else (40000, 60)
    tpath = os.path.join(c.work, "trace.ndjson")
    c.vh(["c18", "record", runs, maxn, tpath])
    def describe(ev):
        return ("c18:%s" % ev["ev"], "%s on dag=%s sid=%s md=%s yielded %s" % (
            ev["ev"], ev["dag"], ev["sid"], ev["md"], str(ev["items"])[:300]))
    validate_trace(c, "Trace_DagIter", "Trace_DagIter.cfg", tpath, describe)
    with open(tpath) as f:
        c.sample({"impl->spec event": json.loads(f.readline())})
    c.assumptions += [
        "labellings are congruent (equal id => equal arity and children of equal id), as hash-based ids are",
        "the harness's DagLike/SharingTracker adaptors over index-addressed test nodes are faithful",
    ]
    c.finish_kw = dict(exhaustive=True, rule=(
        "TLC: every DAG shape with N<=%s nodes x {no,pointer,congruent-label sharing with id-less sets} x "
        "{post,rtl,pre,verbose-pre(max_depth)}; each terminal state replayed on src/dag.rs; plus %d random DAGs "
        "(<=%d nodes) recorded from the crate and validated by TLC against DagRef") % ("4" if q else "5 (6 for pointer/no sharing)", runs, maxn))

if __name__ == "__main__":
    main("C18", body)
