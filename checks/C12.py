"""C12 -- Redemption programs only ever carry well-typed witnesses."""
import json, os
from vlib import *

KNOWN = "c12:unchecked-construction-time-witness"

def judge(case, g):
    v = judge0(case, g)
    if v and not case["typed"] and case["route"] != "decode":
        # cause class of the recorded finding: a candidate value of the wrong type was supplied before
        # finalisation (at construction or through the human-readable witness map) and nothing checked it
        return (KNOWN, v[1])
    return v

KNOWN_PRUNE = "c12:pruned-types-not-principal"

# hand-made cases on the pruning route (well-typed witnesses): one witness w shared between the branch that runs and
# the branch that pruning hides; b decides the branch, w is only constrained (to 2) by the hidden one
def hand_cases():
    dag = [["witness", 0, 0], ["unit", 0, 0], ["pair", 1, 2], ["witness", 0, 0], ["unit", 0, 0], ["comp", 4, 5], ["drop", 6, 0], ["unit", 0, 0],
           ["pair", 4, 8], ["unit", 0, 0], ["take", 10, 0], ["unit", 0, 0], ["drop", 12, 0], ["case", 11, 13], ["comp", 9, 14], ["drop", 15, 0],
           ["case", 7, 16], ["comp", 3, 17]]
    two = ["+", ["1"], ["1"]]
    out = []
    for b in ("L", "R"):
        for w in ("L", "R"):
            cand = [[] for _ in dag]
            cand[0] = [two, [b, ["u"]]]
            cand[3] = [two, [w, ["u"]]]
            out.append({"dag": dag, "route": "construct_pruned", "arrows": [], "typed": True, "cand": cand, "hand": "witness shared with a hidden branch"})
    # a witness of type 2 + 2 inspected by a case whose two branches each read one arm: pruning hides one branch, the arm it
    # read shrinks to 1 while the sum keeps its width (1 + max(1, 0) = 2) -- the pruned witness must have the pruned type
    dag2 = [["witness", 0, 0], ["unit", 0, 0], ["pair", 1, 2], ["iden", 0, 0], ["unit", 0, 0], ["pair", 4, 5], ["unit", 0, 0], ["case", 7, 7],
            ["comp", 6, 8], ["take", 9, 0], ["case", 10, 10], ["comp", 3, 11]]
    for a in ("L", "R"):
        for b in ("L", "R"):
            cand = [[] for _ in dag2]
            cand[0] = [["+", two, two], [a, [b, ["u"]]]]
            out.append({"dag": dag2, "route": "construct_pruned", "arrows": [], "typed": True, "cand": cand, "hand": "sum keeps its width when one arm is pruned"})
    # unpopulated witnesses of zero-width types that are not the unit type (1 x 1, (1 x 1) x 1): finalisation must fill them with
    # a value of the node's type, on an executed node and on both finalisers
    for dag3 in ([["witness", 0, 0], ["unit", 0, 0], ["take", 2, 0], ["comp", 1, 3]],
                 [["witness", 0, 0], ["unit", 0, 0], ["drop", 2, 0], ["take", 3, 0], ["comp", 1, 4]],
                 [["witness", 0, 0], ["iden", 0, 0], ["unit", 0, 0], ["pair", 2, 3], ["unit", 0, 0], ["case", 5, 5], ["comp", 4, 6], ["comp", 1, 7]]):
        for route in ("construct_unpruned", "construct_pruned"):
            cand = [[] for _ in dag3]
            cand[0] = ["none"]
            out.append({"dag": dag3, "route": route, "arrows": [], "typed": True, "cand": cand, "hand": "unpopulated witness"})
    return out

def judge0(case, g):
    o = g["outcome"]
    if o == "harness":
        raise ToolError("harness could not drive the route: %s" % g.get("msg"))
    if o == "panic":
        return ("c12:panic:" + case["route"], "route %s panicked: %s" % (case["route"], g.get("msg")))
    if o == "error":
        return None
    ins = g["inspect"]
    if not ins["all_typed"]:
        bad = [w for w in ins["witnesses"] if not w["ok"]][0]
        fp = "c12:illtyped-witness:" + ("finalize" if case["route"] in ("construct_unpruned", "human_unpruned") else case["route"])
        return (fp, "route %s returned a program whose witness of type %s sits on a node with target %s" % (
            case["route"], bad["ty"], bad["target"]))
    for k in ("redecode", "exec", "prune"):
        if k == "redecode" and ins[k] != "ok" and ins.get("principal") is False and case["route"].endswith("_pruned"):
            # recorded finding (see C08): the pruned program keeps a type constraint of a hidden branch
            return (KNOWN_PRUNE, "program produced by %s does not decode from its own serialisation (%s): its arrows are not its own principal ones" % (case["route"], ins[k]))
        if ins[k].startswith("panic") or (k == "redecode" and ins[k] != "ok"):
            return ("c12:" + k, "program produced by %s: %s %s" % (case["route"], k, ins[k]))
    # the types of the produced program's witnesses are the inferred ones
    exp = [a[1] for nd, a in zip(case["dag"], case["arrows"]) if nd[0] == "witness"]
    got = [w["target"] for w in ins["witnesses"]]
    if case["arrows"] and case["route"].endswith("unpruned") and sorted(map(json.dumps, got)) != sorted(map(json.dumps, exp)):      # (hand cases carry no arrows)
        return ("c12:targets", "witness targets %s, spec %s" % (got, exp))
    return None

def body(c):
    r = c.tlc_design("WitnessFlow", "WitnessFlow.cfg", heap="8g", timeout=1200, coverage=True)
    cases = tla_to_json_lines(r.prints, "CASE") + hand_cases()
    cpath = os.path.join(c.work, "cases.ndjson")
    with open(cpath, "w") as f:
        for x in cases:
            f.write(json.dumps(x) + "\n")
    _, out = c.vh(["c12", "replay", cpath])
    got = [json.loads(l)["got"] for l in out.split("\n") if l.strip()]
    if len(got) != len(cases):
        raise ToolError("replay returned %d results for %d cases" % (len(got), len(cases)))
    from collections import Counter
    cnt = Counter()
    for case, g in zip(cases, got):
        c.evaluations += 1
        cnt[(case["route"], case["typed"], g["outcome"])] += 1
        v = judge(case, g)
        if v:
            c.report(v[0], "dag=%s cand=%s: %s" % (case["dag"], [x for x in case["cand"] if x], v[1]), {"case": case, "got": g})
        else:
            c.traces += 1
    c.extra["outcomes"] = {"%s typed=%s -> %s" % k: v for k, v in sorted(cnt.items())}
    c.sample({"case": {k: cases[7][k] for k in ("dag", "route", "cand", "typed")}})
    c.assumptions += ["program templates are fixed (six 1->1 programs covering unit, bit, product, padded-sum targets and an "
                      "unexecuted witness); candidates: right type and every wrong type of a pool (wider, narrower, same width, unit)",
                      "the value-list finaliser (SimpleFinalizer) is outside the claim"]
    c.finish_kw = dict(exhaustive=True, rule=(
        "TLC: templates x candidate values per witness node x 5 routes (construct+finalize_unpruned, construct+finalize_pruned, "
        "human witness map + both finalisers, decode), type-state invariant; every case driven through the real entry points: a "
        "produced program must have witnesses of exactly the inferred types, re-decode, execute and prune without panic"))

if __name__ == "__main__":
    main("C12", body)
