"""C17 -- Human-readable encoding round-trips."""
import json, os, subprocess
from collections import Counter
from vlib import *

def judge(case, g):
    t, p = g["text"], g["program"]
    if t["class"].startswith("parse"):
        return ("c17:source-rejected", "generated single-program source text did not parse: %s" % t.get("msg", "")[:200])
    if t.get("names") != case["names"]:
        return ("c17:names", "names after parsing %s, Human.tla AssignNames %s" % (t.get("names"), case["names"]))
    if t["class"] != "ok":
        return ("c17:text-" + t["class"], "render/reparse of the parsed text: %s %s" % (t["class"], (t.get("msg") or str(t.get("in")))[:200]))
    if t.get("toks") != case["toks"]:
        return ("c17:render", "rendered tokens differ from Human.tla Render/TextTok")
    if p["class"] != "ok":
        return ("c17:program-" + p["class"], "from_program render/reparse: %s %s" % (p["class"], (p.get("msg") or str(p.get("in")))[:200]))
    if p.get("toks") != case["ptoks"]:
        return ("c17:program-render", "from_program's rendered tokens differ from Human.tla ProgramForest/Render/TextTok")
    return None

def describe(ev):
    if ev["ev"] == "parse":
        return ("c17:parse-" + ev["class"].split(":")[0].replace(" ", "-"), "parse of %r: %s, %d ms, %d KiB" % (ev.get("src", "")[:120], ev["class"], ev["ms"], ev["peak_kb"]))
    if ev["reparse"] != "ok":
        return ("c17:reparse-" + ev["reparse"], "rendering does not read back: %s %s" % (ev["reparse"], ev.get("note", "")))
    if len(set(ev["names"])) != len(ev["names"]):
        return ("c17:names-clash", "two objects share a name: %s" % ev["names"])
    return ("c17:render-differs", "rendered tokens are not the ones Human.tla produces for this forest")

DEEP_SHAPES = {
    "paren-expr": lambda n: "main := " + "(" * n + "unit" + ")" * n,
    "unary-chain": lambda n: "main := comp (" + "injl " * n + "unit) unit",
    "binary-chain": lambda n: "main := " + "comp unit " * n + "unit",
    "paren-type": lambda n: "x : " + "(" * n + "1" + ")" * n + " -> 1\nx := unit\nmain := x",
    "cmr-expr": lambda n: "main := comp (pair (injl unit) unit) (" + "assertl unit #{" * n + "unit" + "}" * n + ")",
}

def body(c):
    q = not c.thorough
    # ---- design + spec -> impl
    cases, tcases = [], []
    for cfg in (("MC_Human_quick.cfg", "MC_Human_disc.cfg") if q else ("MC_Human_thorough.cfg", "MC_Human_disc.cfg")):
        r = c.tlc_design("MC_Human", cfg, heap="24g", timeout=3400, workers=16)
        cases += tla_to_json_lines(r.prints, "CASE")
        if cfg != "MC_Human_disc.cfg":
            tcases += tla_to_json_lines(r.prints, "TYPE")
    cpath = os.path.join(c.work, "cases.ndjson")
    with open(cpath, "w") as f:
        for x in cases:
            f.write(json.dumps(x) + "\n")
    _, out = c.vh(["c17", "replay", cpath], timeout=3400)
    got = [json.loads(l)["got"] for l in out.split("\n") if l.strip()]
    if len(got) != len(cases):
        raise ToolError("replay returned %d results for %d cases" % (len(got), len(cases)))
    cnt = Counter()
    for case, g in zip(cases, got):
        c.evaluations += 1
        cnt["own-name scope" if case["own"] else "plain"] += 1
        if case["clash"]: cnt["name-clash scope"] += 1
        v = judge(case, g)
        if v:
            c.report(v[0], "objects %s named %s: %s" % (case["dag"], case["user"], v[1]), {"dir": "spec->impl", "case": case, "got": g})
        else:
            c.traces += 1
    # the type syntax: every enumerated type as the type of a witness in a real program
    tpath0 = os.path.join(c.work, "types.ndjson")
    with open(tpath0, "w") as f:
        for x in tcases:
            f.write(json.dumps(x) + "\n")
    _, out = c.vh(["c17", "types", tpath0], timeout=3400)
    tgot = [json.loads(l)["got"] for l in out.split("\n") if l.strip()]
    if len(tgot) != len(tcases):
        raise ToolError("type replay returned %d results for %d cases" % (len(tgot), len(tcases)))
    for case, g in zip(tcases, tgot):
        c.evaluations += 1
        if g["class"].startswith("parse"):
            c.report("c17:type-source-rejected", "main := comp witness E_T for T = %s did not parse: %s" % (case["ty"], g.get("msg", "")[:200]), {"case": case, "got": g})
        elif not g.get("ty_ok"):
            c.report("c17:type-forcing", "harness defect? the witness of main := comp witness E_T does not have type T = %s" % case["ty"], {"case": case, "got": g})
        elif g.get("toks") != case["toks"]:
            c.report("c17:type-render", "type %s is rendered as %s, Human.tla TyTok gives %s" % (case["ty"], g.get("toks"), case["toks"]), {"case": case, "got": g})
        elif g["class"] != "ok":
            c.report("c17:type-" + g["class"], "a program with a node of type %s renders to text that does not read back: %s" % (case["ty"], (g.get("msg") or "")[:200]), {"case": case, "got": g})
        else:
            c.traces += 1
    cnt["types"] = len(tcases)
    c.extra["replayed"] = dict(cnt)
    c.sample({"dag": cases[len(cases) // 2]["dag"], "user_names": cases[len(cases) // 2]["user"], "names": cases[len(cases) // 2]["names"]})
    # ---- impl -> spec: recorded forests and parser calls
    runs = 1500 if q else 12000
    rec = os.path.join(c.work, "rec.ndjson")
    c.vh(["c17", "record", runs, rec], timeout=3000)
    tot = os.path.join(c.work, "tot.ndjson")
    c.vh(["c17", "totality", 4000 if q else 60000, tot], timeout=3000)
    tpath = os.path.join(c.work, "trace.ndjson")
    kinds = Counter()
    with open(tpath, "w") as f:
        for path in (rec, tot):
            for e in read_ndjson(path):
                if e["ev"] == "render":
                    d = e.pop("detail", None)
                    e.pop("src", None)
                    if d: e["note"] = (d.get("msg") or str(d.get("in")))[:300]
                    kinds["render"] += 1
                    for o in e["objs"]: kinds["op " + o[0]] += 1
                else:
                    e["src"] = e["src"][:200]
                    kinds["parse " + e["class"].split(":")[0]] += 1
                f.write(json.dumps(e) + "\n")
    validate_trace(c, "Trace_Human", "Trace_Human.cfg", tpath, describe, heap="6g", timeout=3000)
    c.extra["recorded"] = dict(kinds)
    # ---- parser totality on deeply nested inputs: one process per input, an abort is an outcome
    depths = [200, 2000, 30000] if q else [200, 1000, 2000, 30000, 100000]
    deep = Counter()
    for shape, mk in DEEP_SHAPES.items():
        for n in depths:
            p = os.path.join(c.work, "deep.txt")
            open(p, "w").write(mk(n))
            try:
                pr = subprocess.run([VH, "c17", "parse1", p], stdout=subprocess.PIPE, stderr=subprocess.PIPE, timeout=600)
            except subprocess.TimeoutExpired:
                c.report("c17:parser-timeout", "parse of %s nested %d deep did not finish in 600 s" % (shape, n), {"shape": shape, "depth": n})
                continue
            c.evaluations += 1
            if pr.returncode == 0:
                cls = json.loads(pr.stdout.decode())["class"]
                deep["%s: %s" % (shape, cls.split(":")[0])] += 1
                if cls not in ("ok", "error"):
                    c.report("c17:parse-panic", "parse of %s nested %d deep: %s" % (shape, n, cls), {"shape": shape, "depth": n})
                else:
                    c.traces += 1
            else:
                deep["%s: abort" % shape] += 1
                overflow = b"overflowed its stack" in pr.stderr
                fp = "c17:parser-recursion-overflow" if (overflow and n >= 5000) else "c17:parser-abort"
                c.report(fp, "parse of %s nested %d deep killed the process (exit %d%s)" % (shape, n, pr.returncode, ", stack overflow" if overflow else ""),
                         {"shape": shape, "depth": n, "stderr": pr.stderr.decode(errors="replace")[-300:]})
    c.extra["deep_inputs"] = dict(deep)
    c.assumptions += ["spec -> impl cases are Core-family programs; jets appear as leaves with their Display names",
                      "identity of objects in Human.tla = (combinator, payload, arrow, identities of children), which is what the IHR hashes; witness / disconnect and everything above them have none",
                      "source texts are single-program texts (one root, main) in which every witness and disconnect is reached along one path -- the parser rejects the others by design (WitnessDisconnectRepeated)",
                      "parser time/allocation bounds: 10 s + 1 ms/byte (wall clock on a loaded machine; a hang, not slowness, is what the bound is for), 4 MiB + 64 KiB/byte"]
    c.finish_kw = dict(exhaustive=True, rule=(
        "TLC: every well-typed program of <= %d objects over 14 combinators x every naming (inline / n<i> / namer-shaped ut<i>, cp<i>): "
        "names distinct, parse(tokens(render)) = forest, and each of the five pinned deviations fails exactly in its scope; every type of depth <= 2: "
        "ParseTy(TyTok(t)) = t; all emitted cases replayed (parse, names, rendered tokens, reparse, from_program); recorded random forests and parser calls validated by Trace_Human"
        % (4 if q else 5)))

if __name__ == "__main__":
    main("C17", body)
