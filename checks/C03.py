"""C03 -- Validity, Merkle roots and cost agree with libsimplicity."""
import json, os
from vlib import *

def judge(case, g):
    r, c = g["rust"], g["c"]
    if r["verdict"] == "panic": return ("c03:rust-panic", "Rust panicked: %s" % r.get("msg"))
    if c["verdict"] == "panic": return ("c03:c-panic", "C pipeline panicked: %s" % c.get("msg"))
    if r["verdict"] != c["verdict"]:
        if r["verdict"] == "accept" and r.get("has_fail"):
            return None                      # the designed exception
        return ("c03:verdict", "Rust %s (%s), C %s (stage %s, code %s)" % (r["verdict"], r.get("msg"), c["verdict"], c.get("stage"), c.get("err")))
    if r["verdict"] == "accept":
        for k in ("cmr", "amr", "ihr", "cost"):
            if r[k] != c[k]:
                return ("c03:" + k, "%s differs: Rust %s, C %s" % (k, r[k], c[k]))
    return None

def jets_file(c):
    """the crate's jet tables for the spec decoder (Codec.tla JetRows)"""
    p = os.path.join(c.work, "jets.ndjson")
    if not os.path.exists(p) or os.path.getmtime(p) < c.t0:
        c.vh(["c14", "table", p])
    return p

def body(c):
    q = not c.thorough
    tier = "quick" if q else "thorough"
    cases = []
    for mode in ("lists", "programs", "strings"):
        r = c.tlc_design("MC_Codec", "MC_Codec_%s_%s.cfg" % (mode, tier), heap="24g", timeout=3400, workers=16, env={"JETS": jets_file(c)})
        cs = tla_to_json_lines(r.prints, "CASE")
        for x in cs:
            if x["mode"] == "programs":
                cases.append({"pb": x["pb"], "wb": x["wb"], "redeem": "ok", "mode": "programs"})
            else:
                cases.append(x)
    cpath = os.path.join(c.work, "cases.ndjson")
    with open(cpath, "w") as f:
        for x in cases:
            f.write(json.dumps(x) + "\n")
    out = c.vh_abortable(["c03", "replay", cpath], "c03:abort", "running the specification's cases", timeout=3000)
    if out is None:
        c.finish_kw = dict(exhaustive=False, rule="the code under test killed the process on one of the specification's cases; the run ended there")
        return
    got = [json.loads(l)["got"] for l in out.split("\n") if l.strip()]
    if len(got) != len(cases):
        raise ToolError("replay returned %d results for %d cases" % (len(got), len(cases)))
    from collections import Counter
    cnt = Counter()
    for case, g in zip(cases, got):
        c.evaluations += 1
        cnt["rust %s / C %s%s" % (g["rust"]["verdict"], g["c"]["verdict"], " (fail node)" if g["rust"].get("has_fail") else "")] += 1
        v = judge(case, g)
        # the spec's verdict is the third observer (jet-free inputs)
        if not v and case["redeem"] != "skip" and (case["redeem"] == "ok") != (g["rust"]["verdict"] == "accept"):
            v = ("c03:spec-verdict", "spec decoder %s, Rust %s" % (case["redeem"], g["rust"]["verdict"]))
        if v:
            c.report(v[0], "program bits %s witness bits %s: %s" % (case["pb"][:96], case["wb"], v[1]), {"dir": "spec->impl", "case": case, "got": g})
        else:
            c.traces += 1
    c.extra["verdict_pairs"] = dict(cnt)
    acc = [x for x, g in zip(cases, got) if g["rust"]["verdict"] == "accept" and g["c"]["verdict"] == "accept"]
    c.sample({"accepted by both": acc[0] if acc else None})
    runs = 300 if q else 8000
    tpath = os.path.join(c.work, "trace.ndjson")
    if c.vh_abortable(["c03", "record", runs, tpath], "c03:abort", "running generated and mutated inputs", timeout=3000) is None:
        c.finish_kw = dict(exhaustive=False, rule="the code under test killed the process on a generated input; the run ended there")
        return
    evs = read_ndjson(tpath)
    by_id = {}
    for e in evs: by_id.setdefault(e["id"], {})[e["ev"]] = e
    def describe(ev):
        pair = by_id.get(ev.get("id"), {})
        if "rust" in pair and "c" in pair:
            v = judge(None, {"rust": pair["rust"]["r"], "c": pair["c"]["r"]})
            if v: return (v[0], v[1] + " on program bits %s" % str(pair["rust"]["pb"])[:120])
        return ("c03:trace", json.dumps(ev)[:400])
    validate_trace(c, "Agreement", "Agreement.cfg", tpath, describe, heap="8g", count_runs=False,
                   run_start=lambda ev: ev["ev"] == "rust")
    c.traces += len(by_id)
    c.extra["recorded_verdicts"] = dict(Counter("%s/%s" % (p["rust"]["r"]["verdict"], p["c"]["r"]["verdict"]) for p in by_id.values() if "c" in p))
    c.assumptions += ["C side = decodeMallocDag + mallocTypeInference + fillWitnessData + computeAnnotatedMerkleRoot + "
                      "verifyNoDuplicateIdentityHashes + analyseBounds (unbounded limits) + 1->1 check, through simplicity-sys test FFI",
                      "inputs stay far below libsimplicity's size limits",
                      "symbolic roots = Rust bytes is established by C09's interpreter; here Rust bytes = C bytes"]
    c.finish_kw = dict(exhaustive=True, rule=(
        "every TLC-made input of C01/C02 (all node lists up to 3 (4) entries x padding variants, all 2-byte strings, encodings of all "
        "small well-typed programs) decoded by Rust (Elements family) and by the C pipeline: same verdict (fail-node exception), "
        "bit-identical CMR/AMR/IHR and cost, spec verdict as third observer; encodings of generated Elements programs (jets, pruned, "
        "disconnect, witnesses) and their mutations recorded as observer pairs and validated by Agreement.tla (+ spec cost)"))

if __name__ == "__main__":
    main("C03", body)
