"""C20 -- Results are independent of threads and scheduling."""
import json, os
from collections import Counter
from vlib import *

def body(c):
    q = not c.thorough
    # ---- design: every interleaving of the shared-state model at the granularity of its atomic steps
    c.tlc_design("Threads", "Threads_quick.cfg" if q else "Threads_thorough.cfg", heap="24g", timeout=3400, workers=16)
    # the invariants are not vacuous: each named deviation breaks one of them
    for cfg, inv in (("Threads_dev_id.cfg", "NamesUnique"), ("Threads_dev_drop.cfg", "NoLeak"), ("Threads_dev_scratch.cfg", "NonInterference"),
                     ("Threads_dev_once.cfg", "NonInterference")):
        r = c.tlc("Threads", cfg, workers=16, heap="16g", timeout=1800)
        if r.ok or ("Invariant %s is violated" % inv) not in r.out:
            raise ToolError("deviation config %s does not violate %s: the invariant would be vacuous" % (cfg, inv))
        c.notes.append("%s violates %s as intended" % (cfg, inv))
    # ---- impl -> spec: rounds of real threads
    rec = os.path.join(c.work, "rec.ndjson")
    rounds, threads, ops = (6, 16, 60) if q else (60, 16, 200)
    rc, _ = c.vh(["c20", "record", rounds, threads, ops, rec], timeout=3400, check=False)
    if rc != 0:
        # the workload runs inside the harness process: if the code under test aborts it (stack overflow, double free),
        # that is an outcome of the property ("no panic, deadlock or cross-talk"), not a tool error
        c.report("c20:abort", "the multi-threaded workload killed the process (exit %d): %s" % (rc, c.last_stderr[-300:].strip()), {"exit": rc, "stderr": c.last_stderr[-600:]})
        c.assumptions += ["(run aborted)"]
        c.finish_kw = dict(exhaustive=False, rule="workload aborted")
        return
    ev = read_ndjson(rec)
    kinds = Counter(e["key"].split(":")[0] for e in ev if e["ev"] == "op")
    c.extra["operations_run_concurrently"] = dict(kinds)
    c.extra["rounds"] = sum(1 for e in ev if e["ev"] == "round")
    def describe(e):
        if e["ev"] == "stuck":
            return ("c20:stuck", "threads did not finish: %d of the round's threads ended, %d operations started" % (e["ended"], e["started"]))
        if e["ev"] == "op" and e["digest"].startswith("panic"):
            return ("c20:panic", "thread %d operation %s panicked: %s" % (e["t"], e["key"], e["digest"]))
        if e["ev"] == "op":
            return ("c20:interference", "thread %d, operation %d (%s): result differs from the sequential run, or a variable-name id was seen twice (ids %s)" % (e["t"], e["seq"], e["key"], e["ids"]))
        return ("c20:protocol", "event %s not explained by the model" % json.dumps(e)[:200])
    validate_trace(c, "Trace_Threads", "Trace_Threads.cfg", rec, describe, heap="6g", timeout=3000, count_runs=False,
                   run_start=lambda e: e["ev"] == "round")
    c.traces += c.extra["rounds"]
    c.sample({"threads": threads, "ops_per_thread": ops, "kinds": sorted(kinds)})
    c.assumptions += ["the OS scheduler is sampled, not controlled: TLC explores every schedule of the model, the harness runs %d rounds of %d threads" % (rounds, threads),
                      "each thread owns its inference contexts, environment and machines; programs, types, values, policies and texts are shared immutably",
                      "variable-name ids are observed through the text of type errors (the only place the crate shows them)",
                      "data races inside C jets or unsafe blocks would need a different technique; what is checked is that results do not change"]
    c.finish_kw = dict(exhaustive=True, rule=(
        "TLC: %s, every interleaving of lock / fetch-add / clone / drop / release steps: results equal the sequential ones, drawn names unique, "
        "reference counts memory-safe and leak-free, mutexes owned, termination under fairness; three deviation configs (non-atomic counter, drop on an observed count, static scratch buffer in a C jet) violate NamesUnique / NoLeak / NonInterference; "
        "recorded rounds of 16 OS threads x 11 operation kinds validated by Trace_Threads" % ("2 threads x <= 3 ops" if q else "3 threads x <= 2 ops")))

if __name__ == "__main__":
    main("C20", body)
