import os, runpy
os.environ["VERIF_PROP"] = "C07"
runpy.run_path(os.path.join(os.path.dirname(__file__), "C05.py"), run_name="__main__")
