---------------------------- MODULE MC_DagIter ----------------------------
EXTENDS DagIter, Json
CONSTANT EmitMod   \* emit a replay case for terminal states whose cheap hash is 0 mod EmitMod
MD_all == {0, 1, 2, -1}
MD_few == {1, -1}
Hash == (index + Len(out) * 7 + dag[N][1] * 3 + dag[N][2] * 5 + sid[N]) % EmitMod
\* case emission for spec -> impl replay (PrintT returns TRUE)
Emit ==
  (Done /\ Hash = 0) =>
     PrintT(<<"CASE", ToJson([algo |-> algo, md |-> md, dag |-> dag, sid |-> sid, out |-> out,
                              shared |-> IF algo = "post" THEN SharedAs(dag, sid) ELSE FALSE])>>)
=============================================================================
