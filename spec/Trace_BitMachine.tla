-------------------------- MODULE Trace_BitMachine --------------------------
(* impl -> spec for C05 / C07: one event per execution of a generated program on the real Bit Machine.
   The event carries the program as the crate typed it (dag, ty), the values it embeds (aux), the input,
   every tracker visit (node, input bits, output bits), the result, Rust's static bounds and the
   high-water marks of hook H1.  PROP selects which property's clauses are judged. *)
EXTENDS Semantics, Json, IOUtils
Rec == ndJsonDeserialize(IOEnv.TRACE)
PROP == IOEnv.PROP
JL == INSTANCE JetLib          \* what the arithmetic / logic / comparison jets compute
VARIABLE l
S(x) == ToString(x)
\* types and values travel with words compressed
RECURSIVE UzV(_)
UzV(v) == IF v[1] = "bits" THEN WordVal(v[2], v[3])
          ELSE IF v[1] \in {"L", "R"} THEN <<v[1], UzV(v[2])>>
          ELSE IF v[1] = "P" THEN <<"P", UzV(v[2]), UzV(v[3])>> ELSE v
Ty(e) == [i \in 1..Len(e.ty) |-> <<Uz(e.ty[i][1]), Uz(e.ty[i][2])>>]
Aux(e) == [i \in 1..Len(e.aux) |-> UzV(e.aux[i])]
IsJetLeaf(e, i) == e.dag[i][1] = "leaf" /\ e.dag[i][5] = "jet"
\* oracle: what the jets answered in this run
Orc(e, ty) ==
  LET js == SelectSeq(e.visits, LAMBDA x : IsJetLeaf(e, x.i)) IN
  [k \in 1..Len(js) |-> <<js[k].i, ReadPadded(js[k].in, 0, ty[js[k].i][1]).v,
                           IF S(js[k].out) = S("jetfailed") THEN <<"jetfailed">> ELSE ReadPadded(js[k].out, 0, ty[js[k].i][2]).v>>]
\* nodes for which the tracker is handed an output (the crate reports word constants as NonTerminal)
Terminal(e, i) == e.dag[i][1] \in {"iden", "unit", "witness"} \/ IsJetLeaf(e, i)
OkC05(e) ==
  LET ty == Ty(e)  aux == Aux(e)  orc == Orc(e, ty)
      inp == UzV(e.inp)
      r == EvalX(e.dag, aux, orc, Len(e.dag), inp) IN
  /\ WellTyped(e.dag, ty, FALSE)                                   \* the crate's arrows satisfy every typing rule
  /\ HasType(inp, ty[Len(e.dag)][1])
  /\ \A i \in 1..Len(e.dag) : e.dag[i][1] \in {"witness", "word"} => HasType(aux[i], ty[i][2])
  /\ r.why # "unknown"
  /\ e.res = (IF r.ok THEN "ok" ELSE r.why)                          \* success / failure class
  /\ r.ok => (S(UzV(e.out)) = S(r.v) /\ e.out_ty_ok /\ HasType(r.v, ty[Len(e.dag)][2]))
  /\ S([k \in 1..Len(e.visits) |-> e.visits[k].i]) = S(r.tr)        \* the executed path, in order
  /\ \A k \in 1..Len(e.visits) :                                     \* each visit: well-typed input, right output
       LET x == e.visits[k]  i == x.i
           vin == ReadPadded(x.in, 0, ty[i][1]) IN
       /\ Len(x.in) = W(ty[i][1]) /\ vin.ok
       /\ (Terminal(e, i) /\ S(x.out) # S("jetfailed")) =>
            LET q == EvalX(e.dag, aux, orc, i, vin.v) IN
            /\ S(x.out) # S("nonterminal") /\ Len(x.out) = W(ty[i][2])
            /\ q.ok /\ ReadPadded(x.out, 0, ty[i][2]).v = q.v
       /\ ~Terminal(e, i) => S(x.out) = S("nonterminal")
       \* a jet that JetLib specifies computed its specified function (the others enter as oracle answers)
       /\ (IsJetLeaf(e, i) /\ JL!JetKnownFlat(e.dag[i][6])) =>
            S(x.out) = (IF S(JL!JetOut(e.dag[i][6], x.in)) = S(JL!JetFails) THEN S("jetfailed") ELSE S(JL!JetOut(e.dag[i][6], x.in)))
  /\ e.same_with_dirty_memory                                        \* independent of memory contents
OkC07(e) ==
  LET ty == Ty(e) IN
  /\ e.res \notin {"panic", "limit"}
  /\ e.hw[1] <= e.io[1] + e.io[2] + e.bounds.cells
  /\ e.hw[2] <= e.bounds.frames + 2
  /\ e.cap >= e.io[1] + e.io[2] + e.bounds.cells
  \* note (not required by the property): Rust's bounds are the recursion of analysis.rs
  /\ e.bounds.cells = Cells(e.dag, ty, Len(e.dag)) /\ e.bounds.frames = Frames(e.dag, ty, Len(e.dag))
Ok(e) == CASE e.ev = "run" -> (IF PROP = "C05" THEN OkC05(e) ELSE OkC07(e))
           [] e.ev = "limit" -> (PROP = "C07" => (e.res = "limit" /\ e.peak_alloc < 100000000))
Init == l = 1
Next == l <= Len(Rec) /\ (Ok(Rec[l]) = TRUE) /\ l' = l + 1
Spec == Init /\ [][Next]_l
Accepted == IF TLCGet("stats").diameter - 1 = Len(Rec) THEN TRUE
            ELSE PrintT(<<"REJECTED", TLCGet("stats").diameter>>) /\ FALSE
=============================================================================
