--------------------------- MODULE Trace_DagIter ---------------------------
(* impl -> spec: every recorded run of the real iterators must equal the reference and satisfy
   the clauses of C18.  One event per line; accepted iff every line is consumed. *)
EXTENDS DagRef, Json, IOUtils
Rec == ndJsonDeserialize(IOEnv.TRACE)
VARIABLE l
Ok(e) ==
  CASE e.ev = "post" -> /\ e.items = PO(e.dag, e.sid, FALSE)
                        /\ PostOrderClauses(e.dag, e.sid, e.items)
                        /\ e.shared = SharedAs(e.dag, e.sid)
    [] e.ev = "rtl"  -> /\ e.items = PO(e.dag, e.sid, TRUE)
                        /\ PostOrderClauses(e.dag, e.sid, e.items)
    [] e.ev = "pre"  -> e.items = PRE(e.dag, e.sid)
    [] e.ev = "vpre" -> e.items = VPRE(e.dag, e.sid, e.md)
Init == l = 1
\* "= TRUE" makes TLC evaluate the guard as a plain expression (no successor branching on \E inside it)
Next == l <= Len(Rec) /\ (Ok(Rec[l]) = TRUE) /\ l' = l + 1
Spec == Init /\ [][Next]_l
Accepted == IF TLCGet("stats").diameter - 1 = Len(Rec) THEN TRUE
            ELSE PrintT(<<"REJECTED", TLCGet("stats").diameter>>) /\ FALSE
=============================================================================
