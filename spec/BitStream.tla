------------------------------ MODULE BitStream ------------------------------
(***************************************************************************)
(* L1 model of src/bit_encoding/{bitwriter,bititer}.rs and encode_natural: *)
(* the byte-cached bit writer and bit reader, as state machines, refined   *)
(* to an abstract bit string with a position.  Property C13.               *)
(*                                                                         *)
(* A behaviour is: a sequence of write operations, flush_all, a reader     *)
(* over the produced bytes (or directly a reader / bit window over given   *)
(* bytes), a sequence of read operations, and optionally close.            *)
(* Named deviation: the code at the pinned revision rounds the *end* of a  *)
(* bit window up to a byte boundary (BitIter::byte_slice_window); this     *)
(* machine implements the required behaviour (the window ends at `end`).   *)
(***************************************************************************)
EXTENDS BitCodes, TLC

CONSTANTS WriteOps,     \* set of write operations: <<"bit",b>>, <<"bits",n,len>>, <<"bytes",seq>>, <<"nat",n>>
          WriteDepth,   \* max number of write ops
          ReadOps,      \* subset of {"bit","u2","u8","nat","natb","close"}
          ReadDepth,    \* max number of read ops
          Inputs,       \* byte strings offered directly to a reader (with all windows if Windows)
          Windows       \* BOOLEAN

VARIABLES phase,        \* "write" | "read" | "done"
          w,            \* writer: [out, cache, cacheLen, written]
          wbits,        \* abstract: bits written so far
          r,            \* reader: [inp, cached, readBits, total, lim]
          B, pos,       \* abstract: logical bit string offered to the reader, position
          start,        \* descriptor of how the reader was created
          hist          \* operations and their observable results
vars == <<phase, w, wbits, r, B, pos, start, hist>>

W0 == [out |-> <<>>, cache |-> 0, cacheLen |-> 0, written |-> 0]
R0 == [inp |-> <<>>, cached |-> 0, readBits |-> 8, total |-> 0, lim |-> 0]

(* ------------------------------ writer ------------------------------ *)
\* BitWriter::write_bit
WBit(x, b) ==
  LET full == x.cacheLen = 8
      c0 == IF full THEN 0 ELSE x.cache
      l0 == IF full THEN 0 ELSE x.cacheLen
  IN [out |-> IF full THEN Append(x.out, x.cache) ELSE x.out,
      cache |-> c0 + b * Pow2(8 - (l0 + 1)),
      cacheLen |-> l0 + 1,
      written |-> x.written + 1]
RECURSIVE WBits(_, _)
WBits(x, bits) == IF bits = <<>> THEN x ELSE WBits(WBit(x, Head(bits)), Tail(bits))
\* write_bits_be(n, len): the len least significant bits of n, MSB first
BitsBE(n, len) == [i \in 1..len |-> (n \div Pow2(len - i)) % 2]
\* encode_natural: unary part while pushing (n, len) on a stack, then the suffixes innermost first
RECURSIVE NatPrefix(_, _)
NatPrefix(n, stack) ==   \* returns <<prefix bits, stack>>
  LET len == Len(Bin(n)) - 1 IN
  IF len = 0 THEN <<<<0>>, stack>>
  ELSE LET rest == NatPrefix(len, <<<<n, len>>>> \o stack) IN <<<<1>> \o rest[1], rest[2]>>
RECURSIVE NatSuffix(_)
NatSuffix(stack) == IF stack = <<>> THEN <<>> ELSE BitsBE(Head(stack)[1], Head(stack)[2]) \o NatSuffix(Tail(stack))
EncodeNaturalBits(n) == LET p == NatPrefix(n, <<>>) IN p[1] \o NatSuffix(p[2])

OpBits(op) == CASE op[1] = "bit"   -> <<op[2]>>
                [] op[1] = "bits"  -> BitsBE(op[2], op[3])
                [] op[1] = "bytes" -> BitsOfBytes(op[2])
                [] op[1] = "nat"   -> EncodeNaturalBits(op[2])

Write(op) ==
  /\ phase = "write" /\ Len(hist) < WriteDepth
  /\ w' = WBits(w, OpBits(op))
  /\ wbits' = wbits \o OpBits(op)
  /\ hist' = Append(hist, [op |-> op, written |-> w'.written])
  /\ UNCHANGED <<phase, r, B, pos, start>>

\* flush_all, then hand the bytes to a fresh reader (BitIter::from)
FlushAndRead ==
  /\ phase = "write"
  /\ LET out == IF w.cacheLen > 0 THEN Append(w.out, w.cache) ELSE w.out IN
     /\ w' = [w EXCEPT !.out = out, !.cache = 0, !.cacheLen = 0]
     /\ r' = [R0 EXCEPT !.inp = out, !.lim = 8 * Len(out)]
     /\ B' = BitsOfBytes(out)
     /\ start' = [kind |-> "written", bytes |-> out, s |-> 0, e |-> 8 * Len(out)]
     /\ hist' = Append(hist, [op |-> <<"flush">>, written |-> w.written])
  /\ pos' = 0 /\ phase' = "read"
  /\ UNCHANGED wbits

(* ------------------------------ reader ------------------------------ *)
\* Iterator::next
RNext(x) ==   \* returns <<x', bit or -1>>
  IF x.lim = 0 THEN <<x, -1>>
  ELSE IF x.readBits < 8
       THEN <<[x EXCEPT !.readBits = @ + 1, !.total = @ + 1, !.lim = @ - 1], (x.cached \div Pow2(8 - (x.readBits + 1))) % 2>>
       ELSE IF x.inp = <<>> THEN <<x, -1>>
            ELSE <<[x EXCEPT !.cached = Head(x.inp), !.inp = Tail(x.inp), !.readBits = 1, !.total = @ + 1, !.lim = @ - 1],
                   Head(x.inp) \div 128>>
RECURSIVE RSkip(_, _)
RSkip(x, n) == IF n = 0 THEN x ELSE RSkip(RNext(x)[1], n - 1)
\* the bits the reader can still deliver
RECURSIVE RRemaining(_)
RRemaining(x) == LET nx == RNext(x) IN IF nx[2] = -1 THEN <<>> ELSE <<nx[2]>> \o RRemaining(nx[1])
\* read_u8: needs a whole further byte from the underlying iterator
RU8(x) ==
  IF x.inp = <<>> \/ x.lim < 8 THEN <<x, -1>>
  ELSE LET nb == Head(x.inp)
           hi == IF x.readBits >= 8 THEN 0 ELSE (x.cached * Pow2(x.readBits)) % 256
           lo == nb \div Pow2(8 - x.readBits)
       IN <<[x EXCEPT !.cached = nb, !.inp = Tail(x.inp), !.total = @ + 8, !.lim = @ - 8], hi + lo>>

Rem == SubSeq(B, pos + 1, Len(B))
NatArgs(op) == IF op = "natb" THEN <<8, Bin(2)>> ELSE <<32, <<>>>>

\* results as seen through the public API; -1 = EarlyEndOfStream
Read(op) ==
  /\ phase = "read" /\ op \in ReadOps \ {"close"}
  /\ Len(SelectSeq(hist, LAMBDA h : h.op[1] \in ReadOps)) < ReadDepth
  /\ LET res ==
       CASE op = "bit" -> LET n == RNext(r) IN <<n[1], n[2]>>
         [] op = "u2"  -> LET a == RNext(r)  b == RNext(a[1]) IN
                          <<b[1], IF a[2] = -1 \/ b[2] = -1 THEN -1 ELSE 2 * a[2] + b[2]>>
         [] op = "u8"  -> RU8(r)
         [] op \in {"nat", "natb"} ->
                LET d == DecB(RRemaining(r), NatArgs(op)[1], NatArgs(op)[2]) IN
                <<RSkip(r, d.used), IF d.ok THEN d.val ELSE d.err>>
         \* abstract effect on (B, pos)
         abs == AbsRead(B, pos, op, NatArgs(op)[1], NatArgs(op)[2])
     IN /\ r' = res[1]
        /\ pos' = abs[1]
        \* the recorded result is the abstract one (what the property demands)
        /\ hist' = Append(hist, [op |-> <<op>>, res |-> abs[2], total |-> abs[1],
                                 l1res |-> res[2]])
  /\ UNCHANGED <<phase, w, wbits, B, start>>

\* close: only zero padding may remain (not offered on windows, whose last byte holds foreign bits)
Close ==
  /\ phase = "read" /\ "close" \in ReadOps /\ start.kind # "window"
  /\ LET nBits == 8 - r.readBits
         l1 == IF r.inp # <<>> THEN "trailing"
               ELSE IF (r.cached % Pow2(nBits)) # 0 THEN "padding" ELSE "ok"
         abs == AbsClose(B, pos)
     IN hist' = Append(hist, [op |-> <<"close">>, res |-> abs, total |-> pos, l1res |-> l1])
  /\ phase' = "done"
  /\ UNCHANGED <<w, wbits, r, B, pos, start>>

Stop == phase = "read" /\ phase' = "done" /\ UNCHANGED <<w, wbits, r, B, pos, start, hist>>

\* direct readers: BitIter::from(bytes) and BitIter::byte_slice_window(bytes, s, e)
InitRead(bytes, s, e, kind) ==
  LET sl == SubSeq(bytes, s \div 8 + 1, (e + 7) \div 8)
      rb == s % 8 IN
  /\ phase = "read" /\ w = W0 /\ wbits = <<>> /\ hist = <<>> /\ pos = 0
  /\ B = SubSeq(BitsOfBytes(bytes), s + 1, e)
  /\ start = [kind |-> kind, bytes |-> bytes, s |-> s, e |-> e]
  /\ r = IF rb = 0 THEN [R0 EXCEPT !.inp = sl, !.lim = e - s]
         ELSE [inp |-> Tail(sl), cached |-> Head(sl), readBits |-> rb, total |-> 0, lim |-> e - s]

Init ==
  \/ /\ phase = "write" /\ w = W0 /\ wbits = <<>> /\ r = R0 /\ B = <<>> /\ pos = 0 /\ hist = <<>>
     /\ start = [kind |-> "none", bytes |-> <<>>, s |-> 0, e |-> 0]
     /\ WriteDepth > 0
  \/ \E bytes \in Inputs : InitRead(bytes, 0, 8 * Len(bytes), "from")
  \/ /\ Windows
     /\ \E bytes \in Inputs : \E s \in 0..(8 * Len(bytes)) : \E e \in s..(8 * Len(bytes)) :
          (s % 8 # 0 => s < e) /\ InitRead(bytes, s, e, "window")

Next == (\E op \in WriteOps : Write(op)) \/ FlushAndRead \/ (\E op \in ReadOps : Read(op)) \/ Close \/ Stop
Spec == Init /\ [][Next]_vars

(* ------------------------------ invariants ------------------------------ *)
\* writer refinement: bytes out + cached bits = the abstract bit string; counters agree; cache tail is zero
WriterInv ==
  phase = "write" =>
    /\ BitsOfBytes(w.out) \o SubSeq(ByteBits(w.cache), 1, w.cacheLen) = wbits
    /\ w.written = Len(wbits)
    /\ w.cacheLen \in 0..8
    /\ \A i \in (w.cacheLen + 1)..8 : ByteBits(w.cache)[i] = 0
\* after flush_all the bytes are the zero-padded packing of everything written
FlushInv == (phase # "write" /\ start.kind = "written") => start.bytes = PackBytes(wbits) /\ w.written = Len(wbits)
\* reader refinement: what the machine can still deliver is exactly the abstract remainder; counter = position
ReaderInv ==
  phase = "read" =>
    /\ RRemaining(r) = Rem
    /\ r.total = pos
    /\ r.readBits \in 0..8
\* every L1 result equals the abstract result
ResultInv == \A k \in 1..Len(hist) : ("l1res" \in DOMAIN hist[k]) => hist[k].l1res = hist[k].res
\* reading back what was written returns the same bits (padding excluded)
ReadBackInv == (phase # "write" /\ start.kind = "written") => SubSeq(B, 1, Len(wbits)) = wbits
Done == phase = "done"
=============================================================================
