SPECIFICATION Spec
CONSTANT JetRows <- CoreJets
CONSTANT CmrN = 8
CONSTANT Mode = "programs"
CONSTANT N = 4
CONSTANT Bytes = 2
CONSTANT EmitMod = 1
CONSTANT ProgOps <- Ops_c01
INVARIANT Canonical
INVARIANT Rules
INVARIANT RoundTrip
INVARIANT Emit
CHECK_DEADLOCK FALSE
