----------------------------- MODULE Trace_Codec -----------------------------
(* impl -> spec for C01 and C02.
   "c01":    a generated program of the crate, its serialisation, the result of decoding and re-encoding it
             (redemption and commitment time).  The spec encoder must explain the crate's bytes and the
             spec decoder must accept them (with the jet table of the program's family) and re-encode them identically.
   "decode": an arbitrary / mutated byte string offered to every decoder of the crate, with outcome class,
             re-encoding equality, peak allocation and time.  Clauses of C02, and the spec decoder's verdict
             (jet-free inputs): what the crate accepts the spec accepts. *)
EXTENDS Codec, Json, IOUtils, TLC
Rec == ndJsonDeserialize(IOEnv.TRACE)
\* the Core family's jet table (overrides Codec!JetRows): the spec decoder gives a verdict for Core programs with jets
\* (read once into a TLC register: a definition over IOEnv would be re-evaluated, i.e. the file re-read, at every use)
ASSUME TLCSet(7, SelectSeq(ndJsonDeserialize(IOEnv.JETS), LAMBDA r : "side" \notin DOMAIN r /\ r.family = "core"))
ASSUME TLCSet(8, SelectSeq(ndJsonDeserialize(IOEnv.JETS), LAMBDA r : "side" \notin DOMAIN r /\ r.family = "elements"))
ASSUME TLCSet(9, "core")
\* register 9 holds the family of the event being judged (trace validation runs with one worker)
CoreJets == IF TLCGet(9) = "elements" THEN TLCGet(8) ELSE TLCGet(7)
VARIABLE l
AllocC0 == 50331648
AllocK == 65536
MsMax == 20000
S(x) == ToString(x)
RECURSIVE UzV(_)
UzV(v) == IF v[1] = "bits" THEN WordVal(v[2], v[3])
          ELSE IF v[1] \in {"L", "R"} THEN <<v[1], UzV(v[2])>>
          ELSE IF v[1] = "P" THEN <<"P", UzV(v[2]), UzV(v[3])>> ELSE v
TyOf(t) == [i \in 1..Len(t) |-> <<Uz(t[i][1]), Uz(t[i][2])>>]
WitOf(w) == [i \in 1..Len(w) |-> UzV(w[i])]
\* program-level nodes as logged -> the spec's program nodes (types of leaves decompressed lazily by Typing!Rule)
(* Commitment time and branches attached to a disconnect.  A program constructed with a branch attached to a disconnect is
   finalised to a commitment-time program that drops the branch but keeps the types the branch forced; its bytes need
   not decode (sub-expressions that differ only in such types are serialised twice, the decoder infers afresh and finds
   them equal: "maximal sharing").  The library documents attached branches as not supported at commitment time and the
   properties leave that case open (C02 says so explicitly; C01 asks for the same types at every node, which no decoder
   can deliver once the branch is gone), so for such programs the clause is totality plus the root when decoding succeeds. *)
Attached(e) == \E i \in 1..Len(e.cdag) : e.cdag[i][1] = "disc" /\ e.cdag[i][3] # 0
(* C01 also restricts the commitment-time clause to programs in which sub-expressions containing witness or disconnect
   nodes occur once ("the library treats them as unique there"): a construction DAG that uses such a sub-expression
   twice is serialised by object identity and need not decode.  WdFlags: per node, does it contain a witness or a
   disconnect (children come before parents in the construction order). *)
RECURSIVE WdFlags(_, _)
WdFlags(d, i) == IF i = 0 THEN <<>>
                 ELSE LET f == WdFlags(d, i - 1) IN
                      Append(f, d[i][1] \in {"witness", "disc"} \/ (d[i][2] # 0 /\ f[d[i][2]]) \/ (d[i][3] # 0 /\ f[d[i][3]]))
Uses(d, i) == Cardinality({j \in 1..Len(d) : d[j][2] = i}) + Cardinality({j \in 1..Len(d) : d[j][3] = i})
WitnessPartsOnce(e) == \A f \in {WdFlags(e.cdag, Len(e.cdag))} : \A i \in 1..Len(e.cdag) : f[i] => Uses(e.cdag, i) <= 1
ClausesC01(e) ==
  LET d == e.dag  t == TyOf(e.ty)  w == WitOf(e.wit)
      rd == e.rt.redeem IN
  <<
   \* 1: the crate's own round trip at redemption time
   rd.res = "ok" /\ rd.same_bytes /\ rd.same_nodes /\ rd.same_root,
   \* 2: and at commitment time (without attached branches, witness parts used once; otherwise: an answer, and the same root if it is a program)
   IF Attached(e) \/ ~WitnessPartsOnce(e) THEN e.commit.out \in {"ok", "err"} /\ (e.commit.out = "ok" => e.commit.same_cmr)
   ELSE e.commit.out = "ok" /\ e.commit.same_cmr /\ (e.commit.attached \/ e.commit.reenc_prog),
   \* 3: the crate's arrows are a typing of the program
   WellTyped(d, t, TRUE),
   \* 4: the spec encoder explains the crate's bytes
   EncodeRedeemBits(d, t, w) = e.rt.pb /\ EncodeWitnessBits(d, t, w) = e.rt.wb,
   \* 5: the spec decoder accepts them and re-encodes them identically (with the jet table of the program's family)
   TLCSet(9, e.family) /\ LET r == DecodeRedeem(e.rt.pb, e.rt.wb) IN
                 r.ok /\ EncodeRedeemBits(r.dag, r.ty, r.wit) = e.rt.pb /\ EncodeWitnessBits(r.dag, r.ty, r.wit) = e.rt.wb
  >>
DecOk(name, r, n) ==
  /\ r.out \in {"ok", "err"}
  /\ r.peak <= AllocC0 + AllocK * n /\ r.ms <= MsMax
  /\ r.out = "ok" => /\ ("reenc" \notin DOMAIN r)
                     /\ (name = "redeem" => r.reenc_prog /\ r.reenc_wit)
                     /\ (name = "commit" => r.attached \/ r.reenc_prog)
ClausesDecode(e) ==
  LET g == e.got  n == e.nbytes
      sr == DecodeRedeem(e.pb, e.wb)
      sc == DecodeCommit(e.pb)
      sre == DecodeRedeem(e.pb, e.wb)        \* evaluated (lazily) after register 9 is switched to "elements"
      sce == DecodeCommit(e.pb) IN
  <<
   TLCSet(9, "core"),
   DecOk("redeem", g.redeem_core, n), DecOk("redeem", g.redeem_elements, n),
   DecOk("commit", g.commit_core, n), DecOk("commit", g.commit_elements, n), DecOk("construct", g.construct_core, n),
   \* 6-7: an input the crate accepts is one the spec decoder accepts (or contains jets)
   g.redeem_core.out = "ok" => (sr.ok \/ sr.why = "skip"),
   \* (commitment time: only for inputs without a branch attached to a disconnect -- the crate's decoder discards such a
   \*  branch before it looks at sharing, the property leaves what it accepts there open; see DESIGN 10.5)
   (g.commit_core.out = "ok" /\ ~g.commit_core.attached) => (sc.ok \/ sc.why = "skip"),
   \* 8-10: the same for the Elements family's decoders, with the Elements jet table
   TLCSet(9, "elements"),
   g.redeem_elements.out = "ok" => sre.ok,
   (g.commit_elements.out = "ok" /\ ~g.commit_elements.attached) => sce.ok
  >>
Clauses(e) == IF e.ev = "c01" THEN ClausesC01(e) ELSE ClausesDecode(e)
AllTrue(cl) == \A k \in 1..Len(cl) : cl[k]
Init == l = 1
Next == l <= Len(Rec) /\ (AllTrue(Clauses(Rec[l])) = TRUE) /\ l' = l + 1
Spec == Init /\ [][Next]_l
Accepted == IF TLCGet("stats").diameter - 1 = Len(Rec) THEN TRUE
            ELSE /\ PrintT(<<"REJECTED", TLCGet("stats").diameter>>)
                 /\ PrintT(<<"DIAG", Clauses(Rec[TLCGet("stats").diameter])>>)
                 /\ FALSE
=============================================================================
