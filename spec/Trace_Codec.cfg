SPECIFICATION Spec
CONSTANT JetRows <- CoreJets
CONSTANT CmrN = 8
POSTCONDITION Accepted
CHECK_DEADLOCK FALSE
