------------------------------- MODULE Display -------------------------------
(***************************************************************************)
(* The textual forms of a program outside the human-readable encoding      *)
(* (src/node/display.rs; no listed property speaks about them, so nothing  *)
(* here can fail a registered check -- bin/spec-extras validates it):      *)
(*   Base64(bits)   the program bytes as RFC 4648 base64 with padding      *)
(*   Hex(bits)      the witness bytes as lower-case hex                    *)
(*   Expr(d, i)     DisplayExpr: the expression as one line without        *)
(*                  sharing -- `s; t` for comp, `s & t` for pair, `false`  *)
(*                  / `true` for injl unit / injr unit, and O / I / H for  *)
(*                  take / drop / iden in chains that end in iden.         *)
(* Expr transcribes the code including two quirks: a case at the root is   *)
(* printed as `case s) (t` (the opening parenthesis is only written for    *)
(* nodes that have a parent, the separator always), and a disconnect with  *)
(* an attached branch prints its two children without a separator (in a    *)
(* debug build a debug_assert fires there instead).                        *)
(***************************************************************************)
EXTENDS Integers, Sequences, TLC
Alphabet == "ABCDEFGHIJKLMNOPQRSTUVWXYZabcdefghijklmnopqrstuvwxyz0123456789+/"
HexDigits == "0123456789abcdef"
Val6(b, from, n) == LET RECURSIVE V(_) V(k) == IF k = 0 THEN 0 ELSE 2 * V(k - 1) + b[from + k - 1] IN V(n)
Ch(str, k) == SubSeq(str, k + 1, k + 1)
RECURSIVE B64From(_, _)
B64From(b, p) ==        \* b: whole bytes; p: bits consumed
  LET rest == Len(b) - p IN
  IF rest = 0 THEN ""
  ELSE IF rest >= 24 THEN Ch(Alphabet, Val6(b, p + 1, 6)) \o Ch(Alphabet, Val6(b, p + 7, 6)) \o Ch(Alphabet, Val6(b, p + 13, 6))
                          \o Ch(Alphabet, Val6(b, p + 19, 6)) \o B64From(b, p + 24)
  ELSE IF rest = 16 THEN Ch(Alphabet, Val6(b, p + 1, 6)) \o Ch(Alphabet, Val6(b, p + 7, 6)) \o Ch(Alphabet, 4 * Val6(b, p + 13, 4)) \o "="
  ELSE Ch(Alphabet, Val6(b, p + 1, 6)) \o Ch(Alphabet, 16 * Val6(b, p + 7, 2)) \o "=="                                     \* one byte left
Base64(b) == B64From(b, 0)
RECURSIVE HexFrom(_, _)
HexFrom(b, p) == IF p >= Len(b) THEN "" ELSE Ch(HexDigits, Val6(b, p + 1, 4)) \o HexFrom(b, p + 4)
Hex(b) == HexFrom(b, 0)

(* d: program nodes <<op, left, right, ...>> with op in iden unit injl injr take drop comp case pair assertl assertr disc
   disc1 witness fail; the right child of assertl / assertr / disc1 is 0 *)
Binary(nd) == nd[1] \in {"comp", "case", "pair", "disc"}
RECURSIVE Pure(_, _)
Pure(d, i) == CASE d[i][1] = "iden" -> TRUE
                [] d[i][1] \in {"take", "drop"} -> Pure(d, d[i][2])
                [] OTHER -> FALSE
RECURSIVE Expr2(_, _, _)
Expr2(d, i, parent) ==       \* parent: the operator of the parent node, "" at the root
  LET nd == d[i]
      op == nd[1]
      head == CASE op = "iden" -> IF parent \in {"take", "drop"} THEN "H" ELSE "iden"
                [] op = "take" -> IF Pure(d, nd[2]) THEN "O" ELSE "take "
                [] op = "drop" -> IF Pure(d, nd[2]) THEN "I" ELSE "drop "
                [] op = "unit" -> IF parent \in {"injl", "injr"} THEN "" ELSE "unit"
                [] op = "injl" -> IF d[nd[2]][1] = "unit" THEN "false" ELSE "injl "
                [] op = "injr" -> IF d[nd[2]][1] = "unit" THEN "true" ELSE "injr "
                [] op \in {"comp", "pair"} -> ""
                [] op = "case" -> "case "
                [] op = "assertl" -> "assertl "
                [] op = "assertr" -> "assertr "
                [] op \in {"disc", "disc1"} -> "disconnect "
                [] op = "witness" -> "witness "
                [] op = "fail" -> "fail"
      open == IF Binary(nd) /\ parent # "" THEN "(" ELSE ""
      sep == CASE op = "comp" -> "; " [] op = "pair" -> " & " [] op = "case" -> ") (" [] OTHER -> ""
      close == IF Binary(nd) /\ parent # "" THEN ")" ELSE ""
  IN head \o open
     \o (IF nd[2] # 0 THEN Expr2(d, nd[2], op) ELSE "")
     \o (IF Binary(nd) THEN sep \o Expr2(d, nd[3], op) \o close ELSE "")
Expr(d, i) == Expr2(d, i, "")

(***************************************************************************)
(* Text of types and values (src/types/final_data.rs, src/value.rs,        *)
(* src/types/arrow.rs).  Types and values in the nested-tuple form of      *)
(* SimplicityCore.  The crate writes the product sign U+00D7, the arrow    *)
(* U+2192 and the empty value U+03B5; the recorder transliterates them to  *)
(* "*", "->" and "E" (after checking that the text contains none of those  *)
(* already), which is what the operators below produce.                    *)
(*   TyText(t)        Final's Display: 1, 2, 2^n for word types, A? for    *)
(*                    1 + A, infix + and * with parentheses everywhere but *)
(*                    at the root                                          *)
(*   ArrowText(a, b)  FinalArrow's Display                                 *)
(*   ValText(v, t)    Value's Display: E for every unit, 0b / 0x literals  *)
(*                    for values of word types (the padded bits, four per  *)
(*                    hex digit), L(..) R(..) (..,..) otherwise            *)
(*   WordText(bits)   Word's Display: 0x for whole bytes, 0b otherwise     *)
(***************************************************************************)
TOne == <<"1">>
TTwo == <<"+", TOne, TOne>>
RECURSIVE WordN(_)
WordN(t) == IF t = TTwo THEN 0
            ELSE IF t[1] = "*" /\ t[2] = t[3] THEN (LET k == WordN(t[2]) IN IF k >= 0 THEN k + 1 ELSE -1)
            ELSE -1
RECURSIVE TyText2(_, _)
TyText2(t, top) ==
  LET n == IF t[1] = "1" THEN -1 ELSE WordN(t)
      open == IF top THEN "" ELSE "("
      close == IF top THEN "" ELSE ")"
  IN CASE t[1] = "1" -> "1"
       [] n = 0 -> "2"
       [] n > 0 -> "2^" \o ToString(2 ^ n)
       [] t[1] = "+" /\ t[2] = TOne -> TyText2(t[3], FALSE) \o "?"
       [] t[1] = "+" -> open \o TyText2(t[2], FALSE) \o " + " \o TyText2(t[3], FALSE) \o close
       [] OTHER -> open \o TyText2(t[2], FALSE) \o " * " \o TyText2(t[3], FALSE) \o close
TyText(t) == TyText2(t, TRUE)
ArrowText(a, b) == TyText(a) \o " -> " \o TyText(b)

RECURSIVE WordBits(_, _)         \* the bits of a value of the word type 2^(2^n)
WordBits(v, n) == IF n = 0 THEN (IF v[1] = "L" THEN <<0>> ELSE <<1>>) ELSE WordBits(v[2], n - 1) \o WordBits(v[3], n - 1)
RECURSIVE BinFrom(_, _)
BinFrom(b, p) == IF p >= Len(b) THEN "" ELSE (IF b[p + 1] = 1 THEN "1" ELSE "0") \o BinFrom(b, p + 1)
RECURSIVE ValText(_, _)
ValText(v, t) ==
  LET n == IF t[1] = "1" THEN -1 ELSE WordN(t) IN
  CASE t[1] = "1" -> "E"
    [] n \in {0, 1} -> "0b" \o BinFrom(WordBits(v, n), 0)
    [] n >= 2 -> "0x" \o Hex(WordBits(v, n))
    [] v[1] = "L" -> "L(" \o ValText(v[2], t[2]) \o ")"
    [] v[1] = "R" -> "R(" \o ValText(v[2], t[3]) \o ")"
    [] OTHER -> "(" \o ValText(v[2], t[2]) \o "," \o ValText(v[3], t[3]) \o ")"
WordText(bits) == IF Len(bits) % 8 = 0 THEN "0x" \o Hex(bits) ELSE "0b" \o BinFrom(bits, 0)

ASSUME TyText(<<"+", TOne, <<"*", TTwo, TTwo>>>>) = "2^2?"
ASSUME TyText(<<"*", <<"+", TTwo, TOne>>, <<"+", TOne, <<"+", TOne, TTwo>>>>>>) = "(2 + 1) * 2??"
ASSUME ValText(<<"P", <<"L", <<"u">>>>, <<"R", <<"P", <<"R", <<"u">>>>, <<"L", <<"u">>>>>>>>>>, <<"*", TTwo, <<"+", TOne, <<"*", TTwo, TTwo>>>>>>) = "(0b0,R(0b10))" /\ ValText(<<"u">>, TOne) = "E"

ASSUME Base64(<<0,1,0,0,1,1,0,1, 0,1,1,0,0,0,0,1, 0,1,1,0,1,1,1,0>>) = "TWFu"            \* "Man"
ASSUME Base64(<<0,1,0,0,1,1,0,1, 0,1,1,0,0,0,0,1>>) = "TWE=" /\ Base64(<<0,1,0,0,1,1,0,1>>) = "TQ==" /\ Base64(<<>>) = ""
ASSUME Hex(<<1,0,1,0,1,1,1,1, 0,0,0,0,0,0,0,1>>) = "af01"
ASSUME Expr(<<<<"iden", 0, 0>>, <<"drop", 1, 0>>, <<"take", 2, 0>>, <<"unit", 0, 0>>, <<"injr", 4, 0>>, <<"pair", 3, 5>>, <<"unit", 0, 0>>, <<"comp", 6, 7>>>>, 8)
         = "(OIH & true); unit"
=============================================================================
