----------------------------- MODULE Trace_Prune -----------------------------
(* impl -> spec for C08: one event per generated 1 -> 1 program that the crate ran, pruned, ran again,
   pruned again, re-decoded and handed to libsimplicity with all anti-DoS checks.  The spec re-derives the
   run (EvalX with the jets' logged answers), the branch record, the pruned program and the anti-DoS
   predicate, and judges the clauses of the property. *)
EXTENDS Prune, Json, IOUtils
Rec == ndJsonDeserialize(IOEnv.TRACE)
VARIABLE l
tvars == <<l, mvars>>
S(x) == ToString(x)
RECURSIVE UzV(_)
UzV(v) == IF v[1] = "bits" THEN WordVal(v[2], v[3])
          ELSE IF v[1] \in {"L", "R"} THEN <<v[1], UzV(v[2])>>
          ELSE IF v[1] = "P" THEN <<"P", UzV(v[2]), UzV(v[3])>> ELSE v
TyOf(t) == [i \in 1..Len(t) |-> <<Uz(t[i][1]), Uz(t[i][2])>>]
AuxOfE(a) == [i \in 1..Len(a) |-> UzV(a[i])]
IsJet(d, i) == d[i][1] = "leaf" /\ d[i][5] = "jet"
Orc(d, t, vis) ==
  LET js == SelectSeq(vis, LAMBDA x : IsJet(d, x.i)) IN
  [k \in 1..Len(js) |-> <<js[k].i, ReadPadded(js[k].in, 0, t[js[k].i][1]).v,
                           IF S(js[k].out) = S("jetfailed") THEN <<"jetfailed">> ELSE ReadPadded(js[k].out, 0, t[js[k].i][2]).v>>]
\* the branch record the tracker derives: first input bit of every visit of a case / assertion
TakenOf(d, vis) ==
  [i \in 1..Len(d) |->
     {IF vis[k].in[1] = 0 THEN "L" ELSE "R" : k \in {j \in 1..Len(vis) : vis[j].i = i /\ d[i][1] \in {"case", "assertl", "assertr"}}}]
Strip(d) == [i \in 1..Len(d) |-> <<d[i][1], d[i][2], d[i][3]>>]
ClausesPrune(e) ==
  LET d == e.dag  t == TyOf(e.ty)  a == AuxOfE(e.aux)
      r1 == EvalX(d, a, Orc(d, t, e.visits1), Len(d), <<"u">>)
      tk == TakenOf(d, e.visits1)
      pd == e.pdag  pt == TyOf(e.pty)  pa == AuxOfE(e.paux)
      r2 == EvalX(pd, pa, Orc(pd, pt, e.visits2), Len(pd), <<"u">>)
      tk2 == TakenOf(pd, e.visits2)
      g == e.got
  IN <<
     \* 1-2: the original run is the run the semantics prescribes
     r1.ok, S([k \in 1..Len(e.visits1) |-> e.visits1[k].i]) = S(r1.tr),
     \* 3-4: the pruned program is well typed and carries well-typed witnesses
     WellTyped(pd, pt, TRUE),
     \A i \in 1..Len(pd) : pd[i][1] \in {"witness", "word"} => HasType(pa[i], pt[i][2]),
     \* 5-6: it runs successfully with the same output, along the path the semantics prescribes
     e.res2 = "ok" /\ r2.ok /\ r2.v = r1.v,
     S([k \in 1..Len(e.visits2) |-> e.visits2[k].i]) = S(r2.tr),
     \* 7: anti-DoS, evaluated by the spec on the pruned DAG and its logged run
     AntiDoS(pd, r2.tr, tk2),
     \* 8: libsimplicity agrees, with every check on
     g.c.err = 0 /\ g.c.eval = 0 /\ g.c.cmr = g.c_unpruned.cmr,
     \* 9: same commitment root; pruning again and re-decoding change nothing
     g.prune.cmr = g.cmr /\ g.again.res = "ok" /\ g.again.same_bytes /\ g.redecode = "ok" /\ g.witness_typed,
     \* 10: the pruned DAG is the one the model derives from the branch record (structure only)
     LET p == PruneProgram(d, t, a, tk) IN Strip(PostOrderForm(p.dag)) = Strip(PostOrderForm(pd)) >>
AllTrue(cl) == \A k \in 1..Len(cl) : cl[k]
Ok(e) == CASE e.ev = "prune" -> AllTrue(ClausesPrune(e))
           [] e.ev = "prune_failing" -> ("panic" \notin DOMAIN e.got) /\ e.got.prune.res # "panic"
Init == l = 1 /\ dag = <<>> /\ ty = <<>> /\ aux = <<>> /\ inp = <<>> /\ fill = 0 /\ cells = <<>> /\ nfs = 0 /\ rd = <<>>
        /\ wr = <<>> /\ ip = 0 /\ cs = <<>> /\ phase = "trace" /\ why = "" /\ hwc = 0 /\ hwf = 0 /\ visited = <<>> /\ taken = <<>>
Next == l <= Len(Rec) /\ (Ok(Rec[l]) = TRUE) /\ l' = l + 1 /\ UNCHANGED mvars
Spec == Init /\ [][Next]_tvars
Accepted == IF TLCGet("stats").diameter - 1 = Len(Rec) THEN TRUE
            ELSE /\ PrintT(<<"REJECTED", TLCGet("stats").diameter>>)
                 /\ LET e == Rec[TLCGet("stats").diameter] IN
                    (e.ev = "prune" => PrintT(<<"DIAG", ClausesPrune(e)>>))
                 /\ FALSE
=============================================================================
