SPECIFICATION Spec
CONSTANT CmrN = 8
INVARIANT TypeState
INVARIANT TemplatesTyped
INVARIANT Emit
CHECK_DEADLOCK FALSE
