--------------------------- MODULE TypeInference ---------------------------
(***************************************************************************)
(* L1 model of src/types: the inference context as the code builds it.     *)
(*   slab[k]  = <<"free">> | <<"comp", type>> | <<"+", e1, e2>> | <<"*", e1, e2>>     (context.rs Bound)   *)
(*   el[e]    = [p |-> parent element or 0, b |-> slab index (root only), rank]   (union_bound.rs)    *)
(* with root lookup by path halving, union by rank with the link made      *)
(* before the bind callback and undone on error, the Complete/incomplete   *)
(* cases of `bind`, eager completion in alloc_sum/alloc_product and after  *)
(* a structural bind, one arrow constructor per combinator (arrow.rs), the *)
(* program-arrow unification and finalisation (occurs check with explicit  *)
(* stack, post-order completion, free -> unit).                            *)
(* Construction order is TLC's nondeterminism: Build(i) for any node whose *)
(* children are built.  Refinement target: Typing!Infer.  Property C04.    *)
(***************************************************************************)
EXTENDS Typing

S0 == [ok |-> TRUE, slab |-> <<>>, el |-> <<>>, assertOk |-> TRUE]
Bad(S) == [S EXCEPT !.ok = FALSE]
FreeB == <<"free">>
Comp(t) == <<"comp", t>>

\* alloc_bound + UbElement::new
Alloc(S, bnd) ==
  LET k == Len(S.slab) + 1  e == Len(S.el) + 1 IN
  <<[S EXCEPT !.slab = Append(@, bnd), !.el = Append(@, [p |-> 0, b |-> k, rank |-> 0])], e>>

\* root_element with path halving; returns <<S', root element>>
RECURSIVE RootE(_, _)
RootE(S, x) ==
  IF S.el[x].p = 0 THEN <<S, x>>
  ELSE LET par == S.el[x].p IN
       IF S.el[par].p = 0 THEN <<S, par>>
       ELSE LET gp == S.el[par].p IN RootE([S EXCEPT !.el[x].p = gp], gp)
RootB(S, x) == LET r == RootE(S, x) IN <<r[1], r[1].el[r[2]].b>>        \* <<S', slab index of the root>>
\* lookup without the halving side effect (used where the code's mutation cannot matter)
RECURSIVE RootPure(_, _)
RootPure(S, x) == IF S.el[x].p = 0 THEN S.el[x].b ELSE RootPure(S, S.el[x].p)
IsComp(S, k) == S.slab[k][1] = "comp"

\* reassign_non_complete, with its assertion
Reassign(S, k, new) == IF IsComp(S, k) THEN [S EXCEPT !.assertOk = FALSE] ELSE [S EXCEPT !.slab[k] = new]

\* alloc_sum / alloc_product: complete_pair_data, else an incomplete bound
AllocBin(S, tag, e1, e2) ==
  LET r1 == RootB(S, e1)  r2 == RootB(r1[1], e2)  S2 == r2[1] IN
  IF IsComp(S2, r1[2]) /\ IsComp(S2, r2[2])
  THEN Alloc(S2, Comp(<<tag, S2.slab[r1[2]][2], S2.slab[r2[2]][2]>>))
  ELSE Alloc(S2, <<tag, e1, e2>>)

RECURSIVE UnifyE(_, _, _), Bind(_, _, _)
\* ContextInner::bind(existing slab index, new bound)
Bind(S, ex, new) ==
  IF ~S.ok THEN S ELSE
  LET eb == S.slab[ex] IN
  IF new[1] = "free" THEN S
  ELSE IF eb[1] = "free" THEN Reassign(S, ex, new)
  ELSE IF eb[1] = "comp" /\ new[1] = "comp" THEN (IF eb[2] = new[2] THEN S ELSE Bad(S))
  ELSE IF eb[1] = "comp" \/ new[1] = "comp" THEN
       LET c == IF eb[1] = "comp" THEN eb[2] ELSE new[2]
           inc == IF eb[1] = "comp" THEN new ELSE eb IN
       IF c[1] = "1" THEN Bad(S)
       ELSE IF c[1] # inc[1] THEN Bad(S)
       ELSE LET r1 == RootB(S, inc[2])  r2 == RootB(r1[1], inc[3])
                S1 == Bind(r2[1], r1[2], Comp(c[2]))
            IN Bind(S1, r2[2], Comp(c[3]))
  ELSE IF eb[1] = new[1] THEN                        \* both Sum or both Product
       LET S1 == UnifyE(S, eb[2], new[2])
           S2 == UnifyE(S1, eb[3], new[3]) IN
       IF ~S2.ok THEN S2 ELSE
       LET r1 == RootB(S2, new[2])  r2 == RootB(r1[1], new[3])  S3 == r2[1] IN
       IF IsComp(S3, r1[2]) /\ IsComp(S3, r2[2])
       THEN Reassign(S3, ex, Comp(<<eb[1], S3.slab[r1[2]][2], S3.slab[r2[2]][2]>>))
       ELSE S3
  ELSE Bad(S)
\* UbElement::unify with ContextInner::unify's bind callback
UnifyE(S, x, y) ==
  IF ~S.ok THEN S ELSE
  LET rx == RootE(S, x)  ry == RootE(rx[1], y)  S1 == ry[1]
      xr0 == rx[2]  yr0 == ry[2] IN
  IF S1.el[xr0].b = S1.el[yr0].b THEN S1 ELSE
  LET swap == S1.el[xr0].rank < S1.el[yr0].rank
      xr == IF swap THEN yr0 ELSE xr0
      yr == IF swap THEN xr0 ELSE yr0
      S2 == IF S1.el[xr0].rank = S1.el[yr0].rank THEN [S1 EXCEPT !.el[xr].rank = @ + 1] ELSE S1
      xb == S2.el[xr].b  yb == S2.el[yr].b
      S3 == [S2 EXCEPT !.el[yr].p = xr]                                  \* link before binding
      S4 == Bind(S3, xb, S3.slab[yb]) IN
  IF S4.ok THEN S4 ELSE [S4 EXCEPT !.el[yr].p = 0]                       \* put the old data back
\* Context::bind_product
BindProduct(S, ex, e1, e2) == LET r == RootB(S, ex) IN Bind(r[1], r[2], <<"*", e1, e2>>)

(* ---- arrow construction per combinator (arrow.rs); st = [S, ar], ar[i] = <<source elem, target elem>> ---- *)
BuildNode(st, i, nd) ==
  LET S == st.S  ar == st.ar  op == nd[1]
      L == IF nd[2] # 0 THEN ar[nd[2]] ELSE <<0, 0>>
      R == IF nd[3] # 0 THEN ar[nd[3]] ELSE <<0, 0>>
      Set(S2, a) == [S |-> S2, ar |-> [ar EXCEPT ![i] = a]] IN
  CASE op = "iden" -> LET a == Alloc(S, FreeB) IN Set(a[1], <<a[2], a[2]>>)
    [] op = "unit" -> LET a == Alloc(S, FreeB)  b == Alloc(a[1], Comp(One)) IN Set(b[1], <<a[2], b[2]>>)
    [] op \in {"witness", "fail"} -> LET a == Alloc(S, FreeB)  b == Alloc(a[1], FreeB) IN Set(b[1], <<a[2], b[2]>>)
    [] HasLeafTy(op) -> LET a == Alloc(S, Comp(LeafTy(op)[1]))  b == Alloc(a[1], Comp(LeafTy(op)[2])) IN Set(b[1], <<a[2], b[2]>>)
    [] op = "injl" -> LET f == Alloc(S, FreeB)  t == AllocBin(f[1], "+", L[2], f[2]) IN Set(t[1], <<L[1], t[2]>>)
    [] op = "injr" -> LET f == Alloc(S, FreeB)  t == AllocBin(f[1], "+", f[2], L[2]) IN Set(t[1], <<L[1], t[2]>>)
    [] op = "take" -> LET f == Alloc(S, FreeB)  t == AllocBin(f[1], "*", L[1], f[2]) IN Set(t[1], <<t[2], L[2]>>)
    [] op = "drop" -> LET f == Alloc(S, FreeB)  t == AllocBin(f[1], "*", f[2], L[1]) IN Set(t[1], <<t[2], L[2]>>)
    [] op = "comp" -> Set(UnifyE(S, L[2], R[1]), <<L[1], R[2]>>)
    [] op = "pair" -> LET S1 == UnifyE(S, L[1], R[1]) IN
                      IF ~S1.ok THEN [S |-> S1, ar |-> ar]
                      ELSE LET t == AllocBin(S1, "*", L[2], R[2]) IN Set(t[1], <<L[1], t[2]>>)
    [] op \in {"case", "assertl", "assertr"} ->
         LET a == Alloc(S, FreeB)  b == Alloc(a[1], FreeB)  c == Alloc(b[1], FreeB)
             sum == AllocBin(c[1], "+", a[2], b[2])
             src == AllocBin(sum[1], "*", sum[2], c[2])
             tgt == Alloc(src[1], FreeB)
             lch == IF op \in {"case", "assertl"} THEN L ELSE <<0, 0>>
             rch == IF op = "case" THEN R ELSE IF op = "assertr" THEN L ELSE <<0, 0>>
             S1 == IF lch[1] # 0 THEN UnifyE(BindProduct(tgt[1], lch[1], a[2], c[2]), tgt[2], lch[2]) ELSE tgt[1]
             S2 == IF rch[1] # 0 THEN UnifyE(BindProduct(S1, rch[1], b[2], c[2]), tgt[2], rch[2]) ELSE S1
         IN Set(S2, <<src[2], tgt[2]>>)
    [] op \in {"disc", "disc1"} ->
         LET a == Alloc(S, FreeB)  b == Alloc(a[1], FreeB)
             cs == IF op = "disc" THEN <<b[1], R[1]>> ELSE Alloc(b[1], FreeB)
             ds == IF op = "disc" THEN <<cs[1], R[2]>> ELSE Alloc(cs[1], FreeB)
             w == Alloc(ds[1], Comp(CmrTy))
             S1 == BindProduct(w[1], L[1], w[2], a[2])
             S2 == BindProduct(S1, L[2], b[2], cs[2])
         IN IF ~S2.ok THEN [S |-> S2, ar |-> ar]
            ELSE LET t == AllocBin(S2, "*", b[2], ds[2]) IN Set(t[1], <<a[2], t[2]>>)

\* ConstructNode::set_arrow_to_program
SetProgram(st, root) ==
  LET u == Alloc(st.S, Comp(One))
      S1 == UnifyE(u[1], st.ar[root][1], u[2])
  IN [st EXCEPT !.S = UnifyE(S1, st.ar[root][2], u[2])]

(* ---- finalisation (types/mod.rs Type::finalize, incomplete.rs occurs_check) ---- *)
Children(S, k) == IF S.slab[k][1] \in {"+", "*"} THEN <<RootPure(S, S.slab[k][2]), RootPure(S, S.slab[k][3])>> ELSE <<>>
\* explicit-stack occurs check; stack items <<"it", k>> / <<"done", k>>; TRUE = a cycle was found
RECURSIVE Occurs(_, _, _, _)
Occurs(S, stack, inprog, done) ==
  IF stack = <<>> THEN FALSE
  ELSE LET top == stack[Len(stack)]  rest == SubSeq(stack, 1, Len(stack) - 1)  k == top[2] IN
       IF top[1] = "done" THEN Occurs(S, rest, inprog \ {k}, done \cup {k})
       ELSE IF k \in done THEN Occurs(S, rest, inprog, done)
       ELSE IF k \in inprog THEN TRUE
       ELSE LET ch == Children(S, k) IN
            Occurs(S, rest \o <<<<"done", k>>>> \o (IF ch # <<>> THEN <<<<"it", ch[2]>>, <<"it", ch[1]>>>> ELSE <<>>),
                   inprog \cup {k}, done)
\* post-order completion with reassignment; children are looked up when reached (a shared child that was
\* completed meanwhile is seen as complete).  Returns <<S', type>>
RECURSIVE Complete(_, _)
Complete(S, k) ==
  LET bnd == S.slab[k] IN
  IF bnd[1] = "comp" THEN <<S, bnd[2]>>
  ELSE IF bnd[1] = "free" THEN <<Reassign(S, k, Comp(One)), One>>
  ELSE LET l == Complete(S, RootPure(S, bnd[2]))
           r == Complete(l[1], RootPure(l[1], bnd[3]))
           t == <<bnd[1], l[2], r[2]>>
       IN <<Reassign(r[1], k, Comp(t)), t>>
\* Type::finalize: [S, ok, ty]
FinalizeType(S, e) ==
  LET k == RootPure(S, e) IN
  IF IsComp(S, k) THEN [S |-> S, ok |-> TRUE, ty |-> S.slab[k][2]]
  ELSE IF Occurs(S, <<<<"it", k>>>>, {}, {}) THEN [S |-> S, ok |-> FALSE, ty |-> One]
  ELSE LET c == Complete(S, k) IN [S |-> c[1], ok |-> TRUE, ty |-> c[2]]
\* all nodes, children first (index order), source then target; stops at the first error
RECURSIVE FinalizeNodes(_, _, _, _, _)
FinalizeNodes(S, ar, i, n, acc) ==
  IF i > n THEN [S |-> S, res |-> <<"ok", acc>>]
  ELSE LET a == FinalizeType(S, ar[i][1]) IN
       IF ~a.ok THEN [S |-> a.S, res |-> <<"occurs">>]
       ELSE LET b == FinalizeType(a.S, ar[i][2]) IN
            IF ~b.ok THEN [S |-> b.S, res |-> <<"occurs">>]
            ELSE FinalizeNodes(b.S, ar, i + 1, n, Append(acc, <<a.ty, b.ty>>))

(* ---- the machine ---- *)
CONSTANTS N, Ops, Progs          \* node bound, combinator alphabet, subset of BOOLEAN (finalize as program?)
VARIABLES dag, prog, st, order, result
vars == <<dag, prog, st, order, result>>

Dags(n) == {d \in [1..n -> UNION {NodeSet(i, Ops) : i \in 1..n}] : (\A i \in 1..n : d[i] \in NodeSet(i, Ops)) /\ AllReach(d)}
Init == /\ dag \in UNION {Dags(n) : n \in 1..N}
        /\ prog \in Progs
        /\ st = [S |-> S0, ar |-> [i \in 1..Len(dag) |-> <<0, 0>>]]
        /\ order = <<>> /\ result = <<"pending">>
Built == {order[k] : k \in 1..Len(order)}
Build(i) ==
  /\ result = <<"pending">> /\ i \notin Built /\ st.S.ok
  /\ (dag[i][2] # 0 => dag[i][2] \in Built) /\ (dag[i][3] # 0 => dag[i][3] \in Built)
  /\ st' = BuildNode(st, i, dag[i]) /\ order' = Append(order, i)
  /\ result' = IF st'.S.ok THEN result ELSE <<"clash">>
  /\ UNCHANGED <<dag, prog>>
Finalize ==
  /\ result = <<"pending">> /\ Len(order) = Len(dag) /\ st.S.ok
  /\ LET s1 == IF prog THEN SetProgram(st, Len(dag)) ELSE st IN
     IF ~s1.S.ok THEN st' = s1 /\ result' = <<"clash">>
     ELSE LET f == FinalizeNodes(s1.S, s1.ar, 1, Len(dag), <<>>) IN
          st' = [s1 EXCEPT !.S = f.S] /\ result' = f.res
  /\ UNCHANGED <<dag, prog, order>>
Next == (\E i \in 1..Len(dag) : Build(i)) \/ Finalize
Spec == Init /\ [][Next]_vars

(* ---- invariants ---- *)
Ref == Infer(dag, prog)
\* refinement at the end: every construction order gives the reference answer
Agree == result # <<"pending">> =>
  /\ (result[1] = "ok") = (Ref[1] = "ok")
  /\ result[1] = "ok" => result = Ref
  /\ result[1] \in {"clash", "occurs"} => Ref[1] \in {"clash", "occurs"}
  \* an error during construction means the DAG is untypable even as a non-program
  /\ (result[1] = "clash" /\ Len(order) < Len(dag)) => Infer(dag, FALSE)[1] # "ok"
\* soundness: an accepted result satisfies every typing rule
Sound == result[1] = "ok" => WellTyped(dag, result[2], prog)
\* principality during construction: after every Build the context holds the most general solution of
\* the nodes built so far (compared modulo the naming of free variables, when both are finite)
RECURSIVE ResVarsE(_, _)
ResVarsE(S, e) ==
  LET k == RootPure(S, e)  b == S.slab[k] IN
  IF b[1] = "free" THEN <<"v", k>> ELSE IF b[1] = "comp" THEN b[2] ELSE <<b[1], ResVarsE(S, b[2]), ResVarsE(S, b[3])>>
RECURSIVE VarsOf(_)
VarsOf(t) == IF t[1] = "v" THEN <<t[2]>> ELSE IF t[1] \in {"+", "*"} THEN VarsOf(t[2]) \o VarsOf(t[3]) ELSE <<>>
RECURSIVE Dedup(_, _)
Dedup(s, seen) == IF s = <<>> THEN <<>> ELSE IF Head(s) \in seen THEN Dedup(Tail(s), seen)
                  ELSE <<Head(s)>> \o Dedup(Tail(s), seen \cup {Head(s)})
RECURSIVE Rename(_, _)
Rename(t, names) == IF t[1] = "v" THEN <<"v", CHOOSE k \in 1..Len(names) : names[k] = t[2]>>
                    ELSE IF t[1] \in {"+", "*"} THEN <<t[1], Rename(t[2], names), Rename(t[3], names)>> ELSE t
RECURSIVE Flat(_)
Flat(ts) == IF ts = <<>> THEN <<>> ELSE VarsOf(Head(ts)) \o Flat(Tail(ts))
Canon(ts) == LET names == Dedup(Flat(ts), {}) IN [k \in 1..Len(ts) |-> Rename(ts[k], names)]
AcycE(S, e) == ~Occurs(S, <<<<"it", RootPure(S, e)>>>>, {}, {})
Principal ==
  (result = <<"pending">> /\ st.S.ok /\ order # <<>>) =>
    LET rs == RunRules(St0(dag), dag, order)      \* reference on the same nodes
    IN /\ rs.s.ok
       /\ LET finL == \A k \in 1..Len(order) : AcycE(st.S, st.ar[order[k]][1]) /\ AcycE(st.S, st.ar[order[k]][2])
              finR == \A k \in 1..Len(order) : Acyc(rs.s.b, rs.ar[order[k]][1], {}) /\ Acyc(rs.s.b, rs.ar[order[k]][2], {})
          IN /\ finL = finR
             /\ finL => Canon([k \in 1..(2 * Len(order)) |->
                                 ResVarsE(st.S, st.ar[order[(k + 1) \div 2]][IF k % 2 = 1 THEN 1 ELSE 2])])
                        = Canon([k \in 1..(2 * Len(order)) |->
                                 ResVars(rs.s.b, rs.ar[order[(k + 1) \div 2]][IF k % 2 = 1 THEN 1 ELSE 2])])
\* union-find well-formedness and the code's assertion
Forest == /\ st.S.assertOk
          /\ \A e \in 1..Len(st.S.el) :
               st.S.el[e].p # 0 => st.S.el[st.S.el[e].p].rank > st.S.el[e].rank
Done == result # <<"pending">>
=============================================================================
