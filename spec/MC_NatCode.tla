---------------------------- MODULE MC_NatCode ----------------------------
(* Design step for the natural-number code (C13): round trip, canonicity / uniqueness over ALL bit
   strings up to a length, overflow and bound behaviour around every power of two. *)
EXTENDS BitCodes, TLC, Json
CONSTANTS StrLen,      \* all bit strings up to this length are decoded
          SmallMax,    \* 1..SmallMax encoded and decoded exhaustively
          EmitMod
VARIABLE x
\* numbers around 2^k as binary expansions: 1, (k-3 copies of fill), any three bits
Around(k) == IF k < 3 THEN {<<1>> \o t : t \in BitStr(k)}
             ELSE {<<1>> \o [i \in 1..(k - 3) |-> f] \o t : f \in {0, 1}, t \in BitStr(3)}
Bounds(b) == {<<>>, b, Bin(3), <<1>> \o [i \in 1..30 |-> 1]}
\* (length by length: TLC refuses to build a single set of more than a million strings)
Init == \/ \E k \in 0..StrLen : \E s \in BitStr(k) : x = [kind |-> "str", s |-> s, maxb |-> 32, bound |-> <<>>]
        \/ \E n \in 1..SmallMax : x = [kind |-> "num", b |-> Bin(n), maxb |-> 32, bound |-> <<>>]
        \/ \E k \in 0..40 : \E b \in Around(k) : \E mb \in {8, 16, 32} : \E bd \in Bounds(b) :
             x = [kind |-> "num", b |-> b, maxb |-> mb, bound |-> bd]
Next == UNCHANGED x
Spec == Init /\ [][Next]_x

\* every string decodes to at most one number, whose encoding is exactly the consumed prefix
Canonical == x.kind = "str" =>
  LET d == DecB(x.s, x.maxb, x.bound) IN d.ok => (EncB(d.val) = SubSeq(x.s, 1, d.used) /\ d.val[1] = 1)
\* every number in range decodes back, consuming exactly the written bits, also with trailing bits after it
RoundTrip == x.kind = "num" =>
  LET e == EncB(x.b)
      d == DecB(e \o <<1, 0, 1>>, x.maxb, x.bound)
      fits == Len(x.b) <= x.maxb /\ (x.bound = <<>> \/ LeB(x.b, x.bound))
  IN IF Len(x.b) > 32 THEN ~d.ok                       \* >= 2^32: rejected, never truncated
     ELSE IF fits THEN d.ok /\ d.val = x.b /\ d.used = Len(e)
     ELSE ~d.ok
\* the stack-shaped encoder of the code equals the recursive definition (small numbers)
EncoderShape == (x.kind = "num" /\ Len(x.b) <= 30) =>
  LET n == ValB(x.b) IN
  LET p == INSTANCE BitStream WITH WriteOps <- {}, WriteDepth <- 0, ReadOps <- {}, ReadDepth <- 0, Inputs <- {},
                                  Windows <- FALSE, phase <- 0, w <- 0, wbits <- 0, r <- 0, B <- 0, pos <- 0,
                                  start <- 0, hist <- 0
  IN p!EncodeNaturalBits(n) = EncB(x.b)
H == IF x.kind = "str" THEN (Len(x.s) * 3 + ValB(SubSeq(x.s, 1, IF Len(x.s) < 12 THEN Len(x.s) ELSE 12))) % EmitMod ELSE 0
Emit == H = 0 =>
  LET s == Pad8(IF x.kind = "str" THEN x.s ELSE EncB(x.b) \o <<1, 0, 1>>)
      d == DecB(s, x.maxb, x.bound)
  IN PrintT(<<"CASE", ToJson([kind |-> x.kind, s |-> s, maxb |-> x.maxb, bound |-> x.bound,
                               b |-> IF x.kind = "num" THEN x.b ELSE <<>>,
                               enc |-> IF x.kind = "num" THEN EncB(x.b) ELSE <<>>,
                               ok |-> d.ok, val |-> d.val, used |-> d.used, err |-> d.err])>>)
=============================================================================
