----------------------------- MODULE WitnessFlow -----------------------------
(***************************************************************************)
(* C12: every public route that attaches witness data and finalises either *)
(* yields a redemption program whose witness values have exactly the       *)
(* inferred target types, or reports an error (never a panic, never an     *)
(* ill-typed program).  The model is a type-state machine: a program       *)
(* template, a candidate value (with the type it was built at) for every   *)
(* witness node, a route; the route's postcondition is stated on the       *)
(* abstract outcome.  TLC enumerates templates x candidates x routes; the  *)
(* harness drives the real entry points with each and the outcome classes  *)
(* must satisfy the same postcondition.                                    *)
(***************************************************************************)
EXTENDS Typing, Json

\* program templates (1 -> 1), witness nodes first
Templates == <<
  \* A: witness : 1 -> 2, checked by verify
  <<<<"witness", 0, 0>>, <<"jetV", 0, 0>>, <<"comp", 1, 2>>>>,
  \* B: witness : 1 -> 2 x 2
  <<<<"witness", 0, 0>>, <<"jetA", 0, 0>>, <<"unit", 0, 0>>, <<"comp", 2, 3>>, <<"comp", 1, 4>>>>,
  \* C: witness : 1 -> 1
  <<<<"witness", 0, 0>>, <<"unit", 0, 0>>, <<"comp", 1, 2>>>>,
  \* D: witness : 1 -> (1 + 2) x 1, consumed by a case (sum with padding)
  <<<<"witness", 0, 0>>, <<"unit", 0, 0>>, <<"jetV", 0, 0>>, <<"take", 3, 0>>, <<"case", 2, 4>>, <<"comp", 1, 5>>>>,
  \* E: a second witness (node 3, : 1 x 1 -> 2) below the right branch of a case chosen by the first
  <<<<"witness", 0, 0>>, <<"unit", 0, 0>>, <<"witness", 0, 0>>, <<"jetV", 0, 0>>, <<"comp", 3, 4>>, <<"case", 2, 5>>, <<"comp", 1, 6>>>>,
  \* F: witness : 1 -> 2^2 x 2^2 through a pair of and_1
  <<<<"witness", 0, 0>>, <<"jetA", 0, 0>>, <<"take", 2, 0>>, <<"drop", 2, 0>>, <<"pair", 3, 4>>, <<"unit", 0, 0>>, <<"comp", 5, 6>>, <<"comp", 1, 7>>>>
>>
Routes == {"construct_unpruned", "construct_pruned", "human_unpruned", "human_pruned", "decode"}
TypePool == {One, Two, TwoN(1), Sum(One, Two), Sum(Two, One), Prod(Two, Sum(One, Two)), Prod(Sum(One, Two), One),
             Prod(Sum(One, One), One), Prod(TwoN(1), TwoN(1)), TwoN(2), Prod(Two, One)}
WitNodes(d) == {i \in 1..Len(d) : d[i][1] = "witness"}
\* candidate values for a witness node whose inferred target is T: some of the right type, and of every
\* kind of wrong type (too wide, too narrow, equal width but another shape, unit)
Cands(T) ==
  LET right == LET V == ValsOf(T) IN IF Cardinality(V) <= 3 THEN V ELSE {ZeroV(T)} \cup {CHOOSE v \in V : v # ZeroV(T)}
  IN {[v |-> v, ty |-> T] : v \in right}
     \cup {[v |-> ZeroV(t), ty |-> t] : t \in TypePool \ {T}}
     \cup {[v |-> CHOOSE x \in ValsOf(t) : x # ZeroV(t), ty |-> t] : t \in {u \in TypePool \ {T} : Cardinality(ValsOf(u)) > 1}}

VARIABLES tmpl, route, cand, outcome
vars == <<tmpl, route, cand, outcome>>
Dag == Templates[tmpl]
Arrows == Infer(Dag, TRUE)[2]
Init == /\ tmpl \in 1..Len(Templates) /\ route \in Routes
        /\ cand \in [WitNodes(Templates[tmpl]) -> UNION {Cands(Infer(Templates[tmpl], TRUE)[2][i][2]) : i \in WitNodes(Templates[tmpl])}]
        /\ \A i \in WitNodes(Templates[tmpl]) : cand[i] \in Cands(Infer(Templates[tmpl], TRUE)[2][i][2])
        /\ outcome = "pending"
AllTyped == \A i \in WitNodes(Dag) : cand[i].ty = Arrows[i][2]
\* the route's postcondition: a program is produced only with well-typed witnesses
\* (decode re-reads the offered bits at the inferred type, so it is typed by construction)
Finish == /\ outcome = "pending"
          /\ outcome' \in (IF AllTyped \/ route = "decode" THEN {"program", "error"} ELSE {"error"})
          /\ UNCHANGED <<tmpl, route, cand>>
Next == Finish
Spec == Init /\ [][Next]_vars
\* type-state invariant: a produced program implies typed witnesses
TypeState == outcome = "program" => (AllTyped \/ route = "decode")
TemplatesTyped == Infer(Dag, TRUE)[1] = "ok" /\ Arrows[Len(Dag)] = <<One, One>>
Emit == outcome = "pending" =>
  PrintT(<<"CASE", ToJson([dag |-> Dag, route |-> route, arrows |-> Arrows, typed |-> AllTyped,
                           cand |-> [i \in 1..Len(Dag) |-> IF i \in WitNodes(Dag) THEN <<cand[i].ty, cand[i].v>> ELSE <<>>]])>>)
=============================================================================
