----------------------------- MODULE Trace_Value -----------------------------
(* impl -> spec for C10 and C11: recorded histories of value-producing calls on the real Value type
   are followed on an abstract pool of (type, value) pairs; every observable the properties name is
   compared with SimplicityCore.  PROP selects which property's clauses are judged. *)
EXTENDS SimplicityCore, Json, IOUtils, TLC
Rec == ndJsonDeserialize(IOEnv.TRACE)
PROP == IOEnv.PROP
VARIABLES l, pool
vars == <<l, pool>>
S(x) == ToString(x)
None == [some |-> FALSE, ty |-> One, a |-> <<"u">>]
Some(t, a) == [some |-> TRUE, ty |-> t, a |-> a]
Exp(op, ret) ==
  LET n == op[1]
      P(i) == pool[i] IN
  CASE n = "unit"    -> Some(One, <<"u">>)
    [] n = "word"    -> Some(TwoN(op[2]), WordVal(op[2], op[3]))
    [] n = "build"   -> Some(op[2], op[3])
    [] n = "zero"    -> Some(op[2], ZeroV(op[2]))
    [] n = "padded"  -> LET r == ReadPadded(op[3], 0, op[2]) IN IF r.ok THEN Some(op[2], r.v) ELSE None
    [] n = "compact" -> LET r == ReadCompact(op[3], 0, op[2]) IN IF r.ok THEN Some(op[2], r.v) ELSE None
    [] n = "left"    -> Some(Sum(P(op[2]).ty, op[3]), <<"L", P(op[2]).a>>)
    [] n = "right"   -> Some(Sum(op[2], P(op[3]).ty), <<"R", P(op[3]).a>>)
    [] n = "product" -> Some(Prod(P(op[2]).ty, P(op[3]).ty), <<"P", P(op[2]).a, P(op[3]).a>>)
    [] n = "asleft"  -> IF P(op[2]).a[1] = "L" THEN Some(P(op[2]).ty[2], P(op[2]).a[2]) ELSE None
    [] n = "asright" -> IF P(op[2]).a[1] = "R" THEN Some(P(op[2]).ty[3], P(op[2]).a[2]) ELSE None
    [] n = "fst"     -> IF P(op[2]).a[1] = "P" THEN Some(P(op[2]).ty[2], P(op[2]).a[2]) ELSE None
    [] n = "snd"     -> IF P(op[2]).a[1] = "P" THEN Some(P(op[2]).ty[3], P(op[2]).a[3]) ELSE None
    [] n = "dirty"   -> Some(P(op[2]).ty, P(op[2]).a)
    [] n = "prune"   -> IF LeT(op[3], P(op[2]).ty) THEN Some(op[3], PruneV(P(op[2]).a, P(op[2]).ty, op[3]))
                        ELSE IF PROP = "C11" /\ S(ret) = S("ok")
                             \* not C11's clause (C10 judges it): follow the code's branch-wise projection
                             THEN LET r == PruneLenient(P(op[2]).a, P(op[2]).ty, op[3]) IN IF r.ok THEN Some(op[3], r.v) ELSE None
                             ELSE None
ObsOk(o, x) ==        \* C10: the layout clauses
  LET c == Compact(x.a, x.ty) IN
  /\ S(o.ty) = S(x.ty)
  /\ o.padded_len = W(x.ty) /\ Len(o.padded) = W(x.ty)
  /\ MatchesM(o.padded, PaddedM(x.a, x.ty))
  /\ o.compact = c /\ o.compact_len = Len(c)
  /\ S(o.tree) = S(x.a)
  /\ S(o.dec_padded) = S(x.a) /\ o.dec_padded_used = W(x.ty)
  /\ S(o.dec_compact) = S(x.a) /\ o.dec_compact_used = Len(c)
  /\ o.of_type
EqOk(o) == o.dec_padded_eq /\ o.dec_compact_eq     \* C11: a re-decoded value equals its origin
RelOk(e) ==        \* C11: ==, cmp and hash over all pairs / triples of the pool
  LET n == Len(pool)
      R == [i \in 1..n |-> [j \in 1..n |-> e.rel[(i - 1) * n + j]]]
      same(i, j) == S(pool[i].ty) = S(pool[j].ty) /\ S(pool[i].a) = S(pool[j].a)
  IN /\ e.n = n
     /\ \A i \in 1..n : \A j \in 1..n :
          /\ R[i][j].i = i /\ R[i][j].j = j
          /\ R[i][j].eq = same(i, j)
          /\ (R[i][j].cmp = 0) = same(i, j)
          /\ same(i, j) => R[i][j].hash_eq
          /\ R[i][j].cmp = 0 - R[j][i].cmp
          /\ ("weq" \in DOMAIN R[i][j]) => /\ R[i][j].weq = same(i, j) /\ (R[i][j].wcmp = 0) = same(i, j)
                                           /\ (same(i, j) => R[i][j].whash_eq)
     /\ \A i \in 1..n : \A j \in 1..n : \A k \in 1..n :
          (R[i][j].cmp <= 0 /\ R[j][k].cmp <= 0) => R[i][k].cmp <= 0
Step(e) ==
  CASE e.ev = "reset" -> pool' = <<>>
    [] e.ev = "op" -> LET x == Exp(e.op, e.ret) IN
                      /\ (IF x.some THEN S(e.ret) = S("ok") ELSE S(e.ret) \in {S("none"), S("err")}) = TRUE
                      /\ (x.some => (IF PROP = "C10" THEN ObsOk(e.obs, x) ELSE EqOk(e.obs))) = TRUE
                      /\ pool' = IF x.some THEN Append(pool, x) ELSE pool
    [] e.ev = "rel" -> (PROP = "C11" => RelOk(e)) = TRUE /\ UNCHANGED pool
Init == l = 1 /\ pool = <<>>
Next == l <= Len(Rec) /\ Step(Rec[l]) /\ l' = l + 1
Spec == Init /\ [][Next]_vars
Accepted == IF TLCGet("stats").diameter - 1 = Len(Rec) THEN TRUE
            ELSE PrintT(<<"REJECTED", TLCGet("stats").diameter>>) /\ FALSE
=============================================================================
