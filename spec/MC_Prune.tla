------------------------------ MODULE MC_Prune ------------------------------
(* All small typed programs with unit source (what RedeemNode::prune can run), executed, pruned, executed
   again: the four clauses of C08 as invariants of the second run. *)
EXTENDS Prune, Json
CONSTANTS N, Ops, K, EmitMod, MaxWit
VARIABLES round,     \* 1 = original program, 2 = pruned program
          orig       \* record of the first run, kept for comparison
vars == <<mvars, round, orig>>
Ops_prune == {"iden", "unit", "witness", "word0", "injl", "injr", "take", "drop", "comp", "case", "pair", "assertl", "fail", "jetV"}
Ops_prune_small == {"iden", "unit", "witness", "injl", "injr", "take", "drop", "comp", "case", "pair"}
FV == <<One, Two, Sum(One, Two), Prod(Two, Two), Sum(Two, One)>>
RECURSIVE Inst(_, _)
Inst(t, k) == IF t[1] = "v" THEN FV[((t[2] * 3 + k) % Len(FV)) + 1]
              ELSE IF t[1] \in {"+", "*"} THEN <<t[1], Inst(t[2], k), Inst(t[3], k)>> ELSE t
\* typings with the root source forced to unit
Typings(d) ==
  LET s0 == InferState(d, FALSE) IN
  IF ~s0.s.ok THEN {}
  ELSE LET n == Len(s0.s.b)
           st == [s0 EXCEPT !.s = UnifyB(OkS(Append(s0.s.b, C(One))), s0.ar[Len(d)][1], n + 1)] IN
       IF ~st.s.ok \/ (\E i \in 1..Len(d) : ~Acyc(st.s.b, st.ar[i][1], {}) \/ ~Acyc(st.s.b, st.ar[i][2], {})) THEN {}
       ELSE {[i \in 1..Len(d) |-> <<Inst(ResVars(st.s.b, st.ar[i][1]), k), Inst(ResVars(st.s.b, st.ar[i][2]), k)>>] : k \in 1..K}
Some(S) == IF Cardinality(S) <= MaxWit THEN S ELSE CHOOSE T \in SUBSET S : Cardinality(T) = MaxWit
AuxOf(d, t, i) == IF d[i][1] \in {"witness", "word0"} THEN Some(ValsOf(t[i][2])) ELSE {<<"u">>}
RECURSIVE AuxSeqs(_, _, _)
AuxSeqs(d, t, i) == IF i = 0 THEN {<<>>} ELSE {Append(a, x) : a \in AuxSeqs(d, t, i - 1), x \in AuxOf(d, t, i)}
NoRec == [dag |-> <<>>]
Init ==
  /\ round = 1 /\ orig = NoRec /\ dag = <<>> /\ phase = "build"
  /\ ty = <<>> /\ aux = <<>> /\ inp = <<"u">> /\ fill = 0 /\ cells = <<>> /\ rd = <<>> /\ wr = <<>> /\ nfs = 0 /\ ip = 0
  /\ cs = <<>> /\ why = "none" /\ hwc = 0 /\ hwf = 0 /\ visited = <<>> /\ taken = <<>>
AddNode ==
  /\ phase = "build" /\ Len(dag) < N
  /\ \E nd \in NodeSet(Len(dag) + 1, Ops) : dag' = Append(dag, nd)
  /\ UNCHANGED <<ty, aux, inp, fill, cells, nfs, rd, wr, ip, cs, phase, why, hwc, hwf, visited, taken, round, orig>>
\* only programs that contain a case are interesting for pruning
Start ==
  /\ phase = "build" /\ dag # <<>> /\ AllReach(dag) /\ \E i \in 1..Len(dag) : dag[i][1] = "case"
  /\ \E t \in Typings(dag) : \E a \in AuxSeqs(dag, t, Len(dag)) : MachineStart(dag, t, a, <<"u">>, 0)
  /\ UNCHANGED <<round, orig>>
\* after a successful first run: prune and run the result
Reprune ==
  /\ phase = "done" /\ round = 1
  /\ LET p == PruneProgram(dag, ty, aux, taken)
         out1 == IF W(ty[Root][2]) = 0 THEN ZeroV(ty[Root][2])
                 ELSE ReadPadded([k \in 1..W(ty[Root][2]) |-> cells[wr[1].start + k]], 0, ty[Root][2]).v IN
     /\ orig' = [dag |-> dag, ty |-> ty, aux |-> aux, taken |-> taken, out |-> out1, p |-> p]
     /\ IF p.ok /\ p.shrunk /\ p.ty[Len(p.dag)][1] = One
        THEN MachineStart(p.dag, p.ty, p.aux, <<"u">>, 1) /\ round' = 2
        ELSE round' = 3 /\ UNCHANGED mvars           \* reported by PruneOk
Next == AddNode \/ Start \/ Reprune \/ (MNext /\ UNCHANGED <<round, orig>>)
Spec == Init /\ [][Next]_vars

\* C08, clause by clause
PruneOk == round = 3 => FALSE       \* pruning must type-check, only shrink types, and keep the unit source
SecondRun ==
  (round = 2 /\ phase \in {"done", "failed"}) =>
     /\ phase = "done"                                                        \* runs successfully
     /\ LET out2 == IF W(ty[Root][2]) = 0 THEN ZeroV(ty[Root][2])
                    ELSE ReadPadded([k \in 1..W(ty[Root][2]) |-> cells[wr[1].start + k]], 0, ty[Root][2]).v
        IN out2 = PruneV(orig.out, orig.ty[Len(orig.dag)][2], ty[Root][2])   \* same output (at the pruned type)
     /\ AntiDoS(dag, visited, taken)                                          \* every node, both branches
     /\ LET again == PruneProgram(dag, ty, aux, taken) IN                     \* pruning again changes nothing
        again.ok /\ again.dag = dag /\ again.ty = ty /\ again.aux = aux
     /\ WellTyped(dag, ty, FALSE)
     /\ \A i \in 1..Len(dag) : dag[i][1] = "witness" => HasType(aux[i], ty[i][2])
\* (child indices weighted by position: sizes alone stay below a large modulus and never reach 0)
RECURSIVE ShapeSum(_, _)
ShapeSum(d, k) == IF k = 0 THEN 0 ELSE ShapeSum(d, k - 1) + k * (3 * d[k][2] + 5 * d[k][3])
H == (Len(visited) + hwc * 3 + Len(dag) * 7 + ShapeSum(dag, Len(dag))) % EmitMod
Emit == (round = 2 /\ phase = "done" /\ H = 0) =>
  PrintT(<<"CASE", ToJson([dag |-> orig.dag, ty |-> orig.ty, aux |-> orig.aux, out |-> orig.out,
                           pdag |-> dag, pty |-> ty, paux |-> aux, map |-> orig.p.map,
                           pout |-> PruneV(orig.out, orig.ty[Len(orig.dag)][2], ty[Root][2])])>>)
=============================================================================
