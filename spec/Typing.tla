------------------------------- MODULE Typing -------------------------------
(***************************************************************************)
(* L0: Simplicity programs as DAGs and the reference type inference        *)
(* (typing rules of the Tech Report solved by plain first-order            *)
(* unification on a term graph).  No ranks, no path compression, no        *)
(* sharing of bounds, no eager completion: none of the machinery of        *)
(* src/types that property C04 is about.                                   *)
(*                                                                         *)
(* A program is dag \in Seq(<<op, l, r>>), children have smaller indices,  *)
(* the root is the last node.  Leaves with fixed types carry them in a     *)
(* table LeafTy(op) = <<src, tgt>>.                                        *)
(***************************************************************************)
EXTENDS SimplicityCore, TLC

CONSTANT CmrN            \* disconnect passes a word of 2^(2^CmrN) bits (8 in the real system)
CmrTy == TwoN(CmrN)

Nullary == {"iden", "unit", "witness", "fail", "word0", "word1", "jetV", "jetA", "jetL"}
Unary   == {"injl", "injr", "take", "drop", "assertl", "assertr", "disc1"}
Binary  == {"comp", "case", "pair", "disc"}
\* leaves with complete types: const words and (representative) jets
\*   jetV : 2 -> 1 (verify)   jetA : 2 x 2 -> 2 (and_1)   jetL : 1 -> 2 (low_1)
HasLeafTy(op) == op \in {"word0", "word1", "jetV", "jetA", "jetL"}
LeafTy(op) == CASE op = "word0" -> <<One, TwoN(0)>>
                [] op = "word1" -> <<One, TwoN(1)>>
                [] op = "jetV"  -> <<Two, One>>
                [] op = "jetA"  -> <<Prod(Two, Two), Two>>
                [] op = "jetL"  -> <<One, Two>>

Arity(op) == IF op \in Nullary THEN 0 ELSE IF op \in Unary THEN 1 ELSE 2
NodeSet(i, ops) == {<<op, 0, 0>> : op \in ops \cap Nullary}
                   \cup {<<op, l, 0>> : op \in ops \cap Unary, l \in 1..(i - 1)}
                   \cup {<<op, l, r>> : op \in ops \cap Binary, l \in 1..(i - 1), r \in 1..(i - 1)}
WellFormed(d) == \A i \in 1..Len(d) : /\ (Arity(d[i][1]) >= 1) = (d[i][2] # 0) /\ (Arity(d[i][1]) = 2) = (d[i][3] # 0)
                                      /\ d[i][2] < i /\ d[i][3] < i
RECURSIVE ReachN(_, _, _)
ReachN(d, i, acc) ==
  IF i = 0 THEN acc
  ELSE IF i \in acc
       THEN ReachN(d, i - 1, acc \cup (IF d[i][2] # 0 THEN {d[i][2]} ELSE {}) \cup (IF d[i][3] # 0 THEN {d[i][3]} ELSE {}))
       ELSE ReachN(d, i - 1, acc)
AllReach(d) == ReachN(d, Len(d), {Len(d)}) = 1..Len(d)

(***************************************************************************)
(* The store: a sequence of bounds                                         *)
(*   <<"free">>  <<"c", type>> (a known complete type)                     *)
(*   <<"+", x, y>>  <<"*", x, y>>  (x, y store indices)   <<"ref", x>>     *)
(***************************************************************************)
FailS == [ok |-> FALSE, b |-> <<>>]
OkS(b) == [ok |-> TRUE, b |-> b]
Free == <<"free">>
C(t) == <<"c", t>>
RECURSIVE Find(_, _)
Find(s, x) == IF s[x][1] = "ref" THEN Find(s, s[x][2]) ELSE x

\* link first, then descend: terminates on cyclic solutions because every call either returns at once
\* or merges two classes
RECURSIVE UnifyB(_, _, _)
UnifyB(S, x, y) ==
  IF ~S.ok THEN S ELSE
  LET s == S.b  rx == Find(s, x)  ry == Find(s, y) IN
  IF rx = ry THEN S ELSE
  LET bx == s[rx]  by == s[ry] IN
  IF bx[1] = "free" THEN OkS([s EXCEPT ![rx] = <<"ref", ry>>])
  ELSE IF by[1] = "free" THEN OkS([s EXCEPT ![ry] = <<"ref", rx>>])
  ELSE IF bx[1] = "c" /\ by[1] = "c" THEN (IF bx[2] = by[2] THEN OkS([s EXCEPT ![ry] = <<"ref", rx>>]) ELSE FailS)
  ELSE IF bx[1] = "c" \/ by[1] = "c" THEN
       \* a complete type against a structure: expose one level of the complete type
       LET cx == IF bx[1] = "c" THEN rx ELSE ry
           sx == IF bx[1] = "c" THEN ry ELSE rx
           t == s[cx][2]  st == s[sx] IN
       IF t[1] # st[1] THEN FailS
       ELSE LET n == Len(s)
                s1 == [s EXCEPT ![cx] = <<"ref", sx>>] \o <<C(t[2]), C(t[3])>>
            IN UnifyB(UnifyB(OkS(s1), st[2], n + 1), st[3], n + 2)
  ELSE IF bx[1] # by[1] THEN FailS
  ELSE LET s0 == OkS([s EXCEPT ![ry] = <<"ref", rx>>])
       IN UnifyB(UnifyB(s0, bx[2], by[2]), bx[3], by[3])

\* word types travel compressed as <<"w", n>> = 2^(2^n)
RECURSIVE Uz(_)
Uz(t) == IF t[1] = "w" THEN TwoN(t[2]) ELSE IF t[1] \in {"+", "*"} THEN <<t[1], Uz(t[2]), Uz(t[3])>> ELSE t
RECURSIVE CzAll(_, _)
CzAll(t, maxn) == IF \E k \in 2..maxn : t = TwoN(k) THEN <<"w", CHOOSE k \in 2..maxn : t = TwoN(k)>>
                  ELSE IF t[1] \in {"+", "*"} THEN <<t[1], CzAll(t[2], maxn), CzAll(t[3], maxn)>> ELSE t
SetAr(ar, i, a) == [ar EXCEPT ![i] = a]
\* one typing rule per combinator; st = [s |-> store, ar |-> arrows so far <<src, tgt>> as store indices]
Rule(st, i, nd) ==
  IF ~st.s.ok THEN st ELSE
  LET s == st.s.b  ar == st.ar  n == Len(s)  op == nd[1]
      L == IF nd[2] # 0 THEN ar[nd[2]] ELSE <<0, 0>>
      R == IF nd[3] # 0 THEN ar[nd[3]] ELSE <<0, 0>> IN
  CASE op = "iden" -> [s |-> OkS(Append(s, Free)), ar |-> SetAr(ar, i, <<n + 1, n + 1>>)]
    [] op = "unit" -> [s |-> OkS(s \o <<Free, C(One)>>), ar |-> SetAr(ar, i, <<n + 1, n + 2>>)]
    [] op \in {"witness", "fail"} -> [s |-> OkS(s \o <<Free, Free>>), ar |-> SetAr(ar, i, <<n + 1, n + 2>>)]
    [] HasLeafTy(op) -> [s |-> OkS(s \o <<C(LeafTy(op)[1]), C(LeafTy(op)[2])>>), ar |-> SetAr(ar, i, <<n + 1, n + 2>>)]
    \* a leaf whose complete source/target types are given with the node (any jet or word, in recorded traces)
    [] op \in {"leaf", "word"} -> [s |-> OkS(s \o <<C(Uz(nd[4][1])), C(Uz(nd[4][2]))>>), ar |-> SetAr(ar, i, <<n + 1, n + 2>>)]
    [] op = "injl" -> [s |-> OkS(s \o <<Free, <<"+", L[2], n + 1>>>>), ar |-> SetAr(ar, i, <<L[1], n + 2>>)]
    [] op = "injr" -> [s |-> OkS(s \o <<Free, <<"+", n + 1, L[2]>>>>), ar |-> SetAr(ar, i, <<L[1], n + 2>>)]
    [] op = "take" -> [s |-> OkS(s \o <<Free, <<"*", L[1], n + 1>>>>), ar |-> SetAr(ar, i, <<n + 2, L[2]>>)]
    [] op = "drop" -> [s |-> OkS(s \o <<Free, <<"*", n + 1, L[1]>>>>), ar |-> SetAr(ar, i, <<n + 2, L[2]>>)]
    [] op = "comp" -> [s |-> UnifyB(OkS(s), L[2], R[1]), ar |-> SetAr(ar, i, <<L[1], R[2]>>)]
    [] op = "pair" -> [s |-> UnifyB(OkS(Append(s, <<"*", L[2], R[2]>>)), L[1], R[1]), ar |-> SetAr(ar, i, <<L[1], n + 1>>)]
    [] op \in {"case", "assertl", "assertr"} ->
         \* a = n+1, b = n+2, c = n+3, a+b = n+4, (a+b) x c = n+5, a x c = n+6, b x c = n+7, d = n+8
         LET s0 == OkS(s \o <<Free, Free, Free, <<"+", n + 1, n + 2>>, <<"*", n + 4, n + 3>>,
                             <<"*", n + 1, n + 3>>, <<"*", n + 2, n + 3>>, Free>>)
             lch == IF op \in {"case", "assertl"} THEN L ELSE <<0, 0>>
             rch == IF op = "case" THEN R ELSE IF op = "assertr" THEN L ELSE <<0, 0>>
             s1 == IF lch[1] # 0 THEN UnifyB(UnifyB(s0, lch[1], n + 6), lch[2], n + 8) ELSE s0
             s2 == IF rch[1] # 0 THEN UnifyB(UnifyB(s1, rch[1], n + 7), rch[2], n + 8) ELSE s1
         IN [s |-> s2, ar |-> SetAr(ar, i, <<n + 5, n + 8>>)]
    [] op \in {"disc", "disc1"} ->
         \* a = n+1, b = n+2, 2^256 = n+3, 2^256 x a = n+4, c = n+5 / R.src, d = n+6 / R.tgt, b x c = n+7, b x d = n+8
         LET c == IF op = "disc" THEN R[1] ELSE n + 5
             d == IF op = "disc" THEN R[2] ELSE n + 6
             s0 == OkS(s \o <<Free, Free, C(CmrTy), <<"*", n + 3, n + 1>>, Free, Free, <<"*", n + 2, c>>, <<"*", n + 2, d>>>>)
             s1 == UnifyB(UnifyB(s0, L[1], n + 4), L[2], n + 7)
         IN [s |-> s1, ar |-> SetAr(ar, i, <<n + 1, n + 8>>)]

RECURSIVE RunRules(_, _, _)
RunRules(st, dag, nodes) == IF nodes = <<>> THEN st ELSE RunRules(Rule(st, Head(nodes), dag[Head(nodes)]), dag, Tail(nodes))
\* a program additionally has type 1 -> 1 at its root
ProgramRule(st, prog) ==
  IF ~prog \/ ~st.s.ok THEN st
  ELSE LET n == Len(st.s.b)  root == st.ar[Len(st.ar)]
           s0 == OkS(Append(st.s.b, C(One)))
       IN [st EXCEPT !.s = UnifyB(UnifyB(s0, root[1], n + 1), root[2], n + 1)]

\* occurs check = a cycle through structural edges of the solved store
RECURSIVE Acyc(_, _, _)
Acyc(s, x, path) ==
  LET r == Find(s, x) IN
  IF r \in path THEN FALSE
  ELSE IF s[r][1] \in {"free", "c"} THEN TRUE
  ELSE Acyc(s, s[r][2], path \cup {r}) /\ Acyc(s, s[r][3], path \cup {r})
\* the solution with every remaining variable set to unit
RECURSIVE Res(_, _)
Res(s, x) ==
  LET r == Find(s, x) IN
  IF s[r][1] = "free" THEN One
  ELSE IF s[r][1] = "c" THEN s[r][2]
  ELSE <<s[r][1], Res(s, s[r][2]), Res(s, s[r][3])>>
\* the most general solution, variables named by the order of first occurrence in `names`
RECURSIVE ResVars(_, _)
ResVars(s, x) ==         \* tree with leaves <<"v", root index>>
  LET r == Find(s, x) IN
  IF s[r][1] = "free" THEN <<"v", r>>
  ELSE IF s[r][1] = "c" THEN s[r][2]
  ELSE <<s[r][1], ResVars(s, s[r][2]), ResVars(s, s[r][3])>>

Seq1(n) == [i \in 1..n |-> i]
\* Infer(dag, prog) = <<"ok", arrows>> | <<"clash">> | <<"occurs">>
St0(dag) == [s |-> OkS(<<>>), ar |-> [i \in 1..Len(dag) |-> <<0, 0>>]]
InferState(dag, prog) == ProgramRule(RunRules(St0(dag), dag, Seq1(Len(dag))), prog)
InferFrom(st, n) ==
  IF ~st.s.ok THEN <<"clash">>
  ELSE IF \E i \in 1..n : ~Acyc(st.s.b, st.ar[i][1], {}) \/ ~Acyc(st.s.b, st.ar[i][2], {}) THEN <<"occurs">>
  ELSE <<"ok", [i \in 1..n |-> <<Res(st.s.b, st.ar[i][1]), Res(st.s.b, st.ar[i][2])>>]>>
Infer(dag, prog) == InferFrom(InferState(dag, prog), Len(dag))

(***************************************************************************)
(* Typing judgement, independent of the solver: arrows satisfy the rule of *)
(* every combinator (soundness of a claimed solution).                     *)
(***************************************************************************)
RuleHolds(dag, ar, i) ==
  LET op == dag[i][1]  me == ar[i]
      L == IF dag[i][2] # 0 THEN ar[dag[i][2]] ELSE <<One, One>>
      R == IF dag[i][3] # 0 THEN ar[dag[i][3]] ELSE <<One, One>> IN
  CASE op = "iden" -> me[1] = me[2]
    [] op = "unit" -> me[2] = One
    [] op \in {"witness", "fail"} -> TRUE
    [] HasLeafTy(op) -> me = LeafTy(op)
    [] op = "leaf" -> me = <<Uz(dag[i][4][1]), Uz(dag[i][4][2])>>
    [] op = "word" -> me[1] = One /\ \E n \in 0..12 : W(me[2]) = 2 ^ n /\ me[2] = TwoN(n)
    [] op = "injl" -> me[1] = L[1] /\ IsSumT(me[2]) /\ me[2][2] = L[2]
    [] op = "injr" -> me[1] = L[1] /\ IsSumT(me[2]) /\ me[2][3] = L[2]
    [] op = "take" -> IsProdT(me[1]) /\ me[1][2] = L[1] /\ me[2] = L[2]
    [] op = "drop" -> IsProdT(me[1]) /\ me[1][3] = L[1] /\ me[2] = L[2]
    [] op = "comp" -> me[1] = L[1] /\ L[2] = R[1] /\ me[2] = R[2]
    [] op = "pair" -> me[1] = L[1] /\ me[1] = R[1] /\ me[2] = Prod(L[2], R[2])
    [] op = "case" -> /\ IsProdT(me[1]) /\ IsSumT(me[1][2])
                      /\ L[1] = Prod(me[1][2][2], me[1][3]) /\ R[1] = Prod(me[1][2][3], me[1][3])
                      /\ me[2] = L[2] /\ me[2] = R[2]
    [] op = "assertl" -> /\ IsProdT(me[1]) /\ IsSumT(me[1][2])
                         /\ L[1] = Prod(me[1][2][2], me[1][3]) /\ me[2] = L[2]
    [] op = "assertr" -> /\ IsProdT(me[1]) /\ IsSumT(me[1][2])
                         /\ L[1] = Prod(me[1][2][3], me[1][3]) /\ me[2] = L[2]
    [] op = "disc" -> /\ L[1] = Prod(CmrTy, me[1]) /\ IsProdT(L[2]) /\ IsProdT(me[2])
                      /\ me[2][2] = L[2][2] /\ L[2][3] = R[1] /\ me[2][3] = R[2]
    [] op = "disc1" -> /\ L[1] = Prod(CmrTy, me[1]) /\ IsProdT(L[2]) /\ IsProdT(me[2]) /\ me[2][2] = L[2][2]
WellTyped(dag, ar, prog) ==
  /\ \A i \in 1..Len(dag) : RuleHolds(dag, ar, i)
  /\ prog => ar[Len(dag)] = <<One, One>>
=============================================================================
