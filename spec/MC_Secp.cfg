INIT Init
NEXT Next
