SPECIFICATION Spec
CONSTANT N = 6
CONSTANT Algos = {"post", "rtl", "pre", "vpre"}
CONSTANT Modes = {"no", "internal"}
CONSTANT MaxDepths <- MD_few
CONSTANT EmitMod = 23
INVARIANT AssertInv
INVARIANT Correct
INVARIANT Clauses
INVARIANT SharedAsInv
INVARIANT Emit
CHECK_DEADLOCK FALSE
