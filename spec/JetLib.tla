------------------------------- MODULE JetLib -------------------------------
(***************************************************************************)
(* What the arithmetic, logic and comparison jets compute (C05: "jets      *)
(* computing their specified functions"), as functions on bit strings.     *)
(* Words are big-endian bit sequences; a jet's input and output are the    *)
(* flat concatenations of their word components (none of the jets below    *)
(* has a padded sum in its source or target type, so the padded layout of  *)
(* the Bit Machine is exactly this concatenation).                         *)
(*   JetKnown(name)          the jet is specified here                     *)
(*   JetOut(name, in)        its output bits, or JetFails                  *)
(* Names are the crate's: <op>_<n> and <op>_<a>_<b> for word sizes up to   *)
(* 64 (eq also 256), plus verify: 305 of the 368 Core jets.  Arithmetic is *)
(* on bit sequences (TLC's integers are 32 bits).                          *)
(***************************************************************************)
EXTENDS Integers, Sequences, TLC

JetFails == <<"jetfailed">>
ZerosN(n) == [i \in 1..n |-> 0]
OnesN(n) == [i \in 1..n |-> 1]
NotB(a) == [i \in 1..Len(a) |-> 1 - a[i]]
AndB(a, b) == [i \in 1..Len(a) |-> a[i] * b[i]]
OrB(a, b) == [i \in 1..Len(a) |-> IF a[i] + b[i] > 0 THEN 1 ELSE 0]
XorB(a, b) == [i \in 1..Len(a) |-> (a[i] + b[i]) % 2]
Hi(x, n) == SubSeq(x, 1, n)                 \* first n bits
Lo(x, n) == SubSeq(x, Len(x) - n + 1, Len(x))
Bit(c) == IF c THEN <<1>> ELSE <<0>>

\* a + b + cin from the least significant bit: <<carry, sum bits>>
RECURSIVE AddC(_, _, _, _, _)
AddC(a, b, k, c, acc) ==
  IF k = 0 THEN <<c>> \o acc
  ELSE LET s == a[k] + b[k] + c IN AddC(a, b, k - 1, s \div 2, <<s % 2>> \o acc)
Add(a, b, cin) == AddC(a, b, Len(a), cin, <<>>)          \* Len(a) + 1 bits: carry first
One(n) == ZerosN(n - 1) \o <<1>>
\* a - b - bin = a + ~b + (1 - bin); borrow = 1 - carry
Sub(a, b, bin) == LET r == Add(a, NotB(b), 1 - bin) IN <<1 - r[1]>> \o Tail(r)
\* unsigned comparison
RECURSIVE LtB(_, _, _)
LtB(a, b, k) == IF k > Len(a) THEN FALSE ELSE IF a[k] # b[k] THEN a[k] < b[k] ELSE LtB(a, b, k + 1)
Lt(a, b) == LtB(a, b, 1)
\* product of two n-bit words: 2n bits (shift and add over the bits of b, least significant first)
RECURSIVE MulAcc(_, _, _, _)
MulAcc(a, b, k, acc) ==      \* acc has 2n bits; k runs over the bits of b from the last to the first
  IF k = 0 THEN acc
  ELSE LET n == Len(a)
           shifted == ZerosN(n - (n - k)) \o a \o ZerosN(n - k)      \* a << (n - k), as 2n bits
           acc2 == IF b[k] = 1 THEN Tail(Add(acc, SubSeq(shifted, Len(shifted) - 2 * n + 1, Len(shifted)), 0)) ELSE acc
       IN MulAcc(a, b, k - 1, acc2)
Mul(a, b) == MulAcc(a, b, Len(b), ZerosN(2 * Len(a)))

Val(b) == LET RECURSIVE V(_) V(k) == IF k = 0 THEN 0 ELSE 2 * V(k - 1) + b[k] IN V(Len(b))      \* short words only
Widths == {1, 8, 16, 32, 64, 256}
Name(op, n) == op \o "_" \o ToString(n)
UnaryOps == {"complement", "is_zero", "is_one", "increment", "decrement", "negate", "some", "all"}
BinaryOps == {"and", "or", "xor", "eq", "le", "lt", "add", "subtract", "multiply", "max", "min"}
TernaryOps == {"maj", "ch", "xor_xor"}
CarryOps == {"full_add", "full_subtract"}
ConstOps == {"low", "high", "one"}
\* which (op, n) pairs exist as jets: the 1-bit width has only the logic jets
Exists(op, n) == IF n = 1 THEN op \in {"low", "high", "complement", "and", "or", "xor", "eq", "maj", "ch", "xor_xor", "some"}
                 ELSE IF n = 256 THEN op = "eq" ELSE TRUE
Parse(name) ==        \* <<op, n>> or <<>>
  LET hits == {<<op, n>> \in (UnaryOps \cup BinaryOps \cup TernaryOps \cup CarryOps \cup ConstOps) \X Widths : Exists(op, n) /\ Name(op, n) = name} IN
  IF hits = {} THEN <<>> ELSE CHOOSE h \in hits : TRUE
\* two-width families <op>_<a>_<b>: regroupings, slices, paddings and extensions between word sizes
Name2(op, a, b) == op \o "_" \o ToString(a) \o "_" \o ToString(b)
Widths2 == {1, 2, 4, 8, 16, 32, 64}
TwoOps == {"leftmost", "rightmost", "full_left_shift", "full_right_shift", "left_pad_low", "left_pad_high", "left_extend",
           "right_pad_low", "right_pad_high", "right_extend"}
Parse2(name) ==
  LET hits == {<<op, a, b>> \in TwoOps \X Widths2 \X Widths2 : a # b /\ Name2(op, a, b) = name} IN
  IF hits = {} THEN <<>> ELSE CHOOSE h \in hits : TRUE
\* one-width families with carry / several operands
MoreOps == {"full_increment", "full_decrement", "full_multiply", "median", "left_shift", "right_shift", "left_shift_with",
            "right_shift_with", "left_rotate", "right_rotate", "divide", "modulo", "div_mod", "divides"}
ParseM(name) ==
  LET hits == {<<op, n>> \in MoreOps \X {8, 16, 32, 64} : Name(op, n) = name} IN
  IF hits = {} THEN <<>> ELSE CHOOSE h \in hits : TRUE
JetKnown(name) == name = "verify" \/ Parse(name) # <<>> \/ Parse2(name) # <<>> \/ ParseM(name) # <<>>

OutOf(op, n, x) ==
  LET a == Hi(x, n)  b == Lo(x, n) IN         \* for binary jets x = a ++ b
  CASE op = "low" -> ZerosN(n)
    [] op = "high" -> OnesN(n)
    [] op = "one" -> One(n)
    [] op = "complement" -> NotB(x)
    [] op = "is_zero" -> Bit(x = ZerosN(n))
    [] op = "is_one" -> Bit(x = One(n))
    [] op = "some" -> Bit(x # ZerosN(n))
    [] op = "all" -> Bit(x = OnesN(n))
    [] op = "increment" -> Add(x, ZerosN(n), 1)
    [] op = "decrement" -> Sub(x, ZerosN(n), 1)
    [] op = "negate" -> Sub(ZerosN(n), x, 0)
    [] op = "and" -> AndB(a, b)
    [] op = "or" -> OrB(a, b)
    [] op = "xor" -> XorB(a, b)
    [] op = "eq" -> Bit(a = b)
    [] op = "lt" -> Bit(Lt(a, b))
    [] op = "le" -> Bit(~Lt(b, a))
    [] op = "max" -> IF Lt(a, b) THEN b ELSE a
    [] op = "min" -> IF Lt(a, b) THEN a ELSE b
    [] op = "add" -> Add(a, b, 0)
    [] op = "subtract" -> Sub(a, b, 0)
    [] op = "multiply" -> Mul(a, b)
    [] op = "full_add" -> Add(SubSeq(x, 2, n + 1), Lo(x, n), x[1])            \* (carry, (a, b))
    [] op = "full_subtract" -> Sub(SubSeq(x, 2, n + 1), Lo(x, n), x[1])
    [] op \in TernaryOps ->
         LET p == Hi(x, n)  q == SubSeq(x, n + 1, 2 * n)  r == Lo(x, n) IN
         CASE op = "maj" -> OrB(OrB(AndB(p, q), AndB(p, r)), AndB(q, r))
           [] op = "ch" -> OrB(AndB(p, q), AndB(NotB(p), r))
           [] OTHER -> XorB(XorB(p, q), r)
Rep(bit, n) == [i \in 1..n |-> bit]
OutOf2(op, a, b, x) ==
  CASE op = "leftmost" -> Hi(x, b)                         \* a-bit word -> its b most significant bits
    [] op = "rightmost" -> Lo(x, b)
    [] op \in {"full_left_shift", "full_right_shift"} -> x  \* only the grouping of the a + b bits changes
    [] op = "left_pad_low" -> ZerosN(b - a) \o x           \* a-bit word -> b-bit word
    [] op = "left_pad_high" -> OnesN(b - a) \o x
    [] op = "left_extend" -> Rep(x[1], b - a) \o x          \* sign extension
    [] op = "right_pad_low" -> x \o ZerosN(b - a)
    [] op = "right_pad_high" -> x \o OnesN(b - a)
    [] op = "right_extend" -> x \o Rep(x[a], b - a)
Median(p, q, r) == IF Lt(p, q) THEN (IF Lt(q, r) THEN q ELSE IF Lt(r, p) THEN p ELSE r)
                   ELSE (IF Lt(p, r) THEN p ELSE IF Lt(r, q) THEN q ELSE r)
\* shift amounts are words of 4 bits (for 8- and 16-bit values) or 8 bits (32, 64): small numbers
AmtBits(n) == IF n <= 16 THEN 4 ELSE 8
ShiftL(v, amt, fill) == IF amt < Len(v) THEN SubSeq(v, amt + 1, Len(v)) \o Rep(fill, amt) ELSE Rep(fill, Len(v))
ShiftR(v, amt, fill) == IF amt < Len(v) THEN Rep(fill, amt) \o SubSeq(v, 1, Len(v) - amt) ELSE Rep(fill, Len(v))
RotL(v, amt) == LET a == (amt % Len(v)) IN SubSeq(v, a + 1, Len(v)) \o SubSeq(v, 1, a)
\* restoring long division on bit strings: <<quotient, remainder>>, each Len(x) bits (divisor not zero)
RECURSIVE DivStep(_, _, _, _, _)
DivStep(x, y, k, q, r) ==      \* r has Len(x) + 1 bits so that the shifted remainder cannot overflow
  IF k > Len(x) THEN <<q, Tail(r)>>
  ELSE LET r1 == Tail(r) \o <<x[k]>>                      \* shift the next bit of x in
           ge == ~Lt(r1, <<0>> \o y)
           r2 == IF ge THEN Tail(Sub(r1, <<0>> \o y, 0)) ELSE r1
       IN DivStep(x, y, k + 1, Append(q, IF ge THEN 1 ELSE 0), r2)
DivMod(x, y) == DivStep(x, y, 1, <<>>, ZerosN(Len(x) + 1))
OutOfM(op, n, x) ==
  CASE op \in {"left_shift", "right_shift", "left_rotate", "right_rotate"} ->
         LET l == AmtBits(n)  amt == Val(Hi(x, l))  v == Lo(x, n) IN
         CASE op = "left_shift" -> ShiftL(v, amt, 0)
           [] op = "right_shift" -> ShiftR(v, amt, 0)
           [] op = "left_rotate" -> RotL(v, amt)
           [] OTHER -> RotL(v, (n - (amt % n)) % n)
    [] op \in {"left_shift_with", "right_shift_with"} ->
         LET l == AmtBits(n)  fill == x[1]  amt == Val(SubSeq(x, 2, l + 1))  v == Lo(x, n) IN
         IF op = "left_shift_with" THEN ShiftL(v, amt, fill) ELSE ShiftR(v, amt, fill)
    [] op \in {"divide", "modulo", "div_mod", "divides"} ->
         LET a == Hi(x, n)  b == Lo(x, n)  zero == ZerosN(n) IN
         CASE op = "divide" -> IF b = zero THEN zero ELSE DivMod(a, b)[1]
           [] op = "modulo" -> IF b = zero THEN a ELSE DivMod(a, b)[2]
           [] op = "div_mod" -> IF b = zero THEN zero \o a ELSE DivMod(a, b)[1] \o DivMod(a, b)[2]
           [] OTHER -> Bit((IF a = zero THEN b ELSE DivMod(b, a)[2]) = zero)        \* divides(a, b): a divides b
    [] op = "full_increment" -> Add(Tail(x), ZerosN(n), x[1])         \* (bit, word) -> (carry, word + bit)
    [] op = "full_decrement" -> Sub(Tail(x), ZerosN(n), x[1])
    [] op = "full_multiply" ->                                          \* ((a, b), (c, d)) -> a * b + c + d on 2n bits
         LET a == SubSeq(x, 1, n)  b == SubSeq(x, n + 1, 2 * n)  c == SubSeq(x, 2 * n + 1, 3 * n)  d == SubSeq(x, 3 * n + 1, 4 * n)
             ext(w) == ZerosN(n) \o w IN
         Tail(Add(Tail(Add(Mul(a, b), ext(c), 0)), ext(d), 0))
    [] op = "median" -> Median(SubSeq(x, 1, n), SubSeq(x, n + 1, 2 * n), SubSeq(x, 2 * n + 1, 3 * n))
JetOut(name, x) ==
  IF name = "verify" THEN (IF x = <<1>> THEN <<>> ELSE JetFails)
  ELSE IF Parse(name) # <<>> THEN LET h == Parse(name) IN OutOf(h[1], h[2], x)
  ELSE IF Parse2(name) # <<>> THEN LET h == Parse2(name) IN OutOf2(h[1], h[2], h[3], x)
  ELSE LET h == ParseM(name) IN OutOfM(h[1], h[2], x)

(* ---- sanity of the definitions themselves (evaluated once by TLC) ---- *)
B8(k) == [i \in 1..8 |-> (k \div (2 ^ (8 - i))) % 2]
ASSUME \A x \in {0, 1, 7, 128, 200, 255} : \A y \in {0, 1, 9, 127, 255} :
   /\ Val(Add(B8(x), B8(y), 0)) = x + y
   /\ Val(Tail(Sub(B8(x), B8(y), 0))) = (x - y + 256) % 256 /\ Sub(B8(x), B8(y), 0)[1] = (IF x < y THEN 1 ELSE 0)
   /\ Val(Mul(B8(x), B8(y))) = x * y
   /\ Lt(B8(x), B8(y)) = (x < y)
   /\ JetOut("le_8", B8(x) \o B8(y)) = Bit(x <= y)
   /\ Val(JetOut("increment_8", B8(x))) = x + 1
   /\ JetOut("max_8", B8(x) \o B8(y)) = B8(IF x > y THEN x ELSE y)
ASSUME \A x \in {0, 1, 7, 100, 255} : \A y \in {1, 2, 7, 16, 255} :
   /\ Val(DivMod(B8(x), B8(y))[1]) = (x \div y) /\ Val(DivMod(B8(x), B8(y))[2]) = (x % y)
   /\ JetOut("divides_8", B8(y) \o B8(x)) = Bit((x % y) = 0)
ASSUME JetOut("left_shift_8", <<0,0,1,1>> \o B8(255)) = B8(248) /\ JetOut("right_shift_with_8", <<1>> \o <<0,0,1,0>> \o B8(0)) = B8(192)
ASSUME JetOut("left_rotate_8", <<1,0,0,1>> \o B8(129)) = B8(3) /\ JetOut("right_rotate_8", <<0,0,0,1>> \o B8(129)) = B8(192)
ASSUME JetKnown("leftmost_16_4") /\ JetKnown("right_extend_8_64") /\ JetKnown("full_multiply_64") /\ JetKnown("left_shift_8") /\ ~JetKnown("div_mod_128_64")
ASSUME JetKnown("add_32") /\ JetKnown("eq_256") /\ ~JetKnown("all_1") /\ JetKnown("xor_xor_1") /\ ~JetKnown("add_1") /\ ~JetKnown("sha_256_block") /\ JetKnown("verify")
=============================================================================
