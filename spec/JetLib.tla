------------------------------- MODULE JetLib -------------------------------
(***************************************************************************)
(* What the arithmetic, logic and comparison jets compute (C05: "jets      *)
(* computing their specified functions"), as functions on bit strings.     *)
(* Words are big-endian bit sequences; a jet's input and output are the    *)
(* flat concatenations of their word components (none of the jets below    *)
(* has a padded sum in its source or target type, so the padded layout of  *)
(* the Bit Machine is exactly this concatenation).                         *)
(*   JetKnown(name)          the jet is specified here                     *)
(*   JetOut(name, in)        its output bits, or JetFails                  *)
(* Names are the crate's: <op>_<n> and <op>_<a>_<b> for word sizes up to   *)
(* 64 (eq also 256), plus verify, the SHA-256, hash-context and lock        *)
(* parsing jets (Sha256.tla) and the secp256k1 jets (Secp.tla): all 368    *)
(* Core jets.  Word arithmetic is on bit sequences (TLC's integers are 32  *)
(* bits); field arithmetic on 8-bit limbs.                                 *)
(***************************************************************************)
EXTENDS Integers, Sequences, TLC

JetFails == <<"jetfailed">>
ZerosN(n) == [i \in 1..n |-> 0]
OnesN(n) == [i \in 1..n |-> 1]
NotB(a) == [i \in 1..Len(a) |-> 1 - a[i]]
AndB(a, b) == [i \in 1..Len(a) |-> a[i] * b[i]]
OrB(a, b) == [i \in 1..Len(a) |-> IF a[i] + b[i] > 0 THEN 1 ELSE 0]
XorB(a, b) == [i \in 1..Len(a) |-> (a[i] + b[i]) % 2]
Hi(x, n) == SubSeq(x, 1, n)                 \* first n bits
Lo(x, n) == SubSeq(x, Len(x) - n + 1, Len(x))
Bit(c) == IF c THEN <<1>> ELSE <<0>>
B8(k) == [i \in 1..8 |-> (k \div (2 ^ (8 - i))) % 2]

\* a + b + cin from the least significant bit: <<carry, sum bits>>
RECURSIVE AddC(_, _, _, _, _)
AddC(a, b, k, c, acc) ==
  IF k = 0 THEN <<c>> \o acc
  ELSE LET s == a[k] + b[k] + c IN AddC(a, b, k - 1, s \div 2, <<s % 2>> \o acc)
Add(a, b, cin) == AddC(a, b, Len(a), cin, <<>>)          \* Len(a) + 1 bits: carry first
One(n) == ZerosN(n - 1) \o <<1>>
\* a - b - bin = a + ~b + (1 - bin); borrow = 1 - carry
Sub(a, b, bin) == LET r == Add(a, NotB(b), 1 - bin) IN <<1 - r[1]>> \o Tail(r)
\* unsigned comparison
RECURSIVE LtB(_, _, _)
LtB(a, b, k) == IF k > Len(a) THEN FALSE ELSE IF a[k] # b[k] THEN a[k] < b[k] ELSE LtB(a, b, k + 1)
Lt(a, b) == LtB(a, b, 1)
\* product of two n-bit words: 2n bits (shift and add over the bits of b, least significant first)
RECURSIVE MulAcc(_, _, _, _)
MulAcc(a, b, k, acc) ==      \* acc has 2n bits; k runs over the bits of b from the last to the first
  IF k = 0 THEN acc
  ELSE LET n == Len(a)
           shifted == ZerosN(n - (n - k)) \o a \o ZerosN(n - k)      \* a << (n - k), as 2n bits
           acc2 == IF b[k] = 1 THEN Tail(Add(acc, SubSeq(shifted, Len(shifted) - 2 * n + 1, Len(shifted)), 0)) ELSE acc
       IN MulAcc(a, b, k - 1, acc2)
Mul(a, b) == MulAcc(a, b, Len(b), ZerosN(2 * Len(a)))

Val(b) == LET RECURSIVE V(_) V(k) == IF k = 0 THEN 0 ELSE 2 * V(k - 1) + b[k] IN V(Len(b))      \* short words only
Widths == {1, 8, 16, 32, 64, 256}
Name(op, n) == op \o "_" \o ToString(n)
UnaryOps == {"complement", "is_zero", "is_one", "increment", "decrement", "negate", "some", "all"}
BinaryOps == {"and", "or", "xor", "eq", "le", "lt", "add", "subtract", "multiply", "max", "min"}
TernaryOps == {"maj", "ch", "xor_xor"}
CarryOps == {"full_add", "full_subtract"}
ConstOps == {"low", "high", "one"}
\* which (op, n) pairs exist as jets: the 1-bit width has only the logic jets
Exists(op, n) == IF n = 1 THEN op \in {"low", "high", "complement", "and", "or", "xor", "eq", "maj", "ch", "xor_xor", "some"}
                 ELSE IF n = 256 THEN op = "eq" ELSE TRUE
Parse(name) ==        \* <<op, n>> or <<>>
  LET hits == {<<op, n>> \in (UnaryOps \cup BinaryOps \cup TernaryOps \cup CarryOps \cup ConstOps) \X Widths : Exists(op, n) /\ Name(op, n) = name} IN
  IF hits = {} THEN <<>> ELSE CHOOSE h \in hits : TRUE
\* two-width families <op>_<a>_<b>: regroupings, slices, paddings and extensions between word sizes
Name2(op, a, b) == op \o "_" \o ToString(a) \o "_" \o ToString(b)
Widths2 == {1, 2, 4, 8, 16, 32, 64}
TwoOps == {"leftmost", "rightmost", "full_left_shift", "full_right_shift", "left_pad_low", "left_pad_high", "left_extend",
           "right_pad_low", "right_pad_high", "right_extend"}
Parse2(name) ==
  LET hits == {<<op, a, b>> \in TwoOps \X Widths2 \X Widths2 : a # b /\ Name2(op, a, b) = name} IN
  IF hits = {} THEN <<>> ELSE CHOOSE h \in hits : TRUE
\* one-width families with carry / several operands
MoreOps == {"full_increment", "full_decrement", "full_multiply", "median", "left_shift", "right_shift", "left_shift_with",
            "right_shift_with", "left_rotate", "right_rotate", "divide", "modulo", "div_mod", "divides"}
ParseM(name) ==
  LET hits == {<<op, n>> \in MoreOps \X {8, 16, 32, 64} : Name(op, n) = name} IN
  IF hits = {} THEN <<>> ELSE CHOOSE h \in hits : TRUE
JetKnownFlat(name) == name = "verify" \/ Parse(name) # <<>> \/ Parse2(name) # <<>> \/ ParseM(name) # <<>>

OutOf(op, n, x) ==
  LET a == Hi(x, n)  b == Lo(x, n) IN         \* for binary jets x = a ++ b
  CASE op = "low" -> ZerosN(n)
    [] op = "high" -> OnesN(n)
    [] op = "one" -> One(n)
    [] op = "complement" -> NotB(x)
    [] op = "is_zero" -> Bit(x = ZerosN(n))
    [] op = "is_one" -> Bit(x = One(n))
    [] op = "some" -> Bit(x # ZerosN(n))
    [] op = "all" -> Bit(x = OnesN(n))
    [] op = "increment" -> Add(x, ZerosN(n), 1)
    [] op = "decrement" -> Sub(x, ZerosN(n), 1)
    [] op = "negate" -> Sub(ZerosN(n), x, 0)
    [] op = "and" -> AndB(a, b)
    [] op = "or" -> OrB(a, b)
    [] op = "xor" -> XorB(a, b)
    [] op = "eq" -> Bit(a = b)
    [] op = "lt" -> Bit(Lt(a, b))
    [] op = "le" -> Bit(~Lt(b, a))
    [] op = "max" -> IF Lt(a, b) THEN b ELSE a
    [] op = "min" -> IF Lt(a, b) THEN a ELSE b
    [] op = "add" -> Add(a, b, 0)
    [] op = "subtract" -> Sub(a, b, 0)
    [] op = "multiply" -> Mul(a, b)
    [] op = "full_add" -> Add(SubSeq(x, 2, n + 1), Lo(x, n), x[1])            \* (carry, (a, b))
    [] op = "full_subtract" -> Sub(SubSeq(x, 2, n + 1), Lo(x, n), x[1])
    [] op \in TernaryOps ->
         LET p == Hi(x, n)  q == SubSeq(x, n + 1, 2 * n)  r == Lo(x, n) IN
         CASE op = "maj" -> OrB(OrB(AndB(p, q), AndB(p, r)), AndB(q, r))
           [] op = "ch" -> OrB(AndB(p, q), AndB(NotB(p), r))
           [] OTHER -> XorB(XorB(p, q), r)
Rep(bit, n) == [i \in 1..n |-> bit]
OutOf2(op, a, b, x) ==
  CASE op = "leftmost" -> Hi(x, b)                         \* a-bit word -> its b most significant bits
    [] op = "rightmost" -> Lo(x, b)
    [] op \in {"full_left_shift", "full_right_shift"} -> x  \* only the grouping of the a + b bits changes
    [] op = "left_pad_low" -> ZerosN(b - a) \o x           \* a-bit word -> b-bit word
    [] op = "left_pad_high" -> OnesN(b - a) \o x
    [] op = "left_extend" -> Rep(x[1], b - a) \o x          \* sign extension
    [] op = "right_pad_low" -> x \o ZerosN(b - a)
    [] op = "right_pad_high" -> x \o OnesN(b - a)
    [] op = "right_extend" -> x \o Rep(x[a], b - a)
Median(p, q, r) == IF Lt(p, q) THEN (IF Lt(q, r) THEN q ELSE IF Lt(r, p) THEN p ELSE r)
                   ELSE (IF Lt(p, r) THEN p ELSE IF Lt(r, q) THEN q ELSE r)
\* shift amounts are words of 4 bits (for 8- and 16-bit values) or 8 bits (32, 64): small numbers
AmtBits(n) == IF n <= 16 THEN 4 ELSE 8
ShiftL(v, amt, fill) == IF amt < Len(v) THEN SubSeq(v, amt + 1, Len(v)) \o Rep(fill, amt) ELSE Rep(fill, Len(v))
ShiftR(v, amt, fill) == IF amt < Len(v) THEN Rep(fill, amt) \o SubSeq(v, 1, Len(v) - amt) ELSE Rep(fill, Len(v))
RotL(v, amt) == LET a == (amt % Len(v)) IN SubSeq(v, a + 1, Len(v)) \o SubSeq(v, 1, a)
\* restoring long division on bit strings: <<quotient, remainder>>, each Len(x) bits (divisor not zero)
RECURSIVE DivStep(_, _, _, _, _)
DivStep(x, y, k, q, r) ==      \* r has Len(x) + 1 bits so that the shifted remainder cannot overflow
  IF k > Len(x) THEN <<q, Tail(r)>>
  ELSE LET r1 == Tail(r) \o <<x[k]>>                      \* shift the next bit of x in
           ge == ~Lt(r1, <<0>> \o y)
           r2 == IF ge THEN Tail(Sub(r1, <<0>> \o y, 0)) ELSE r1
       IN DivStep(x, y, k + 1, Append(q, IF ge THEN 1 ELSE 0), r2)
DivMod(x, y) == DivStep(x, y, 1, <<>>, ZerosN(Len(x) + 1))
OutOfM(op, n, x) ==
  CASE op \in {"left_shift", "right_shift", "left_rotate", "right_rotate"} ->
         LET l == AmtBits(n)  amt == Val(Hi(x, l))  v == Lo(x, n) IN
         CASE op = "left_shift" -> ShiftL(v, amt, 0)
           [] op = "right_shift" -> ShiftR(v, amt, 0)
           [] op = "left_rotate" -> RotL(v, amt)
           [] OTHER -> RotL(v, (n - (amt % n)) % n)
    [] op \in {"left_shift_with", "right_shift_with"} ->
         LET l == AmtBits(n)  fill == x[1]  amt == Val(SubSeq(x, 2, l + 1))  v == Lo(x, n) IN
         IF op = "left_shift_with" THEN ShiftL(v, amt, fill) ELSE ShiftR(v, amt, fill)
    [] op \in {"divide", "modulo", "div_mod", "divides"} ->
         LET a == Hi(x, n)  b == Lo(x, n)  zero == ZerosN(n) IN
         CASE op = "divide" -> IF b = zero THEN zero ELSE DivMod(a, b)[1]
           [] op = "modulo" -> IF b = zero THEN a ELSE DivMod(a, b)[2]
           [] op = "div_mod" -> IF b = zero THEN zero \o a ELSE DivMod(a, b)[1] \o DivMod(a, b)[2]
           [] OTHER -> Bit((IF a = zero THEN b ELSE DivMod(b, a)[2]) = zero)        \* divides(a, b): a divides b
    [] op = "full_increment" -> Add(Tail(x), ZerosN(n), x[1])         \* (bit, word) -> (carry, word + bit)
    [] op = "full_decrement" -> Sub(Tail(x), ZerosN(n), x[1])
    [] op = "full_multiply" ->                                          \* ((a, b), (c, d)) -> a * b + c + d on 2n bits
         LET a == SubSeq(x, 1, n)  b == SubSeq(x, n + 1, 2 * n)  c == SubSeq(x, 2 * n + 1, 3 * n)  d == SubSeq(x, 3 * n + 1, 4 * n)
             ext(w) == ZerosN(n) \o w IN
         Tail(Add(Tail(Add(Mul(a, b), ext(c), 0)), ext(d), 0))
    [] op = "median" -> Median(SubSeq(x, 1, n), SubSeq(x, n + 1, 2 * n), SubSeq(x, 2 * n + 1, 3 * n))
FlatOut(name, x) ==
  IF name = "verify" THEN (IF x = <<1>> THEN <<>> ELSE JetFails)
  ELSE IF Parse(name) # <<>> THEN LET h == Parse(name) IN OutOf(h[1], h[2], x)
  ELSE IF Parse2(name) # <<>> THEN LET h == Parse2(name) IN OutOf2(h[1], h[2], h[3], x)
  ELSE LET h == ParseM(name) IN OutOfM(h[1], h[2], x)

(* ---- hashing and parsing jets; these have sums in their types, so inputs and outputs are in the padded
        layout of the Bit Machine: a tag bit, then the chosen side behind as many (zero) padding bits as
        make both sides equally wide ---- *)
SHA == INSTANCE Sha256
(* a buffer (2^8)^<2^(n+1) = S(2^8)^(2^n) * ... * S(2^8): the bytes present, largest chunk first, and the bits consumed *)
RECURSIVE ReadBuf(_, _, _)
ReadBuf(x, pos, n) ==       \* <<data bits, next position>>
  IF n < 0 THEN <<<<>>, pos>>
  ELSE LET w == 8 * (2 ^ n)
           rest == ReadBuf(x, pos + 1 + w, n - 1)
       IN <<(IF x[pos] = 1 THEN SubSeq(x, pos + 1, pos + w) ELSE <<>>) \o rest[1], rest[2]>>
RECURSIVE WriteBuf(_, _)
WriteBuf(d, n) ==
  IF n < 0 THEN <<>>
  ELSE LET w == 8 * (2 ^ n)
       IN IF w <= Len(d) THEN <<1>> \o SubSeq(d, 1, w) \o WriteBuf(SubSeq(d, w + 1, Len(d)), n - 1)
          ELSE <<0>> \o ZerosN(w) \o WriteBuf(d, n - 1)
CtxWidth == 830                                  \* 6 tags + 63 bytes, the 64-bit count of compressed blocks, the midstate
ReadCtx(x) == LET b == ReadBuf(x, 1, 5)
              IN [buf |-> b[1], cc |-> SubSeq(x, b[2], b[2] + 63), h |-> SubSeq(x, b[2] + 64, b[2] + 319)]
WriteCtx(c) == WriteBuf(c.buf, 5) \o c.cc \o c.h
TooMany(cc) == \E i \in 1..9 : cc[i] = 1         \* 2^55 blocks or more: the byte counter would reach 2^61
SmallB64(k) == ZerosN(48) \o [i \in 1..16 |-> (k \div (2 ^ (16 - i))) % 2]
CtxAdd(c, data) ==           \* absorb data: hash whole blocks, keep the tail, count the blocks
  LET all == c.buf \o data
      nb == Len(all) \div 512
      cc2 == Tail(Add(c.cc, SmallB64(nb), 0))
  IN IF TooMany(c.cc) \/ TooMany(cc2) THEN JetFails
     ELSE WriteCtx([buf |-> SubSeq(all, 512 * nb + 1, Len(all)), cc |-> cc2, h |-> SHA!Absorb(c.h, all)])
CtxFinal(c) ==               \* the length in bits is (64 * cc + bytes buffered) * 8
  IF TooMany(c.cc) THEN JetFails
  ELSE LET nbytes == Len(c.buf) \div 8
           len64 == SubSeq(c.cc, 10, 64) \o [i \in 1..6 |-> (nbytes \div (2 ^ (6 - i))) % 2] \o <<0, 0, 0>>
       IN SHA!Absorb(c.h, SHA!PadTail(c.buf, len64))
InitCtx == [buf |-> <<>>, cc |-> ZerosN(64), h |-> SHA!IVBits]
TapDataTag == SHA!Sha256(SHA!HexBits("54617044617461"))                   \* "TapData"
TapDataCtx == [buf |-> <<>>, cc |-> SmallB64(1), h |-> SHA!CompressBits(SHA!IVBits, TapDataTag \o TapDataTag)]
CtxAddN(name) ==             \* sha_256_ctx_8_add_<n>: n, or 0
  LET Try(n) == name = "sha_256_ctx_8_add_" \o ToString(n)
  IN IF \E k \in 0..9 : Try(2 ^ k) THEN (CHOOSE n \in {2 ^ k : k \in 0..9} : Try(n)) ELSE 0
HashOps == {"sha_256_iv", "sha_256_block", "sha_256_ctx_8_init", "sha_256_ctx_8_finalize", "sha_256_ctx_8_add_buffer_511",
            "tapdata_init", "parse_lock", "parse_sequence"}
JetKnownHash(name) == name \in HashOps \/ CtxAddN(name) > 0
HashOut(name, x) ==
  CASE name = "sha_256_iv" -> SHA!IVBits
    [] name = "sha_256_block" -> SHA!CompressBits(SubSeq(x, 1, 256), SubSeq(x, 257, 768))
    [] name = "sha_256_ctx_8_init" -> WriteCtx(InitCtx)
    [] name = "tapdata_init" -> WriteCtx(TapDataCtx)
    [] name = "sha_256_ctx_8_finalize" -> CtxFinal(ReadCtx(x))
    [] name = "sha_256_ctx_8_add_buffer_511" -> CtxAdd(ReadCtx(x), ReadBuf(x, CtxWidth + 1, 8)[1])
    [] name = "parse_lock" ->       \* a height below 500 000 000 on the left, a time on the right
         <<IF Lt(x, SHA!HexBits("1dcd6500")) THEN 0 ELSE 1>> \o x
    [] name = "parse_sequence" ->   \* nothing when the disable flag (bit 31) is set; else bit 22 picks time over distance
         IF x[1] = 1 THEN ZerosN(18) ELSE <<1, x[10]>> \o SubSeq(x, 17, 32)
    [] OTHER -> CtxAdd(ReadCtx(x), SubSeq(x, CtxWidth + 1, CtxWidth + 8 * CtxAddN(name)))

(* ---- secp256k1: field elements (mod P), scalars (mod N), affine (ge) and Jacobian (gej) points; Secp.tla.
        Every 256-bit input is first reduced; every output is the reduced representative.  A gej is at infinity
        iff its z is zero.  ---- *)
EC == INSTANCE Secp
Fe(x, i) == EC!FRed(EC!FromBits(SubSeq(x, 256 * (i - 1) + 1, 256 * i)))        \* the i-th 256-bit component, as a field element
Sc(x, i) == EC!SRed(EC!FromBits(SubSeq(x, 256 * (i - 1) + 1, 256 * i)))
FB(v) == EC!ToBits(v)
FM(a, b) == EC!FMul(a, b)
Odd(v) == v[1] % 2 = 1
Seven == EC!Small(7)
Cube(a) == FM(FM(a, a), a)
Gej(x, i) == [x |-> Fe(x, i), y |-> Fe(x, i + 1), z |-> Fe(x, i + 2)]
GejB(p) == FB(p.x) \o FB(p.y) \o FB(p.z)
Inf(p) == p.z = EC!Zero
GeOnCurve(px, py) == FM(py, py) = EC!FAdd(Cube(px), Seven)
GejOnCurve(p) == LET z2 == FM(p.z, p.z) IN FM(p.y, p.y) = EC!FAdd(Cube(p.x), FM(Seven, Cube(z2)))      \* y^2 = x^3 + 7 z^6
(* the group law in Jacobian coordinates (the specification's own formulas) *)
PDouble(p) ==
  IF Inf(p) \/ p.y = EC!Zero THEN [x |-> EC!Zero, y |-> EC!Zero, z |-> EC!Zero]
  ELSE LET y2 == FM(p.y, p.y)
           s == FM(EC!Small(4), FM(p.x, y2))
           m == FM(EC!Small(3), FM(p.x, p.x))
           x3 == EC!FSub(FM(m, m), FM(EC!Small(2), s))
       IN [x |-> x3, y |-> EC!FSub(FM(m, EC!FSub(s, x3)), FM(EC!Small(8), FM(y2, y2))), z |-> FM(EC!Small(2), FM(p.y, p.z))]
PAdd(a, b) ==
  IF Inf(a) THEN b ELSE IF Inf(b) THEN a
  ELSE LET z1z1 == FM(a.z, a.z)
           z2z2 == FM(b.z, b.z)
           u1 == FM(a.x, z2z2)
           u2 == FM(b.x, z1z1)
           s1 == FM(a.y, FM(b.z, z2z2))
           s2 == FM(b.y, FM(a.z, z1z1))
       IN IF u1 = u2 THEN (IF s1 = s2 THEN PDouble(a) ELSE [x |-> EC!Zero, y |-> EC!Zero, z |-> EC!Zero])
          ELSE LET h == EC!FSub(u2, u1)
                   r == EC!FSub(s2, s1)
                   h2 == FM(h, h)
                   h3 == FM(h, h2)
                   v == FM(u1, h2)
                   x3 == EC!FSub(EC!FSub(FM(r, r), h3), FM(EC!Small(2), v))
               IN [x |-> x3, y |-> EC!FSub(FM(r, EC!FSub(v, x3)), FM(s1, h3)), z |-> FM(h, FM(a.z, b.z))]
SamePoint(a, b) ==
  IF Inf(a) \/ Inf(b) THEN Inf(a) /\ Inf(b)
  ELSE /\ FM(a.x, FM(b.z, b.z)) = FM(b.x, FM(a.z, a.z))
       /\ FM(a.y, Cube(b.z)) = FM(b.y, Cube(a.z))
Valid(p) == Inf(p) \/ GejOnCurve(p)
Affine(x, i) == [x |-> Fe(x, i), y |-> Fe(x, i + 1), z |-> EC!Small(1)]
GPoint == [x |-> EC!HexL("79be667ef9dcbbac55a06295ce870b07029bfcdb2dce28d959f2815b16f81798"),
           y |-> EC!HexL("483ada7726a3c4655da4fbfc0e1108a8fd17b448a68554199c47d08ffb10d4b8"), z |-> EC!Small(1)]
InfPoint == [x |-> EC!Zero, y |-> EC!Zero, z |-> EC!Zero]
IsCanonP(bits) == ~EC!Ge(EC!FromBits(bits), EC!P)
(* the Shallue - van de Woestijne map of libsecp256k1-zkp's generator module (Fouque, Tibouchi): t to a point of the curve,
   with y negated when t is odd; c = sqrt(-3) and d = (c - 1) / 2 are the constants of the C code, checked below *)
NegC == EC!HexL("f5d2d456caf80e20dcc88f3d586869d339e092ea25eb132b8272d850e32a03dd")
SvdwD == EC!HexL("851695d49a83f8ef919bb86153cbcb16630fb68aed0a766a3ec693d68e6afa40")
Svdw(t) ==
  LET t2 == FM(t, t)
      x3d == EC!FNeg(FM(EC!Small(3), t2))
      wd == EC!FAdd(t2, EC!Small(8))                       \* 1 + b + t^2
      jinv == EC!FInv(FM(wd, x3d))                         \* the inverse of zero is zero (t = 0)
      x1 == EC!FAdd(FM(FM(FM(NegC, t2), x3d), jinv), SvdwD)
      x2 == EC!FNeg(EC!FAdd(x1, EC!One))
      x3 == EC!FAdd(FM(Cube(wd), jinv), EC!One)
      rhs(x) == EC!FAdd(Cube(x), Seven)
      r1 == EC!FSqrt(rhs(x1))
      r2 == EC!FSqrt(rhs(x2))
      pick == IF r1 # <<>> THEN <<x1, r1[1]>>
              ELSE IF r2 # <<>> THEN <<x2, r2[1]>>
              ELSE <<x3, EC!PowF(rhs(x3), EC!SqrtExp, 1, EC!One)>>
  IN [x |-> pick[1], y |-> (IF Odd(t) THEN EC!FNeg(pick[2]) ELSE pick[2]), z |-> EC!One]
(* hash_to_curve: the sum of the images of two tagged hashes of the key; fails when a hash is not a reduced field element *)
HashToCurve(keyb) ==
  LET h1 == SHA!Sha256(SHA!HexBits("3173742067656e65726174696f6e3a20") \o keyb)        \* "1st generation: "
      h2 == SHA!Sha256(SHA!HexBits("326e642067656e65726174696f6e3a20") \o keyb)        \* "2nd generation: "
  IN IF ~IsCanonP(h1) \/ ~IsCanonP(h2) THEN JetFails
     ELSE LET q == PAdd(Svdw(EC!FromBits(h1)), Svdw(EC!FromBits(h2)))
          IN IF Inf(q) THEN ZerosN(512)
             ELSE LET zi == EC!FInv(q.z) IN FB(FM(q.x, FM(zi, zi))) \o FB(FM(q.y, Cube(zi)))
FieldOps == {"swu", "hash_to_curve", "fe_normalize", "fe_negate", "fe_add", "fe_square", "fe_multiply", "fe_multiply_beta", "fe_square_root", "fe_is_zero", "fe_is_odd",
             "scalar_normalize", "scalar_negate", "scalar_add", "scalar_square", "scalar_multiply", "scalar_multiply_lambda", "scalar_is_zero",
             "div_mod_128_64", "ge_negate", "gej_negate", "ge_is_on_curve", "gej_is_on_curve", "gej_is_infinity", "gej_infinity", "gej_rescale",
             "gej_x_equiv", "gej_y_is_odd", "gej_equiv", "gej_ge_equiv", "decompress"}
FieldOut(name, x) ==
  CASE name = "swu" -> LET p == Svdw(Fe(x, 1)) IN FB(p.x) \o FB(p.y)
    [] name = "hash_to_curve" -> HashToCurve(x)
    [] name = "fe_normalize" -> FB(Fe(x, 1))
    [] name = "fe_negate" -> FB(EC!FNeg(Fe(x, 1)))
    [] name = "fe_add" -> FB(EC!FAdd(Fe(x, 1), Fe(x, 2)))
    [] name = "fe_square" -> FB(FM(Fe(x, 1), Fe(x, 1)))
    [] name = "fe_multiply" -> FB(FM(Fe(x, 1), Fe(x, 2)))
    [] name = "fe_multiply_beta" -> FB(FM(Fe(x, 1), EC!Beta))
    [] name = "fe_square_root" -> LET r == EC!FSqrt(Fe(x, 1)) IN IF r = <<>> THEN ZerosN(257) ELSE <<1>> \o FB(r[1])
    [] name = "fe_is_zero" -> Bit(Fe(x, 1) = EC!Zero)
    [] name = "fe_is_odd" -> Bit(Odd(Fe(x, 1)))
    [] name = "scalar_normalize" -> FB(Sc(x, 1))
    [] name = "scalar_negate" -> FB(EC!SNeg(Sc(x, 1)))
    [] name = "scalar_add" -> FB(EC!SAdd(Sc(x, 1), Sc(x, 2)))
    [] name = "scalar_square" -> FB(EC!SMul(Sc(x, 1), Sc(x, 1)))
    [] name = "scalar_multiply" -> FB(EC!SMul(Sc(x, 1), Sc(x, 2)))
    [] name = "scalar_multiply_lambda" -> FB(EC!SMul(Sc(x, 1), EC!Lambda))
    [] name = "scalar_is_zero" -> Bit(Sc(x, 1) = EC!Zero)
    [] name = "div_mod_128_64" ->       \* defined for a divisor with its top bit set and a quotient that fits; all ones otherwise
         LET a == SubSeq(x, 1, 128)
             b == SubSeq(x, 129, 192)
         IN IF b[1] = 1 /\ Lt(Hi(a, 64), b) THEN LET d == DivMod(a, ZerosN(64) \o b) IN Lo(d[1], 64) \o Lo(d[2], 64)
            ELSE OnesN(128)
    [] name = "ge_negate" -> FB(Fe(x, 1)) \o FB(EC!FNeg(Fe(x, 2)))
    [] name = "gej_negate" -> FB(Fe(x, 1)) \o FB(EC!FNeg(Fe(x, 2))) \o FB(Fe(x, 3))
    [] name = "ge_is_on_curve" -> Bit(GeOnCurve(Fe(x, 1), Fe(x, 2)))
    [] name = "gej_is_on_curve" -> Bit(GejOnCurve(Gej(x, 1)))
    [] name = "gej_is_infinity" -> Bit(Inf(Gej(x, 1)))
    [] name = "gej_infinity" -> ZerosN(768)
    [] name = "gej_rescale" -> LET p == Gej(x, 1)
                                   c == Fe(x, 4)
                               IN FB(FM(p.x, FM(c, c))) \o FB(FM(p.y, Cube(c))) \o FB(FM(p.z, c))
    [] name = "gej_x_equiv" -> LET p == Gej(x, 2) IN Bit(~Inf(p) /\ FM(FM(p.z, p.z), Fe(x, 1)) = p.x)
    [] name = "gej_y_is_odd" -> LET p == Gej(x, 1) IN Bit(~Inf(p) /\ Odd(FM(p.y, Cube(EC!FInv(p.z)))))
    [] name = "gej_equiv" ->            \* -a + b is the point at infinity, as the addition formula finds it
         LET a == Gej(x, 1)
             b == Gej(x, 4)
         IN Bit(IF Inf(a) THEN Inf(b) ELSE IF Inf(b) THEN FALSE
                ELSE /\ FM(a.x, FM(b.z, b.z)) = FM(b.x, FM(a.z, a.z))
                     /\ (FM(EC!FNeg(a.y), Cube(b.z)) # FM(b.y, Cube(a.z)) \/ a.y = EC!Zero))         \* y = 0 doubles to infinity
    [] name = "gej_ge_equiv" ->
         LET a == Gej(x, 1)
         IN Bit(~Inf(a) /\ a.x = FM(Fe(x, 4), FM(a.z, a.z)) /\ (EC!FNeg(a.y) # FM(Fe(x, 5), Cube(a.z)) \/ a.y = EC!Zero))
    [] name = "decompress" ->            \* a parity bit and x: the point with that x whose y has that parity, if x^3 + 7 is a square
         LET px == EC!FRed(EC!FromBits(SubSeq(x, 2, 257)))
             r == EC!FSqrt(EC!FAdd(Cube(px), Seven))
         IN IF r = <<>> THEN ZerosN(513)
            ELSE <<1>> \o FB(px) \o FB(IF Odd(r[1]) = (x[1] = 1) THEN r[1] ELSE EC!FNeg(r[1]))
(* jets specified by a relation between input and output: inverses (unique, so the relation decides the function),
   normalisation (unique), and the group law, whose Jacobian result is only determined up to the representative *)
RECURSIVE SMulFrom(_, _, _, _)
SMulFrom(k, p, i, acc) ==        \* double and add over the bits of k from the i-th; leading zero bits cost nothing
  IF i > Len(k) THEN acc
  ELSE LET d == IF Inf(acc) THEN acc ELSE PDouble(acc) IN SMulFrom(k, p, i + 1, IF k[i] = 1 THEN PAdd(d, p) ELSE d)
ScalarMul(k, p) == SMulFrom(FB(k), p, 1, InfPoint)
(* compressed points: the point with that x (reduced) and a y of the given parity, if x^3 + 7 is a square *)
LiftX(xb, odd) ==           \* <<point>> or <<>>
  LET px == EC!FRed(EC!FromBits(xb))
      r == EC!FSqrt(EC!FAdd(Cube(px), Seven))
  IN IF r = <<>> THEN <<>> ELSE <<[x |-> px, y |-> (IF Odd(r[1]) = odd THEN r[1] ELSE EC!FNeg(r[1])), z |-> EC!One]>>
PNeg(p) == [p EXCEPT !.y = EC!FNeg(p.y)]
TagHash(hex) == SHA!Sha256(SHA!HexBits(hex))
ChallengeTag == TagHash("424950303334302f6368616c6c656e6765")                  \* "BIP0340/challenge"
SignatureTag == TagHash("53696d706c69636974791f5369676e6174757265")          \* "Simplicity", 0x1f, "Signature"
(* BIP-340 verification of a 64-byte signature (r, s) of a 32-byte message under an x-only key *)
Bip340(pkb, msgb, sigb) ==
  LET rb == SubSeq(sigb, 1, 256)
      sb == SubSeq(sigb, 257, 512)
      pk == IF IsCanonP(pkb) THEN LiftX(pkb, FALSE) ELSE <<>>
  IN /\ pk # <<>> /\ IsCanonP(rb) /\ ~EC!Ge(EC!FromBits(sb), EC!N)
     /\ LET e == EC!SRed(EC!FromBits(SHA!Sha256(ChallengeTag \o ChallengeTag \o rb \o pkb \o msgb)))
            rr == PAdd(ScalarMul(EC!FromBits(sb), GPoint), PNeg(ScalarMul(e, pk[1])))
        IN /\ ~Inf(rr)
           /\ FM(EC!FromBits(rb), FM(rr.z, rr.z)) = rr.x
           /\ ~Odd(FM(rr.y, Cube(EC!FInv(rr.z))))
TapTag(hex) == LET h == TagHash(hex) IN h \o h
(* build_taptweak: the x-only key lift_x(pk) + t * G for t = the tagged hash of the key and the 32-byte argument;
   a relation, because the specification does not divide by z *)
TapTweakOk(x, out) ==
  LET pkb == SubSeq(x, 1, 256)
      t == EC!FromBits(SHA!Sha256(TapTag("546170547765616b2f656c656d656e7473") \o pkb \o SubSeq(x, 257, 512)))
      pk == IF IsCanonP(pkb) THEN LiftX(pkb, FALSE) ELSE <<>>
  IN IF pk = <<>> \/ EC!Ge(t, EC!N) THEN out = JetFails
     ELSE LET q == PAdd(pk[1], ScalarMul(t, GPoint))
          IN IF Inf(q) THEN out = JetFails
             ELSE out # JetFails /\ IsCanonP(out) /\ FM(Fe(out, 1), FM(q.z, q.z)) = q.x
RelOps == {"fe_invert", "scalar_invert", "gej_normalize", "gej_double", "gej_add", "gej_ge_add", "gej_ge_add_ex", "generate", "linear_combination_1",
           "scale", "linear_verify_1", "point_verify_1", "bip_0340_verify", "check_sig_verify", "build_taptweak"}
JetKnownRel(name) == name \in RelOps
IsCanon(bits, m) == ~EC!Ge(EC!FromBits(bits), m)              \* the reduced representative
RelOk(name, x, out) ==            \* out: the output bits, or JetFails
  CASE name = "fe_invert" ->
         /\ out # JetFails /\ IsCanon(out, EC!P)
         /\ LET a == Fe(x, 1) IN IF a = EC!Zero THEN Fe(out, 1) = EC!Zero ELSE FM(a, Fe(out, 1)) = EC!Small(1)
    [] name = "scalar_invert" ->
         /\ out # JetFails /\ IsCanon(out, EC!N)
         /\ LET a == Sc(x, 1) IN IF a = EC!Zero THEN Sc(out, 1) = EC!Zero ELSE EC!SMul(a, Sc(out, 1)) = EC!Small(1)
    [] name = "gej_normalize" ->     \* nothing for the point at infinity, else the affine (x / z^2, y / z^3)
         LET p == Gej(x, 1)
         IN /\ out # JetFails
            /\ IF Inf(p) THEN out = ZerosN(513)
               ELSE /\ out[1] = 1 /\ IsCanon(SubSeq(out, 2, 257), EC!P) /\ IsCanon(SubSeq(out, 258, 513), EC!P)
                    /\ FM(Fe(Tail(out), 1), FM(p.z, p.z)) = p.x /\ FM(Fe(Tail(out), 2), Cube(p.z)) = p.y
    [] name = "gej_double" -> LET p == Gej(x, 1) IN out # JetFails /\ (Valid(p) => SamePoint(Gej(out, 1), PDouble(p)))
    [] name = "gej_add" -> LET a == Gej(x, 1)
                               b == Gej(x, 4)
                           IN out # JetFails /\ ((Valid(a) /\ Valid(b)) => SamePoint(Gej(out, 1), PAdd(a, b)))
    [] name = "gej_ge_add" -> LET a == Gej(x, 1)
                                  b == Affine(x, 4)
                              IN out # JetFails /\ ((Valid(a) /\ Valid(b)) => SamePoint(Gej(out, 1), PAdd(a, b)))
    [] name = "gej_ge_add_ex" ->      \* also returns the ratio of the z coordinates when neither the input nor the sum is at infinity
         LET a == Gej(x, 1)
             b == Affine(x, 4)
             r == Gej(out, 2)
         IN out # JetFails /\ ((Valid(a) /\ Valid(b)) =>
                                 /\ SamePoint(r, PAdd(a, b))
                                 /\ (~Inf(a) /\ ~Inf(r)) => FM(a.z, Fe(out, 1)) = r.z)
    [] name = "generate" -> out # JetFails /\ SamePoint(Gej(out, 1), ScalarMul(Sc(x, 1), GPoint))
    [] name = "linear_combination_1" ->      \* na * A + ng * G; fails unless A satisfies the curve equation
         LET a == Gej(x, 2)
         IN IF ~GejOnCurve(a) THEN out = JetFails
            ELSE out # JetFails /\ SamePoint(Gej(out, 1), PAdd(ScalarMul(Sc(x, 1), a), ScalarMul(Sc(x, 5), GPoint)))
    [] name = "build_taptweak" -> TapTweakOk(x, out)
    [] name = "scale" ->                   \* na * A; fails unless A satisfies the curve equation
         LET a == Gej(x, 2)
         IN IF ~GejOnCurve(a) THEN out = JetFails ELSE out # JetFails /\ SamePoint(Gej(out, 1), ScalarMul(Sc(x, 1), a))
    [] name = "linear_verify_1" ->         \* na * A + ng * G = B for affine A, B on the curve, or the jet fails
         LET a == Affine(x, 2)
             b == Affine(x, 5)
             ok == /\ GejOnCurve(a) /\ GejOnCurve(b)
                   /\ SamePoint(PAdd(ScalarMul(Sc(x, 1), a), ScalarMul(Sc(x, 4), GPoint)), b)
         IN out = (IF ok THEN <<>> ELSE JetFails)
    [] name = "point_verify_1" ->          \* the same for compressed points (a parity bit and x)
         LET a == LiftX(SubSeq(x, 258, 513), x[257] = 1)
             b == LiftX(SubSeq(x, 771, 1026), x[770] = 1)
             ok == /\ a # <<>> /\ b # <<>>
                   /\ SamePoint(PAdd(ScalarMul(Sc(x, 1), a[1]), ScalarMul(EC!SRed(EC!FromBits(SubSeq(x, 514, 769))), GPoint)), b[1])
         IN out = (IF ok THEN <<>> ELSE JetFails)
    [] name = "bip_0340_verify" -> out = (IF Bip340(SubSeq(x, 1, 256), SubSeq(x, 257, 512), SubSeq(x, 513, 1024)) THEN <<>> ELSE JetFails)
    [] name = "check_sig_verify" ->        \* the 64-byte message is first hashed under Simplicity's signature tag
         out = (IF Bip340(SubSeq(x, 1, 256), SHA!Sha256(SignatureTag \o SignatureTag \o SubSeq(x, 257, 768)), SubSeq(x, 769, 1280)) THEN <<>> ELSE JetFails)

(* ---- Elements jets that do not read the transaction: hashing of transaction parts into a context, issuance
        and taproot arithmetic (elementsJets.c, elements/ops.c).  Confidential values are sums in the padded
        layout: Conf A = (parity bit * 2^256) + A behind one tag bit. ---- *)
ElementsOps == {"outpoint_hash", "asset_amount_hash", "nonce_hash", "annex_hash", "calculate_issuance_entropy", "calculate_asset",
                "calculate_explicit_token", "calculate_confidential_token", "lbtc_asset", "build_tapleaf_simplicity", "build_tapbranch"}
RECURSIVE RevBytes(_)
RevBytes(b) == IF b = <<>> THEN <<>> ELSE RevBytes(SubSeq(b, 9, Len(b))) \o SubSeq(b, 1, 8)        \* little-endian byte order
ElementsOut(name, x) ==
  LET at(p, n) == SubSeq(x, p, p + n - 1)
      C == CtxWidth
  IN
  CASE name = "outpoint_hash" ->          \* an optional pegin parent hash (flag byte first), then the outpoint
         CtxAdd(ReadCtx(x), (IF x[C + 1] = 1 THEN B8(1) \o at(C + 2, 256) ELSE B8(0)) \o at(C + 258, 288))
    [] name = "annex_hash" -> CtxAdd(ReadCtx(x), IF x[C + 1] = 1 THEN B8(1) \o at(C + 2, 256) ELSE B8(0))
    [] name = "nonce_hash" ->             \* no nonce: 00; explicit: 01; confidential: 02 / 03 by parity
         CtxAdd(ReadCtx(x), IF x[C + 1] = 0 THEN B8(0)
                            ELSE (IF x[C + 2] = 1 THEN B8(1) ELSE B8(2 + x[C + 3])) \o at(C + 4, 256))
    [] name = "asset_amount_hash" ->      \* asset: 01 explicit, 0a / 0b confidential; amount: 01 explicit (8 bytes), 08 / 09 confidential
         LET a == C + 1
             m == C + 259
         IN CtxAdd(ReadCtx(x), (IF x[a] = 1 THEN B8(1) ELSE B8(10 + x[a + 1])) \o at(a + 2, 256)
                               \o (IF x[m] = 1 THEN B8(1) \o at(m + 194, 64) ELSE B8(8 + x[m + 1]) \o at(m + 2, 256)))
    [] name = "calculate_issuance_entropy" ->     \* the double hash of the outpoint (index little-endian) and the contract hash, compressed once
         SHA!CompressBits(SHA!IVBits, SHA!Sha256(SHA!Sha256(at(1, 256) \o RevBytes(at(257, 32)))) \o at(289, 256))
    [] name = "calculate_asset" -> SHA!CompressBits(SHA!IVBits, at(1, 256) \o ZerosN(256))
    [] name = "calculate_explicit_token" -> SHA!CompressBits(SHA!IVBits, at(1, 256) \o B8(1) \o ZerosN(248))
    [] name = "calculate_confidential_token" -> SHA!CompressBits(SHA!IVBits, at(1, 256) \o B8(2) \o ZerosN(248))
    [] name = "lbtc_asset" -> SHA!HexBits("6d521c38ec1ea15734ae22b7c46064412829c0d0579f0a713d1c04ede979026f")
    [] name = "build_tapleaf_simplicity" ->       \* leaf version 0xbe, a 32-byte script (the commitment root)
         SHA!Sha256(TapTag("5461704c6561662f656c656d656e7473") \o B8(190) \o B8(32) \o at(1, 256))
    [] name = "build_tapbranch" ->                \* the two children in lexicographic order
         LET a == at(1, 256)
             b == at(257, 256)
         IN SHA!Sha256(TapTag("5461704272616e63682f656c656d656e7473") \o (IF Lt(a, b) THEN a \o b ELSE b \o a))
(* An output as the specification writes it: the padding bits of sums are zero.  What the machine leaves in padding
   positions is not part of a value (C05: results do not depend on padding), so an observed output is brought into this
   form before it is compared: contexts are re-written from their parsed content, an absent option is all zeros. *)
CtxOut(name) == name \in {"sha_256_ctx_8_init", "tapdata_init", "sha_256_ctx_8_add_buffer_511", "outpoint_hash", "asset_amount_hash", "nonce_hash", "annex_hash"}
                \/ CtxAddN(name) > 0
ZeroPadding(name, out) ==
  IF CtxOut(name) THEN WriteCtx(ReadCtx(out))
  ELSE IF name \in {"fe_square_root", "decompress", "parse_sequence", "gej_normalize"} /\ out[1] = 0 THEN ZerosN(Len(out))
  ELSE out
JetKnown(name) == JetKnownFlat(name) \/ JetKnownHash(name) \/ name \in FieldOps \/ name \in ElementsOps
JetOut(name, x) == IF JetKnownHash(name) THEN HashOut(name, x) ELSE IF name \in FieldOps THEN FieldOut(name, x)
                   ELSE IF name \in ElementsOps THEN ElementsOut(name, x) ELSE FlatOut(name, x)

(* ---- sanity of the definitions themselves (evaluated once by TLC) ---- *)
ASSUME \A x \in {0, 1, 7, 128, 200, 255} : \A y \in {0, 1, 9, 127, 255} :
   /\ Val(Add(B8(x), B8(y), 0)) = x + y
   /\ Val(Tail(Sub(B8(x), B8(y), 0))) = (x - y + 256) % 256 /\ Sub(B8(x), B8(y), 0)[1] = (IF x < y THEN 1 ELSE 0)
   /\ Val(Mul(B8(x), B8(y))) = x * y
   /\ Lt(B8(x), B8(y)) = (x < y)
   /\ JetOut("le_8", B8(x) \o B8(y)) = Bit(x <= y)
   /\ Val(JetOut("increment_8", B8(x))) = x + 1
   /\ JetOut("max_8", B8(x) \o B8(y)) = B8(IF x > y THEN x ELSE y)
ASSUME \A x \in {0, 1, 7, 100, 255} : \A y \in {1, 2, 7, 16, 255} :
   /\ Val(DivMod(B8(x), B8(y))[1]) = (x \div y) /\ Val(DivMod(B8(x), B8(y))[2]) = (x % y)
   /\ JetOut("divides_8", B8(y) \o B8(x)) = Bit((x % y) = 0)
ASSUME JetOut("left_shift_8", <<0,0,1,1>> \o B8(255)) = B8(248) /\ JetOut("right_shift_with_8", <<1>> \o <<0,0,1,0>> \o B8(0)) = B8(192)
ASSUME JetOut("left_rotate_8", <<1,0,0,1>> \o B8(129)) = B8(3) /\ JetOut("right_rotate_8", <<0,0,0,1>> \o B8(129)) = B8(192)
ASSUME JetOut("sha_256_ctx_8_finalize", JetOut("sha_256_ctx_8_add_2", JetOut("sha_256_ctx_8_add_1", JetOut("sha_256_ctx_8_init", <<>>) \o B8(97)) \o B8(98) \o B8(99)))
         = SHA!HexBits("ba7816bf8f01cfea414140de5dae2223b00361a396177a9cb410ff61f20015ad")
ASSUME JetOut("parse_lock", SHA!HexBits("1dcd6500")) = <<1>> \o SHA!HexBits("1dcd6500") /\ JetOut("parse_lock", SHA!HexBits("1dcd64ff")) = <<0>> \o SHA!HexBits("1dcd64ff")
ASSUME JetOut("parse_sequence", SHA!HexBits("00400005")) = <<1, 1>> \o SHA!HexBits("0005") /\ JetOut("parse_sequence", SHA!HexBits("80400005")) = ZerosN(18)
ASSUME Len(JetOut("tapdata_init", <<>>)) = CtxWidth
ASSUME GeOnCurve(GPoint.x, GPoint.y) /\ SamePoint(PAdd(GPoint, GPoint), PDouble(GPoint)) /\ SamePoint(ScalarMul(EC!Small(3), GPoint), PAdd(PDouble(GPoint), GPoint))
ASSUME GejOnCurve(ScalarMul(EC!Small(5), GPoint)) /\ Inf(PAdd(GPoint, [GPoint EXCEPT !.y = EC!FNeg(GPoint.y)]))
ASSUME JetOut("div_mod_128_64", ZerosN(63) \o <<1>> \o ZerosN(64) \o <<1>> \o ZerosN(62) \o <<1>>) = ZerosN(63) \o <<1>> \o SHA!HexBits("7fffffffffffffff")
ASSUME JetKnown("leftmost_16_4") /\ JetKnown("right_extend_8_64") /\ JetKnown("full_multiply_64") /\ JetKnown("left_shift_8") /\ ~JetKnownFlat("div_mod_128_64") /\ JetKnown("div_mod_128_64")
ASSUME JetKnown("add_32") /\ JetKnown("eq_256") /\ ~JetKnown("all_1") /\ JetKnown("xor_xor_1") /\ ~JetKnown("add_1") /\ JetKnown("sha_256_block") /\ ~JetKnownFlat("sha_256_block") /\ JetKnown("verify") /\ JetKnown("sha_256_ctx_8_add_512") /\ ~JetKnown("sha_256_ctx_8_add_3") /\ JetKnown("fe_add") /\ JetKnownRel("fe_invert") /\ ~JetKnown("fe_invert") /\ ~JetKnown("bip_0340_verify")
=============================================================================
