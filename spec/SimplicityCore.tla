--------------------------- MODULE SimplicityCore ---------------------------
(***************************************************************************)
(* L0 (no variables): Simplicity types and values and their bit layouts,   *)
(* written from the Tech Report definitions.                               *)
(*   types   <<"1">>  <<"+", a, b>>  <<"*", a, b>>                        *)
(*   values  <<"u">>  <<"L", v>>  <<"R", v>>  <<"P", a, b>>               *)
(***************************************************************************)
EXTENDS Integers, Sequences, FiniteSets

One == <<"1">>
Sum(a, b) == <<"+", a, b>>
Prod(a, b) == <<"*", a, b>>
Two == Sum(One, One)
IsUnitT(t) == t[1] = "1"
IsSumT(t) == t[1] = "+"
IsProdT(t) == t[1] = "*"

Max(a, b) == IF a >= b THEN a ELSE b

RECURSIVE W(_)           \* bit width
W(t) == CASE IsUnitT(t) -> 0
          [] IsSumT(t)  -> 1 + Max(W(t[2]), W(t[3]))
          [] IsProdT(t) -> W(t[2]) + W(t[3])
PadL(a, b) == Max(W(a), W(b)) - W(a)        \* padding after the tag of a left value in a+b
PadR(a, b) == Max(W(a), W(b)) - W(b)

RECURSIVE HasPadding(_)
HasPadding(t) == CASE IsUnitT(t) -> FALSE
                   [] IsSumT(t)  -> W(t[2]) # W(t[3]) \/ HasPadding(t[2]) \/ HasPadding(t[3])
                   [] IsProdT(t) -> HasPadding(t[2]) \/ HasPadding(t[3])

RECURSIVE TwoN(_)        \* the word type 2^(2^n)
TwoN(n) == IF n = 0 THEN Two ELSE Prod(TwoN(n - 1), TwoN(n - 1))

\* all types of depth <= d
RECURSIVE TyUpTo(_)
TyUpTo(d) == IF d = 0 THEN {One}
             ELSE LET S == TyUpTo(d - 1) IN
                  S \cup {Sum(a, b) : a \in S, b \in S} \cup {Prod(a, b) : a \in S, b \in S}

\* all values of a type
RECURSIVE ValsOf(_)
ValsOf(t) == CASE IsUnitT(t) -> {<<"u">>}
               [] IsSumT(t)  -> {<<"L", v>> : v \in ValsOf(t[2])} \cup {<<"R", v>> : v \in ValsOf(t[3])}
               [] IsProdT(t) -> {<<"P", a, b>> : a \in ValsOf(t[2]), b \in ValsOf(t[3])}

RECURSIVE HasType(_, _)
HasType(v, t) == CASE v[1] = "u" -> IsUnitT(t)
                   [] v[1] = "L" -> IsSumT(t) /\ HasType(v[2], t[2])
                   [] v[1] = "R" -> IsSumT(t) /\ HasType(v[2], t[3])
                   [] v[1] = "P" -> IsProdT(t) /\ HasType(v[2], t[2]) /\ HasType(v[3], t[3])

Zeros(n) == [i \in 1..n |-> 0]
Twos(n) == [i \in 1..n |-> 2]

\* padded encoding with zero padding
RECURSIVE PaddedZ(_, _)
PaddedZ(v, t) == CASE v[1] = "u" -> <<>>
                   [] v[1] = "L" -> <<0>> \o Zeros(PadL(t[2], t[3])) \o PaddedZ(v[2], t[2])
                   [] v[1] = "R" -> <<1>> \o Zeros(PadR(t[2], t[3])) \o PaddedZ(v[2], t[3])
                   [] v[1] = "P" -> PaddedZ(v[2], t[2]) \o PaddedZ(v[3], t[3])
\* padded encoding with the padding positions marked 2 ("don't care")
RECURSIVE PaddedM(_, _)
PaddedM(v, t) == CASE v[1] = "u" -> <<>>
                   [] v[1] = "L" -> <<0>> \o Twos(PadL(t[2], t[3])) \o PaddedM(v[2], t[2])
                   [] v[1] = "R" -> <<1>> \o Twos(PadR(t[2], t[3])) \o PaddedM(v[2], t[3])
                   [] v[1] = "P" -> PaddedM(v[2], t[2]) \o PaddedM(v[3], t[3])
\* a bit string is a legal padded encoding of v:t iff it matches PaddedM outside the padding
MatchesM(bits, m) == Len(bits) = Len(m) /\ \A i \in 1..Len(m) : m[i] = 2 \/ m[i] = bits[i]

\* compact encoding: the padded one with all padding removed
RECURSIVE Compact(_, _)
Compact(v, t) == CASE v[1] = "u" -> <<>>
                   [] v[1] = "L" -> <<0>> \o Compact(v[2], t[2])
                   [] v[1] = "R" -> <<1>> \o Compact(v[2], t[3])
                   [] v[1] = "P" -> Compact(v[2], t[2]) \o Compact(v[3], t[3])

\* decoders: [ok, v, used]
Fail == [ok |-> FALSE, v |-> <<"u">>, used |-> 0]
RECURSIVE ReadPadded(_, _, _)
ReadPadded(bits, p, t) ==     \* read a value of type t from bits starting after position p
  IF p + W(t) > Len(bits) THEN Fail
  ELSE CASE IsUnitT(t) -> [ok |-> TRUE, v |-> <<"u">>, used |-> 0]
         [] IsSumT(t)  -> IF bits[p + 1] = 0
                          THEN LET r == ReadPadded(bits, p + 1 + PadL(t[2], t[3]), t[2])
                               IN [ok |-> TRUE, v |-> <<"L", r.v>>, used |-> W(t)]
                          ELSE LET r == ReadPadded(bits, p + 1 + PadR(t[2], t[3]), t[3])
                               IN [ok |-> TRUE, v |-> <<"R", r.v>>, used |-> W(t)]
         [] IsProdT(t) -> LET a == ReadPadded(bits, p, t[2])
                              b == ReadPadded(bits, p + W(t[2]), t[3])
                          IN [ok |-> TRUE, v |-> <<"P", a.v, b.v>>, used |-> W(t)]
RECURSIVE ReadCompact(_, _, _)
ReadCompact(bits, p, t) ==
  CASE IsUnitT(t) -> [ok |-> TRUE, v |-> <<"u">>, used |-> 0]
    [] IsSumT(t)  -> IF p + 1 > Len(bits) THEN Fail
                     ELSE LET side == IF bits[p + 1] = 0 THEN 2 ELSE 3
                              r == ReadCompact(bits, p + 1, t[side])
                          IN IF r.ok THEN [ok |-> TRUE, v |-> <<IF side = 2 THEN "L" ELSE "R", r.v>>, used |-> 1 + r.used]
                             ELSE Fail
    [] IsProdT(t) -> LET a == ReadCompact(bits, p, t[2]) IN
                     IF ~a.ok THEN Fail
                     ELSE LET b == ReadCompact(bits, p + a.used, t[3]) IN
                          IF b.ok THEN [ok |-> TRUE, v |-> <<"P", a.v, b.v>>, used |-> a.used + b.used] ELSE Fail

\* "smaller than or equal" on types, and the projection Value::prune computes
RECURSIVE LeT(_, _)
LeT(s, t) == \/ s = t
             \/ IsUnitT(s)
             \/ (IsSumT(s) /\ IsSumT(t) /\ LeT(s[2], t[2]) /\ LeT(s[3], t[3]))
             \/ (IsProdT(s) /\ IsProdT(t) /\ LeT(s[2], t[2]) /\ LeT(s[3], t[3]))
RECURSIVE PruneV(_, _, _)
PruneV(v, t, s) ==      \* v : t pruned to s, assuming LeT(s, t)
  IF s = t THEN v
  ELSE CASE IsUnitT(s) -> <<"u">>
         [] IsSumT(s)  -> IF v[1] = "L" THEN <<"L", PruneV(v[2], t[2], s[2])>> ELSE <<"R", PruneV(v[2], t[3], s[3])>>
         [] IsProdT(s) -> <<"P", PruneV(v[2], t[2], s[2]), PruneV(v[3], t[3], s[3])>>

\* Named deviation of the pinned code (known finding C10 prune-untaken-branch-unchecked): Value::prune only
\* looks at the summand a value actually takes, so some targets that are not LeT are accepted.
RECURSIVE PruneLenient(_, _, _)
PruneLenient(v, t, s) ==       \* [ok, v]
  IF s = t THEN [ok |-> TRUE, v |-> v]
  ELSE CASE IsUnitT(s) -> [ok |-> TRUE, v |-> <<"u">>]
         [] IsSumT(s)  -> IF ~IsSumT(t) THEN [ok |-> FALSE, v |-> <<"u">>]
                          ELSE LET side == IF v[1] = "L" THEN 2 ELSE 3
                                   r == PruneLenient(v[2], t[side], s[side])
                               IN [ok |-> r.ok, v |-> <<v[1], r.v>>]
         [] IsProdT(s) -> IF ~IsProdT(t) THEN [ok |-> FALSE, v |-> <<"u">>]
                          ELSE LET a == PruneLenient(v[2], t[2], s[2])
                                   b == PruneLenient(v[3], t[3], s[3])
                               IN [ok |-> a.ok /\ b.ok, v |-> <<"P", a.v, b.v>>]

\* the zero value of a type
RECURSIVE ZeroV(_)
ZeroV(t) == CASE IsUnitT(t) -> <<"u">>
              [] IsSumT(t)  -> <<"L", ZeroV(t[2])>>
              [] IsProdT(t) -> <<"P", ZeroV(t[2]), ZeroV(t[3])>>

\* word values: 2^(2^n) from its 2^n bits
BitsOfN(n, len) == [i \in 1..len |-> (n \div (2 ^ (len - i))) % 2]
RECURSIVE WordVal(_, _)
WordVal(n, bits) == IF n = 0 THEN (IF bits[1] = 0 THEN <<"L", <<"u">>>> ELSE <<"R", <<"u">>>>)
                    ELSE <<"P", WordVal(n - 1, SubSeq(bits, 1, Len(bits) \div 2)),
                                WordVal(n - 1, SubSeq(bits, Len(bits) \div 2 + 1, Len(bits)))>>


\* a total order on values of one type (left < right, products lexicographic): only used to state
\* that *some* total order consistent with equality exists; the crate's order is not constrained to it
=============================================================================
