SPECIFICATION Spec
CONSTANT MaxOps = 3
CONSTANT EmitMod = 7
CONSTANT Bases <- Bases_q
CONSTANT SideTys <- SideTys_q
CONSTANT DecTys <- DecTys_q
CONSTANT PruneTys <- PruneTys_q
INVARIANT ViewInv
INVARIANT PruneLaw
INVARIANT EqInv
INVARIANT Emit
CHECK_DEADLOCK FALSE
