------------------------------ MODULE BitCodes ------------------------------
(***************************************************************************)
(* L0 (no variables): bit strings, bytes, and the self-delimiting natural  *)
(* number code of the Simplicity Tech Report.  Numbers are represented by  *)
(* their binary expansion (MSB first, leading 1) wherever they may exceed  *)
(* TLC's 32-bit integers.                                                  *)
(***************************************************************************)
EXTENDS Integers, Sequences

Pow2(k) == 2 ^ k                                   \* only used for k <= 30

ByteBits(b) == [i \in 1..8 |-> (b \div Pow2(8 - i)) % 2]
RECURSIVE BitsOfBytes(_)
BitsOfBytes(bs) == IF bs = <<>> THEN <<>> ELSE ByteBits(Head(bs)) \o BitsOfBytes(Tail(bs))

\* value of a short bit string (Len <= 30)
RECURSIVE ValB(_)
ValB(b) == IF b = <<>> THEN 0 ELSE 2 * ValB(SubSeq(b, 1, Len(b) - 1)) + b[Len(b)]

\* binary expansion of n >= 1
RECURSIVE Bin(_)
Bin(n) == IF n <= 1 THEN <<1>> ELSE Append(Bin(n \div 2), n % 2)

\* pad a bit string with zeros to whole bytes and pack it (what BitWriter::flush_all / collect_bits produce)
RECURSIVE PackBytes(_)
PackBytes(bits) ==
  IF bits = <<>> THEN <<>>
  ELSE IF Len(bits) < 8 THEN <<ValB(bits \o [i \in 1..(8 - Len(bits)) |-> 0])>>
  ELSE <<ValB(SubSeq(bits, 1, 8))>> \o PackBytes(SubSeq(bits, 9, Len(bits)))

(***************************************************************************)
(* The natural code, on binary expansions:                                 *)
(*   Enc(1) = 0      Enc(n) = 1 . Enc(floor(log2 n)) . (n without its MSB) *)
(***************************************************************************)
RECURSIVE EncB(_)
EncB(b) == IF Len(b) <= 1 THEN <<0>> ELSE <<1>> \o EncB(Bin(Len(b) - 1)) \o Tail(b)

(***************************************************************************)
(* Decoder in the shape of BitIter::read_natural: a unary count of the     *)
(* recursion depth, then `depth+1` rounds each reading `len` bits.         *)
(*   s      the bits still available to the reader                         *)
(*   maxb   bit size of the result type N (8, 16, 32; usize behaves as 32  *)
(*          because the arithmetic is done in u32)                         *)
(*   bound  <<>> for no bound, else the binary expansion of the bound      *)
(* Result: [ok, val (binary expansion), used (bits consumed), err]         *)
(***************************************************************************)
LeB(a, b) ==      \* a <= b on binary expansions with leading 1
  \/ Len(a) < Len(b)
  \/ Len(a) = Len(b) /\ (a = b \/ LET k == CHOOSE i \in 1..Len(a) : a[i] # b[i] /\ \A j \in 1..(i-1) : a[j] = b[j]
                                 IN a[k] < b[k])

RECURSIVE Ones(_, _)
Ones(s, i) == IF i <= Len(s) /\ s[i] = 1 THEN Ones(s, i + 1) ELSE i - 1   \* number of leading ones

RECURSIVE DecRounds(_, _, _, _, _, _)
DecRounds(s, pos, len, depth, maxb, bound) ==
  IF pos + len > Len(s) THEN [ok |-> FALSE, val |-> <<>>, used |-> Len(s), err |-> "eof"]
  ELSE LET nb == <<1>> \o SubSeq(s, pos + 1, pos + len) IN
       IF depth = 0
       THEN IF Len(nb) > maxb THEN [ok |-> FALSE, val |-> nb, used |-> pos + len, err |-> "overflow"]
            ELSE IF bound # <<>> /\ ~LeB(nb, bound) THEN [ok |-> FALSE, val |-> nb, used |-> pos + len, err |-> "badindex"]
            ELSE [ok |-> TRUE, val |-> nb, used |-> pos + len, err |-> "none"]
       ELSE IF Len(nb) > 5    \* the new length exceeds 31
            THEN [ok |-> FALSE, val |-> nb, used |-> pos + len, err |-> "overflow"]
            ELSE DecRounds(s, pos + len, ValB(nb), depth - 1, maxb, bound)

DecB(s, maxb, bound) ==
  LET d == Ones(s, 1) IN
  IF d + 1 > Len(s) THEN [ok |-> FALSE, val |-> <<>>, used |-> Len(s), err |-> "eof"]   \* no terminating 0
  ELSE DecRounds(s, d + 1, 0, d, maxb, bound)

(***************************************************************************)
(* Abstract reader: a bit string B and a position.  What each public read  *)
(* operation must return and how far it must advance (-1 = end of stream). *)
(***************************************************************************)
AbsRead(B, pos, op, maxb, bound) ==
  CASE op = "bit" -> IF pos < Len(B) THEN <<pos + 1, B[pos + 1]>> ELSE <<pos, -1>>
    [] op = "u2"  -> IF pos + 2 <= Len(B) THEN <<pos + 2, 2 * B[pos + 1] + B[pos + 2]>> ELSE <<Len(B), -1>>
    [] op = "u8"  -> IF pos + 8 <= Len(B) THEN <<pos + 8, ValB(SubSeq(B, pos + 1, pos + 8))>> ELSE <<pos, -1>>
    [] op \in {"nat", "natb"} ->
           LET d == DecB(SubSeq(B, pos + 1, Len(B)), maxb, bound) IN
           <<pos + d.used, IF d.ok THEN d.val ELSE d.err>>
\* closing succeeds exactly when only zero padding (fewer than 8 bits, all zero) remains
AbsClose(B, pos) == IF Len(B) - pos >= 8 THEN "trailing"
                    ELSE IF \E i \in (pos + 1)..Len(B) : B[i] = 1 THEN "padding" ELSE "ok"
\* zero-pad to a whole number of bytes
Pad8(s) == s \o [i \in 1..((8 - (Len(s) % 8)) % 8) |-> 0]

\* all bit strings of length exactly n / at most n
BitStr(n) == [1..n -> {0, 1}]
BitStrUpTo(n) == UNION {BitStr(k) : k \in 0..n}
=============================================================================
