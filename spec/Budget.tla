------------------------------- MODULE Budget -------------------------------
(***************************************************************************)
(* C19: cost <-> weight conversion, witness-stack budget, annex padding.   *)
(* L0 definitions (declarative) and the five-region formula of             *)
(* Cost::get_padding (src/analysis.rs) as written in the code.             *)
(*                                                                         *)
(* A cost (milli weight units, up to 4 000 050 000 > 2^31) is a pair       *)
(* <<q, r>> = 1000*q + r with 0 <= r < 1000.  A witness stack is abstracted*)
(* to a sequence of groups <<k, len>> = k items of len bytes.              *)
(***************************************************************************)
EXTENDS Integers, Sequences

U32Q == 4294967      \* u32::MAX = 1000 * 4294967 + 295
U32R == 295
ConsensusMaxQ == 4000050

CS(n) == IF n <= 252 THEN 1 ELSE IF n <= 65535 THEN 3 ELSE 5     \* compact-size length (n < 2^32)

RECURSIVE Count(_)
Count(st) == IF st = <<>> THEN 0 ELSE Head(st)[1] + Count(Tail(st))
RECURSIVE Body(_)
Body(st) == IF st = <<>> THEN 0 ELSE Head(st)[1] * (CS(Head(st)[2]) + Head(st)[2]) + Body(Tail(st))
SerLen(st) == CS(Count(st)) + Body(st)
BudgetOf(st) == SerLen(st) + 50                 \* weight units (no saturation in range: < 2^31)

\* weight of a cost: rounds up
Weight(c) == c[1] + (IF c[2] > 0 THEN 1 ELSE 0)
\* the property's statement of validity
Valid(c, st) == Weight(c) <= BudgetOf(st)

\* --- as the code computes it ---------------------------------------------
\* is_budget_valid: cost <= budget.saturating_mul(1000)
LeCost(a, b) == a[1] < b[1] \/ (a[1] = b[1] /\ a[2] <= b[2])
SatMul1000(w) == IF w > U32Q THEN <<U32Q, U32R>> ELSE <<w, 0>>
CodeValid(c, st) == LeCost(c, SatMul1000(BudgetOf(st)))
\* U32Weight::from(Cost): saturating_add(999) / 1000
CodeWeight(c) ==
  IF c[1] > U32Q \/ (c[1] = U32Q /\ c[2] + 999 > U32R + 1000) \/ (c[1] = U32Q - 1 /\ c[2] + 999 >= 1000 + U32R + 1) THEN U32Q
  ELSE c[1] + (c[2] + 999) \div 1000
\* get_padding: number of zero bytes after the 0x50 tag, or -1 for None
CodePad(c, st) ==
  LET weight == CodeWeight(c)
      budget == BudgetOf(st)
      deficit == weight - budget
  IN IF weight <= budget THEN -1
     ELSE IF deficit <= 253 THEN (IF deficit >= 2 THEN deficit - 2 ELSE 0)
     ELSE IF deficit <= 255 THEN 252
     ELSE IF deficit <= 65538 THEN deficit - 4
     ELSE IF deficit <= 65540 THEN 65535
     ELSE deficit - 6

\* --- declaratively ---------------------------------------------------------
WithAnnex(st, L) == Append(st, <<1, L>>)
Enough(c, st, L) == Valid(c, WithAnnex(st, L))
\* the least annex length (>= 1: the 0x50 tag) that brings the cost within budget
MinAnnex(c, st) ==
  LET d == Weight(c) - BudgetOf(st)
      lo == IF d - 8 > 1 THEN d - 8 ELSE 1
  IN CHOOSE L \in lo..(d + 1) : Enough(c, st, L) /\ (L = 1 \/ ~Enough(c, st, L - 1))
\* the item count sits on a compact-size boundary: adding the annex item itself lengthens the count prefix
CountBoundary(st) == CS(Count(st) + 1) # CS(Count(st))

PadCorrect(c, st) ==
  LET p == CodePad(c, st) IN
  /\ CodeValid(c, st) = Valid(c, st)
  /\ (p = -1) = Valid(c, st)
  /\ p # -1 => /\ Enough(c, st, p + 1)                                    \* sufficient
               /\ ~CountBoundary(st) => p + 1 = MinAnnex(c, st)           \* minimal
               /\ p + 1 >= MinAnnex(c, st)
ConvCorrect(c) == c[1] <= ConsensusMaxQ => CodeWeight(c) = Weight(c)
=============================================================================
