------------------------------ MODULE MC_Secp ------------------------------
(* arithmetic facts the definitions of Secp.tla must satisfy; evaluated once by TLC (no behaviour) *)
EXTENDS Secp
VARIABLE x
Init == x = 0
Next == x' = x
H(s) == HexL(s)
ASSUME FMul(Small(2), H("7fffffffffffffffffffffffffffffffffffffffffffffffffffffff7ffffe18")) = One
ASSUME FMul(FInv(H("0000000000000000000000000000000000000000000000001234567890abcdef")), H("0000000000000000000000000000000000000000000000001234567890abcdef")) = One /\ FInv(Zero) = Zero
ASSUME SMul(SInv(H("000000000000000000000000000000000000000000000000fedcba9876543210")), H("000000000000000000000000000000000000000000000000fedcba9876543210")) = One
ASSUME FSqrt(Small(4)) \in {<<Small(2)>>, <<Sub(P, Small(2))>>} /\ FSqrt(Small(3)) = <<>>
ASSUME FMul(FMul(Beta, Beta), Beta) = One /\ SMul(SMul(Lambda, Lambda), Lambda) = One /\ Beta # One /\ Lambda # One
ASSUME FromBits(ToBits(Beta)) = Beta
ASSUME FAdd(Sub(P, One), Small(5)) = Small(4) /\ SAdd(Sub(N, One), One) = Zero /\ FSub(Small(3), Small(5)) = Sub(P, Small(2))
ASSUME FMul(Sub(P, One), Sub(P, One)) = One /\ SMul(Sub(N, One), Sub(N, One)) = One
=============================================================================
