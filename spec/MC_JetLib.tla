----------------------------- MODULE MC_JetLib -----------------------------
(* The bit-string arithmetic of JetLib.tla against TLC's integers, exhaustively for the 8-bit jets: every pair
   (x, y) in 0..255 x 0..255 is one initial state; the invariant states what each arithmetic, comparison, shift and
   division jet must return for it.  (The wider jets are the same operators at other lengths.) *)
EXTENDS JetLib
VARIABLES x, y
Init == x \in 0..255 /\ y \in 0..255
Next == UNCHANGED <<x, y>>
X == B8(x)
Y == B8(y)
J(name, in) == JetOut(name, in)
V(b) == Val(b)
Pow2(n) == 2 ^ n
Min(a, b) == IF a < b THEN a ELSE b
Max(a, b) == IF a > b THEN a ELSE b
ArithOk ==
  /\ V(J("add_8", X \o Y)) = x + y                                   \* carry and sum read as one 9-bit number
  /\ J("subtract_8", X \o Y) = <<IF x < y THEN 1 ELSE 0>> \o B8((x - y + 256) % 256)
  /\ V(J("multiply_8", X \o Y)) = x * y
  /\ V(J("full_add_8", <<1>> \o X \o Y)) = x + y + 1
  /\ J("full_subtract_8", <<1>> \o X \o Y) = <<IF x < y + 1 THEN 1 ELSE 0>> \o B8((x - y - 1 + 512) % 256)
  /\ V(J("full_multiply_8", X \o Y \o Y \o X)) = x * y + y + x
  /\ J("increment_8", X) = <<IF x = 255 THEN 1 ELSE 0>> \o B8((x + 1) % 256)
  /\ J("decrement_8", X) = <<IF x = 0 THEN 1 ELSE 0>> \o B8((x + 255) % 256)
  /\ J("negate_8", X) = <<IF x = 0 THEN 0 ELSE 1>> \o B8((256 - x) % 256)
CompareOk ==
  /\ J("lt_8", X \o Y) = Bit(x < y) /\ J("le_8", X \o Y) = Bit(x <= y) /\ J("eq_8", X \o Y) = Bit(x = y)
  /\ J("min_8", X \o Y) = B8(Min(x, y)) /\ J("max_8", X \o Y) = B8(Max(x, y))
  /\ J("is_zero_8", X) = Bit(x = 0) /\ J("is_one_8", X) = Bit(x = 1)
  /\ J("median_8", X \o Y \o B8(100)) = B8(x + y + 100 - Min(x, Min(y, 100)) - Max(x, Max(y, 100)))
DivOk ==
  /\ J("divide_8", X \o Y) = B8(IF y = 0 THEN 0 ELSE x \div y)
  /\ J("modulo_8", X \o Y) = B8(IF y = 0 THEN x ELSE x % y)
  /\ J("div_mod_8", X \o Y) = B8(IF y = 0 THEN 0 ELSE x \div y) \o B8(IF y = 0 THEN x ELSE x % y)
  /\ J("divides_8", X \o Y) = Bit(IF x = 0 THEN y = 0 ELSE y % x = 0)
ShiftOk ==          \* the shift amount is the low 4 bits of y
  LET s == y % 16 IN
  /\ J("left_shift_8", SubSeq(Y, 5, 8) \o X) = B8(IF s >= 8 THEN 0 ELSE (x * Pow2(s)) % 256)
  /\ J("right_shift_8", SubSeq(Y, 5, 8) \o X) = B8(IF s >= 8 THEN 0 ELSE x \div Pow2(s))
  /\ J("left_rotate_8", SubSeq(Y, 5, 8) \o X) = B8(((x * Pow2(s % 8)) % 256) + (x \div Pow2(8 - (s % 8))))
  /\ J("right_rotate_8", SubSeq(Y, 5, 8) \o X) = B8((x \div Pow2(s % 8)) + ((x * Pow2(8 - (s % 8))) % 256))
LogicOk ==
  /\ V(J("and_8", X \o Y)) + V(J("or_8", X \o Y)) = x + y             \* a & b + a | b = a + b
  /\ V(J("xor_8", X \o Y)) = V(J("or_8", X \o Y)) - V(J("and_8", X \o Y))
  /\ V(J("complement_8", X)) = 255 - x
=============================================================================
