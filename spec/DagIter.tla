----------------------------- MODULE DagIter -----------------------------
(***************************************************************************)
(* L1 model of src/dag.rs: PostOrderIter (with SwapChildren/unswap for the *)
(* right-to-left variant), PreOrderIter, VerbosePreOrderIter, is_shared_as *)
(* over an abstract DAG with a sharing-id labelling, and the declarative   *)
(* (recursive, memoising) reference each of them must equal.  Property C18.*)
(*                                                                         *)
(* A DAG is dag \in [1..N -> <<l, r>>], 0 = no child, children have smaller*)
(* indices, the root is N.  sid[i] is the sharing id of node i, 0 = "no id"*)
(*   NoSharing       = sid constantly 0                                    *)
(*   InternalSharing = sid[i] = i                                          *)
(*   MaxSharing      = a congruent labelling (equal id => equal shape and  *)
(*                     children of equal id), with an upward-closed set of *)
(*                     id-less nodes (witness/disconnect ancestors).       *)
(***************************************************************************)
EXTENDS DagRef

(***************************************************************************)
(* L1: the iterators as the code runs them.                                *)
(***************************************************************************)
CONSTANTS N,            \* node bound
          Algos,        \* subset of {"post","rtl","pre","vpre"}
          Modes,        \* subset of {"no","internal","max"}
          MaxDepths     \* subset of {0,1,2,..} \cup {NONE}
VARIABLES dag, sid, algo, md, stack, index, seen, out
vars == <<dag, sid, algo, md, stack, index, seen, out>>

Shapes(i) == {<<0,0>>} \cup {<<l,0>> : l \in 1..(i-1)} \cup {<<l,r>> : l \in 1..(i-1), r \in 1..(i-1)}
AllDags(n) == {d \in [1..n -> UNION {Shapes(i) : i \in 1..n}] : \A i \in 1..n : d[i] \in Shapes(i)}

\* congruent labelling from a colouring and an upward-closed id-less set
RECURSIVE LabelUpTo(_, _, _, _)
LabelUpTo(d, col, idless, i) ==
  IF i = 0 THEN <<>>
  ELSE LET prev == LabelUpTo(d, col, idless, i - 1)
           me == IF i \in idless THEN 0
                 ELSE LET same == {j \in 1..(i-1) : /\ prev[j] # 0 /\ col[j] = col[i]
                                                    /\ ArityD(d, j) = ArityD(d, i)
                                                    /\ (d[i][1] # 0 => prev[d[j][1]] = prev[d[i][1]])
                                                    /\ (d[i][2] # 0 => prev[d[j][2]] = prev[d[i][2]])}
                      IN IF same = {} THEN i ELSE CHOOSE j \in same : \A j2 \in same : j <= j2
       IN Append(prev, me)
UpClosed(d, X) == \A i \in 1..Len(d) : ((d[i][1] # 0 /\ d[i][1] \in X) \/ (d[i][2] # 0 /\ d[i][2] \in X)) => i \in X
Labellings(d) ==
  LET n == Len(d) IN
  (IF "no" \in Modes THEN {[i \in 1..n |-> 0]} ELSE {}) \cup
  (IF "internal" \in Modes THEN {Ident(d)} ELSE {}) \cup
  (IF "max" \in Modes
   THEN {LabelUpTo(d, col, X, n) : col \in [1..n -> {1, 2}], X \in {Y \in SUBSET (1..n) : UpClosed(d, Y)}}
   ELSE {})

Item(e, p) == [e |-> e, proc |-> FALSE, li |-> NONE, ri |-> NONE, prev |-> p]
VItem(e, depth) == [e |-> e, idx |-> 0, depth |-> depth, ny |-> 0, complete |-> FALSE]

Init ==
  /\ dag \in AllDags(N)
  /\ sid \in Labellings(dag)
  /\ algo \in Algos
  /\ md \in (IF algo = "vpre" THEN MaxDepths ELSE {NONE})
  /\ stack = IF algo \in {"post", "rtl"} THEN <<Item(N, "Root")>>
             ELSE IF algo = "pre" THEN <<N>>
             ELSE <<[VItem(N, 0) EXCEPT !.complete = (ArityD(dag, N) = 0)]>>
  /\ index = 0
  /\ seen = [i \in 1..N |-> NONE]
  /\ out = <<>>

Top == stack[Len(stack)]
Rest == SubSeq(stack, 1, Len(stack) - 1)
Sw == algo = "rtl"
\* children as SwapChildren presents them
LeftOf(e)  == IF Sw /\ ArityD(dag, e) = 2 THEN dag[e][2] ELSE dag[e][1]
RightOf(e) == IF Sw /\ ArityD(dag, e) = 2 THEN dag[e][1] ELSE dag[e][2]
SeenBefore(e) == IF sid[e] = 0 THEN NONE ELSE seen[sid[e]]

\* -- PostOrderIter::next, unprocessed branch: the seven arms
PostUnprocessed ==
  /\ algo \in {"post", "rtl"} /\ stack # <<>> /\ ~Top.proc
  /\ LET cur == Top
         L == LeftOf(cur.e)   R == RightOf(cur.e)
         lrep == L # 0 /\ SeenBefore(L) # NONE
         rrep == R # 0 /\ SeenBefore(R) # NONE
         lnew == L # 0 /\ ~lrep
         rnew == R # 0 /\ ~rrep
         c0 == [cur EXCEPT !.proc = TRUE]
     IN stack' =
          IF L = 0 THEN Append(Rest, c0)                                                  \* (None, _)
          ELSE IF R = 0 /\ lrep THEN Append(Rest, [c0 EXCEPT !.li = SeenBefore(L)])        \* (Repeat, None)
          ELSE IF R = 0 THEN Rest \o <<c0, Item(L, "ParentLeft")>>                         \* (New, None)
          ELSE IF lrep /\ rrep THEN Append(Rest, [c0 EXCEPT !.li = SeenBefore(L), !.ri = SeenBefore(R)])
          ELSE IF lnew /\ rrep THEN Rest \o <<[c0 EXCEPT !.ri = SeenBefore(R)], Item(L, "ParentLeft")>>
          ELSE IF lrep /\ rnew THEN Rest \o <<[c0 EXCEPT !.li = SeenBefore(L)], Item(R, "ParentRight")>>
          ELSE Rest \o <<c0, Item(R, "ParentRight"), Item(L, "SiblingLeft")>>              \* (New, New)
  /\ UNCHANGED <<dag, sid, algo, md, index, seen, out>>

\* -- processed branch: record, back-patch parent/sibling, yield or skip
PostProcessed ==
  /\ algo \in {"post", "rtl"} /\ stack # <<>> /\ Top.proc
  /\ LET cur == Top
         rest == Rest
         n == Len(rest)
         rec == SeenBefore(cur.e)
         already == rec # NONE
         ci == IF already THEN rec ELSE index
         patched == CASE cur.prev = "Root"        -> rest
                      [] cur.prev = "ParentLeft"  -> [rest EXCEPT ![n].li = ci]
                      [] cur.prev = "ParentRight" -> [rest EXCEPT ![n].ri = ci]
                      [] cur.prev = "SiblingLeft" -> [rest EXCEPT ![n - 1].li = ci]
         \* unswap
         oli == IF Sw /\ ArityD(dag, cur.e) = 2 THEN cur.ri ELSE cur.li
         ori == IF Sw /\ ArityD(dag, cur.e) = 2 THEN cur.li ELSE cur.ri
     IN /\ stack' = patched
        /\ seen' = IF already \/ sid[cur.e] = 0 THEN seen ELSE [seen EXCEPT ![sid[cur.e]] = index]
        /\ index' = IF already THEN index ELSE index + 1
        /\ out' = IF already THEN out ELSE Append(out, <<cur.e, ci, oli, ori>>)
  /\ UNCHANGED <<dag, sid, algo, md>>

\* -- PreOrderIter::next
PreStep ==
  /\ algo = "pre" /\ stack # <<>>
  /\ LET top == Top IN
     IF SeenBefore(top) # NONE
     THEN stack' = Rest /\ UNCHANGED <<seen, out>>
     ELSE /\ seen' = IF sid[top] = 0 THEN seen ELSE [seen EXCEPT ![sid[top]] = 0]
          /\ stack' = Rest \o (IF dag[top][2] # 0 THEN <<dag[top][2]>> ELSE <<>>)
                           \o (IF dag[top][1] # 0 THEN <<dag[top][1]>> ELSE <<>>)
          /\ out' = Append(out, top)
  /\ UNCHANGED <<dag, sid, algo, md, index>>

\* -- VerbosePreOrderIter::next
VpreStep ==
  /\ algo = "vpre" /\ stack # <<>>
  /\ LET top0 == Top
         first == top0.ny = 0
         skip == first /\ SeenBefore(top0.e) # NONE
         top == IF first THEN [top0 EXCEPT !.idx = index] ELSE top0
         a == ArityD(dag, top.e)
         go == md = NONE \/ top.depth < md
         child(c) == [VItem(c, top.depth + 1) EXCEPT !.complete = (ArityD(dag, c) = 0)]
         pushes == IF top.ny = 0 /\ a > 0
                   THEN <<[top EXCEPT !.ny = 1, !.complete = (a = 1)]>> \o (IF go THEN <<child(dag[top.e][1])>> ELSE <<>>)
                   ELSE IF top.ny = 1 /\ a = 2
                   THEN <<[top EXCEPT !.ny = 2, !.complete = TRUE]>> \o (IF go THEN <<child(dag[top.e][2])>> ELSE <<>>)
                   ELSE <<>>
     IN IF skip THEN stack' = Rest /\ UNCHANGED <<seen, out, index>>
        ELSE /\ seen' = IF first /\ sid[top.e] # 0 THEN [seen EXCEPT ![sid[top.e]] = 0] ELSE seen
             /\ index' = IF first THEN index + 1 ELSE index
             /\ stack' = Rest \o pushes
             /\ out' = Append(out, <<top.e, top.idx, top.depth, top.ny, top.complete>>)
  /\ UNCHANGED <<dag, sid, algo, md>>

Next == PostUnprocessed \/ PostProcessed \/ PreStep \/ VpreStep
Spec == Init /\ [][Next]_vars

Done == stack = <<>>

\* the three assert!s of PostOrderIter::next
AssertInv ==
  (algo \in {"post", "rtl"} /\ stack # <<>> /\ Top.proc) =>
    LET n == Len(stack) - 1 IN
    CASE Top.prev = "Root" -> n = 0
      [] Top.prev \in {"ParentLeft", "ParentRight"} -> n >= 1 /\ stack[n].proc
      [] Top.prev = "SiblingLeft" -> n >= 2 /\ stack[n - 1].proc

Expected == CASE algo = "post" -> PO(dag, sid, FALSE)
              [] algo = "rtl"  -> PO(dag, sid, TRUE)
              [] algo = "pre"  -> PRE(dag, sid)
              [] algo = "vpre" -> VPRE(dag, sid, md)

\* refinement: the machine computes the declarative reference
Correct == Done => out = Expected

\* the property's clauses, stated separately from the reference recursion
Clauses ==
  Done => CASE algo = "post" -> PostOrderClauses(dag, sid, out)
            [] algo = "rtl"  -> /\ PostOrderClauses(dag, sid, out)
                                /\ \* mirror image: rtl of d = post of the mirrored DAG
                                   LET mir == [i \in 1..N |-> IF ArityD(dag, i) = 2 THEN <<dag[i][2], dag[i][1]>> ELSE dag[i]]
                                       po == PO(mir, sid, FALSE)
                                   IN /\ Len(po) = Len(out)
                                      /\ \A k \in 1..Len(out) :
                                           /\ out[k][1] = po[k][1] /\ out[k][2] = po[k][2]
                                           /\ IF ArityD(dag, out[k][1]) = 2
                                              THEN out[k][3] = po[k][4] /\ out[k][4] = po[k][3]
                                              ELSE out[k][3] = po[k][3] /\ out[k][4] = po[k][4]
            [] algo = "pre"  -> \* same classes as post-order, parents before children
                                /\ LET po == PO(dag, sid, FALSE) IN
                                   /\ Len(out) = Len(po)
                                   /\ \A k \in 1..Len(po) : \E j \in 1..Len(out) :
                                        IF sid[po[k][1]] # 0 THEN sid[out[j]] = sid[po[k][1]] ELSE out[j] = po[k][1]
                                /\ out[1] = N
            [] algo = "vpre" -> TRUE

\* is_shared_as accepts exactly when distinct reachable objects never share an id and the
\* id-less nodes occur once (checked on the "post" behaviours only, as a function of dag/sid)
SharedAsInv ==
  (Done /\ algo = "post") =>
     (SharedAs(dag, sid) <=>
        /\ \A i, j \in ReachSet(dag, N) : (i # j /\ sid[i] # 0) => sid[i] # sid[j]
        /\ Len(out) = Cardinality(ReachSet(dag, N)))

=============================================================================
