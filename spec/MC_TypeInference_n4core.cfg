SPECIFICATION Spec
CONSTANT CmrN = 8
CONSTANT N = 4
CONSTANT Ops <- Ops_core
CONSTANT Progs = {TRUE, FALSE}
CONSTANT EmitMod = 11
INVARIANT Agree
INVARIANT Sound
INVARIANT Principal
INVARIANT Forest
INVARIANT Emit
CHECK_DEADLOCK FALSE
