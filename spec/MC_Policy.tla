------------------------------ MODULE MC_Policy ------------------------------
EXTENDS Policy, TLC, Json
CONSTANTS Depth, EmitMod
VARIABLES pol, av, stage
vars == <<pol, av, stage>>
Leaves == {<<"unsat">>, <<"trivial">>, <<"key", 1>>, <<"key", 2>>, <<"sha", 1>>, <<"after", 1>>, <<"after", 5>>, <<"older", 1>>, <<"older", 5>>}
RECURSIVE Pols(_)
Pols(d) == IF d = 0 THEN Leaves
           ELSE LET S == Pols(d - 1) IN
                S \cup {<<"and", a, b>> : a \in S, b \in S} \cup {<<"or", a, b>> : a \in S, b \in S}
                  \cup {<<"thresh", k, <<a, b>>>> : k \in 1..2, a \in S, b \in S}
                  \cup {<<"thresh", k, <<a, b, c>>>> : k \in 1..3, a \in Leaves, b \in Leaves, c \in Leaves}
Avails == [sigs : SUBSET {1, 2}, pres : SUBSET {1}, height : {0, 3, 9}, seq : {0, 3, 9}, nest : {FALSE}]
\* depth 1 exhaustively; depth 2 by composing depth-1 policies under one more connective (chosen in two steps)
\* nested commutative nodes (depth 2 and 3) over a small leaf set, for the sorting laws and the nested satisfier cases
SmallLeaves == {<<"key", 1>>, <<"key", 2>>, <<"trivial">>, <<"after", 5>>}
RECURSIVE Nest(_)
Nest(d) == IF d = 0 THEN SmallLeaves
           ELSE LET S == Nest(d - 1) IN S \cup {<<op, a, b>> : op \in {"and", "or"}, a \in S, b \in S}
NestAv == [sigs : {{1}, {1, 2}}, pres : {{}}, height : {3, 9}, seq : {0}, nest : {TRUE}]
Init == \/ stage = "pick" /\ pol \in Pols(1) /\ av \in Avails
        \/ stage = "done" /\ pol \in Nest(2) /\ av \in NestAv
Wrap == /\ stage = "pick" /\ Depth >= 2
        \* (the partner is a leaf: composing two depth-1 policies gives 1.8 * 10^9 states; Depth = 3 asks for that)
        /\ \E q \in (IF Depth >= 3 THEN Pols(1) ELSE Leaves) : \E op \in {"and", "or", "t1", "t2"} :
             pol' = CASE op = "and" -> <<"and", pol, q>> [] op = "or" -> <<"or", q, pol>>
                      [] op = "t1" -> <<"thresh", 1, <<pol, q>>>> [] op = "t2" -> <<"thresh", 2, <<q, pol>>>>
        /\ stage' = "done" /\ UNCHANGED av
Stop == stage = "pick" /\ stage' = "done" /\ UNCHANGED <<pol, av>>
Next == Wrap \/ Stop
Spec == Init /\ [][Next]_vars
Done == stage = "done"
\* the satisfier returns a program exactly when the policy is true of what is available
SatisfierCorrect == Done => (Satisfiable(pol, av) = Holds(pol, av))
\* sorting: idempotent, and the same for every reordering of commutative children at every depth
SortLaws == Done => /\ Sorted(Sorted(pol)) = Sorted(pol)
                    /\ \A q \in Perms(pol) : Sorted(q) = Sorted(pol)
\* an `or` somewhere inside whose two branches are both false (the satisfier hides both: Hiding::case with two hidden children)
RECURSIVE DeadOr(_, _)
DeadOr(p, a) == /\ p[1] \in {"and", "or"}
                /\ \/ (p[1] = "or" /\ ~Holds(p[2], a) /\ ~Holds(p[3], a))
                   \/ DeadOr(p[2], a) \/ DeadOr(p[3], a)
Hh == IF av.nest THEN (IF pol[1] \in {"and", "or"} /\ (pol[2][1] \in {"and", "or"} \/ pol[3][1] \in {"and", "or"}) /\ (av.height = 9 \/ (Holds(pol, av) /\ DeadOr(pol, av))) THEN 0 ELSE 1) ELSE ((Len(pol) * 3 + av.height + av.seq * 5 + Cardinality(av.sigs)) % EmitMod)
Emit == (Done /\ Hh = 0) =>
  PrintT(<<"CASE", ToJson([pol |-> pol, sigs |-> [k \in 1..2 |-> k \in av.sigs], pres |-> [k \in 1..1 |-> k \in av.pres],
                           height |-> av.height, seq |-> av.seq, holds |-> Holds(pol, av),
                           perm |-> CHOOSE q \in Perms(pol) : \A q2 \in Perms(pol) : Cmp(q, q2) >= 0])>>)
=============================================================================
