------------------------------ MODULE MC_Roots ------------------------------
(* C09 on the symbolic algebra: for every small program (typed as a program), every subset of hidden
   sub-expressions, every witness assignment: the commitment root is untouched by witness data and by
   the presence of a disconnected branch, the hiding wrapper computes the same root, pruning a case to an
   assertion keeps the root, and different committed structures have different roots. *)
EXTENDS Roots, TLC, Json
CONSTANTS N, Ops, EmitMod
VARIABLES stage, item
vars == <<stage, item>>
HB(k) == [i \in 1..256 |-> IF i <= 8 THEN (k \div (2 ^ (8 - i))) % 2 ELSE (i + k) % 2]
FB(k) == [i \in 1..512 |-> IF i <= 8 THEN (k \div (2 ^ (8 - i))) % 2 ELSE (i \div 3 + k) % 2]
Payload(nd, k) == CASE nd[1] = "assertl" -> <<"assertl", nd[2], 0, HB(1)>>
                    [] nd[1] = "assertr" -> <<"assertr", nd[2], 0, HB(2)>>
                    [] nd[1] = "fail" -> <<"fail", 0, 0, FB(k % 2)>>
                    [] nd[1] = "word0" -> <<"word", 0, 0, <<One, Two>>, <<k % 2>>>>
                    [] nd[1] = "word1" -> <<"word", 0, 0, <<One, TwoN(1)>>, <<k % 2, 1>>>>
                    [] OTHER -> <<nd[1], nd[2], nd[3], <<>>>>
Ops_roots == {"iden", "unit", "witness", "word0", "word1", "injl", "injr", "take", "drop", "comp", "case", "pair", "assertl", "assertr", "fail", "disc", "disc1"}
Init == stage = "prog" /\ item = [dag |-> <<>>]
AddNode == /\ stage = "prog" /\ Len(item.dag) < N
           /\ \E nd \in NodeSet(Len(item.dag) + 1, Ops) : item' = [dag |-> Append(item.dag, Payload(nd, Len(item.dag) + 1))]
           /\ UNCHANGED stage
Pick == /\ stage = "prog" /\ item.dag # <<>> /\ AllReach(item.dag) /\ Infer(item.dag, FALSE)[1] = "ok"
        /\ \E hide \in SUBSET (1..(Len(item.dag) - 1)) : item' = [dag |-> item.dag, hide |-> hide]
        /\ stage' = "done"
Next == AddNode \/ Pick
Spec == Init /\ [][Next]_vars
Done == stage = "done"
D == item.dag
Root == Len(D)
\* replacing hidden sub-expressions by their roots never changes any root above them
HidingInv == Done => HideCmr(D, item.hide, Root)[2] = Cmr(D, Root)
\* a disconnect commits to its left child only; a case pruned to an assertion keeps its root
DiscInv == Done => \A i \in 1..Len(D) :
   /\ D[i][1] = "disc" => Cmr(D, i) = Cmr([D EXCEPT ![i] = <<"disc1", D[i][2], 0, <<>>>>], i)
   /\ D[i][1] = "case" => /\ Cmr(D, i) = H("Commitment|case", <<<<Cmr(D, D[i][2]), Cmr(D, D[i][3])>>>>)
\* injectivity on committed structure: two nodes have the same root iff their committed structure is equal
RECURSIVE Struct(_, _)
Struct(d, i) == <<IF d[i][1] = "disc1" THEN "disc" ELSE d[i][1],
                  IF d[i][1] \in {"assertl", "assertr", "fail"} THEN d[i][4] ELSE IF d[i][1] = "word" THEN d[i][5] ELSE <<>>,
                  IF d[i][2] # 0 THEN Struct(d, d[i][2]) ELSE <<>>,
                  IF d[i][3] # 0 /\ d[i][1] # "disc" THEN Struct(d, d[i][3]) ELSE <<>>>>
InjectiveInv == Done => \A i, j \in 1..Len(D) : (Cmr(D, i) = Cmr(D, j)) = (Struct(D, i) = Struct(D, j))
\* a spread-out sample: position-weighted sum over operators and child indices (a plain node count never reaches 0 mod a prime above it)
OpNum(op) == CHOOSE k \in 1..17 : <<"iden", "unit", "witness", "word0", "word1", "injl", "injr", "take", "drop", "comp", "case", "pair", "assertl", "assertr", "fail", "disc", "disc1">>[k]
                                   = (IF op = "word" THEN "word0" ELSE op)
RECURSIVE DagSum(_, _)
DagSum(d, i) == IF i = 0 THEN 0 ELSE DagSum(d, i - 1) + i * (OpNum(d[i][1]) + 3 * d[i][2] + 5 * d[i][3])
H2 == (DagSum(D, Len(D)) + 11 * Cardinality(item.hide)) % EmitMod
Emit == (Done /\ H2 = 0) =>
  PrintT(<<"CASE", ToJson([dag |-> D, hide |-> [k \in 1..Len(D) |-> k \in item.hide],
                           cmr |-> [k \in 1..Len(D) |-> CmrG(D, k, TRUE)],
                           hidden_root |-> HideCmr(D, item.hide, Root)[1]])>>)
=============================================================================
