-------------------------------- MODULE Human --------------------------------
(***************************************************************************)
(* C17: the human-readable encoding.                                       *)
(*                                                                         *)
(* A forest is a DAG of OBJECTS (Typing.tla nodes <<op, l, r, payload>>);  *)
(* every object has a name.  Distinct objects can have the same identity   *)
(* (equal sub-expressions written twice).  Four layers, each with the      *)
(* deviation of the pinned revision spelled out next to the repaired rule: *)
(*   names     AssignNames: user names kept, inline objects get            *)
(*             prefix+counter names (NamerPinned ignores user names)       *)
(*   lines     Render: one line per identity class in post-order, children *)
(*             printed by the name of the printed object of their class    *)
(*             (RenderOwn: by their own name)                              *)
(*   tokens    LineTokens: concrete syntax of a line; types by TyTok       *)
(*             (FailBare: entropy without 0x)                              *)
(*   parsing   ParseLine / ParseTy: recursive descent over the tokens      *)
(*             (pinned: no postfix `?`, 2^n only up to 512, CMR literals   *)
(*             read and dropped)                                           *)
(* The property is RoundTrip: parse(tokens(render(forest))) is the forest. *)
(***************************************************************************)
EXTENDS Typing, DagRef, TLC

(***************************************************************************)
(* Types in display-normal form: <<"1">>, <<"w", n>> (2^(2^n), n >= 0),    *)
(* <<"+", a, b>>, <<"*", a, b>> with every word recognised.                *)
(***************************************************************************)
RECURSIVE Hz(_)
Hz(t) == IF t[1] = "1" THEN t
         ELSE IF t[1] = "w" THEN t
         ELSE LET a == Hz(t[2])  b == Hz(t[3]) IN
              IF t[1] = "+" /\ a = <<"1">> /\ b = <<"1">> THEN <<"w", 0>>
              ELSE IF t[1] = "*" /\ a[1] = "w" /\ a = b THEN <<"w", a[2] + 1>>
              ELSE <<t[1], a, b>>
\* what Display writes (final_data.rs): words as 2 / 2^k, 1 + A as A?, composites in parentheses below the top
\* every token is a pair <<kind, value>>: "p" punctuation / keyword, "sym", "lit", "bare", "cmr", "jet", "2^"
P(x) == <<"p", x>>
RECURSIVE TyTok(_, _)
TyTok(t, top) ==
  CASE t[1] = "1" -> <<P("1")>>
    [] t[1] = "w" -> IF t[2] = 0 THEN <<P("2")>> ELSE << <<"2^", t[2]>> >>
    [] t[1] = "+" /\ t[2] = <<"1">> -> TyTok(t[3], FALSE) \o <<P("?")>>
    [] OTHER -> (IF top THEN <<>> ELSE <<P("(")>>) \o TyTok(t[2], FALSE) \o <<P(t[1])>> \o TyTok(t[3], FALSE) \o (IF top THEN <<>> ELSE <<P(")")>>)
\* the type parser (parse/ast.rs): atoms, postfix ?, left-associative + and * of equal precedence.
\* opt = postfix ? accepted; maxw = largest n with 2^(2^n) accepted.  Results are <<type, next position>> or <<"err">>.
Tk(toks, p) == IF p <= Len(toks) THEN toks[p] ELSE P("eof")
RECURSIVE PTy(_, _, _, _), PAtom(_, _, _, _), PPost(_, _, _, _), PLoop(_, _, _, _, _)
Bad == [ok |-> FALSE]
Got(t, p) == [ok |-> TRUE, t |-> t, p |-> p]
PPost(toks, r, opt, maxw) ==
  IF ~r.ok THEN r
  ELSE IF opt /\ Tk(toks, r.p) = P("?") THEN PPost(toks, Got(Hz(<<"+", <<"1">>, r.t>>), r.p + 1), opt, maxw) ELSE r
PAtom(toks, p, opt, maxw) ==
  LET t == Tk(toks, p) IN
  PPost(toks,
    CASE t = P("1") -> Got(<<"1">>, p + 1)
      [] t = P("2") -> Got(<<"w", 0>>, p + 1)
      [] t = P("(") -> LET r == PTy(toks, p + 1, opt, maxw) IN
                       IF ~r.ok THEN r ELSE IF Tk(toks, r.p) = P(")") THEN Got(r.t, r.p + 1) ELSE Bad
      [] t[1] = "2^" -> IF t[2] \in 1..maxw THEN Got(<<"w", t[2]>>, p + 1) ELSE Bad
      [] OTHER -> Bad, opt, maxw)
PLoop(toks, lhs, p, opt, maxw) ==
  IF Tk(toks, p) \in {P("+"), P("*")}
  THEN LET r == PAtom(toks, p + 1, opt, maxw) IN
       IF ~r.ok THEN r ELSE PLoop(toks, Hz(<<Tk(toks, p)[2], lhs, r.t>>), r.p, opt, maxw)
  ELSE Got(lhs, p)
PTy(toks, p, opt, maxw) ==
  LET r == PAtom(toks, p, opt, maxw) IN IF ~r.ok THEN r ELSE PLoop(toks, r.t, r.p, opt, maxw)
ParseTy(toks, opt, maxw) == LET r == PTy(toks, 1, opt, maxw) IN
                            IF r.ok /\ r.p = Len(toks) + 1 THEN r.t ELSE <<"err">>
RECURSIVE HasOpt(_), MaxWord(_)
HasOpt(t) == t[1] \in {"+", "*"} /\ ((t[1] = "+" /\ t[2] = <<"1">>) \/ HasOpt(t[2]) \/ HasOpt(t[3]))
MaxWord(t) == IF t[1] = "w" THEN t[2] ELSE IF t[1] = "1" THEN 0 ELSE Max(MaxWord(t[2]), MaxWord(t[3]))

(***************************************************************************)
(* Identity and rendering order.                                           *)
(***************************************************************************)
\* identity labels at commitment time: structure, payload and TYPES (the identity root covers the arrow);
\* witness / disconnect and everything above them have none
RECURSIVE IdLab(_, _, _)
IdLab(d, ar, i) ==
  IF i = 0 THEN <<>>
  ELSE LET prev == IdLab(d, ar, i - 1)
           noId == d[i][1] \in {"witness", "disc", "disc1"} \/ (d[i][2] # 0 /\ prev[d[i][2]] = 0) \/ (d[i][3] # 0 /\ prev[d[i][3]] = 0)
           same == {j \in 1..(i - 1) : /\ prev[j] # 0 /\ d[j][1] = d[i][1] /\ ar[j] = ar[i]
                                        /\ SubSeq(d[j], 4, Len(d[j])) = SubSeq(d[i], 4, Len(d[i]))
                                        /\ (d[i][2] # 0 => prev[d[j][2]] = prev[d[i][2]])
                                        /\ (d[i][3] # 0 => prev[d[j][3]] = prev[d[i][3]])}
       IN Append(prev, IF noId THEN 0 ELSE IF same = {} THEN i ELSE prev[CHOOSE j \in same : TRUE])
Pairs(d) == [k \in 1..Len(d) |-> <<d[k][2], d[k][3]>>]
Items(d, ar) == PO(Pairs(d), IdLab(d, ar, Len(d)), FALSE)          \* <<object, index, left index, right index>>
\* parse accepts a text only if every witness / disconnect is reached along one path (WitnessDisconnectRepeated)
RECURSIVE Paths(_, _)
Paths(d, i) == [k \in 1..Len(d) |-> IF k = i THEN 1 ELSE 0]
PathCount(d) ==      \* number of root paths to each object
  LET RECURSIVE Cnt(_, _)
      Cnt(k, acc) == IF k = 0 THEN acc
                     ELSE LET a1 == IF d[k][2] # 0 THEN [acc EXCEPT ![d[k][2]] = @ + acc[k]] ELSE acc
                              a2 == IF d[k][3] # 0 THEN [a1 EXCEPT ![d[k][3]] = @ + acc[k]] ELSE a1
                          IN Cnt(k - 1, a2)
  IN Cnt(Len(d), Paths(d, Len(d)))
SinglePathNoId(d) == \A k \in 1..Len(d) : d[k][1] \in {"witness", "disc", "disc1"} => PathCount(d)[k] <= 1

(***************************************************************************)
(* Names.  user[i] = "" for an inline (unnamed) object.  The namer walks   *)
(* the objects in post-order (pointer sharing) and gives unnamed ones      *)
(* prefix + counter, with one counter for words, one for witnesses and one *)
(* for everything else.                                                    *)
(***************************************************************************)
Prefix(op) == CASE op = "iden" -> "id" [] op = "unit" -> "ut" [] op = "injl" -> "jl" [] op = "injr" -> "jr"
                [] op = "drop" -> "dp" [] op = "take" -> "tk" [] op = "comp" -> "cp" [] op = "case" -> "cs"
                [] op = "assertl" -> "asstl" [] op = "assertr" -> "asstr" [] op = "pair" -> "pr"
                [] op \in {"disc", "disc1"} -> "disc" [] op = "witness" -> "wit" [] op = "fail" -> "FAIL"
                [] op \in {"word", "word0", "word1"} -> "const" [] OTHER -> "jt"
Counter(op) == IF op \in {"word", "word0", "word1"} THEN 1 ELSE IF op = "witness" THEN 2 ELSE 3
Digits(n) == ToString(n)
\* avoid = TRUE: the repaired namer skips names the text already uses
RECURSIVE NameWalk(_, _, _, _, _, _)
NameWalk(d, user, order, k, st, avoid) ==
  IF k > Len(order) THEN st.names
  ELSE LET i == order[k] IN
       IF user[i] # "" THEN NameWalk(d, user, order, k + 1, [st EXCEPT !.names[i] = user[i]], avoid)
       ELSE LET c == Counter(d[i][1])
                RECURSIVE Fresh(_)
                Fresh(n) == IF avoid /\ \E j \in 1..Len(d) : user[j] = Prefix(d[i][1]) \o Digits(n) THEN Fresh(n + 1) ELSE n
                n == Fresh(st.cnt[c] + 1)
            IN NameWalk(d, user, order, k + 1, [names |-> [st.names EXCEPT ![i] = Prefix(d[i][1]) \o Digits(n)], cnt |-> [st.cnt EXCEPT ![c] = n]], avoid)
AssignNames(d, user, avoid) ==
  NameWalk(d, user, Nodes(PO(Pairs(d), Ident(Pairs(d)), FALSE)), 1, [names |-> [i \in 1..Len(d) |-> ""], cnt |-> <<0, 0, 0>>], avoid)
NamesDistinct(nm) == \A i, j \in 1..Len(nm) : i # j => nm[i] # nm[j]

(***************************************************************************)
(* Forest::from_program: the committed program's identity classes become   *)
(* the objects (conversion with MaxSharing), the root is called main, the  *)
(* others prefix + counter, and the hole of a disconnect "hole" + the      *)
(* value of the general counter, which it also advances.                   *)
(***************************************************************************)
RECURSIVE ProgWalk(_, _, _, _)
ProgWalk(d, it, k, st) ==
  IF k > Len(it) THEN st
  ELSE LET o == it[k][1]
           isDisc == d[o][1] = "disc1"
           hole == "hole" \o Digits(st.cnt[3])
           cnt1 == IF isDisc THEN [st.cnt EXCEPT ![3] = @ + 1] ELSE st.cnt
           c == Counter(d[o][1])
           cnt2 == IF o = Len(d) THEN cnt1 ELSE [cnt1 EXCEPT ![c] = @ + 1]
           nm == IF o = Len(d) THEN "main" ELSE Prefix(d[o][1]) \o Digits(cnt2[c])
           obj == <<d[o][1], IF it[k][3] = NONE THEN 0 ELSE it[k][3] + 1, IF it[k][4] = NONE THEN 0 ELSE it[k][4] + 1>>
                  \o (IF isDisc THEN <<hole>> ELSE SubSeq(d[o], 4, Len(d[o])))
       IN ProgWalk(d, it, k + 1, [objs |-> Append(st.objs, obj), names |-> Append(st.names, nm), cnt |-> cnt2])
ProgramForest(d, ar) ==
  LET it == Items(d, ar)
      st == ProgWalk(d, it, 1, [objs |-> <<>>, names |-> <<>>, cnt |-> <<0, 0, 0>>]) IN
  [objs |-> st.objs, names |-> st.names, ar |-> [k \in 1..Len(it) |-> ar[it[k][1]]]]

(***************************************************************************)
(* Lines: <<defined name, object, left name, right name>>, in three        *)
(* sections (witnesses, constants, program code), each in post-order.      *)
(***************************************************************************)
Filter(s, Q(_)) == LET RECURSIVE F(_) F(k) == IF k > Len(s) THEN <<>> ELSE (IF Q(s[k]) THEN <<s[k]>> ELSE <<>>) \o F(k + 1) IN F(1)
IsWord(op) == op \in {"word", "word0", "word1"}
Sectioned(d, ls) == Filter(ls, LAMBDA x : d[x[2]][1] = "witness") \o Filter(ls, LAMBDA x : IsWord(d[x[2]][1]))
                    \o Filter(ls, LAMBDA x : d[x[2]][1] # "witness" /\ ~IsWord(d[x[2]][1]))
Render(d, ar, nm) ==       \* children by the name of the printed object of their class
  LET it == Items(d, ar) IN
  Sectioned(d, [k \in 1..Len(it) |-> <<nm[it[k][1]], it[k][1],
                          IF it[k][3] = NONE THEN "" ELSE nm[it[it[k][3] + 1][1]],
                          IF it[k][4] = NONE THEN "" ELSE nm[it[it[k][4] + 1][1]]>>])
RenderOwn(d, ar, nm) ==    \* children by their own names (pinned revision)
  LET it == Items(d, ar) IN
  Sectioned(d, [k \in 1..Len(it) |-> <<nm[it[k][1]], it[k][1],
                          IF d[it[k][1]][2] = 0 THEN "" ELSE nm[d[it[k][1]][2]],
                          IF d[it[k][1]][3] = 0 THEN "" ELSE nm[d[it[k][1]][3]]>>])

(***************************************************************************)
(* Concrete syntax of one line.  Payload tokens: <<"lit", x>> a 0b/0x      *)
(* literal, <<"bare", x>> hex digits without prefix, <<"cmr", x>> #hex.    *)
(***************************************************************************)
Sym(n) == <<"sym", n>>
Pay(nd) == IF Len(nd) >= 4 THEN nd[4] ELSE 0
ExprTok(nd, l, r, failPrefix) ==
  LET op == nd[1] IN
  CASE op \in {"iden", "unit", "witness"} -> <<P(op)>>
    [] op \in {"injl", "injr", "take", "drop"} -> <<P(op), Sym(l)>>
    [] op \in {"comp", "case", "pair"} -> <<P(op), Sym(l), Sym(r)>>
    [] op = "assertl" -> <<P("assertl"), Sym(l), <<"cmr", Pay(nd)>> >>
    [] op = "assertr" -> <<P("assertr"), <<"cmr", Pay(nd)>>, Sym(l)>>
    [] op = "disc1" -> <<P("disconnect"), Sym(l), P("?"), Sym(Pay(nd))>>
    [] op = "fail" -> <<P("fail"), IF failPrefix THEN <<"lit", Pay(nd)>> ELSE <<"bare", Pay(nd)>> >>
    [] IsWord(op) -> <<P("const"), <<"lit", Pay(nd)>> >>
    [] OTHER -> << <<"jet", Pay(nd)>> >>
LineTok(d, ar, line, failPrefix) ==
  <<Sym(line[1]), P(":=")>> \o ExprTok(d[line[2]], line[3], line[4], failPrefix)
  \o <<P(":")>> \o TyTok(ar[line[2]][1], TRUE) \o <<P("->")>> \o TyTok(ar[line[2]][2], TRUE)
TextTok(d, ar, lines, failPrefix) == [k \in 1..Len(lines) |-> LineTok(d, ar, lines[k], failPrefix)]

(***************************************************************************)
(* Parsing a rendered line back (parse/ast.rs: parse_line, parse_expr for  *)
(* the flat expressions the renderer writes).                              *)
(*   result [st |-> "ok", name, op, l, r, pay, src, tgt] or st = "err"     *)
(* keepCmr = FALSE: the pinned parser reads a CMR literal and forgets it,  *)
(* so the assertion and everything above it silently disappears ("lost").  *)
(***************************************************************************)
IsTok(t, kind) == t[1] = kind
FindTok(toks, x) == IF \E k \in 1..Len(toks) : toks[k] = x THEN CHOOSE k \in 1..Len(toks) : toks[k] = x /\ \A j \in 1..(k - 1) : toks[j] # x ELSE 0
ParseLine(toks, opt, maxw, keepCmr) ==
  LET colon == FindTok(toks, P(":"))  arrow == FindTok(toks, P("->")) IN
  IF Len(toks) < 3 \/ ~IsTok(toks[1], "sym") \/ toks[2] # P(":=") \/ colon = 0 \/ arrow < colon THEN [st |-> "err"]
  ELSE LET e == SubSeq(toks, 3, colon - 1)
           src == ParseTy(SubSeq(toks, colon + 1, arrow - 1), opt, maxw)
           tgt == ParseTy(SubSeq(toks, arrow + 1, Len(toks)), opt, maxw)
           mk(op, l, r, pay) == [st |-> "ok", name |-> toks[1][2], op |-> op, l |-> l, r |-> r, pay |-> pay, src |-> src, tgt |-> tgt]
           symAt(k) == k <= Len(e) /\ IsTok(e[k], "sym")
           kw == IF Len(e) >= 1 /\ IsTok(e[1], "p") THEN e[1][2] ELSE ""
           res == CASE Len(e) = 1 /\ kw \in {"iden", "unit", "witness"} -> mk(kw, "", "", 0)
                    [] Len(e) = 1 /\ IsTok(e[1], "jet") -> mk("jet", "", "", e[1][2])
                    [] Len(e) = 2 /\ kw \in {"injl", "injr", "take", "drop"} /\ symAt(2) -> mk(kw, e[2][2], "", 0)
                    [] Len(e) = 3 /\ kw \in {"comp", "case", "pair"} /\ symAt(2) /\ symAt(3) -> mk(kw, e[2][2], e[3][2], 0)
                    [] Len(e) = 3 /\ kw = "assertl" /\ symAt(2) /\ IsTok(e[3], "cmr") -> IF keepCmr THEN mk("assertl", e[2][2], "", e[3][2]) ELSE [st |-> "lost"]
                    [] Len(e) = 3 /\ kw = "assertr" /\ symAt(3) /\ IsTok(e[2], "cmr") -> IF keepCmr THEN mk("assertr", e[3][2], "", e[2][2]) ELSE [st |-> "lost"]
                    [] Len(e) = 4 /\ kw = "disconnect" /\ symAt(2) /\ e[3] = P("?") /\ symAt(4) -> mk("disc1", e[2][2], "", e[4][2])
                    [] Len(e) = 2 /\ kw = "fail" /\ IsTok(e[2], "lit") -> mk("fail", "", "", e[2][2])
                    [] Len(e) = 2 /\ kw = "const" /\ IsTok(e[2], "lit") -> mk("word", "", "", e[2][2])
                    [] OTHER -> [st |-> "err"]
       IN IF src = <<"err">> \/ tgt = <<"err">> THEN [st |-> "err"] ELSE res
\* the whole text: every line parses, names are defined once, references resolve, and the definitions say what the objects are
OpClass(op) == IF IsWord(op) THEN "word" ELSE IF op \in {"jetV", "jetA", "jetL", "jet"} THEN "jet" ELSE op
RoundTrip(d, ar, lines, toks, opt, maxw, keepCmr) ==
  LET ps == [k \in 1..Len(toks) |-> ParseLine(toks[k], opt, maxw, keepCmr)]
      defined == {ps[k].name : k \in {j \in 1..Len(ps) : ps[j].st = "ok"}} IN
  /\ \A k \in 1..Len(ps) : ps[k].st = "ok"
  /\ \A j, k \in 1..Len(ps) : j # k => ps[j].name # ps[k].name
  /\ \A k \in 1..Len(ps) : {ps[k].l, ps[k].r} \ {""} \subseteq defined
  /\ \A k \in 1..Len(ps) :
       LET o == d[lines[k][2]] IN
       /\ ps[k].op = OpClass(o[1]) /\ ps[k].pay = Pay(o)
       /\ ps[k].src = ar[lines[k][2]][1] /\ ps[k].tgt = ar[lines[k][2]][2]
       \* the named children denote objects of the same identity class as the object's children
       /\ \A side \in {2, 3} : o[side] # 0 =>
            \E j \in 1..Len(ps) : /\ ps[j].name = (IF side = 2 THEN ps[k].l ELSE ps[k].r)
                                  /\ LET lab == IdLab(d, ar, Len(d)) IN
                                     IF lab[o[side]] = 0 THEN lines[j][2] = o[side] ELSE lab[lines[j][2]] = lab[o[side]]
  /\ \E k \in 1..Len(ps) : lines[k][2] = Len(d)
\* scopes of the named deviations
OwnNameScope(d, ar) == \E k \in 1..Len(d) : \E c \in {d[k][2], d[k][3]} \ {0} :
                         LET lab == IdLab(d, ar, Len(d)) it == Items(d, ar) IN
                         /\ \E m \in 1..Len(it) : it[m][1] = k
                         /\ lab[c] # 0 /\ \A m \in 1..Len(it) : it[m][1] # c
=============================================================================
