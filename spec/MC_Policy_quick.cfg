SPECIFICATION Spec
CONSTANT Depth = 1
CONSTANT EmitMod = 29
INVARIANT SatisfierCorrect
INVARIANT SortLaws
INVARIANT Emit
CHECK_DEADLOCK FALSE
