----------------------------- MODULE MC_Budget -----------------------------
EXTENDS Budget, TLC, Json
CONSTANTS Ks, Lens, Extras, DefLo, DefHi, Rs, EmitMod
VARIABLE x
DefLo_q == <<-2, 65500, 3000000>>
DefHi_q == <<300, 65560, 3000004>>
DefLo_t == <<-2, 65300, 3990000>>
DefHi_t == <<700, 65800, 3990200>>
Stacks == {<<<<k, len>>>> : k \in Ks, len \in Lens} \cup
          {<<<<k, len>>, <<1, e>>>> : k \in Ks, len \in Lens, e \in Extras}
Deficits == UNION {DefLo[i]..DefHi[i] : i \in 1..Len(DefLo)}
Init == \E st \in Stacks : \E d \in Deficits : \E r \in Rs :
          LET w == BudgetOf(st) + d IN
          /\ w >= 0 /\ w <= ConsensusMaxQ /\ (r = 0 \/ w >= 1)
          \* cost with weight w: r = 0 -> exactly 1000*w, else 1000*(w-1) + r
          /\ x = [c |-> IF r = 0 THEN <<w, 0>> ELSE <<w - 1, r>>, st |-> st]
Next == UNCHANGED x
Spec == Init /\ [][Next]_x
Correct == PadCorrect(x.c, x.st) /\ ConvCorrect(x.c)
H == (x.c[1] + x.c[2] + Count(x.st)) % EmitMod
Emit == H = 0 => PrintT(<<"CASE", ToJson([c |-> x.c, st |-> x.st, valid |-> Valid(x.c, x.st),
                                           pad |-> CodePad(x.c, x.st),
                                           boundary |-> CountBoundary(x.st), weight |-> Weight(x.c)])>>)
=============================================================================
