SPECIFICATION Spec
CONSTANT MaxIn = 2
CONSTANT MaxOut = 2
CONSTANT EmitMod = 1
INVARIANT Laws
INVARIANT FeeLaw
INVARIANT Emit
CHECK_DEADLOCK FALSE
