-------------------------- MODULE Trace_ElementsEnv --------------------------
(* impl -> spec for C15.  One event per environment: the description handed to ElementsEnv::new (completed
   with the transaction id and the issuance-derived hashes, which are computed outside the crate), and the
   answer of every introspection jet on every argument tried, read off the Bit Machine's output value.
   Accepted iff every answer is J(name, env, arg), and the signature hash the environment exposes is the
   one the sig_all_hash jet returns. *)
EXTENDS ElementsEnv, Json, IOUtils, TLC
Rec == ndJsonDeserialize(IOEnv.TRACE)
VARIABLE l
S(x) == ToString(x)
\* field jets are judged here; hash jets get their symbolic digests printed (TERMS) for the harness to hash and compare
Wrong(e) == {k \in 1..Len(e.answers) : e.answers[k][1] \notin HashJets /\ S(e.answers[k][3]) # S(J(e.answers[k][1], e.desc, e.answers[k][2]))}
HashIdx(e) == SelectSeq([k \in 1..Len(e.answers) |-> k], LAMBDA k : e.answers[k][1] \in HashJets)
Terms(e) == [j \in 1..Len(HashIdx(e)) |-> LET a == e.answers[HashIdx(e)[j]] IN <<a[1], a[2], JH(a[1], e.desc, a[2]), a[3]>>]
Clauses(e) ==
  <<
   e.build = "ok",
   \A k \in 1..Len(e.answers) : e.answers[k][1] \in AllJets \cup HashJets,
   Wrong(e) = {},
   S(e.sighash_jet) = S(e.sighash_env)
  >>
AllTrue(cl) == \A k \in 1..Len(cl) : cl[k]
Init == l = 1
Next == /\ l <= Len(Rec) /\ (AllTrue(Clauses(Rec[l])) = TRUE)
        /\ ((Rec[l].build = "ok" /\ (IOEnv.TERMS = "all" \/ (l % 9) = 0)) => PrintT(<<"TERMS", ToJson([ev |-> l, items |-> Terms(Rec[l])])>>))
        /\ l' = l + 1
Spec == Init /\ [][Next]_l
FirstWrong(e) == IF e.build = "ok" /\ Wrong(e) # {} THEN LET k == CHOOSE k \in Wrong(e) : \A j \in Wrong(e) : k <= j IN
                    <<e.answers[k], J(e.answers[k][1], e.desc, e.answers[k][2])>> ELSE <<>>
Accepted == IF TLCGet("stats").diameter - 1 = Len(Rec) THEN TRUE
            ELSE /\ PrintT(<<"REJECTED", TLCGet("stats").diameter>>)
                 /\ PrintT(<<"DIAG", Clauses(Rec[TLCGet("stats").diameter])>>)
                 /\ PrintT(<<"WRONG", FirstWrong(Rec[TLCGet("stats").diameter])>>)
                 /\ FALSE
=============================================================================
