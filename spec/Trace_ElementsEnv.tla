-------------------------- MODULE Trace_ElementsEnv --------------------------
(* impl -> spec for C15.  One event per environment: the description handed to ElementsEnv::new (completed
   with the transaction id and the issuance-derived hashes, which are computed outside the crate), and the
   answer of every introspection jet on every argument tried, read off the Bit Machine's output value.
   Accepted iff every answer is J(name, env, arg), and the signature hash the environment exposes is the
   one the sig_all_hash jet returns. *)
EXTENDS ElementsEnv, Json, IOUtils, TLC
Rec == ndJsonDeserialize(IOEnv.TRACE)
VARIABLE l
S(x) == ToString(x)
\* field jets are judged here; hash jets get their symbolic digests printed (TERMS) for the harness to hash and compare
Wrong(e) == {k \in 1..Len(e.answers) : e.answers[k][1] \notin HashJets /\ S(e.answers[k][3]) # S(J(e.answers[k][1], e.desc, e.answers[k][2]))}
HashIdx(e) == SelectSeq([k \in 1..Len(e.answers) |-> k], LAMBDA k : e.answers[k][1] \in HashJets)
Terms(e) == [j \in 1..Len(HashIdx(e)) |-> LET a == e.answers[HashIdx(e)[j]] IN <<a[1], a[2], JH(a[1], e.desc, a[2]), a[3]>>]
(* The digests themselves, recomputed here with Sha256.tla for every m-th event (IOEnv.CONCRETE = m; 0 / absent = none):
   a digest term <<"sha", parts>> denotes the SHA-256 of the concatenation of its parts -- hex strings, bytes, 32- and
   64-bit numbers given as 16-bit limbs, ASCII strings, nested terms, and references to the digest of a global hash jet,
   which is recomputed from that jet's own term.  Checked for the global hash jets (the answer is the digest itself) and the per-index ones (an optional digest). *)
HX == INSTANCE Sha256
Sample == IF "CONCRETE" \in DOMAIN IOEnv THEN atoi(IOEnv.CONCRETE) ELSE 0
B16v(k) == [i \in 1..16 |-> (k \div (2 ^ (16 - i))) % 2]
B8v(k) == [i \in 1..8 |-> (k \div (2 ^ (8 - i))) % 2]
AsciiChars == "abcdefghijklmnopqrstuvwxyzABCDEFGHIJKLMNOPQRSTUVWXYZ"
CharCode(c) == IF c = "/" THEN 47 ELSE LET k == CHOOSE k \in 1..52 : SubSeq(AsciiChars, k, k) = c IN IF k <= 26 THEN 96 + k ELSE 64 + (k - 26)
RECURSIVE StrBits(_)
StrBits(str) == IF str = "" THEN <<>> ELSE B8v(CharCode(SubSeq(str, 1, 1))) \o StrBits(SubSeq(str, 2, Len(str)))
RECURSIVE DigestBits(_, _), PartsBits(_, _, _)
PartsBits(parts, env, k) ==
  IF k > Len(parts) THEN <<>>
  ELSE LET p == parts[k]
           here == CASE p[1] = "h" -> HX!HexBits(p[2])
                     [] p[1] = "u8" -> B8v(p[2])
                     [] p[1] = "u32" -> B16v(p[2][1]) \o B16v(p[2][2])
                     [] p[1] = "u64" -> B16v(p[2][1]) \o B16v(p[2][2]) \o B16v(p[2][3]) \o B16v(p[2][4])
                     [] p[1] = "str" -> StrBits(p[2])
                     [] p[1] = "t" -> DigestBits(p[2], env)
                     [] p[1] = "ref" -> DigestBits(JH(p[2], env, U), env)
       IN here \o PartsBits(parts, env, k + 1)
DigestBits(t, env) == HX!Sha256(PartsBits(t[2], env, 1))
DigestsOk(e) ==
  (Sample > 0 /\ l % Sample = 0 /\ e.build = "ok") =>
    \A k \in 1..Len(e.answers) :
       /\ e.answers[k][1] \in GlobalHashJets =>
            HX!HexBits(e.answers[k][3]) = DigestBits(JH(e.answers[k][1], e.desc, e.answers[k][2]), e.desc)
       \* the per-index hash jets answer with an option: absent beyond the range, else the digest
       /\ e.answers[k][1] \in IndexHashJets =>
            LET exp == JH(e.answers[k][1], e.desc, e.answers[k][2])
                got == e.answers[k][3]
            IN IF exp[1] = "R" THEN got[1] = "R" /\ HX!HexBits(got[2]) = DigestBits(exp[2], e.desc) ELSE got[1] = "L"
Clauses(e) ==
  <<
   e.build = "ok",
   \A k \in 1..Len(e.answers) : e.answers[k][1] \in AllJets \cup HashJets,
   Wrong(e) = {},
   S(e.sighash_jet) = S(e.sighash_env),
   DigestsOk(e)
  >>
AllTrue(cl) == \A k \in 1..Len(cl) : cl[k]
Init == l = 1
Next == /\ l <= Len(Rec) /\ (AllTrue(Clauses(Rec[l])) = TRUE)
        /\ ((Rec[l].build = "ok" /\ (IOEnv.TERMS = "all" \/ (l % 9) = 0)) => PrintT(<<"TERMS", ToJson([ev |-> l, items |-> Terms(Rec[l])])>>))
        /\ l' = l + 1
Spec == Init /\ [][Next]_l
FirstWrong(e) == IF e.build = "ok" /\ Wrong(e) # {} THEN LET k == CHOOSE k \in Wrong(e) : \A j \in Wrong(e) : k <= j IN
                    <<e.answers[k], J(e.answers[k][1], e.desc, e.answers[k][2])>> ELSE <<>>
Accepted == IF TLCGet("stats").diameter - 1 = Len(Rec) THEN TRUE
            ELSE /\ PrintT(<<"REJECTED", TLCGet("stats").diameter>>)
                 /\ PrintT(<<"DIAG", Clauses(Rec[TLCGet("stats").diameter])>>)
                 /\ PrintT(<<"WRONG", FirstWrong(Rec[TLCGet("stats").diameter])>>)
                 /\ FALSE
=============================================================================
