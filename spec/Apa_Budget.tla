----------------------------- MODULE Apa_Budget -----------------------------
(* C19 over unbounded integers (Apalache, invariant at length 0).  The stack is abstracted to its item
   count and the total serialized size of its items; Enough is monotone in the annex length, so
   minimality is "one byte less is not enough".  Mirrors Budget.tla (which TLC checks on bounded sets). *)
EXTENDS Integers
VARIABLES
  \* @type: Int;
  q,
  \* @type: Int;
  r,
  \* @type: Int;
  count,
  \* @type: Int;
  body

CS(n) == IF n <= 252 THEN 1 ELSE IF n <= 65535 THEN 3 ELSE 5
SerLen(cnt, bd) == CS(cnt) + bd
Weight == q + (IF r > 0 THEN 1 ELSE 0)
Budget(cnt, bd) == SerLen(cnt, bd) + 50
Valid == Weight <= Budget(count, body)
Deficit == Weight - Budget(count, body)
CodePad ==
  IF Weight <= Budget(count, body) THEN -1
  ELSE IF Deficit <= 253 THEN (IF Deficit >= 2 THEN Deficit - 2 ELSE 0)
  ELSE IF Deficit <= 255 THEN 252
  ELSE IF Deficit <= 65538 THEN Deficit - 4
  ELSE IF Deficit <= 65540 THEN 65535
  ELSE Deficit - 6
Enough(L) == Weight <= Budget(count + 1, body + CS(L) + L)
Boundary == CS(count + 1) # CS(count)

Init ==
  /\ q \in Int /\ r \in Int /\ count \in Int /\ body \in Int
  /\ q >= 0 /\ q <= 4000050 /\ r >= 0 /\ r < 1000 /\ (q = 4000050 => r = 0)
  /\ count >= 0 /\ count < 4294967296
  /\ body >= count /\ body < 4294967296          \* every item costs at least its length byte
Next == UNCHANGED <<q, r, count, body>>

Inv ==
  /\ (CodePad = -1) = Valid
  /\ CodePad # -1 => /\ Enough(CodePad + 1)
                     /\ (~Boundary /\ CodePad >= 1) => ~Enough(CodePad)
=============================================================================
