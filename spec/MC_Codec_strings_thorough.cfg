SPECIFICATION Spec
CONSTANT JetRows <- CoreJets
CONSTANT CmrN = 8
CONSTANT Mode = "strings"
CONSTANT N = 3
CONSTANT Bytes = 3
CONSTANT EmitMod = 499
CONSTANT ProgOps <- Ops_c01_small
INVARIANT Canonical
INVARIANT Rules
INVARIANT RoundTrip
INVARIANT Emit
CHECK_DEADLOCK FALSE
