---------------------------- MODULE Trace_Policy ----------------------------
(* impl -> spec for C16's canonical sorting: random nested policies (thresholds with compound children), the crate's
   sorted() of each and of a random reordering of its commutative children.  The order the crate sorts by is its own
   (derive(Ord) over keys and hashes); what the specification demands is that sorting only reorders -- the
   specification's canonical form (Policy!Sorted) of the crate's result is that of the input --, that it is idempotent
   and that it does not depend on the order the children were given in. *)
EXTENDS Policy, Json, IOUtils, TLC
Rec == ndJsonDeserialize(IOEnv.TRACE)
VARIABLE l
\* JSON arrays of sub-policies arrive as sequences already; numbers stay numbers
Ok(e) ==
  /\ "panic" \notin DOMAIN e
  /\ Sorted(e.perm) = Sorted(e.pol)                   \* (the harness did offer a reordering)
  /\ Sorted(e.sorted) = Sorted(e.pol)                 \* sorting only reorders commutative children
  /\ Sorted(e.perm_sorted) = Sorted(e.pol)
  /\ e.idempotent /\ e.perm_equal
  /\ ToString(e.sorted) = ToString(e.perm_sorted)     \* the same canonical policy, child by child
Init == l = 1
Next == l <= Len(Rec) /\ (Ok(Rec[l]) = TRUE) /\ l' = l + 1
Spec == Init /\ [][Next]_l
Accepted == IF TLCGet("stats").diameter - 1 = Len(Rec) THEN TRUE
            ELSE /\ PrintT(<<"REJECTED", TLCGet("stats").diameter>>)
                 /\ FALSE
=============================================================================
