------------------------------ MODULE Semantics ------------------------------
(***************************************************************************)
(* L0 (no variables): big-step semantics of typed Simplicity DAGs (Eval,   *)
(* EvalX with execution record and oracle jets) and the static resource    *)
(* bounds of src/analysis.rs (Cells, Frames).  See BitMachine.tla.         *)
(***************************************************************************)
EXTENDS Typing

(* ------------------------------ jets ------------------------------ *)
\* representative jets with fixed meaning: jetV = verify (fails on 0), jetA = and_1, jetL = low_1
JetFailV == <<"JETFAIL">>
JetSem(op, v) ==
  CASE op = "jetV" -> IF v[1] = "R" THEN <<"u">> ELSE JetFailV
    [] op = "jetA" -> IF v[2][1] = "R" /\ v[3][1] = "R" THEN <<"R", <<"u">>>> ELSE <<"L", <<"u">>>>
    [] op = "jetL" -> <<"L", <<"u">>>>

(* ------------------------------ denotation ------------------------------ *)
\* result: [ok |-> TRUE, v |-> value] or [ok |-> FALSE, why |-> "assert" | "failnode" | "jetfail"]
Good(v) == [ok |-> TRUE, v |-> v, why |-> "none"]
Bad(w) == [ok |-> FALSE, v |-> <<"u">>, why |-> w]
RECURSIVE Eval(_, _, _, _)
Eval(dag, aux, i, v) ==
  LET nd == dag[i]  op == nd[1] IN
  CASE op = "iden" -> Good(v)
    [] op = "unit" -> Good(<<"u">>)
    [] op \in {"witness", "word0", "word1", "word"} -> Good(aux[i])
    [] op = "fail" -> Bad("failnode")
    [] op \in {"jetV", "jetA", "jetL"} -> LET r == JetSem(op, v) IN IF r = JetFailV THEN Bad("jetfail") ELSE Good(r)
    [] op = "injl" -> LET r == Eval(dag, aux, nd[2], v) IN IF r.ok THEN Good(<<"L", r.v>>) ELSE r
    [] op = "injr" -> LET r == Eval(dag, aux, nd[2], v) IN IF r.ok THEN Good(<<"R", r.v>>) ELSE r
    [] op = "take" -> Eval(dag, aux, nd[2], v[2])
    [] op = "drop" -> Eval(dag, aux, nd[2], v[3])
    [] op = "comp" -> LET r == Eval(dag, aux, nd[2], v) IN IF r.ok THEN Eval(dag, aux, nd[3], r.v) ELSE r
    [] op = "pair" -> LET a == Eval(dag, aux, nd[2], v) IN
                      IF ~a.ok THEN a
                      ELSE LET b == Eval(dag, aux, nd[3], v) IN IF b.ok THEN Good(<<"P", a.v, b.v>>) ELSE b
    [] op = "case" -> IF v[2][1] = "L" THEN Eval(dag, aux, nd[2], <<"P", v[2][2], v[3]>>)
                      ELSE Eval(dag, aux, nd[3], <<"P", v[2][2], v[3]>>)
    [] op = "assertl" -> IF v[2][1] = "L" THEN Eval(dag, aux, nd[2], <<"P", v[2][2], v[3]>>) ELSE Bad("assert")
    [] op = "assertr" -> IF v[2][1] = "R" THEN Eval(dag, aux, nd[2], <<"P", v[2][2], v[3]>>) ELSE Bad("assert")
    \* disconnect(s, t) a = let (b, c) = s(cmr(t), a) in (b, t(c))
    [] op = "disc" -> LET r == Eval(dag, aux, nd[2], <<"P", aux[i], v>>) IN
                      IF ~r.ok THEN r
                      ELSE LET d == Eval(dag, aux, nd[3], r.v[3]) IN IF d.ok THEN Good(<<"P", r.v[2], d.v>>) ELSE d

(* ---- the same semantics with an execution record and oracle jets (used on recorded runs) ----
   orc: sequence of [i, vin, vout] / [i, vin, "jetfailed"] observed for jet leaves (only the C code defines them);
   a jet input that was never observed makes the result "unknown" (skipped, never guessed).
   tr: the nodes in the order the machine hands them to the tracker (parent before children; a failing
   assertion or fail node is not reported, a failing jet is). *)
GoodT(v, tr) == [ok |-> TRUE, v |-> v, why |-> "none", tr |-> tr]
BadT(w, tr) == [ok |-> FALSE, v |-> <<"u">>, why |-> w, tr |-> tr]
OrcLookup(orc, i, v) ==
  LET hits == {k \in 1..Len(orc) : orc[k][1] = i /\ orc[k][2] = v} IN
  IF hits = {} THEN <<"unknown">> ELSE orc[CHOOSE k \in hits : TRUE][3]
RECURSIVE EvalX(_, _, _, _, _)
EvalX(dag, aux, orc, i, v) ==
  LET nd == dag[i]  op == nd[1]
      sub(j, x) == EvalX(dag, aux, orc, j, x)
      pre(r) == [r EXCEPT !.tr = <<i>> \o @] IN
  CASE op = "iden" -> GoodT(v, <<i>>)
    [] op = "unit" -> GoodT(<<"u">>, <<i>>)
    [] op \in {"witness", "word0", "word1", "word"} -> GoodT(aux[i], <<i>>)
    [] op = "fail" -> BadT("failnode", <<>>)
    [] op \in {"jetV", "jetA", "jetL"} -> LET r == JetSem(op, v) IN IF r = JetFailV THEN BadT("jetfail", <<i>>) ELSE GoodT(r, <<i>>)
    [] op = "leaf" -> LET r == OrcLookup(orc, i, v) IN
                      IF r = <<"unknown">> THEN BadT("unknown", <<i>>)
                      ELSE IF r = <<"jetfailed">> THEN BadT("jetfail", <<i>>) ELSE GoodT(r, <<i>>)
    [] op = "injl" -> LET r == sub(nd[2], v) IN pre(IF r.ok THEN [r EXCEPT !.v = <<"L", r.v>>] ELSE r)
    [] op = "injr" -> LET r == sub(nd[2], v) IN pre(IF r.ok THEN [r EXCEPT !.v = <<"R", r.v>>] ELSE r)
    [] op = "take" -> pre(sub(nd[2], v[2]))
    [] op = "drop" -> pre(sub(nd[2], v[3]))
    [] op = "comp" -> LET r == sub(nd[2], v) IN
                      IF ~r.ok THEN pre(r) ELSE LET q == sub(nd[3], r.v) IN pre([q EXCEPT !.tr = r.tr \o @])
    [] op = "pair" -> LET a == sub(nd[2], v) IN
                      IF ~a.ok THEN pre(a)
                      ELSE LET b == sub(nd[3], v) IN
                           pre(IF b.ok THEN GoodT(<<"P", a.v, b.v>>, a.tr \o b.tr) ELSE [b EXCEPT !.tr = a.tr \o @])
    [] op = "case" -> pre(IF v[2][1] = "L" THEN sub(nd[2], <<"P", v[2][2], v[3]>>) ELSE sub(nd[3], <<"P", v[2][2], v[3]>>))
    [] op = "assertl" -> IF v[2][1] = "L" THEN pre(sub(nd[2], <<"P", v[2][2], v[3]>>)) ELSE BadT("assert", <<>>)
    [] op = "assertr" -> IF v[2][1] = "R" THEN pre(sub(nd[2], <<"P", v[2][2], v[3]>>)) ELSE BadT("assert", <<>>)
    [] op = "disc" -> LET r == sub(nd[2], <<"P", aux[i], v>>) IN
                      IF ~r.ok THEN pre(r)
                      ELSE LET d == sub(nd[3], r.v[3]) IN
                           pre(IF d.ok THEN GoodT(<<"P", r.v[2], d.v>>, r.tr \o d.tr) ELSE [d EXCEPT !.tr = r.tr \o @])

(* ------------------------------ static bounds (analysis.rs) ------------------------------ *)
RECURSIVE Cells(_, _, _)
Cells(dag, ty, i) ==
  LET nd == dag[i]  op == nd[1] IN
  CASE op \in {"iden", "unit", "fail", "word0", "word1", "word", "jetV", "jetA", "jetL", "leaf"} -> 0
    [] op = "witness" -> W(ty[i][2])
    [] op \in {"injl", "injr", "take", "drop", "assertl", "assertr"} -> Cells(dag, ty, nd[2])
    [] op = "comp" -> W(ty[nd[2]][2]) + Max(Cells(dag, ty, nd[2]), Cells(dag, ty, nd[3]))
    [] op \in {"case", "pair"} -> Max(Cells(dag, ty, nd[2]), Cells(dag, ty, nd[3]))
    [] op = "disc" -> W(ty[nd[2]][1]) + W(ty[nd[2]][2]) + Max(Cells(dag, ty, nd[2]), Cells(dag, ty, nd[3]))
\* cost in milli weight units (analysis.rs); jets cost what their table says (JetCost), not known here
RECURSIVE CostOf(_, _, _)
CostOf(dag, ty, i) ==
  LET nd == dag[i]  op == nd[1]  Cst(j) == CostOf(dag, ty, j) IN
  CASE op = "iden" -> 100 + W(ty[i][1])
    [] op = "unit" -> 100
    [] op = "fail" -> 0
    [] op = "witness" -> 100 + W(ty[i][2])
    [] op \in {"word0", "word1", "word"} -> 100 + W(ty[i][2])
    [] op \in {"injl", "injr", "take", "drop", "assertl", "assertr"} -> 100 + Cst(nd[2])
    [] op = "comp" -> 100 + W(ty[nd[2]][2]) + Cst(nd[2]) + Cst(nd[3])
    [] op = "case" -> 100 + Max(Cst(nd[2]), Cst(nd[3]))
    [] op = "pair" -> 100 + Cst(nd[2]) + Cst(nd[3])
    [] op = "disc" -> 100 + 2 * W(ty[nd[2]][1]) + W(ty[nd[2]][2]) + (W(ty[nd[2]][2]) - W(ty[nd[3]][1])) + Cst(nd[2]) + Cst(nd[3])
RECURSIVE Frames(_, _, _)
Frames(dag, ty, i) ==
  LET nd == dag[i]  op == nd[1] IN
  CASE op \in {"iden", "unit", "fail", "word0", "word1", "word", "jetV", "jetA", "jetL", "leaf", "witness"} -> 0
    [] op \in {"injl", "injr", "take", "drop", "assertl", "assertr"} -> Frames(dag, ty, nd[2])
    [] op = "comp" -> 1 + Max(Frames(dag, ty, nd[2]), Frames(dag, ty, nd[3]))
    [] op \in {"case", "pair"} -> Max(Frames(dag, ty, nd[2]), Frames(dag, ty, nd[3]))
    [] op = "disc" -> 2 + Max(Frames(dag, ty, nd[2]), Frames(dag, ty, nd[3]))

=============================================================================
