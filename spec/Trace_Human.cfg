SPECIFICATION Spec
CONSTANT CmrN = 8
POSTCONDITION Accepted
CHECK_DEADLOCK FALSE
