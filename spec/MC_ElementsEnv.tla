--------------------------- MODULE MC_ElementsEnv ---------------------------
(* Design step for C15: environments assembled from templates that put every optional part in each of its
   states (pegin, new / re- / no issuance with explicit, confidential and null amounts, annex absent / empty /
   non-empty, final / height-based / time-based / disabled sequences, explicit / confidential / null assets,
   values and nonces, fee outputs, null-data scripts), 0..2 inputs x 0..2 outputs x version x lock time x
   current index (one out of range).  The atoms (valid commitments, byte strings with their hashes) come from
   the harness.  TLC checks the laws of ElementsEnv.tla and emits every environment for replay. *)
EXTENDS ElementsEnv, Json, IOUtils, TLC
CONSTANTS MaxIn, MaxOut, EmitMod
At0 == JsonDeserialize(IOEnv.ATOMS)
Hh(k) == At0.hashes[k]
By(k) == At0.bytes[k]
Rp(k) == At0.rangeproofs[k]
Sp(k) == At0.surjectionproofs[k]
Spk(k) == At0.spks[k]
NoIss == [blinding |-> Zero256, entropy_field |-> Hh(1), amount |-> <<"null">>, keys |-> <<"null">>, amount_proof |-> Rp(1), keys_proof |-> Rp(1),
          derived |-> [entropy |-> "e", asset |-> "a", token |-> "t"]]
Inp(seq, pegin, iss, annexPresent, annexData, asset, value) ==
  [txid |-> Hh(2), vout |-> <<0, 1>>, sequence |-> seq, pegin |-> pegin, issuance |-> iss, stack |-> <<"51">>,
   annex |-> [present |-> annexPresent, data |-> annexData], script_sig |-> By(2),
   utxo |-> [asset |-> asset, value |-> value, spk |-> By(3)]]
InT == <<
  Inp(MaxSeq, "", NoIss, FALSE, By(1), <<"explicit", Hh(3)>>, <<"explicit", <<0, 0, 1, 2>> >>),
  Inp(<<0, 5>>, Hh(4), NoIss, FALSE, By(1), At0.assets[1], At0.values[1]),
  \* new issuance, explicit amount, confidential inflation keys with a proof (mixed confidentiality)
  Inp(<<64, 7>>, "", [NoIss EXCEPT !.amount = <<"explicit", <<0, 0, 0, 9>> >>, !.keys = At0.values[1], !.keys_proof = Rp(2), !.amount_proof = Rp(2)], TRUE, By(1), <<"explicit", Hh(3)>>, <<"null">>),
  Inp(<<32768, 3>>, "", [NoIss EXCEPT !.amount = At0.values[2], !.keys = At0.values[1], !.amount_proof = Rp(2), !.keys_proof = Rp(2)], FALSE, By(1), At0.assets[2], <<"explicit", Zero64>>),
  Inp(<<65535, 65534>>, "", [NoIss EXCEPT !.blinding = Hh(5), !.amount = <<"explicit", <<1, 0, 0, 0>> >>, !.keys = <<"explicit", <<0, 0, 0, 1>> >>], TRUE, By(3), <<"null">>, <<"null">>),
  Inp(<<0, 9>>, "", [NoIss EXCEPT !.blinding = Hh(5)], FALSE, By(1), <<"explicit", Hh(6)>>, At0.values[2])
>>
Out(asset, value, nonce, spk, sp, rp) == [asset |-> asset, value |-> value, nonce |-> nonce, spk |-> spk, surjection_proof |-> sp, range_proof |-> rp]
OutT == <<
  Out(<<"explicit", Hh(3)>>, <<"explicit", <<0, 0, 0, 10>> >>, <<"null">>, Spk(2), Sp(1), Rp(1)),
  Out(<<"explicit", Hh(3)>>, <<"explicit", <<0, 0, 0, 7>> >>, <<"null">>, Spk(1), Sp(1), Rp(1)),
  Out(<<"explicit", Hh(3)>>, <<"explicit", <<65535, 65535, 65535, 65535>> >>, <<"null">>, Spk(1), Sp(2), Rp(2)),
  Out(At0.assets[1], At0.values[1], At0.nonces[1], Spk(4), Sp(2), Rp(2)),
  Out(<<"null">>, <<"null">>, <<"explicit", Hh(1)>>, Spk(3), Sp(1), Rp(1)),
  Out(<<"explicit", Hh(6)>>, <<"explicit", <<0, 0, 0, 3>> >>, At0.nonces[2], Spk(1), Sp(1), Rp(1))
>>
SeqsUpTo(T, n) == UNION {[1..k -> 1..Len(T)] : k \in 0..n}
VARIABLES env, done, hdr
Init == env = <<>> /\ done = FALSE /\ hdr = <<>>
\* two steps so that TLC's workers share the enumeration
Header == /\ hdr = <<>> /\ ~done
          /\ \E v \in {<<0, 1>>, <<0, 2>>}, lt \in {<<0, 0>>, <<0, 100>>, <<7629, 25856>>}, ix \in 0..MaxIn, pl \in {0, 2} : hdr' = <<v, lt, ix, pl>>
          /\ UNCHANGED <<env, done>>
Pick == /\ ~done /\ hdr # <<>>
        /\ \E is \in SeqsUpTo(InT, MaxIn), os \in SeqsUpTo(OutT, MaxOut) :
             LET v == hdr[1]  lt == hdr[2]  ix == hdr[3]  pl == hdr[4] IN
             env' = [version |-> v, locktime |-> lt, ix |-> ix, genesis |-> Hh(1), script_cmr |-> Hh(2), txid |-> "txid",
                     tap |-> [leaf_version |-> 190, parity |-> ix % 2, internal_key |-> At0.keys[1], path |-> [k \in 1..pl |-> Hh(k + 2)]],
                     inputs |-> [k \in 1..Len(is) |-> InT[is[k]]], outputs |-> [k \in 1..Len(os) |-> OutT[os[k]]]]
        /\ done' = TRUE /\ UNCHANGED hdr
Spec == Init /\ [][Header \/ Pick]_<<env, done, hdr>>
Probe32 == {<<0, 0>>, <<0, 99>>, <<0, 100>>, <<0, 101>>, <<7629, 25855>>, <<7629, 25856>>, <<7629, 25857>>, <<65535, 65535>>}
Probe16 == {0, 1, 4, 5, 6, 7, 8, 9, 10, 65535}
Laws == done => /\ CurrentIsIndexed(env)
                /\ OutOfRangeIsNone(env)
                /\ LockExclusive(env)
                /\ CheckMatches(env, Probe32, Probe16)
                /\ IssuanceConsistent(env)
\* the fee total of an asset is the sum over the outputs that output_is_fee reports with an explicit amount
FeeLaw == done => \A h \in {Hh(3), Hh(6), Hh(1)} :
             J("total_fee", env, h) = SumFees(env.outputs, Len(env.outputs), h)
Hm == (Len(env.inputs) * 7 + Len(env.outputs) * 3 + env.ix + env.locktime[2] + env.version[2]) % EmitMod
Emit == (done /\ Hm = 0) => PrintT(<<"CASE", ToJson(env)>>)
=============================================================================
