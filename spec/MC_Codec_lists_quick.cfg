SPECIFICATION Spec
CONSTANT JetRows <- CoreJets
CONSTANT CmrN = 8
CONSTANT Mode = "lists"
CONSTANT N = 3
CONSTANT Bytes = 2
CONSTANT EmitMod = 1
CONSTANT ProgOps <- Ops_c01_small
INVARIANT Canonical
INVARIANT Rules
INVARIANT RoundTrip
INVARIANT Emit
CHECK_DEADLOCK FALSE
