INIT Init
NEXT Next
