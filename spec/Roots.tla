-------------------------------- MODULE Roots --------------------------------
(***************************************************************************)
(* Symbolic Merkle roots (Tech Report; code: src/merkle/{cmr,ihr,amr,tmr}) *)
(* A root is the term  <<"H", tag, blocks>> : the tagged initial value     *)
(* (SHA-256 midstate of the BIP-340 style tag) followed by 64-byte blocks  *)
(* <<x, y>> of two 32-byte items.  Items: <<"z">> (32 zero bytes), a root, *)
(* <<"raw", bits>> (hidden root / entropy given as bits; 512 bits fill a   *)
(* whole block), <<"weight", n>>, <<"cv", value, type>> (hash of the       *)
(* compact value encoding), <<"jet", name>> (a jet's root, from the        *)
(* tables).  Equality of terms is structural, i.e. collision free.         *)
(* Properties C09 (commitment root = function of committed structure;      *)
(* invariance under every conversion incl. hiding) and C03 (roots equal    *)
(* those of libsimplicity, through the interpreter of these terms).        *)
(***************************************************************************)
EXTENDS Typing

H(tag, blocks) == <<"H", tag, blocks>>
RECURSIVE Bin2(_)
Bin2(n) == IF n <= 1 THEN <<1>> ELSE Append(Bin2(n \div 2), n % 2)
Z == <<"z">>
Raw(bits) == <<"raw", bits>>
\* tags are written "Family|name"; the interpreter expands them to "Simplicity\x1fFamily\x1fname"
RECURSIVE Tmr(_)
Tmr(t) == CASE IsUnitT(t) -> H("Type|unit", <<>>)
            [] IsSumT(t) -> H("Type|sum", <<<<Tmr(t[2]), Tmr(t[3])>>>>)
            [] IsProdT(t) -> H("Type|prod", <<<<Tmr(t[2]), Tmr(t[3])>>>>)
\* word constants: the jet-style wrapping of the identity root of the scribe expression
RECURSIVE WordTree(_)
WordTree(bits) == IF Len(bits) = 1 THEN H(IF bits[1] = 0 THEN "Commitment|injl" ELSE "Commitment|injr", <<<<Z, H("Commitment|unit", <<>>)>>>>)
                  ELSE H("Commitment|pair", <<<<WordTree(SubSeq(bits, 1, Len(bits) \div 2)),
                                                WordTree(SubSeq(bits, Len(bits) \div 2 + 1, Len(bits)))>>>>)
WordRoot(bits) ==
  LET n == Len(Bin2(Len(bits))) - 1 IN
  H("Jet", <<<<<<"weight", Len(bits)>>,
               H("Identity", <<<<Z, WordTree(bits)>>, <<Tmr(One), Tmr(TwoN(n))>>>>)>>>>)

\* ---- commitment root: combinators, jets, word values, fail entropy, hidden roots; nothing else ----
RECURSIVE CmrG(_, _, _)
CmrG(d, i, loc) ==       \* loc = TRUE: one level only, children as <<"ref", "cmr", j>> (for the interpreter)
  LET op == d[i][1]  l == d[i][2]  r == d[i][3]
      Cc(dd, j) == IF loc THEN <<"ref", "cmr", j>> ELSE CmrG(dd, j, FALSE) IN
  CASE op \in {"iden", "unit", "witness"} -> H("Commitment|" \o op, <<>>)
    [] op \in {"injl", "injr", "take", "drop"} -> H("Commitment|" \o op, <<<<Z, Cc(d, l)>>>>)
    [] op \in {"comp", "case", "pair"} -> H("Commitment|" \o op, <<<<Cc(d, l), Cc(d, r)>>>>)
    [] op = "assertl" -> H("Commitment|case", <<<<Cc(d, l), Raw(d[i][4])>>>>)
    [] op = "assertr" -> H("Commitment|case", <<<<Raw(d[i][4]), Cc(d, l)>>>>)
    [] op \in {"disc", "disc1"} -> H("Commitment|disconnect", <<<<Z, Cc(d, l)>>>>)
    [] op = "fail" -> H("Commitment|fail", <<Raw(d[i][4])>>)
    [] op = "word" -> WordRoot(d[i][5])
    [] op = "leaf" -> <<"jet", d[i][7]>>
Cmr(d, i) == CmrG(d, i, FALSE)
\* ---- identity root (pass 1) and identity hash ----
RECURSIVE ImrG(_, _, _, _, _)
ImrG(d, t, w, i, loc) ==
  LET op == d[i][1]  l == d[i][2]  r == d[i][3]
      Ic(dd, tt, ww, j) == IF loc THEN <<"ref", "imr", j>> ELSE ImrG(dd, tt, ww, j, FALSE) IN
  CASE op \in {"iden", "unit"} -> H("Commitment|" \o op, <<>>)
    [] op \in {"injl", "injr", "take", "drop"} -> H("Commitment|" \o op, <<<<Z, Ic(d, t, w, l)>>>>)
    [] op \in {"comp", "case", "pair"} -> H("Commitment|" \o op, <<<<Ic(d, t, w, l), Ic(d, t, w, r)>>>>)
    [] op = "assertl" -> H("Commitment|case", <<<<Ic(d, t, w, l), Raw(d[i][4])>>>>)
    [] op = "assertr" -> H("Commitment|case", <<<<Raw(d[i][4]), Ic(d, t, w, l)>>>>)
    [] op = "disc" -> H("Identity|disconnect", <<<<Ic(d, t, w, l), Ic(d, t, w, r)>>>>)
    [] op = "witness" -> H("Identity|witness", <<<<<<"cv", w[i], t[i][2]>>, Tmr(t[i][2])>>>>)
    [] op = "fail" -> H("Commitment|fail", <<Raw(d[i][4])>>)
    [] op = "word" -> WordRoot(d[i][5])
    [] op = "leaf" -> <<"jet", d[i][7]>>
Imr(d, t, w, i) == ImrG(d, t, w, i, FALSE)
Ihr(d, t, w, i) == H("Identity", <<<<Z, Imr(d, t, w, i)>>, <<Tmr(t[i][1]), Tmr(t[i][2])>>>>)
IhrL(d, t, w, i) == H("Identity", <<<<Z, <<"ref", "imr", i>>>>, <<Tmr(t[i][1]), Tmr(t[i][2])>>>>)
\* ---- annotated root ----
RECURSIVE AmrG(_, _, _, _, _)
AmrG(d, t, w, i, loc) ==
  LET op == d[i][1]  l == d[i][2]  r == d[i][3]
      src == t[i][1]  tgt == t[i][2]
      A(j) == IF loc THEN <<"ref", "amr", j>> ELSE AmrG(d, t, w, j, FALSE) IN
  CASE op \in {"iden", "unit"} -> H("Annotated|" \o op, <<<<Z, Tmr(src)>>>>)
    [] op \in {"injl", "injr"} -> H("Annotated|" \o op, <<<<Tmr(src), Tmr(tgt[2])>>, <<Tmr(tgt[3]), A(l)>>>>)
    [] op \in {"take", "drop"} -> H("Annotated|" \o op, <<<<Tmr(src[2]), Tmr(src[3])>>, <<Tmr(tgt), A(l)>>>>)
    [] op = "comp" -> H("Annotated|comp", <<<<Z, Tmr(src)>>, <<Tmr(t[l][2]), Tmr(tgt)>>, <<A(l), A(r)>>>>)
    [] op = "pair" -> H("Annotated|pair", <<<<Z, Tmr(src)>>, <<Tmr(t[l][2]), Tmr(t[r][2])>>, <<A(l), A(r)>>>>)
    [] op = "case" -> H("Annotated|case", <<<<Tmr(src[2][2]), Tmr(src[2][3])>>, <<Tmr(src[3]), Tmr(tgt)>>, <<A(l), A(r)>>>>)
    [] op = "assertl" -> H("Annotated|assertl", <<<<Tmr(src[2][2]), Tmr(src[2][3])>>, <<Tmr(src[3]), Tmr(tgt)>>, <<A(l), Raw(d[i][4])>>>>)
    [] op = "assertr" -> H("Annotated|assertr", <<<<Tmr(src[2][2]), Tmr(src[2][3])>>, <<Tmr(src[3]), Tmr(tgt)>>, <<Raw(d[i][4]), A(l)>>>>)
    [] op = "disc" -> H("Annotated|disconnect", <<<<Tmr(src), Tmr(tgt[2])>>, <<Tmr(t[r][1]), Tmr(tgt[3])>>, <<A(l), A(r)>>>>)
    [] op = "witness" -> H("Annotated|witness", <<<<Z, Tmr(src)>>, <<Tmr(tgt), <<"cv", w[i], tgt>>>>>>)
    [] op = "fail" -> H("Annotated|fail", <<Raw(d[i][4])>>)
    [] op = "word" -> WordRoot(d[i][5])
    [] op = "leaf" -> <<"jet", d[i][7]>>

Amr(d, t, w, i) == AmrG(d, t, w, i, FALSE)

(***************************************************************************)
(* The hiding wrapper (src/node/hiding.rs): a sub-expression may be        *)
(* replaced by its commitment root; the algebra below is what the wrapper  *)
(* computes for the parent.  Result: <<"node" | "hidden", commitment root>>*)
(***************************************************************************)
RECURSIVE HideCmr(_, _, _)
HideCmr(d, hide, i) ==       \* hide: the set of nodes on which .hide() is called
  LET op == d[i][1]  l == d[i][2]  r == d[i][3]
      L == IF l # 0 THEN HideCmr(d, hide, l) ELSE <<"node", Z>>
      R == IF r # 0 /\ op # "disc" THEN HideCmr(d, hide, r) ELSE <<"node", Z>>
      anyHidden == L[1] = "hidden" \/ R[1] = "hidden"
      me ==
        CASE op \in {"iden", "unit", "witness", "fail", "word", "leaf"} -> <<"node", Cmr(d, i)>>
          [] op \in {"injl", "injr", "take", "drop"} -> <<L[1], H("Commitment|" \o op, <<<<Z, L[2]>>>>)>>
          [] op \in {"comp", "pair"} -> <<IF anyHidden THEN "hidden" ELSE "node", H("Commitment|" \o op, <<<<L[2], R[2]>>>>)>>
          \* case: one hidden side becomes an assertion (still a node), both hidden: hidden
          [] op = "case" -> <<IF L[1] = "hidden" /\ R[1] = "hidden" THEN "hidden" ELSE "node", H("Commitment|case", <<<<L[2], R[2]>>>>)>>
          [] op = "assertl" -> <<L[1], H("Commitment|case", <<<<L[2], Raw(d[i][4])>>>>)>>
          [] op = "assertr" -> <<L[1], H("Commitment|case", <<<<Raw(d[i][4]), L[2]>>>>)>>
          [] op \in {"disc", "disc1"} -> <<L[1], H("Commitment|disconnect", <<<<Z, L[2]>>>>)>>
  IN IF i \in hide THEN <<"hidden", me[2]>> ELSE me
=============================================================================
