SPECIFICATION Spec
INVARIANT PrefixFree
INVARIANT Live
INVARIANT TableInv
CHECK_DEADLOCK FALSE
