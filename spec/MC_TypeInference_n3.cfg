SPECIFICATION Spec
CONSTANT CmrN = 8
CONSTANT N = 3
CONSTANT Ops <- Ops_all
CONSTANT Progs = {TRUE, FALSE}
CONSTANT EmitMod = 1
INVARIANT Agree
INVARIANT Sound
INVARIANT Principal
INVARIANT Forest
INVARIANT Emit
CHECK_DEADLOCK FALSE
