--------------------------- MODULE Trace_Display ---------------------------
(* impl -> spec for the textual forms of Display.tla: one event per generated jet-free program with its bytes, the crate's
   base64 / hex / DisplayExpr strings and the result of parsing the two strings back (RedeemNode::from_str). *)
EXTENDS Display, Json, IOUtils
Rec == ndJsonDeserialize(IOEnv.TRACE)
VARIABLE l
Ok(e) == /\ e.b64 = Base64(e.pb)
         /\ e.wit_hex = Hex(e.wb)
         /\ e.expr = Expr(e.dag, Len(e.dag))
         /\ e.from_str = "same"
Init == l = 1
Next == l <= Len(Rec) /\ (Ok(Rec[l]) = TRUE) /\ l' = l + 1
Spec == Init /\ [][Next]_l
Accepted == IF TLCGet("stats").diameter - 1 = Len(Rec) THEN TRUE
            ELSE /\ PrintT(<<"REJECTED", TLCGet("stats").diameter>>)
                 /\ PrintT(<<"EXPECTED", Base64(Rec[TLCGet("stats").diameter].pb), Expr(Rec[TLCGet("stats").diameter].dag, Len(Rec[TLCGet("stats").diameter].dag))>>)
                 /\ FALSE
=============================================================================
