--------------------------- MODULE Trace_Display ---------------------------
(* impl -> spec for the textual forms of Display.tla: one "display" event per generated jet-free program with its bytes, the
   crate's base64 / hex / DisplayExpr strings and the result of parsing the two strings back (RedeemNode::from_str); one "text"
   event per generated type / value / word / root with the crate's Display texts (transliterated to ASCII). *)
EXTENDS Display, Json, IOUtils
Rec == ndJsonDeserialize(IOEnv.TRACE)
VARIABLE l
OkText(e) == /\ e.ty_text = TyText(e.ty)
             /\ e.val_text = ValText(e.val, e.ty)
             /\ e.arrow_text = ArrowText(e.ty, e.ty2)
             /\ e.word_text = WordText(e.wbits) /\ e.word_iter_ok = TRUE
             /\ e.cmr_text = Hex(e.cmr_bits) /\ e.cmr_back = "same"
OkProg(e) == /\ e.b64 = Base64(e.pb)
         /\ e.wit_hex = Hex(e.wb)
         /\ e.expr = Expr(e.dag, Len(e.dag))
         /\ e.from_str = "same"
Init == l = 1
Ok(e) == IF e.ev = "text" THEN OkText(e) ELSE OkProg(e)
Next == l <= Len(Rec) /\ (Ok(Rec[l]) = TRUE) /\ l' = l + 1
Spec == Init /\ [][Next]_l
Accepted == IF TLCGet("stats").diameter - 1 = Len(Rec) THEN TRUE
            ELSE /\ PrintT(<<"REJECTED", TLCGet("stats").diameter>>)
                 /\ (Rec[TLCGet("stats").diameter].ev = "text" => PrintT(<<"EXPECTED-TEXT", TyText(Rec[TLCGet("stats").diameter].ty), ValText(Rec[TLCGet("stats").diameter].val, Rec[TLCGet("stats").diameter].ty)>>))
                 /\ Rec[TLCGet("stats").diameter].ev # "text"
                 /\ PrintT(<<"EXPECTED", Base64(Rec[TLCGet("stats").diameter].pb), Expr(Rec[TLCGet("stats").diameter].dag, Len(Rec[TLCGet("stats").diameter].dag))>>)
                 /\ FALSE
=============================================================================
