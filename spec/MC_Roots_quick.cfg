SPECIFICATION Spec
CONSTANT CmrN = 8
CONSTANT N = 3
CONSTANT Ops <- Ops_roots
CONSTANT EmitMod = 1
INVARIANT HidingInv
INVARIANT DiscInv
INVARIANT InjectiveInv
INVARIANT Emit
CHECK_DEADLOCK FALSE
