---- MODULE MC_Svdw ----
(* facts about the Shallue - van de Woestijne map of JetLib.tla, evaluated once by TLC: the constants of the C code are
   c = sqrt(-3) and d = (c - 1) / 2, the images lie on the curve, and negating t negates y *)
EXTENDS JetLib
VARIABLE x
ASSUME FM(NegC, NegC) = EC!FNeg(EC!Small(3))
ASSUME EC!FAdd(FM(EC!Small(2), SvdwD), EC!One) = EC!FNeg(NegC)
ASSUME LET p == Svdw(EC!Small(4)) IN GeOnCurve(p.x, p.y)
ASSUME LET p == Svdw(EC!Small(5)) IN GeOnCurve(p.x, p.y) /\ Odd(p.y) # Odd(Svdw(EC!Sub(EC!P, EC!Small(5))).y)
Init == x = 0
Next == x' = x
====
