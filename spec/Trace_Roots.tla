----------------------------- MODULE Trace_Roots -----------------------------
(* impl -> spec for C09 (and the spec side of C03's roots): recorded programs of the crate with every node's
   commitment root as a class id.  Clauses: equal committed structure <=> equal root (both directions, over all
   nodes of the run), roots untouched by witness data and by every conversion.  For each accepted run the
   symbolic terms (one level per node) are printed; the harness's interpreter hashes them from scratch and
   compares with the crate's bytes (second phase, driven by checks/C09.py). *)
EXTENDS Roots, Json, IOUtils, TLC
Rec == ndJsonDeserialize(IOEnv.TRACE)
VARIABLE l
RECURSIVE UzV(_)
UzV(v) == IF v[1] = "bits" THEN WordVal(v[2], v[3])
          ELSE IF v[1] \in {"L", "R"} THEN <<v[1], UzV(v[2])>>
          ELSE IF v[1] = "P" THEN <<"P", UzV(v[2]), UzV(v[3])>> ELSE v
TyOf(t) == [i \in 1..Len(t) |-> <<Uz(t[i][1]), Uz(t[i][2])>>]
\* class labels of the symbolic commitment roots, bottom-up (linear in shared DAGs)
RECURSIVE CmrLabels(_, _)
CmrLabels(d, i) ==
  IF i = 0 THEN <<>>
  ELSE LET prev == CmrLabels(d, i - 1)
           op(k) == IF d[k][1] \in {"assertl", "assertr"} THEN "case" ELSE IF d[k][1] = "disc1" THEN "disc" ELSE d[k][1]
           \* the committed children of a node, as class labels / raw payloads
           kids(k) == CASE d[k][1] = "assertl" -> <<prev[d[k][2]], d[k][4]>>
                        [] d[k][1] = "assertr" -> <<d[k][4], prev[d[k][2]]>>
                        [] d[k][1] \in {"disc", "disc1"} -> <<prev[d[k][2]]>>
                        [] d[k][1] = "fail" -> <<d[k][4]>>
                        [] d[k][1] = "word" -> <<d[k][5]>>
                        [] d[k][1] = "leaf" -> <<d[k][7]>>
                        [] OTHER -> <<IF d[k][2] # 0 THEN prev[d[k][2]] ELSE 0, IF d[k][3] # 0 THEN prev[d[k][3]] ELSE 0>>
           same == {j \in 1..(i - 1) : op(j) = op(i) /\ ToString(kids(j)) = ToString(kids(i))}
       IN Append(prev, IF same = {} THEN i ELSE prev[CHOOSE j \in same : TRUE])
Clauses(e) ==
  LET d == e.dag  labs == CmrLabels(d, Len(d)) IN
  <<
   "panic" \notin DOMAIN e,
   \* 2: equal committed structure <=> equal root
   \A i, j \in 1..Len(d) : (labs[i] = labs[j]) = (e.cmr_class[i] = e.cmr_class[j]),
   \* 3-4: witness data and conversions leave the root alone
   e.same_with_other_witness, e.conversions_equal
  >>
AllTrue(cl) == \A k \in 1..Len(cl) : cl[k]
Terms(e) ==
  LET d == e.dag  t == TyOf(e.ty)  w == [i \in 1..Len(e.wit) |-> e.wit[i]] IN
  [run |-> e.run,
   cmr |-> [i \in 1..Len(d) |-> CmrG(d, i, TRUE)],
   imr |-> [i \in 1..Len(d) |-> ImrG(d, t, w, i, TRUE)],
   ihr |-> [i \in 1..Len(d) |-> IhrL(d, t, w, i)],
   amr |-> [i \in 1..Len(d) |-> AmrG(d, t, w, i, TRUE)]]
Init == l = 1
Next == /\ l <= Len(Rec) /\ (AllTrue(Clauses(Rec[l])) = TRUE)
        /\ PrintT(<<"TERMS", ToJson(Terms(Rec[l]))>>)
        /\ l' = l + 1
Spec == Init /\ [][Next]_l
Accepted == IF TLCGet("stats").diameter - 1 = Len(Rec) THEN TRUE
            ELSE /\ PrintT(<<"REJECTED", TLCGet("stats").diameter>>)
                 /\ PrintT(<<"DIAG", Clauses(Rec[TLCGet("stats").diameter])>>)
                 /\ FALSE
=============================================================================
