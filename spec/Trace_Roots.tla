----------------------------- MODULE Trace_Roots -----------------------------
(* impl -> spec for C09 (and the spec side of C03's roots): recorded programs of the crate with every node's
   commitment root as a class id.  Clauses: equal committed structure <=> equal root (both directions, over all
   nodes of the run), roots untouched by witness data and by every conversion.  For each accepted run the
   symbolic terms (one level per node) are printed; the harness's interpreter hashes them from scratch and
   compares with the crate's bytes (second phase, driven by checks/C09.py). *)
EXTENDS Roots, Json, IOUtils, TLC
Rec == ndJsonDeserialize(IOEnv.TRACE)
VARIABLE l
RECURSIVE UzV(_)
UzV(v) == IF v[1] = "bits" THEN WordVal(v[2], v[3])
          ELSE IF v[1] \in {"L", "R"} THEN <<v[1], UzV(v[2])>>
          ELSE IF v[1] = "P" THEN <<"P", UzV(v[2]), UzV(v[3])>> ELSE v
TyOf(t) == [i \in 1..Len(t) |-> <<Uz(t[i][1]), Uz(t[i][2])>>]
\* class labels of the symbolic commitment roots, bottom-up (linear in shared DAGs)
RECURSIVE CmrLabels(_, _)
CmrLabels(d, i) ==
  IF i = 0 THEN <<>>
  ELSE LET prev == CmrLabels(d, i - 1)
           op(k) == IF d[k][1] \in {"assertl", "assertr"} THEN "case" ELSE IF d[k][1] = "disc1" THEN "disc" ELSE d[k][1]
           \* the committed children of a node, as class labels / raw payloads
           kids(k) == CASE d[k][1] = "assertl" -> <<prev[d[k][2]], d[k][4]>>
                        [] d[k][1] = "assertr" -> <<d[k][4], prev[d[k][2]]>>
                        [] d[k][1] \in {"disc", "disc1"} -> <<prev[d[k][2]]>>
                        [] d[k][1] = "fail" -> <<d[k][4]>>
                        [] d[k][1] = "word" -> <<d[k][5]>>
                        [] d[k][1] = "leaf" -> <<d[k][7]>>
                        [] OTHER -> <<IF d[k][2] # 0 THEN prev[d[k][2]] ELSE 0, IF d[k][3] # 0 THEN prev[d[k][3]] ELSE 0>>
           same == {j \in 1..(i - 1) : op(j) = op(i) /\ ToString(kids(j)) = ToString(kids(i))}
       IN Append(prev, IF same = {} THEN i ELSE prev[CHOOSE j \in same : TRUE])
(* the bytes themselves, computed here from first principles (RootBytes.tla / Sha256.tla) for a sample of the runs
   (IOEnv.CONCRETE = m: every m-th run; 0 = none): each node's commitment root, identity hash and annotated root
   must be the SHA-256 midstate of its one-level term over its children's roots as the crate reported them; the
   first-pass identity roots, which the crate does not show, are rebuilt bottom-up.  Jet leaves are atoms. *)
RB == INSTANCE RootBytes
HX == INSTANCE Sha256
Sample == IF "CONCRETE" \in DOMAIN IOEnv THEN atoi(IOEnv.CONCRETE) ELSE 0
RECURSIVE ImrList(_, _, _, _, _)
ImrList(e, d, t, w, i) ==
  IF i = 0 THEN <<>>
  ELSE CHOOSE r \in {Append(prev, IF d[i][1] = "leaf" THEN HX!HexBits(e.roots[i].cmr) ELSE RB!Bytes(ImrG(d, t, w, i, TRUE), [imr |-> prev])) :
                      prev \in {ImrList(e, d, t, w, i - 1)}} : TRUE
ConcreteOk(e) ==
  (Sample > 0 /\ e.run % Sample = 0) =>
    \* (bound through singleton sets so that TLC evaluates each of them once, not at every use)
    \A d \in {e.dag} : \A t \in {TyOf(e.ty)} : \A w \in {[i \in 1..Len(e.wit) |-> e.wit[i]]} :
    \A refs \in {[cmr |-> [i \in 1..Len(d) |-> HX!HexBits(e.roots[i].cmr)],
                  amr |-> [i \in 1..Len(d) |-> HX!HexBits(e.roots[i].amr)],
                  imr |-> ImrList(e, d, t, w, Len(d))]} :
      \A i \in 1..Len(d) : d[i][1] # "leaf" =>
         /\ RB!Bytes(CmrG(d, i, TRUE), refs) = refs.cmr[i]
         /\ RB!Bytes(IhrL(d, t, w, i), refs) = HX!HexBits(e.roots[i].ihr)
         /\ RB!Bytes(AmrG(d, t, w, i, TRUE), refs) = refs.amr[i]
Clauses(e) ==
  LET d == e.dag  labs == CmrLabels(d, Len(d)) IN
  <<
   "panic" \notin DOMAIN e,
   \* 2: equal committed structure <=> equal root
   \A i, j \in 1..Len(d) : (labs[i] = labs[j]) = (e.cmr_class[i] = e.cmr_class[j]),
   \* 3-4: witness data and conversions leave the root alone
   e.same_with_other_witness, e.conversions_equal,
   \* 5: the bytes, from first principles
   ConcreteOk(e)
  >>
AllTrue(cl) == \A k \in 1..Len(cl) : cl[k]
Terms(e) ==
  LET d == e.dag  t == TyOf(e.ty)  w == [i \in 1..Len(e.wit) |-> e.wit[i]] IN
  [run |-> e.run,
   cmr |-> [i \in 1..Len(d) |-> CmrG(d, i, TRUE)],
   imr |-> [i \in 1..Len(d) |-> ImrG(d, t, w, i, TRUE)],
   ihr |-> [i \in 1..Len(d) |-> IhrL(d, t, w, i)],
   amr |-> [i \in 1..Len(d) |-> AmrG(d, t, w, i, TRUE)]]
Init == l = 1
Next == /\ l <= Len(Rec) /\ (AllTrue(Clauses(Rec[l])) = TRUE)
        /\ PrintT(<<"TERMS", ToJson(Terms(Rec[l]))>>)
        /\ l' = l + 1
Spec == Init /\ [][Next]_l
Accepted == IF TLCGet("stats").diameter - 1 = Len(Rec) THEN TRUE
            ELSE /\ PrintT(<<"REJECTED", TLCGet("stats").diameter>>)
                 /\ PrintT(<<"DIAG", Clauses(Rec[TLCGet("stats").diameter])>>)
                 /\ FALSE
=============================================================================
