---------------------------- MODULE MC_BitMachine ----------------------------
(* All small typed programs x all inputs x all witness/word values x memory fill, stepped through the
   Bit Machine.  Types: the principal typing with its free variables instantiated from a small universe
   (so that unequal-width sums, hence padding, occur), by K different instantiation schemes. *)
EXTENDS BitMachine, Json
CONSTANTS N, Ops, K, EmitMod, MaxWit
VARIABLE tag
Ops_exec == (Nullary \cup Unary \cup Binary) \ {"disc1"}
Ops_nodisc == Ops_exec \ {"disc"}
Ops_small == {"iden", "unit", "witness", "word0", "jetA", "injl", "injr", "take", "drop", "comp", "case", "pair", "assertl", "disc"}
vars == <<mvars, tag>>
FV == <<One, Two, Sum(One, Two), Prod(Two, Two), Sum(Two, One)>>
RECURSIVE Inst(_, _)
Inst(t, k) == IF t[1] = "v" THEN FV[((t[2] * 3 + k) % Len(FV)) + 1]
              ELSE IF t[1] \in {"+", "*"} THEN <<t[1], Inst(t[2], k), Inst(t[3], k)>> ELSE t
Typings(d) ==
  LET st == InferState(d, FALSE) IN
  IF ~st.s.ok \/ (\E i \in 1..Len(d) : ~Acyc(st.s.b, st.ar[i][1], {}) \/ ~Acyc(st.s.b, st.ar[i][2], {})) THEN {}
  ELSE {[i \in 1..Len(d) |-> <<Inst(ResVars(st.s.b, st.ar[i][1]), k), Inst(ResVars(st.s.b, st.ar[i][2]), k)>>] : k \in 1..K}
\* up to MaxWit values of a type
Some(S) == IF Cardinality(S) <= MaxWit THEN S ELSE CHOOSE T \in SUBSET S : Cardinality(T) = MaxWit
CmrV == WordVal(CmrN, [k \in 1..(2 ^ CmrN) |-> k % 2])
AuxOf(d, t, i) == IF d[i][1] \in {"witness", "word0", "word1"} THEN Some(ValsOf(t[i][2]))
                  ELSE IF d[i][1] = "disc" THEN {CmrV} ELSE {<<"u">>}
RECURSIVE AuxSeqs(_, _, _)
AuxSeqs(d, t, i) == IF i = 0 THEN {<<>>} ELSE {Append(a, x) : a \in AuxSeqs(d, t, i - 1), x \in AuxOf(d, t, i)}
\* stage 1 ("build"): the DAG grows one node at a time (so that TLC's workers share the enumeration);
\* stage 2: a typing instance, auxiliary values, an input and a memory fill are chosen and the machine runs
Blank == [dag |-> <<>>]
Init ==
  /\ tag = 0 /\ dag = <<>> /\ phase = "build"
  /\ ty = <<>> /\ aux = <<>> /\ inp = <<"u">> /\ fill = 0 /\ cells = <<>> /\ rd = <<>> /\ wr = <<>> /\ nfs = 0 /\ ip = 0
  /\ cs = <<>> /\ why = "none" /\ hwc = 0 /\ hwf = 0 /\ visited = <<>> /\ taken = <<>>
AddNode ==
  /\ phase = "build" /\ Len(dag) < N
  /\ \E nd \in NodeSet(Len(dag) + 1, Ops) : dag' = Append(dag, nd)
  /\ UNCHANGED <<ty, aux, inp, fill, cells, nfs, rd, wr, ip, cs, phase, why, hwc, hwf, visited, taken, tag>>
Start ==
  /\ phase = "build" /\ dag # <<>> /\ AllReach(dag)
  /\ \E t \in Typings(dag) : \E a \in AuxSeqs(dag, t, Len(dag)) : \E v \in ValsOf(t[Len(dag)][1]) : \E f \in {0, 1} :
       MachineStart(dag, t, a, v, f)
  /\ UNCHANGED tag
Next == AddNode \/ Start \/ (MNext /\ UNCHANGED tag)
Spec == Init /\ [][Next]_vars
\* the typing handed to the machine is a typing (rules hold)
TypedInv == phase # "build" => WellTyped(dag, ty, FALSE) /\ \A i \in 1..Len(dag) : dag[i][1] \in {"witness", "word0", "word1"} => HasType(aux[i], ty[i][2])
\* (child indices weighted by position: sizes alone stay below a large modulus and never reach 0)
RECURSIVE ShapeSum(_, _)
ShapeSum(d, k) == IF k = 0 THEN 0 ELSE ShapeSum(d, k - 1) + k * (3 * d[k][2] + 5 * d[k][3])
H == (Len(visited) + hwc * 3 + Len(dag) * 7 + W(ty[Root][1]) + ShapeSum(dag, Len(dag))) % EmitMod
Emit == (MDone /\ fill = 0 /\ H = 0) =>
  PrintT(<<"CASE", ToJson([dag |-> dag, ty |-> ty, aux |-> aux, inp |-> inp,
                           ok |-> Expected.ok, out |-> Expected.v, why |-> Expected.why,
                           cells |-> Cells(dag, ty, Root), frames |-> Frames(dag, ty, Root),
                           hwc |-> hwc, hwf |-> hwf, visited |-> visited,
                           taken |-> [i \in 1..Len(dag) |-> [l |-> "L" \in taken[i], r |-> "R" \in taken[i]]]])>>)
=============================================================================
