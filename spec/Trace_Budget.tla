---------------------------- MODULE Trace_Budget ----------------------------
(* impl -> spec for C19: recorded is_budget_valid / get_padding / conversions of the real crate
   against the declarative definitions of Budget.tla (not against the transcribed formula). *)
EXTENDS Budget, Json, IOUtils, TLC
Rec == ndJsonDeserialize(IOEnv.TRACE)
VARIABLE l
Ok(e) ==
  CASE e.ev = "budget" ->
         LET g == e.got
             v == Valid(e.c, e.st) IN
         /\ e.ser = SerLen(e.st)                      \* the abstraction of the stack is faithful
         /\ g.valid = v
         /\ (g.pad = -1) = v
         /\ ~v => /\ g.tag = 80 /\ g.zeros
                  /\ Enough(e.c, e.st, g.pad + 1) /\ g.valid_after
                  /\ (~CountBoundary(e.st) => g.pad + 1 = MinAnnex(e.c, e.st))
                  /\ (g.pad >= 1 /\ ~CountBoundary(e.st)) => ~g.valid_shorter
         /\ g.weight = Weight(e.c) /\ g.back
    [] e.ev = "conv" -> e.w = Weight(e.c) /\ e.mono /\ e.back_ge
Init == l = 1
Next == l <= Len(Rec) /\ (Ok(Rec[l]) = TRUE) /\ l' = l + 1
Spec == Init /\ [][Next]_l
Accepted == IF TLCGet("stats").diameter - 1 = Len(Rec) THEN TRUE
            ELSE PrintT(<<"REJECTED", TLCGet("stats").diameter>>) /\ FALSE
=============================================================================
