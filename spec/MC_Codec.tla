------------------------------ MODULE MC_Codec ------------------------------
(* Design steps for the codec:
     "strings":  every byte string of Len bytes as program x a few witness strings (C02: totality and
                 canonicity of the spec decoder; the crate is judged by the property on the same inputs)
     "lists":    every node list up to N entries, canonical or not, serialised as given, with clean
                 padding / a stray padding bit / a trailing byte (C02: one canonicity rule at a time)
     "programs": every well-typed program up to N nodes with witness values (C01: round trip)        *)
EXTENDS Codec, TLC, Json, IOUtils
CONSTANTS Mode, N, Bytes, EmitMod, ProgOps
\* the Core family's jet table, extracted from the crate (vh c14 table); overrides Codec!JetRows in the cfgs
\* (read once into a TLC register: a definition over IOEnv would be re-evaluated, i.e. the file re-read, at every use)
ASSUME TLCSet(7, SelectSeq(ndJsonDeserialize(IOEnv.JETS), LAMBDA r : "side" \notin DOMAIN r /\ r.family = "core"))
CoreJets == TLCGet(7)
VARIABLES stage, item
vars == <<stage, item>>

HBits(k) == [i \in 1..256 |-> IF i <= 8 THEN (k \div (2 ^ (8 - i))) % 2 ELSE (i + k) % 2]
FBits(k) == [i \in 1..512 |-> IF i <= 8 THEN (k \div (2 ^ (8 - i))) % 2 ELSE (i \div 3 + k) % 2]

(* ---- strings ---- *)
WitStrings == {<<>>, Zeros(8), <<1,0,0,0,0,0,0,0>>, <<1,1,1,1,1,1,1,1>>, <<0,1,0,0,0,0,0,0>>}
ByteVals == 0..255
InitStrings == stage = "bytes" /\ item = [pb |-> <<>>, wb |-> <<>>]
AddByte == /\ stage = "bytes" /\ Len(item.pb) < 8 * Bytes
           /\ \E v \in ByteVals : item' = [item EXCEPT !.pb = @ \o ByteBits(v)]
           /\ UNCHANGED stage
PickWit == /\ stage = "bytes" /\ Len(item.pb) >= 8
           /\ \E w \in WitStrings : item' = [item EXCEPT !.wb = w]
           /\ stage' = "done"

(* ---- lists ---- *)
ListLeaves == {<<"iden", 0, 0, <<>>>>, <<"unit", 0, 0, <<>>>>, <<"witness", 0, 0, <<>>>>, <<"hidden", 0, 0, HBits(1)>>,
               <<"hidden", 0, 0, HBits(2)>>, <<"fail", 0, 0, FBits(1)>>, <<"word", 0, 0, <<1>>>>, <<"word", 0, 0, <<0, 1>>>>}
ListEntries(i) == ListLeaves
   \cup {<<op, l, 0, <<>>>> : op \in {"injl", "injr", "take", "drop", "disc1"}, l \in 1..(i - 1)}
   \cup {<<op, l, r, <<>>>> : op \in {"comp", "case", "pair", "disc"}, l \in 1..(i - 1), r \in 1..(i - 1)}
InitLists == stage = "list" /\ item = [lst |-> <<>>, pb |-> <<>>, wb |-> <<>>]
AddEntry == /\ stage = "list" /\ Len(item.lst) < N
            /\ \E nd \in ListEntries(Len(item.lst) + 1) : item' = [item EXCEPT !.lst = Append(@, nd)]
            /\ UNCHANGED stage
\* serialise as given; variants: clean, one padding bit set (if there is padding), a trailing zero byte
Finish == /\ stage = "list" /\ item.lst # <<>>
          /\ LET raw == SerializeList(item.lst)
                 clean == Pad8(raw)
                 dirty == IF Len(raw) % 8 = 0 THEN clean ELSE [clean EXCEPT ![Len(clean)] = 1]
             IN \E pb \in {clean, dirty, clean \o Zeros(8)} : \E wb \in {<<>>, Zeros(8), <<1,0,1,0,0,0,0,0>>} :
                  item' = [item EXCEPT !.pb = pb, !.wb = wb]
          /\ stage' = "done"

(* ---- programs ---- *)
Ops_c01 == {"iden", "unit", "witness", "word0", "jetA", "injl", "injr", "take", "drop", "comp", "case", "pair", "assertl", "assertr", "fail", "disc"}
Ops_c01_small == {"iden", "unit", "witness", "injl", "take", "drop", "comp", "case", "pair", "assertl", "disc"}
InitProgs == stage = "prog" /\ item = [dag |-> <<>>]
\* program-level nodes: assertions and fail carry their payload, word0 becomes a word with a chosen bit
Payload(nd, k) == CASE nd[1] = "assertl" -> <<"assertl", nd[2], 0, HBits(1)>>
                    [] nd[1] = "assertr" -> <<"assertr", nd[2], 0, HBits(IF k % 2 = 0 THEN 1 ELSE 2)>>
                    [] nd[1] = "fail" -> <<"fail", 0, 0, FBits(k % 2)>>
                    [] nd[1] = "word0" -> <<"word", 0, 0, <<One, Two>>, <<k % 2>>>>
                    [] nd[1] = "jetA" -> <<"leaf", 0, 0, <<Prod(Two, Two), Two>>, "jet", <<0, 0, 1, 0, 1, 0, 0, 0>>>>     \* placeholder code, see harness
                    [] OTHER -> <<nd[1], nd[2], nd[3], <<>>>>
AddNode == /\ stage = "prog" /\ Len(item.dag) < N
           /\ \E nd \in NodeSet(Len(item.dag) + 1, ProgOps) : item' = [dag |-> Append(item.dag, Payload(nd, Len(item.dag) + 1))]
           /\ UNCHANGED stage
\* type as a program (1 -> 1); witness values: all of the target type (capped)
\* three values of any type without enumerating it
RECURSIVE V1(_), V2(_)
V1(t) == CASE IsUnitT(t) -> <<"u">> [] IsSumT(t) -> <<"R", V1(t[3])>> [] IsProdT(t) -> <<"P", V1(t[2]), V1(t[3])>>
V2(t) == CASE IsUnitT(t) -> <<"u">> [] IsSumT(t) -> <<"L", V1(t[2])>> [] IsProdT(t) -> <<"P", ZeroV(t[2]), V1(t[3])>>
SomeVals(t) == {ZeroV(t), V1(t), V2(t)}
RECURSIVE WitSeqs(_, _, _)
WitSeqs(d, t, i) == IF i = 0 THEN {<<>>}
                    ELSE {Append(a, x) : a \in WitSeqs(d, t, i - 1),
                                         x \in (IF d[i][1] = "witness" THEN SomeVals(t[i][2])
                                                ELSE IF d[i][1] = "word" THEN {WordVal(Log2(Len(d[i][5])), d[i][5])} ELSE {<<"u">>})}
Typed == /\ stage = "prog" /\ item.dag # <<>> /\ AllReach(item.dag)
         /\ LET r == Infer(item.dag, TRUE) IN
            /\ r[1] = "ok"
            /\ \E w \in WitSeqs(item.dag, r[2], Len(item.dag)) : item' = [dag |-> item.dag, ty |-> r[2], wit |-> w]
         /\ stage' = "done"

Init == CASE Mode = "strings" -> InitStrings [] Mode = "lists" -> InitLists [] Mode = "programs" -> InitProgs
Next == CASE Mode = "strings" -> AddByte \/ PickWit [] Mode = "lists" -> AddEntry \/ Finish [] Mode = "programs" -> AddNode \/ Typed
Spec == Init /\ [][Next]_vars
Done == stage = "done"

\* C02: whatever the decoder accepts re-encodes to exactly the offered bits (program and witness)
Canonical ==
  (Done /\ Mode \in {"strings", "lists"}) =>
     LET r == DecodeRedeem(item.pb, item.wb) IN
     /\ r.ok => /\ EncodeRedeemBits(r.dag, r.ty, r.wit) = item.pb
                /\ EncodeWitnessBits(r.dag, r.ty, r.wit) = item.wb
                /\ WellTyped(r.dag, r.ty, TRUE)
     /\ LET c == DecodeCommit(item.pb) IN
        \* commit-time re-encoding is claimed for programs without an attached disconnect branch
        (c.ok /\ \A i \in 1..Len(c.dag) : c.dag[i][1] # "disc") => EncodeCommitBits(c.dag, c.ty) = item.pb
\* a node list that violates one canonicity rule is rejected
Rules ==
  (Done /\ Mode = "lists") =>
     LET r == DecodeRedeem(item.pb, item.wb)
         clean == item.pb = Pad8(SerializeList(item.lst)) IN
     r.ok => /\ clean /\ CanonicalOrder(item.lst) /\ HiddenRules(item.lst) /\ r.lst = item.lst
\* C01: encode, decode, encode
RoundTrip ==
  (Done /\ Mode = "programs") =>
     LET pb == EncodeRedeemBits(item.dag, item.ty, item.wit)
         wb == EncodeWitnessBits(item.dag, item.ty, item.wit)
         r == DecodeRedeem(pb, wb)
         hasDisc1 == \E i \in 1..Len(item.dag) : item.dag[i][1] = "disc1" IN
     /\ r.ok
     /\ EncodeRedeemBits(r.dag, r.ty, r.wit) = pb /\ EncodeWitnessBits(r.dag, r.ty, r.wit) = wb
     \* the decoded program is the original with equal identities merged: same root arrow, same multiset of witness values
     /\ r.ty[Len(r.dag)] = item.ty[Len(item.dag)]
     /\ LET cb == EncodeCommitBits(item.dag, item.ty)  c == DecodeCommit(cb) IN
        c.ok /\ ((\A i \in 1..Len(c.dag) : c.dag[i][1] # "disc") => EncodeCommitBits(c.dag, c.ty) = cb)

H == CASE Mode = "strings" -> (ValB(SubSeq(item.pb, 1, 8)) + ValB(SubSeq(item.pb, Len(item.pb) - 7, Len(item.pb))) * 3 + Len(item.wb)) % EmitMod
       [] Mode = "lists" -> (Len(item.pb) + Len(item.lst) * 5 + Len(item.wb)) % EmitMod
       [] Mode = "programs" -> (Len(item.dag) * 4 + 7 * Cardinality({i \in 1..Len(item.dag) : item.dag[i][1] = "witness"})
                                + 3 * Cardinality({i \in 1..Len(item.dag) : item.dag[i][2] # 0})
                                + 5 * Cardinality({i \in 1..Len(item.wit) : item.wit[i][1] \in {"L", "R"}})) % EmitMod
Emit == (Done /\ H = 0) =>
  PrintT(<<"CASE", ToJson(
     IF Mode = "programs"
     THEN [mode |-> Mode, dag |-> item.dag, ty |-> item.ty, wit |-> item.wit,
           pb |-> EncodeRedeemBits(item.dag, item.ty, item.wit), wb |-> EncodeWitnessBits(item.dag, item.ty, item.wit),
           cb |-> EncodeCommitBits(item.dag, item.ty)]
     ELSE LET r == DecodeRedeem(item.pb, item.wb)  c == DecodeCommit(item.pb) IN
          [mode |-> Mode, pb |-> item.pb, wb |-> item.wb, redeem |-> IF r.ok THEN "ok" ELSE r.why,
           commit |-> IF c.ok THEN "ok" ELSE c.why])>>)
=============================================================================
