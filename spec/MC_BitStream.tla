--------------------------- MODULE MC_BitStream ---------------------------
EXTENDS BitStream, Json
CONSTANT EmitMod
WOps_rw == {<<"bit", 0>>, <<"bit", 1>>, <<"bits", 5, 3>>, <<"bits", 2748, 12>>, <<"bits", 0, 2>>,
            <<"bytes", <<165>>>>, <<"bytes", <<255, 1>>>>, <<"nat", 1>>, <<"nat", 2>>, <<"nat", 21>>, <<"nat", 70000>>}
In_none == {}
In_rd == {<<>>, <<0>>, <<128>>, <<165, 1, 128>>, <<255, 255, 255>>, <<128, 1>>, <<0, 0, 1>>, <<240, 15>>, <<224>>, <<1, 0>>}
Hash == (Len(hist) * 7 + pos + Len(B) * 3 + start.s * 5 + start.e) % EmitMod
Emit == (Done /\ Hash = 0) => PrintT(<<"CASE", ToJson([start |-> start, hist |-> hist])>>)
=============================================================================
