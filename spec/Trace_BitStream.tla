-------------------------- MODULE Trace_BitStream --------------------------
(* impl -> spec for C13: recorded write/flush/read/close calls of the real BitWriter / BitIter /
   encode_natural must be explained by the abstract bit string + position. *)
EXTENDS BitCodes, Json, IOUtils, TLC
Rec == ndJsonDeserialize(IOEnv.TRACE)
VARIABLES l, wbits, B, pos, lim
vars == <<l, wbits, B, pos, lim>>
\* Named deviation (known finding c13:window-end-unaligned): the crate's bit window runs on to the end of the byte
\* that contains `end`.  With OVERRUN = "allow" the trace specification follows the crate there, so that the rest
\* of every such session is still validated, and counts the reads that went past the required end in TLC register
\* 3; with any other value the window ends at `end` and such a read is a rejection.
OverrunOk == IOEnv.OVERRUN = "allow"
ASSUME TLCSet(3, 0)
\* results are compared through ToString so that values of different shapes compare unequal instead of
\* raising a TLC error; error classes of the natural decoder are not distinguished (accept/reject only)
ErrStrs == {ToString("eof"), ToString("overflow"), ToString("badindex")}
Norm(x) == LET s == ToString(x) IN IF s \in ErrStrs THEN "err" ELSE s
LastN(s, n) == SubSeq(s, Len(s) - n + 1, Len(s))
Bits(e) == CASE e.op = "bit"   -> <<e.b>>
             [] e.op = "bits"  -> LastN(e.nbits, e.len)
             [] e.op = "bytes" -> BitsOfBytes(e.bytes)
             [] e.op = "nat"   -> EncB(e.nb)
Step(e) ==
  CASE e.ev = "wnew"   -> wbits' = <<>> /\ UNCHANGED <<B, pos, lim>>
    [] e.ev = "w"      -> /\ wbits' = wbits \o Bits(e)
                          /\ (e.written = Len(wbits')) = TRUE
                          /\ (e.op = "nat" => e.ret = Len(Bits(e))) = TRUE
                          /\ UNCHANGED <<B, pos, lim>>
    [] e.ev = "flush"  -> /\ (e.bytes = PackBytes(wbits) /\ e.written = Len(wbits)) = TRUE
                          /\ UNCHANGED <<wbits, B, pos, lim>>
    [] e.ev = "from"   -> B' = BitsOfBytes(e.bytes) /\ pos' = 0 /\ lim' = 8 * Len(e.bytes) /\ UNCHANGED wbits
    [] e.ev = "window" -> /\ B' = SubSeq(BitsOfBytes(e.bytes), e.s + 1, IF OverrunOk THEN 8 * ((e.e + 7) \div 8) ELSE e.e)
                          /\ pos' = 0 /\ lim' = e.e - e.s /\ UNCHANGED wbits
    [] e.ev = "r"      -> LET a == AbsRead(B, pos, e.op, e.maxb, e.bound) IN
                          /\ (Norm(e.res) = Norm(a[2]) /\ e.total = a[1]) = TRUE
                          /\ (a[1] > lim => TLCSet(3, TLCGet(3) + 1)) = TRUE
                          /\ pos' = a[1] /\ UNCHANGED <<wbits, B, lim>>
    [] e.ev = "close"  -> (Norm(e.res) = Norm(AbsClose(B, pos))) = TRUE /\ UNCHANGED <<wbits, B, pos, lim>>
Init == l = 1 /\ wbits = <<>> /\ B = <<>> /\ pos = 0 /\ lim = 0
Next == l <= Len(Rec) /\ Step(Rec[l]) /\ l' = l + 1
Spec == Init /\ [][Next]_vars
Accepted == /\ PrintT(<<"DEVIATION", TLCGet(3)>>)
            /\ IF TLCGet("stats").diameter - 1 = Len(Rec) THEN TRUE
               ELSE PrintT(<<"REJECTED", TLCGet("stats").diameter>>) /\ FALSE
=============================================================================
