-------------------------- MODULE Trace_BitStream --------------------------
(* impl -> spec for C13: recorded write/flush/read/close calls of the real BitWriter / BitIter /
   encode_natural must be explained by the abstract bit string + position. *)
EXTENDS BitCodes, Json, IOUtils, TLC
Rec == ndJsonDeserialize(IOEnv.TRACE)
VARIABLES l, wbits, B, pos
vars == <<l, wbits, B, pos>>
\* results are compared through ToString so that values of different shapes compare unequal instead of
\* raising a TLC error; error classes of the natural decoder are not distinguished (accept/reject only)
ErrStrs == {ToString("eof"), ToString("overflow"), ToString("badindex")}
Norm(x) == LET s == ToString(x) IN IF s \in ErrStrs THEN "err" ELSE s
LastN(s, n) == SubSeq(s, Len(s) - n + 1, Len(s))
Bits(e) == CASE e.op = "bit"   -> <<e.b>>
             [] e.op = "bits"  -> LastN(e.nbits, e.len)
             [] e.op = "bytes" -> BitsOfBytes(e.bytes)
             [] e.op = "nat"   -> EncB(e.nb)
Step(e) ==
  CASE e.ev = "wnew"   -> wbits' = <<>> /\ UNCHANGED <<B, pos>>
    [] e.ev = "w"      -> /\ wbits' = wbits \o Bits(e)
                          /\ (e.written = Len(wbits')) = TRUE
                          /\ (e.op = "nat" => e.ret = Len(Bits(e))) = TRUE
                          /\ UNCHANGED <<B, pos>>
    [] e.ev = "flush"  -> /\ (e.bytes = PackBytes(wbits) /\ e.written = Len(wbits)) = TRUE
                          /\ UNCHANGED <<wbits, B, pos>>
    [] e.ev = "from"   -> B' = BitsOfBytes(e.bytes) /\ pos' = 0 /\ UNCHANGED wbits
    [] e.ev = "window" -> B' = SubSeq(BitsOfBytes(e.bytes), e.s + 1, e.e) /\ pos' = 0 /\ UNCHANGED wbits
    [] e.ev = "r"      -> LET a == AbsRead(B, pos, e.op, e.maxb, e.bound) IN
                          /\ (Norm(e.res) = Norm(a[2]) /\ e.total = a[1]) = TRUE
                          /\ pos' = a[1] /\ UNCHANGED <<wbits, B>>
    [] e.ev = "close"  -> (Norm(e.res) = Norm(AbsClose(B, pos))) = TRUE /\ UNCHANGED <<wbits, B, pos>>
Init == l = 1 /\ wbits = <<>> /\ B = <<>> /\ pos = 0
Next == l <= Len(Rec) /\ Step(Rec[l]) /\ l' = l + 1
Spec == Init /\ [][Next]_vars
Accepted == IF TLCGet("stats").diameter - 1 = Len(Rec) THEN TRUE
            ELSE PrintT(<<"REJECTED", TLCGet("stats").diameter>>) /\ FALSE
=============================================================================
