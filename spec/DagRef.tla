----------------------------- MODULE DagRef -----------------------------
(* L0-style declarative references for DAG iteration (no variables); see DagIter.tla. *)
EXTENDS Integers, Sequences, FiniteSets, TLC

NONE == -1          \* Option::None for an index

ArityD(d, i) == IF d[i][1] = 0 THEN 0 ELSE IF d[i][2] = 0 THEN 1 ELSE 2

(***************************************************************************)
(* Declarative references (L0 style): plain structural recursion with a    *)
(* memo map  seen : id -> index.                                           *)
(***************************************************************************)
\* post order. sw = TRUE means children are visited right before left (rtl).
RECURSIVE PoVisit(_, _, _, _, _)
PoVisit(d, s, sw, st, n) ==
  IF s[n] # 0 /\ st.seen[s[n]] # NONE THEN [st EXCEPT !.ret = st.seen[s[n]]]
  ELSE LET a  == ArityD(d, n)
           c1 == IF a = 2 /\ sw THEN d[n][2] ELSE d[n][1]
           c2 == IF a = 2 /\ sw THEN d[n][1] ELSE d[n][2]
           s1 == IF a >= 1 THEN PoVisit(d, s, sw, st, c1) ELSE [st EXCEPT !.ret = NONE]
           s2 == IF a = 2 THEN PoVisit(d, s, sw, s1, c2) ELSE [s1 EXCEPT !.ret = NONE]
           i1 == s1.ret
           i2 == s2.ret
           li == IF a = 2 /\ sw THEN i2 ELSE i1
           ri == IF a = 2 /\ sw THEN i1 ELSE i2
       IN [seen |-> IF s[n] # 0 THEN [s2.seen EXCEPT ![s[n]] = s2.idx] ELSE s2.seen,
           idx  |-> s2.idx + 1,
           out  |-> Append(s2.out, <<n, s2.idx, li, ri>>),
           ret  |-> s2.idx]

EmptySeen(d) == [i \in 1..Len(d) |-> NONE]
PO(d, s, sw) == PoVisit(d, s, sw, [seen |-> EmptySeen(d), idx |-> 0, out |-> <<>>, ret |-> NONE], Len(d)).out

\* pre order: same set, parents first, left before right
RECURSIVE PreVisit(_, _, _, _)
PreVisit(d, s, st, n) ==
  IF s[n] # 0 /\ st.seen[s[n]] # NONE THEN st
  ELSE LET s0 == [seen |-> IF s[n] # 0 THEN [st.seen EXCEPT ![s[n]] = 0] ELSE st.seen,
                  out  |-> Append(st.out, n)]
           s1 == IF ArityD(d, n) >= 1 THEN PreVisit(d, s, s0, d[n][1]) ELSE s0
       IN IF ArityD(d, n) = 2 THEN PreVisit(d, s, s1, d[n][2]) ELSE s1
PRE(d, s) == PreVisit(d, s, [seen |-> EmptySeen(d), out |-> <<>>], Len(d)).out

\* verbose pre order (doc comment of VerbosePreOrderIter): items <<node, index, depth, nYielded, complete>>
\* md = max depth or NONE
RECURSIVE VpVisit(_, _, _, _, _, _)
VpVisit(d, s, md, st, n, depth) ==
  IF s[n] # 0 /\ st.seen[s[n]] # NONE THEN st
  ELSE LET a   == ArityD(d, n)
           idx == st.idx
           go  == md = NONE \/ depth < md
           s0  == [seen |-> IF s[n] # 0 THEN [st.seen EXCEPT ![s[n]] = 0] ELSE st.seen,
                   idx  |-> st.idx + 1,
                   out  |-> Append(st.out, <<n, idx, depth, 0, a = 0>>)]
           s1  == IF a >= 1 /\ go THEN VpVisit(d, s, md, s0, d[n][1], depth + 1) ELSE s0
           s1b == IF a >= 1 THEN [s1 EXCEPT !.out = Append(s1.out, <<n, idx, depth, 1, a = 1>>)] ELSE s1
           s2  == IF a = 2 /\ go THEN VpVisit(d, s, md, s1b, d[n][2], depth + 1) ELSE s1b
       IN IF a = 2 THEN [s2 EXCEPT !.out = Append(s2.out, <<n, idx, depth, 2, TRUE>>)] ELSE s2
VPRE(d, s, md) == VpVisit(d, s, md, [seen |-> EmptySeen(d), idx |-> 0, out |-> <<>>], Len(d), 0).out

Nodes(items) == [k \in 1..Len(items) |-> items[k][1]]
Ident(d) == [i \in 1..Len(d) |-> i]
\* is_shared_as: pointer structure already equals the requested sharing
SharedAs(d, s) == Nodes(PO(d, Ident(d), FALSE)) = Nodes(PO(d, s, FALSE))

(***************************************************************************)
(* The clauses of C18 stated one by one on a post-order item sequence.     *)
(***************************************************************************)
RECURSIVE ReachSet(_, _)
ReachSet(d, n) == {n} \cup (IF d[n][1] # 0 THEN ReachSet(d, d[n][1]) ELSE {})
                      \cup (IF d[n][2] # 0 THEN ReachSet(d, d[n][2]) ELSE {})

\* index at which the class of node c was yielded *before position k* (latest one for id-less nodes)
YieldedAt(d, s, items, c, k) ==
  LET cand == {j \in 1..(k-1) : IF s[c] # 0 THEN s[items[j][1]] = s[c] ELSE items[j][1] = c}
  IN IF cand = {} THEN NONE ELSE items[CHOOSE j \in cand : \A j2 \in cand : j2 <= j][2]

PostOrderClauses(d, s, items) ==
  /\ \A k \in 1..Len(items) : items[k][2] = k - 1                        \* consecutive numbering
  /\ \A k \in 1..Len(items) :                                             \* children first, true indices
       LET n == items[k][1] IN
       /\ (d[n][1] = 0) = (items[k][3] = NONE)
       /\ (d[n][2] = 0) = (items[k][4] = NONE)
       /\ d[n][1] # 0 => items[k][3] < k - 1 /\ (s[d[n][1]] # 0 => items[k][3] = YieldedAt(d, s, items, d[n][1], k))
       /\ d[n][2] # 0 => items[k][4] < k - 1 /\ (s[d[n][2]] # 0 => items[k][4] = YieldedAt(d, s, items, d[n][2], k))
       /\ d[n][1] # 0 => LET j == items[k][3] + 1 IN
                           IF s[d[n][1]] # 0 THEN s[items[j][1]] = s[d[n][1]] ELSE items[j][1] = d[n][1]
       /\ d[n][2] # 0 => LET j == items[k][4] + 1 IN
                           IF s[d[n][2]] # 0 THEN s[items[j][1]] = s[d[n][2]] ELSE items[j][1] = d[n][2]
  /\ \A j, k \in 1..Len(items) :                                          \* each class once
       j # k /\ s[items[j][1]] # 0 => s[items[j][1]] # s[items[k][1]]
  /\ \A n \in ReachSet(d, Len(d)) :                                       \* every class yielded
       \E k \in 1..Len(items) : IF s[n] # 0 THEN s[items[k][1]] = s[n] ELSE items[k][1] = n
  /\ Len(items) >= 1 /\ items[Len(items)][1] = Len(d)                     \* root last

=============================================================================
