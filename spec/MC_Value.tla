------------------------------ MODULE MC_Value ------------------------------
(* Histories of value-producing operations over a pool of views (C10, C11). *)
EXTENDS Value, Json
CONSTANTS MaxOps, EmitMod, Bases, SideTys, DecTys, PruneTys
VARIABLES pool,    \* sequence of [e |-> view, a |-> abstract value]
          hist     \* operations performed (pool indices are 1-based positions)
vars == <<pool, hist>>

Bases_t == {<<"unit">>, <<"u1", 0>>, <<"u1", 1>>, <<"u2", 2>>, <<"u4", 9>>}
SideTys_t == {One, Two, TwoN(1), Sum(One, Two), Prod(Two, One)}
DecTys_t == {Two, Sum(One, Two), Sum(Two, One), Sum(One, TwoN(1)), Prod(Sum(One, Two), Two),
           Sum(Sum(One, Two), Two), Prod(Two, Sum(Two, One)), Sum(Prod(Two, Two), Sum(One, Two)), TwoN(2)}
PruneTys_t == TyUpTo(1) \cup {Sum(One, Two), Sum(Two, One), Prod(Sum(One, Two), Two), Sum(One, TwoN(1)),
                            Sum(One, One), Prod(One, Two), Sum(Sum(One, One), One), Sum(One, Sum(One, One))}

Bases_q == {<<"unit">>, <<"u1", 1>>, <<"u2", 2>>}
SideTys_q == {One, Two, Sum(One, Two)}
DecTys_q == {Sum(One, Two), Prod(Sum(One, Two), Two), Sum(Prod(Two, Two), Sum(One, Two))}
PruneTys_q == {One, Sum(One, One), Prod(One, One), Sum(One, Two), Sum(Two, One), Prod(Sum(One, Two), Two),
               Prod(One, Two), Sum(Sum(One, One), One)}

Add(entry, op) == pool' = Append(pool, entry) /\ hist' = Append(hist, op)
P(i) == pool[i]
Idx == 1..Len(pool)

Base == \E b \in Bases :
   Add(CASE b[1] = "unit" -> [e |-> UnitE, a |-> <<"u">>]
         [] b[1] = "u1" -> [e |-> WordE(0, BitsOfN(b[2], 1)), a |-> WordVal(0, BitsOfN(b[2], 1))]
         [] b[1] = "u2" -> [e |-> WordE(1, BitsOfN(b[2], 2)), a |-> WordVal(1, BitsOfN(b[2], 2))]
         [] b[1] = "u4" -> [e |-> WordE(2, BitsOfN(b[2], 4)), a |-> WordVal(2, BitsOfN(b[2], 4))], b)
MkLeft == \E i \in Idx : \E t \in SideTys :
   Add([e |-> LeftE(P(i).e, t), a |-> <<"L", P(i).a>>], <<"left", i, t>>)
MkRight == \E i \in Idx : \E t \in SideTys :
   Add([e |-> RightE(t, P(i).e), a |-> <<"R", P(i).a>>], <<"right", t, i>>)
MkProduct == \E i \in Idx : \E j \in Idx :
   Add([e |-> ProductE(P(i).e, P(j).e), a |-> <<"P", P(i).a, P(j).a>>], <<"product", i, j>>)
\* sub-value extraction: accessor then to_value (shares the buffer)
Sub == \E i \in Idx :
   \/ /\ P(i).a[1] = "L" /\ Add([e |-> AsLeft(P(i).e), a |-> P(i).a[2]], <<"asleft", i>>)
   \/ /\ P(i).a[1] = "R" /\ Add([e |-> AsRight(P(i).e), a |-> P(i).a[2]], <<"asright", i>>)
   \/ /\ P(i).a[1] = "P" /\ Add([e |-> AsFst(P(i).e), a |-> P(i).a[2]], <<"fst", i>>)
   \/ /\ P(i).a[1] = "P" /\ Add([e |-> AsSnd(P(i).e), a |-> P(i).a[3]], <<"snd", i>>)
\* decode from padded bits with ARBITRARY padding contents (machine output after frame reuse)
DecPadded == \E t \in DecTys : \E v \in ValsOf(t) : \E fill \in {0, 1} :
   LET m == PaddedM(v, t)
       bits == [k \in 1..Len(m) |-> IF m[k] = 2 THEN fill ELSE m[k]] \o <<1, 0, 1>>
       r == FromPadded(bits, 0, t)
   IN r.ok /\ r.used = W(t) /\ Add([e |-> r.e, a |-> v], <<"padded", t, bits>>)
DecCompact == \E t \in DecTys : \E v \in ValsOf(t) :
   LET bits == Compact(v, t) \o <<1, 1>>
       r == FromCompact(bits, 0, t)
   IN r.ok /\ r.used = Len(Compact(v, t)) /\ Add([e |-> r.e, a |-> v], <<"compact", t, bits>>)
MkZero == \E t \in DecTys : Add([e |-> ZeroE(t), a |-> ZeroV(t)], <<"zero", t>>)
Prune == \E i \in Idx : \E s \in PruneTys :
   LET r == PruneE(P(i).e, s) IN
   IF LeT(s, P(i).e.ty)
   THEN ~IsNone(r) /\ Add([e |-> r, a |-> PruneV(P(i).a, P(i).e.ty, s)], <<"prune", i, s, "some">>)
   ELSE \* incompatible target: the code must give no value (or the spec is wrong about the code)
        /\ hist' = Append(hist, <<"prune", i, s, IF IsNone(r) THEN "none" ELSE "lenient">>)
        /\ pool' = pool

Init == pool = <<>> /\ hist = <<>>
Next == Len(hist) < MaxOps /\ (Base \/ MkLeft \/ MkRight \/ MkProduct \/ Sub \/ DecPadded \/ DecCompact \/ MkZero \/ Prune)
Spec == Init /\ [][Next]_vars

\* C10: every view denotes its abstract value; encodings follow the type's layout
ViewInv == \A i \in Idx :
   LET e == P(i).e  a == P(i).a IN
   /\ ~IsNone(e) /\ InBounds(e) /\ HasType(a, e.ty)
   /\ Len(PaddedBits(e)) = W(e.ty)
   /\ MatchesM(PaddedBits(e), PaddedM(a, e.ty))
   /\ Den(e) = a
   /\ CompactBits(e) = Compact(a, e.ty)
   /\ ReadCompact(Compact(a, e.ty), 0, e.ty) = [ok |-> TRUE, v |-> a, used |-> Len(Compact(a, e.ty))]
\* prune laws: two steps = one step (on the abstract side, for all chains inside PruneTys)
PruneLaw == \A i \in Idx : \A s1 \in PruneTys : \A s2 \in PruneTys :
   (LeT(s1, P(i).e.ty) /\ LeT(s2, s1)) =>
      /\ LeT(s2, P(i).e.ty)
      /\ PruneV(PruneV(P(i).a, P(i).e.ty, s1), s1, s2) = PruneV(P(i).a, P(i).e.ty, s2)
      /\ HasType(PruneV(P(i).a, P(i).e.ty, s1), s1)
\* C11: the comparison the crate implements is semantic equality
EqInv == \A i \in Idx : \A j \in Idx :
   EqImpl(P(i).e, P(j).e) <=> (P(i).e.ty = P(j).e.ty /\ P(i).a = P(j).a)

Term == Len(hist) = MaxOps
\* a spread-out sample over the whole pool (buffer lengths, offsets, widths, weighted by position)
RECURSIVE PoolSum(_)
PoolSum(k) == IF k = 0 THEN 0 ELSE PoolSum(k - 1) + (k + 5) * (31 * k + 17 * Len(pool[k].e.buf) + 13 * pool[k].e.off + 7 * W(pool[k].e.ty))
H == PoolSum(Len(pool)) % EmitMod
Emit == (Term /\ pool # <<>> /\ H = 0) =>
   PrintT(<<"CASE", ToJson([hist |-> hist,
                            exp |-> [i \in Idx |-> [ty |-> P(i).e.ty, m |-> PaddedM(P(i).a, P(i).e.ty),
                                                    c |-> Compact(P(i).a, P(i).e.ty), a |-> P(i).a]]])>>)
=============================================================================
