SPECIFICATION Spec
CONSTANT CmrN = 1
CONSTANT N = 4
CONSTANT Ops <- Ops_prune_small
CONSTANT K = 2
CONSTANT EmitMod = 1
CONSTANT MaxWit = 4
INVARIANT FrameInv
INVARIANT BoundInv
INVARIANT PruneOk
INVARIANT SecondRun
INVARIANT Emit
CHECK_DEADLOCK FALSE
