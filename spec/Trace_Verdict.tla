---------------------------- MODULE Trace_Verdict ----------------------------
(* impl -> spec for C06: one abstract verdict per (program, witness, environment): ok | assert | jetfail
   (fail nodes cannot occur: libsimplicity refuses them).  The semantics (EvalX, with the jets' answers
   as logged oracle: only the C code defines what introspection / hashing / signature jets compute)
   dictates the verdict; the Rust Bit Machine and the C evaluator run without anti-DoS checks are two
   observers and must both report it.  Budget / memory rejections are outside the property. *)
EXTENDS Semantics, Json, IOUtils
Rec == ndJsonDeserialize(IOEnv.TRACE)
VARIABLE l
S(x) == ToString(x)
RECURSIVE UzV(_)
UzV(v) == IF v[1] = "bits" THEN WordVal(v[2], v[3])
          ELSE IF v[1] \in {"L", "R"} THEN <<v[1], UzV(v[2])>>
          ELSE IF v[1] = "P" THEN <<"P", UzV(v[2]), UzV(v[3])>> ELSE v
TyOf(t) == [i \in 1..Len(t) |-> <<Uz(t[i][1]), Uz(t[i][2])>>]
IsJet(d, i) == d[i][1] = "leaf" /\ d[i][5] = "jet"
Orc(d, t, vis) ==
  LET js == SelectSeq(vis, LAMBDA x : IsJet(d, x.i)) IN
  [k \in 1..Len(js) |-> <<js[k].i, ReadPadded(js[k].in, 0, t[js[k].i][1]).v,
                           IF S(js[k].out) = S("jetfailed") THEN <<"jetfailed">> ELSE ReadPadded(js[k].out, 0, t[js[k].i][2]).v>>]
Clauses(e) ==
  LET d == e.dag  t == TyOf(e.ty)  a == [i \in 1..Len(e.aux) |-> UzV(e.aux[i])]
      r == EvalX(d, a, Orc(d, t, e.visits), Len(d), <<"u">>)
      verdict == IF r.ok THEN "ok" ELSE r.why IN
  <<
   e.rust # "panic",
   WellTyped(d, t, TRUE),
   verdict \in {"ok", "assert", "jetfail"},                       \* no fail nodes, nothing unknown
   e.rust = verdict,                                               \* the Rust machine reports the semantic verdict
   S([k \in 1..Len(e.visits) |-> e.visits[k].i]) = S(r.tr),        \* along the path the semantics prescribes
   e.c \in {"budget", "memory"} \/ e.c = verdict                   \* and so does the C evaluator
  >>
AllTrue(cl) == \A k \in 1..Len(cl) : cl[k]
Init == l = 1
Next == l <= Len(Rec) /\ (AllTrue(Clauses(Rec[l])) = TRUE) /\ l' = l + 1
Spec == Init /\ [][Next]_l
Accepted == IF TLCGet("stats").diameter - 1 = Len(Rec) THEN TRUE
            ELSE /\ PrintT(<<"REJECTED", TLCGet("stats").diameter>>)
                 /\ PrintT(<<"DIAG", Clauses(Rec[TLCGet("stats").diameter])>>)
                 /\ FALSE
=============================================================================
