SPECIFICATION Spec
CONSTANT MaxOps = 3
CONSTANT EmitMod = 211
CONSTANT Bases <- Bases_t
CONSTANT SideTys <- SideTys_t
CONSTANT DecTys <- DecTys_t
CONSTANT PruneTys <- PruneTys_t
INVARIANT ViewInv
INVARIANT PruneLaw
INVARIANT EqInv
INVARIANT Emit
CHECK_DEADLOCK FALSE
