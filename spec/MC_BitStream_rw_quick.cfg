SPECIFICATION Spec
CONSTANT WriteOps <- WOps_rw
CONSTANT WriteDepth = 3
CONSTANT ReadOps = {"bit", "u2", "u8", "nat", "close"}
CONSTANT ReadDepth = 3
CONSTANT Inputs <- In_none
CONSTANT Windows = FALSE
CONSTANT EmitMod = 5
INVARIANT WriterInv
INVARIANT FlushInv
INVARIANT ReaderInv
INVARIANT ResultInv
INVARIANT ReadBackInv
INVARIANT Emit
CHECK_DEADLOCK FALSE
