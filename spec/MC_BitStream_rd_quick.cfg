SPECIFICATION Spec
CONSTANT WriteOps <- In_none
CONSTANT WriteDepth = 0
CONSTANT ReadOps = {"bit", "u2", "u8", "nat", "natb", "close"}
CONSTANT ReadDepth = 3
CONSTANT Inputs <- In_rd
CONSTANT Windows = TRUE
CONSTANT EmitMod = 3
INVARIANT ReaderInv
INVARIANT ResultInv
INVARIANT Emit
CHECK_DEADLOCK FALSE
