SPECIFICATION Spec
CONSTANT StrLen = 15
CONSTANT SmallMax = 4096
CONSTANT EmitMod = 13
INVARIANT Canonical
INVARIANT RoundTrip
INVARIANT EncoderShape
INVARIANT Emit
CHECK_DEADLOCK FALSE
