SPECIFICATION Spec
CONSTANT JetRows <- CoreJets
CONSTANT CmrN = 8
CONSTANT Mode = "programs"
CONSTANT N = 5
CONSTANT Bytes = 2
CONSTANT EmitMod = 3
CONSTANT ProgOps <- Ops_c01_small
INVARIANT Canonical
INVARIANT Rules
INVARIANT RoundTrip
INVARIANT Emit
CHECK_DEADLOCK FALSE
