SPECIFICATION Spec
CONSTANT N = 4
CONSTANT Algos = {"post", "rtl", "pre", "vpre"}
CONSTANT Modes = {"no", "internal", "max"}
CONSTANT MaxDepths <- MD_all
CONSTANT EmitMod = 1
INVARIANT AssertInv
INVARIANT Correct
INVARIANT Clauses
INVARIANT SharedAsInv
INVARIANT Emit
CHECK_DEADLOCK FALSE
