SPECIFICATION Spec
CONSTANT Thread = {t1, t2}
CONSTANT MaxOps = 3
CONSTANT AtomicId = TRUE
CONSTANT StackScratch = TRUE
CONSTANT PerThreadInit = TRUE
CONSTANT OwnedDrop = FALSE
INVARIANT NonInterference
INVARIANT NamesUnique
INVARIANT MemorySafe
INVARIANT NoLeak
INVARIANT MutexOwned
