---------------------------- MODULE Trace_JetLib ----------------------------
(* impl -> spec for the jet library: one event per run of a one-jet program on the real Bit Machine
   (name, input bits, output bits or "jetfailed").  Accepted iff the jets JetLib specifies computed exactly
   JetOut, and those it specifies by a relation (inverses, normalisation, the group law up to the Jacobian representative)
   returned something RelOk accepts; the others are only required not to panic. *)
EXTENDS JetLib, Json, IOUtils
Rec == ndJsonDeserialize(IOEnv.TRACE)
VARIABLE l
S(x) == ToString(x)
\* the observed output with whatever sits in padding positions replaced by zeros
IsText(x) == SubSeq(S(x), 1, 1) = "\""              \* "jetfailed" or "panic: ..." instead of a bit sequence
Seen(e) == IF IsText(e.out) THEN e.out ELSE ZeroPadding(e.name, e.out)
Ok(e) == /\ (IsText(e.out) => S(e.out) = S("jetfailed"))
         /\ JetKnown(e.name) => S(Seen(e)) = (IF S(JetOut(e.name, e.in)) = S(JetFails) THEN S("jetfailed") ELSE S(JetOut(e.name, e.in)))
         /\ JetKnownRel(e.name) => RelOk(e.name, e.in, IF S(e.out) = S("jetfailed") THEN JetFails ELSE Seen(e))
Init == l = 1
Next == l <= Len(Rec) /\ (Ok(Rec[l]) = TRUE) /\ l' = l + 1
Spec == Init /\ [][Next]_l
Accepted == IF TLCGet("stats").diameter - 1 = Len(Rec) THEN TRUE
            ELSE /\ PrintT(<<"REJECTED", TLCGet("stats").diameter>>)
                 /\ PrintT(<<"EXPECTED", Rec[TLCGet("stats").diameter].name, JetOut(Rec[TLCGet("stats").diameter].name, Rec[TLCGet("stats").diameter].in)>>)
                 /\ FALSE
=============================================================================
