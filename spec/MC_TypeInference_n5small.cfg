SPECIFICATION Spec
CONSTANT CmrN = 8
CONSTANT N = 5
CONSTANT Ops <- Ops_small
CONSTANT Progs = {FALSE}
CONSTANT EmitMod = 97
INVARIANT Agree
INVARIANT Sound
INVARIANT Principal
INVARIANT Forest
INVARIANT Emit
CHECK_DEADLOCK FALSE
