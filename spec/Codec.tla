-------------------------------- MODULE Codec --------------------------------
(***************************************************************************)
(* The canonical bit encoding of Simplicity programs (Tech Report; code:    *)
(* src/bit_encoding/{encode,decode}.rs, RedeemNode::decode,                 *)
(* CommitNode::decode).  Properties C01 (round trip), C02 (total decoder,   *)
(* canonical encodings only), and the accept/reject side of C03.            *)
(*                                                                          *)
(* Two levels of description:                                               *)
(*  * a node LIST as it sits in the bit stream: <<op, l, r, x>> with        *)
(*    absolute 1-based child indices smaller than the node's own index;     *)
(*    ops: comp case pair disc injl injr take drop disc1 iden unit fail     *)
(*    hidden witness word jet.  x: 512 entropy bits (fail), 256 root bits   *)
(*    (hidden), the 2^n bits (word), the jet's code bits (jet).             *)
(*  * a PROGRAM (Typing.tla DAG): case with one hidden child is assertl /   *)
(*    assertr carrying the hidden root.                                     *)
(***************************************************************************)
EXTENDS Typing, BitCodes, DagRef

(* ------------------------------ node codes ------------------------------ *)
Code5(op) == CASE op = "comp" -> <<0,0,0,0,0>> [] op = "case" -> <<0,0,0,0,1>> [] op = "pair" -> <<0,0,0,1,0>>
               [] op = "disc" -> <<0,0,0,1,1>> [] op = "injl" -> <<0,0,1,0,0>> [] op = "injr" -> <<0,0,1,0,1>>
               [] op = "take" -> <<0,0,1,1,0>> [] op = "drop" -> <<0,0,1,1,1>> [] op = "iden" -> <<0,1,0,0,0>>
               [] op = "unit" -> <<0,1,0,0,1>> [] op = "fail" -> <<0,1,0,1,0>> [] op = "disc1" -> <<0,1,0,1,1>>
NatBits(n) == EncB(Bin(n))
Log2(n) == Len(Bin(n)) - 1
\* bits of one list entry at (1-based) position k
NodeBits(nd, k) ==
  LET op == nd[1] IN
  CASE op \in {"comp", "case", "pair", "disc"} -> Code5(op) \o NatBits(k - nd[2]) \o NatBits(k - nd[3])
    [] op \in {"injl", "injr", "take", "drop", "disc1"} -> Code5(op) \o NatBits(k - nd[2])
    [] op \in {"iden", "unit"} -> Code5(op)
    [] op = "fail" -> Code5(op) \o nd[4]
    [] op = "hidden" -> <<0,1,1,0>> \o nd[4]
    [] op = "witness" -> <<0,1,1,1>>
    [] op = "word" -> <<1,0>> \o NatBits(1 + Log2(Len(nd[4]))) \o nd[4]
    [] op = "jet" -> <<1,1>> \o nd[4]
RECURSIVE ListBits(_, _)
ListBits(lst, k) == IF k > Len(lst) THEN <<>> ELSE NodeBits(lst[k], k) \o ListBits(lst, k + 1)
\* a node list exactly as given (canonical or not)
SerializeList(lst) == NatBits(Len(lst)) \o ListBits(lst, 1)

(* ------------------------------ reading a node list ------------------------------ *)
\* read_natural at bit position p (0-based count of consumed bits); bound as in the code (usize / u32 arithmetic)
RdNat(b, p, bound) ==
  LET d == DecB(SubSeq(b, p + 1, Len(b)), 32, IF bound = 0 THEN <<>> ELSE Bin(bound)) IN
  IF d.ok /\ Len(d.val) <= 30 THEN [ok |-> TRUE, n |-> ValB(d.val), p |-> p + d.used, err |-> "none"]
  ELSE [ok |-> FALSE, n |-> 0, p |-> p + d.used, err |-> IF d.ok THEN "toobig" ELSE d.err]
\* a back reference of the node with 0-based index idx: natural n in 1..idx
BackRef(b, p, idx) ==
  IF idx = 0 THEN [ok |-> FALSE, i |-> 0, p |-> p, err |-> "badindex"]
  ELSE LET r == RdNat(b, p, idx) IN
       IF r.ok THEN [ok |-> TRUE, i |-> idx - r.n + 1, p |-> r.p, err |-> "none"]
       ELSE [ok |-> FALSE, i |-> 0, p |-> r.p, err |-> r.err]
Take(b, p, n) == SubSeq(b, p + 1, p + n)
Have(b, p, n) == p + n <= Len(b)
NoNode(e) == [ok |-> FALSE, err |-> e, nd |-> <<>>, p |-> 0]
\* The jet table of the family being decoded: a sequence of rows [code, src_ty, tgt_ty, name, ...] as extracted
\* from the crate for JetTable.tla (C14).  Empty (the default; models that decode jets override it) = jets are
\* not known to the spec and an input containing one gets the verdict "skip".
JetRows == <<>>
JetsAt(b, p) == {k \in 1..Len(JetRows) : Have(b, p, Len(JetRows[k].code)) /\ Take(b, p, Len(JetRows[k].code)) = JetRows[k].code}
\* decode_node: one entry starting at position p, for the node with 0-based index idx
DecNode(b, p, idx) ==
  IF ~Have(b, p, 1) THEN NoNode("eof")
  ELSE IF b[p + 1] = 1 THEN
       IF ~Have(b, p, 2) THEN NoNode("eof")
       ELSE IF b[p + 2] = 1 THEN                                    \* jets: decoded by the family's table (prefix-free, C14)
            IF JetRows = <<>> THEN NoNode("jet")
            ELSE LET c == JetsAt(b, p + 2) IN
                 IF c = {} THEN NoNode("badjet")
                 ELSE LET k == CHOOSE k \in c : TRUE IN
                      [ok |-> TRUE, err |-> "none", nd |-> <<"jet", 0, 0, JetRows[k].code, k>>, p |-> p + 2 + Len(JetRows[k].code)]
       ELSE LET r == RdNat(b, p + 2, 32) IN
            IF ~r.ok THEN NoNode(r.err)
            ELSE LET w == 2 ^ (r.n - 1) IN                           \* r.n in 1..32: word of 2^(n-1) bits
                 IF r.n - 1 > 20 \/ ~Have(b, r.p, w) THEN NoNode("eof")
                 ELSE [ok |-> TRUE, err |-> "none", nd |-> <<"word", 0, 0, Take(b, r.p, w)>>, p |-> r.p + w]
  ELSE IF ~Have(b, p, 3) THEN NoNode("eof")
  ELSE LET c == 2 * b[p + 2] + b[p + 3] IN
       IF c = 3 THEN
            IF ~Have(b, p, 4) THEN NoNode("eof")
            ELSE IF b[p + 4] = 1 THEN [ok |-> TRUE, err |-> "none", nd |-> <<"witness", 0, 0, <<>>>>, p |-> p + 4]
            ELSE IF ~Have(b, p + 4, 256) THEN NoNode("eof")
            ELSE [ok |-> TRUE, err |-> "none", nd |-> <<"hidden", 0, 0, Take(b, p + 4, 256)>>, p |-> p + 260]
       ELSE IF ~Have(b, p, 5) THEN NoNode("eof")
       ELSE LET sc == 2 * b[p + 4] + b[p + 5] IN
            IF c = 0 THEN
                 LET l == BackRef(b, p + 5, idx) IN IF ~l.ok THEN NoNode(l.err) ELSE
                 LET r == BackRef(b, l.p, idx) IN IF ~r.ok THEN NoNode(r.err) ELSE
                 [ok |-> TRUE, err |-> "none", p |-> r.p,
                  nd |-> <<CASE sc = 0 -> "comp" [] sc = 1 -> "case" [] sc = 2 -> "pair" [] sc = 3 -> "disc", l.i, r.i, <<>>>>]
            ELSE IF c = 1 THEN
                 LET l == BackRef(b, p + 5, idx) IN IF ~l.ok THEN NoNode(l.err) ELSE
                 [ok |-> TRUE, err |-> "none", p |-> l.p,
                  nd |-> <<CASE sc = 0 -> "injl" [] sc = 1 -> "injr" [] sc = 2 -> "take" [] sc = 3 -> "drop", l.i, 0, <<>>>>]
            ELSE \* c = 2
                 IF sc = 0 THEN [ok |-> TRUE, err |-> "none", nd |-> <<"iden", 0, 0, <<>>>>, p |-> p + 5]
                 ELSE IF sc = 1 THEN [ok |-> TRUE, err |-> "none", nd |-> <<"unit", 0, 0, <<>>>>, p |-> p + 5]
                 ELSE IF sc = 2 THEN
                      IF ~Have(b, p + 5, 512) THEN NoNode("eof")
                      ELSE [ok |-> TRUE, err |-> "none", nd |-> <<"fail", 0, 0, Take(b, p + 5, 512)>>, p |-> p + 517]
                 ELSE LET l == BackRef(b, p + 5, idx) IN IF ~l.ok THEN NoNode(l.err) ELSE
                      [ok |-> TRUE, err |-> "none", nd |-> <<"disc1", l.i, 0, <<>>>>, p |-> l.p]
RECURSIVE DecNodes(_, _, _, _, _)
DecNodes(b, p, len, idx, acc) ==
  IF idx = len THEN [ok |-> TRUE, err |-> "none", p |-> p, lst |-> acc]
  ELSE LET r == DecNode(b, p, idx) IN
       IF ~r.ok THEN [ok |-> FALSE, err |-> r.err, p |-> p, lst |-> acc]
       ELSE DecNodes(b, r.p, len, idx + 1, Append(acc, r.nd))
\* the whole list; the length prefix cannot exceed what the remaining bits could hold (4 bits per node at least)
DecList(b) ==
  LET ln == RdNat(b, 0, 0) IN
  IF ~ln.ok THEN [ok |-> FALSE, err |-> ln.err, p |-> ln.p, lst |-> <<>>]
  ELSE IF ln.n > (Len(b) - ln.p) \div 4 THEN [ok |-> FALSE, err |-> "eof", p |-> ln.p, lst |-> <<>>]
  ELSE DecNodes(b, ln.p, ln.n, 0, <<>>)

(* ------------------------------ from a list to a program ------------------------------ *)
AsPairs(lst) == [k \in 1..Len(lst) |-> <<lst[k][2], lst[k][3]>>]
\* canonical order: walking from the last node, children first, each node once, yields 1, 2, ..., n
CanonicalOrder(lst) == Nodes(PO(AsPairs(lst), Ident(AsPairs(lst)), FALSE)) = [k \in 1..Len(lst) |-> k]
IsHidden(lst, k) == k # 0 /\ lst[k][1] = "hidden"
\* hidden nodes only directly below a case, not both children, never the root, never two with the same root
HiddenRules(lst) ==
  /\ \A k \in 1..Len(lst) :
        LET nd == lst[k] IN
        IF nd[1] = "case" THEN ~(IsHidden(lst, nd[2]) /\ IsHidden(lst, nd[3]))
        ELSE ~IsHidden(lst, nd[2]) /\ ~IsHidden(lst, nd[3])
  /\ ~IsHidden(lst, Len(lst))
  /\ \A j, k \in 1..Len(lst) : (j < k /\ lst[j][1] = "hidden" /\ lst[k][1] = "hidden") => lst[j][4] # lst[k][4]
\* program-level DAG: hidden entries disappear, case with a hidden child becomes an assertion (indices renumbered)
RECURSIVE ToProg(_, _, _, _)
ToProg(lst, k, map, out) ==
  IF k > Len(lst) THEN [dag |-> out, map |-> map]
  ELSE LET nd == lst[k] IN
       IF nd[1] = "hidden" THEN ToProg(lst, k + 1, Append(map, 0), out)
       ELSE LET m(i) == IF i = 0 THEN 0 ELSE map[i]
                pn == IF nd[1] = "case" /\ IsHidden(lst, nd[3]) THEN <<"assertl", m(nd[2]), 0, lst[nd[3]][4]>>
                      ELSE IF nd[1] = "case" /\ IsHidden(lst, nd[2]) THEN <<"assertr", m(nd[3]), 0, lst[nd[2]][4]>>
                      ELSE IF nd[1] = "word" THEN <<"word", 0, 0, <<One, TwoN(Log2(Len(nd[4])))>>, nd[4]>>
                      ELSE IF nd[1] = "jet" THEN <<"leaf", 0, 0, <<JetRows[nd[5]].src_ty, JetRows[nd[5]].tgt_ty>>, "jet", nd[4]>>
                      ELSE <<nd[1], m(nd[2]), m(nd[3]), nd[4]>>
            IN ToProg(lst, k + 1, Append(map, Len(out) + 1), Append(out, pn))

\* compact witness reader over the program's witness nodes in list order
RECURSIVE RdWits(_, _, _, _, _, _)
RdWits(d, ty, wb, p, i, acc) ==
  IF i > Len(d) THEN [ok |-> TRUE, p |-> p, w |-> acc]
  ELSE IF d[i][1] = "witness"
       THEN LET r == ReadCompact(wb, p, ty[i][2]) IN
            IF ~r.ok THEN [ok |-> FALSE, p |-> p, w |-> acc] ELSE RdWits(d, ty, wb, p + r.used, i + 1, Append(acc, r.v))
       ELSE RdWits(d, ty, wb, p, i + 1, Append(acc, IF d[i][1] = "word" THEN WordVal(Log2(Len(d[i][5])), d[i][5]) ELSE <<"u">>))

\* identity classes (IHR): structure + embedded data + own arrow.  For commitment-time programs a node has an
\* identity only if no witness or disconnect lies below it (lab 0 = none).
HasAuxC(op) == op = "witness"
RECURSIVE IdLabels(_, _, _, _, _)
IdLabels(d, t, a, commit, i) ==
  IF i = 0 THEN <<>>
  ELSE LET prev == IdLabels(d, t, a, commit, i - 1)
           noId == commit /\ (d[i][1] \in {"witness", "disc", "disc1"} \/ (d[i][2] # 0 /\ prev[d[i][2]] = 0) \/ (d[i][3] # 0 /\ prev[d[i][3]] = 0))
           same == {j \in 1..(i - 1) : /\ prev[j] # 0 /\ d[j][1] = d[i][1] /\ t[j] = t[i]
                                        /\ (HasAuxC(d[i][1]) => a[j] = a[i])
                                        /\ (d[i][1] \in {"fail", "assertl", "assertr"} => d[j][4] = d[i][4])
                                        /\ (d[i][1] \in {"leaf", "word"} => d[j] = d[i])
                                        /\ (d[i][2] # 0 => prev[d[j][2]] = prev[d[i][2]])
                                        /\ (d[i][3] # 0 => prev[d[j][3]] = prev[d[i][3]])}
       IN Append(prev, IF noId THEN 0 ELSE IF same = {} THEN i ELSE prev[CHOOSE j \in same : TRUE])

(* ------------------------------ the decoders ------------------------------ *)
CloseOk(b, p) == AbsClose(b, p) = "ok"
Reject(why) == [ok |-> FALSE, why |-> why, dag |-> <<>>, ty |-> <<>>, wit |-> <<>>, lst |-> <<>>]
\* RedeemNode::decode(program bits, witness bits); bits are whole bytes
DecodeRedeem(pb, wb) ==
  LET dl == DecList(pb) IN
  IF ~dl.ok THEN Reject(IF dl.err = "jet" THEN "skip" ELSE dl.err)
  ELSE LET lst == dl.lst IN
  IF ~CanonicalOrder(lst) THEN Reject("order")
  ELSE IF ~HiddenRules(lst) THEN Reject("hidden")
  ELSE LET pr == ToProg(lst, 1, <<>>, <<>>)  d == pr.dag IN
  \* construction-time type errors surface before the stream is closed; the verdict class is the same
  IF ~CloseOk(pb, dl.p) THEN Reject("close")
  ELSE LET r == Infer(d, TRUE) IN
  IF r[1] # "ok" THEN Reject("type")
  ELSE IF \E i \in 1..Len(d) : d[i][1] = "disc1" THEN Reject("disc1")
  ELSE LET ws == RdWits(d, r[2], wb, 0, 1, <<>>) IN
  IF ~ws.ok THEN Reject("witness-eof")
  ELSE IF ~CloseOk(wb, ws.p) THEN Reject("witness-close")
  ELSE LET labs == IdLabels(d, r[2], ws.w, FALSE, Len(d)) IN
  IF \E i \in 1..Len(d) : labs[i] # i THEN Reject("sharing")
  ELSE [ok |-> TRUE, why |-> "none", dag |-> d, ty |-> r[2], wit |-> ws.w, lst |-> lst]
\* CommitNode::decode(program bits)
DecodeCommit(pb) ==
  LET dl == DecList(pb) IN
  IF ~dl.ok THEN Reject(IF dl.err = "jet" THEN "skip" ELSE dl.err)
  ELSE LET lst == dl.lst IN
  IF ~CanonicalOrder(lst) THEN Reject("order")
  ELSE IF ~HiddenRules(lst) THEN Reject("hidden")
  ELSE LET pr == ToProg(lst, 1, <<>>, <<>>)  d == pr.dag IN
  IF ~CloseOk(pb, dl.p) THEN Reject("close")
  ELSE LET r == Infer(d, TRUE) IN
  IF r[1] # "ok" THEN Reject("type")
  ELSE LET labs == IdLabels(d, r[2], [i \in 1..Len(d) |-> <<"u">>], TRUE, Len(d)) IN
  \* is_shared_as::<MaxSharing<Commit>>: walking with sharing by identity (none for nodes above a witness or
  \* disconnect) must visit exactly the node objects, in the same order, as walking the pointer structure
  IF ~SharedAs([k \in 1..Len(d) |-> <<d[k][2], d[k][3]>>], labs) THEN Reject("sharing")
  ELSE [ok |-> TRUE, why |-> "none", dag |-> d, ty |-> r[2], wit |-> <<>>, lst |-> lst]

(* ------------------------------ the encoder ------------------------------ *)
\* From a typed program (objects = indices; equal identities are shared) to the canonical list:
\* post-order with sharing by identity label (hidden children by their root bits).
\* Extended DAG: program nodes 1..n, then one hidden leaf per assertion.
EncList(d, labs) ==
  LET n == Len(d)
      asserts == SelectSeq([k \in 1..n |-> k], LAMBDA k : d[k][1] \in {"assertl", "assertr"})
      hid(k) == n + (CHOOSE j \in 1..Len(asserts) : asserts[j] = k)
      ext == [k \in 1..(n + Len(asserts)) |->
                IF k > n THEN <<0, 0>>
                ELSE IF d[k][1] = "assertl" THEN <<d[k][2], hid(k)>>
                ELSE IF d[k][1] = "assertr" THEN <<hid(k), d[k][2]>>
                ELSE <<d[k][2], d[k][3]>>]
      \* sharing ids: program nodes by identity label (0 = none), hidden leaves by root bits (ids above n)
      hidBits(k) == d[asserts[k - n]][4]
      firstHid(k) == CHOOSE j \in (n + 1)..k : hidBits(j) = hidBits(k) /\ \A j2 \in (n + 1)..(j - 1) : hidBits(j2) # hidBits(k)
      sid == [k \in 1..(n + Len(asserts)) |-> IF k <= n THEN labs[k] ELSE firstHid(k)]
      \* the root is program node n; hidden leaves are appended after it, so re-root the walk at n
      items == PoVisit(ext, sid, FALSE, [seen |-> [i \in 1..(n + Len(asserts)) |-> NONE], idx |-> 0, out |-> <<>>, ret |-> NONE], n).out
  IN [k \in 1..Len(items) |->
        LET it == items[k]  o == it[1] IN
        IF o > n THEN <<"hidden", 0, 0, hidBits(o)>>
        ELSE LET op == IF d[o][1] \in {"assertl", "assertr"} THEN "case" ELSE IF d[o][1] = "leaf" THEN "jet" ELSE d[o][1]
                 x == IF d[o][1] = "word" THEN d[o][5] ELSE IF d[o][1] = "leaf" THEN d[o][6]
                      ELSE IF d[o][1] = "fail" THEN d[o][4] ELSE <<>>
             IN <<op, IF it[3] = NONE THEN 0 ELSE it[3] + 1, IF it[4] = NONE THEN 0 ELSE it[4] + 1, x>>]
EncodeRedeemBits(d, t, w) == Pad8(SerializeList(EncList(d, IdLabels(d, t, w, FALSE, Len(d)))))
EncodeCommitBits(d, t) == Pad8(SerializeList(EncList(d, IdLabels(d, t, [i \in 1..Len(d) |-> <<"u">>], TRUE, Len(d)))))
\* witness stream: compact bits of the witnesses in the order of the encoded list (first occurrence of each class)
RECURSIVE WitBits(_, _, _, _)
WitBits(d, t, w, order) ==
  IF order = <<>> THEN <<>>
  ELSE (IF d[Head(order)][1] = "witness" THEN Compact(w[Head(order)], t[Head(order)][2]) ELSE <<>>) \o WitBits(d, t, w, Tail(order))
EncOrder(d, labs) ==      \* program nodes in encoding order
  LET n == Len(d)
      items == PoVisit([k \in 1..n |-> <<d[k][2], d[k][3]>>], labs, FALSE,
                       [seen |-> [i \in 1..n |-> NONE], idx |-> 0, out |-> <<>>, ret |-> NONE], n).out
  IN [k \in 1..Len(items) |-> items[k][1]]
EncodeWitnessBits(d, t, w) == Pad8(WitBits(d, t, w, EncOrder(d, IdLabels(d, t, w, FALSE, Len(d)))))
=============================================================================
