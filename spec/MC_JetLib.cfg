INIT Init
NEXT Next
INVARIANT ArithOk
INVARIANT CompareOk
INVARIANT DivOk
INVARIANT ShiftOk
INVARIANT LogicOk
CHECK_DEADLOCK FALSE
