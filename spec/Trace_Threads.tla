---------------------------- MODULE Trace_Threads ----------------------------
(* impl -> spec for C20.  A round: the main thread runs every operation once (expect events), then k OS
   threads run random sequences of the same operations on the shared immutable programs, types and values;
   events are grouped per thread, in each thread's own order.  The trace is a behaviour of Threads.tla's
   observable part -- per-thread logs and drawn names -- iff
     NonInterference   every result equals the result of the same operation run alone,
     NamesUnique       name ids seen by different operations (each works in a fresh context) are disjoint,
     Terminates        every thread reports all its operations and its end (no "stuck" event).
   The schedule itself is not logged: by NonInterference no result may depend on it. *)
EXTENDS Integers, Sequences, FiniteSets, Json, IOUtils, TLC
Rec == ndJsonDeserialize(IOEnv.TRACE)
VARIABLES l, expect, drawn, last, ended, nthreads, nops
vars == <<l, expect, drawn, last, ended, nthreads, nops>>
ToSet(s) == {s[k] : k \in 1..Len(s)}
Has(f, k) == k \in DOMAIN f
Init == l = 1 /\ expect = <<>> /\ drawn = {} /\ last = <<>> /\ ended = {} /\ nthreads = 0 /\ nops = 0
Ev == Rec[l]
Round == /\ Ev.ev = "round"
         /\ expect' = [k \in {} |-> ""] /\ drawn' = {} /\ last' = [t \in 0..(Ev.threads - 1) |-> 0] /\ ended' = {}
         /\ nthreads' = Ev.threads /\ nops' = Ev.ops
Expect == /\ Ev.ev = "expect"
          /\ ToSet(Ev.ids) \cap drawn = {}
          /\ expect' = (Ev.key :> Ev.digest) @@ expect
          /\ drawn' = drawn \cup ToSet(Ev.ids)
          /\ UNCHANGED <<last, ended, nthreads, nops>>
Op == /\ Ev.ev = "op"
      /\ Ev.t \notin ended /\ Ev.seq = last[Ev.t] + 1
      /\ Has(expect, Ev.key) /\ Ev.digest = expect[Ev.key]           \* NonInterference
      /\ ToSet(Ev.ids) \cap drawn = {}                                 \* NamesUnique
      /\ drawn' = drawn \cup ToSet(Ev.ids)
      /\ last' = [last EXCEPT ![Ev.t] = Ev.seq]
      /\ UNCHANGED <<expect, ended, nthreads, nops>>
\* every thread ends with one extra operation: the "storm", in which all threads run the C hashing jets on
\* different buffers at the same time
End == /\ Ev.ev = "end" /\ Ev.t \notin ended /\ last[Ev.t] = nops + 1 /\ Ev.count = nops + 1
       /\ ended' = ended \cup {Ev.t}
       /\ UNCHANGED <<expect, drawn, last, nthreads, nops>>
Joined == /\ Ev.ev = "joined" /\ Cardinality(ended) = nthreads          \* Terminates
          /\ UNCHANGED <<expect, drawn, last, ended, nthreads, nops>>
Next == l <= Len(Rec) /\ l' = l + 1 /\ (Round \/ Expect \/ Op \/ End \/ Joined)
Spec == Init /\ [][Next]_vars
Accepted == IF TLCGet("stats").diameter - 1 = Len(Rec) THEN TRUE
            ELSE /\ PrintT(<<"REJECTED", TLCGet("stats").diameter>>)
                 /\ FALSE
=============================================================================
