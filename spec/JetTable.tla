------------------------------ MODULE JetTable ------------------------------
(***************************************************************************)
(* C14: the jet tables as a prefix-code automaton, and the agreement of    *)
(* the Rust rows with the rows of libsimplicity.                           *)
(* Rows (extracted from the working tree by `vh c14 table`):               *)
(*   Rust: [family, name, code, src_tmr, tgt_tmr, src_width, ... cmr, cost]*)
(*   C   : [family = "elements", side = "c", name, cmr, src_tmr, ...]      *)
(* The automaton: state = (family, prefix read so far); Bit(b) extends the *)
(* prefix while it is a proper prefix of some code of the family; a state  *)
(* whose prefix is a code is terminal and names exactly one jet.           *)
(***************************************************************************)
EXTENDS Naturals, Sequences, FiniteSets, TLC, Json, IOUtils
Rows == ndJsonDeserialize(IOEnv.TABLE)
IsRust(r) == "side" \notin DOMAIN r
RustIdx(f) == {k \in 1..Len(Rows) : IsRust(Rows[k]) /\ Rows[k].family = f}
CIdx == {k \in 1..Len(Rows) : ~IsRust(Rows[k])}
Families == {"core", "elements", "bitcoin"}
IsPrefix(p, c) == Len(p) <= Len(c) /\ SubSeq(c, 1, Len(p)) = p

VARIABLES fam, prefix
vars == <<fam, prefix>>
Init == fam \in Families /\ prefix = <<>>
Terminal == \E k \in RustIdx(fam) : Rows[k].code = prefix
Bit(b) == /\ ~Terminal
          /\ \E k \in RustIdx(fam) : IsPrefix(Append(prefix, b), Rows[k].code)
          /\ prefix' = Append(prefix, b) /\ UNCHANGED fam
Next == Bit(0) \/ Bit(1)
Spec == Init /\ [][Next]_vars

\* no jet's code is a prefix of another's: a terminal state has no continuation and names one jet
PrefixFree ==
  Terminal => /\ Cardinality({k \in RustIdx(fam) : Rows[k].code = prefix}) = 1
              /\ ~\E k \in RustIdx(fam) : Len(Rows[k].code) > Len(prefix) /\ IsPrefix(prefix, Rows[k].code)
\* every reachable prefix leads somewhere (the automaton has no dead non-terminal state except by design)
Live == Terminal \/ \E k \in RustIdx(fam) : IsPrefix(prefix, Rows[k].code)

(* ---- table-level statements (evaluated once, in the initial states) ---- *)
ByName(f, n) == CHOOSE k \in RustIdx(f) : Rows[k].name = n
\* encode/decode and name/parse round trips, as reported per row by the crate
RoundTrips == \A k \in 1..Len(Rows) : IsRust(Rows[k]) => Rows[k].decode_ok /\ Rows[k].parse_ok
\* names are unique within a family
NamesUnique == \A f \in Families : \A j, k \in RustIdx(f) : j # k => Rows[j].name # Rows[k].name
\* type-name widths equal the widths of the finalised types, and both ways of hashing a type name agree
Widths == \A k \in 1..Len(Rows) : IsRust(Rows[k]) =>
   /\ Rows[k].src_width = Rows[k].src_final_width /\ Rows[k].tgt_width = Rows[k].tgt_final_width
   /\ Rows[k].src_tmr = Rows[k].src_tmr_name /\ Rows[k].tgt_tmr = Rows[k].tgt_tmr_name
\* each Core jet has an Elements namesake with the same types and the same code behind the family prefix bit
CoreInElements == \A k \in RustIdx("core") :
   /\ \E e \in RustIdx("elements") : Rows[e].name = Rows[k].name
   /\ LET e == ByName("elements", Rows[k].name) IN
      /\ Rows[e].code = <<0>> \o Rows[k].code
      /\ Rows[e].src_tmr = Rows[k].src_tmr /\ Rows[e].tgt_tmr = Rows[k].tgt_tmr
\* agreement state: the C row of every Elements jet equals the Rust row
Agreement == \A c \in CIdx :
   LET r == Rows[ByName("elements", Rows[c].name)]  x == Rows[c] IN
   /\ x.err = 0
   /\ x.cmr = r.cmr /\ x.src_tmr = r.src_tmr /\ x.tgt_tmr = r.tgt_tmr
   /\ x.src_width = r.src_width /\ x.tgt_width = r.tgt_width /\ x.cost = r.cost
EveryElementsJetHasCRow == \A k \in RustIdx("elements") : \E c \in CIdx : Rows[c].name = Rows[k].name
Counts == Cardinality(RustIdx("core")) = 368 /\ Cardinality(RustIdx("elements")) = 471 /\ Cardinality(RustIdx("bitcoin")) = 428
TableInv == prefix = <<>> => (RoundTrips /\ NamesUnique /\ Widths /\ CoreInElements /\ Agreement /\ EveryElementsJetHasCRow /\ Counts)
=============================================================================
