------------------------------- MODULE Threads -------------------------------
(***************************************************************************)
(* C20: what the library shares between threads, at the granularity of its *)
(* atomic operations, and why results do not depend on the schedule.       *)
(*                                                                         *)
(*   nextId      the global type-variable name counter (types/variable.rs: *)
(*               one fetch_add per fresh name)                             *)
(*   tls[t]      thread-local precomputed types (types/precomputed.rs: the  *)
(*               powers of two, the byte buffers and the hash context):    *)
(*               initialised on first use, compared by TMR, never shared   *)
(*   mutex[c]    the mutex of inference context c (types/context.rs); each *)
(*               thread works in contexts it created                       *)
(*   rc[o]       strong count of shared immutable node o (Arc<Node>); the  *)
(*               thread whose decrement reaches zero owns the node and     *)
(*               releases its children iteratively (node/mod.rs Drop with  *)
(*               Arc::into_inner)                                          *)
(*                                                                         *)
(* Every thread runs a list of operations.  An operation reads only shared *)
(* immutable data and its own context / thread-local state, so its result  *)
(* is a function of its input: Result(op).  The invariants say exactly     *)
(* that, plus uniqueness of drawn names, memory safety of the reference    *)
(* counts, and absence of stuck states.                                    *)
(*                                                                         *)
(* Named deviations (switched on by constants, each breaks an invariant):  *)
(*   AtomicId = FALSE   the counter is read and written in two steps       *)
(*   OwnedDrop = FALSE  a dropping thread frees a node when it SEES the    *)
(*                      count at one instead of when ITS decrement reaches *)
(*                      zero                                               *)
(*   StackScratch = FALSE  a C jet keeps its scratch buffer in static      *)
(*                      storage instead of on the caller's stack           *)
(***************************************************************************)
EXTENDS Integers, Sequences, FiniteSets, SequencesExt, TLC

CONSTANTS Thread,        \* set of threads
          MaxOps,        \* operations per thread
          AtomicId, OwnedDrop, StackScratch,
          PerThreadInit  \* TRUE: a thread that finds its thread-local tables empty fills them (the code);
                         \* FALSE (named deviation): one process-wide "once" decides, so only the first thread ever fills its tables

\* shared immutable nodes: a root with two children (what the iterative destructor walks)
Node == {"root", "left", "right"}
Children(o) == IF o = "root" THEN {"left", "right"} ELSE {}
\* operation kinds.  "infer" works in the thread's own context and draws names; "use" reads a shared node
\* through a reference the thread holds; "clone" / "drop" change the thread's references.
\* "cjet" runs a C jet that copies its input into a scratch buffer and then hashes the buffer (two steps)
OpKind == {"infer", "use", "clone", "drop", "cjet"}
Result(kind) == IF kind = "infer" THEN "typed" ELSE IF kind = "use" THEN "value-of-root" ELSE "done"

VARIABLES
  todo,      \* todo[t]: operations still to run
  pc,        \* pc[t]: "idle" or the sub-step of the current operation
  nextId, loaded,   \* the counter; the value a thread loaded (non-atomic deviation only)
  names,     \* names[t]: ids drawn by t so far
  tls,       \* tls[t]: thread-local tables initialised?
  mutex,     \* mutex[t]: holder of t's context mutex or "free"
  rc, freed, \* strong counts of the shared nodes; set of nodes whose memory was released (with multiplicity check)
  refs,      \* refs[t]: number of references to root that t holds
  pending,   \* pending[t]: nodes t still has to release (its iterative destructor's stack)
  scratch,   \* scratch[b]: content of scratch buffer b (one per thread, or the single static one)
  log        \* log[t]: results of finished operations
vars == <<todo, pc, nextId, loaded, names, tls, mutex, rc, freed, refs, pending, scratch, log>>

OpSeqs == UNION {[1..n -> OpKind] : n \in 0..MaxOps}
Init ==
  /\ todo \in [Thread -> OpSeqs]
  /\ pc = [t \in Thread |-> "idle"]
  /\ nextId = 1 /\ loaded = [t \in Thread |-> 0]
  /\ names = [t \in Thread |-> {}]
  /\ tls = [t \in Thread \cup {"once"} |-> FALSE]        \* (the key "once" is the process-wide flag of the deviation)
  /\ mutex = [t \in Thread |-> "free"]
  \* every thread starts with one reference to the shared root (the main thread handed them out)
  /\ rc = [o \in Node |-> IF o = "root" THEN Cardinality(Thread) ELSE 1]
  /\ freed = <<>>
  /\ refs = [t \in Thread |-> 1]
  /\ pending = [t \in Thread |-> <<>>]
  /\ scratch = [b \in Thread \cup {"static"} |-> "empty"]
  /\ log = [t \in Thread |-> <<>>]

Cur(t) == Head(todo[t])
Finish(t, res) == /\ log' = [log EXCEPT ![t] = Append(@, <<Cur(t), res>>)]
                  /\ todo' = [todo EXCEPT ![t] = Tail(@)]
                  /\ pc' = [pc EXCEPT ![t] = "idle"]

(* ---- infer: lock own context, first use of thread-local types, draw a name, unlock ---- *)
InferLock(t) == /\ pc[t] = "idle" /\ todo[t] # <<>> /\ Cur(t) = "infer"
                /\ mutex[t] = "free" /\ mutex' = [mutex EXCEPT ![t] = t]
                /\ tls' = IF PerThreadInit \/ ~tls["once"] THEN [tls EXCEPT ![t] = TRUE, !["once"] = TRUE] ELSE tls
                /\ pc' = [pc EXCEPT ![t] = "draw"]
                /\ UNCHANGED <<todo, nextId, loaded, names, rc, freed, refs, pending, log, scratch>>
DrawAtomic(t) == /\ AtomicId /\ pc[t] = "draw"
                 /\ names' = [names EXCEPT ![t] = @ \cup {nextId}]
                 /\ nextId' = nextId + 1
                 /\ pc' = [pc EXCEPT ![t] = "unlock"]
                 /\ UNCHANGED <<todo, loaded, tls, mutex, rc, freed, refs, pending, log, scratch>>
DrawLoad(t) == /\ ~AtomicId /\ pc[t] = "draw"
               /\ loaded' = [loaded EXCEPT ![t] = nextId]
               /\ pc' = [pc EXCEPT ![t] = "store"]
               /\ UNCHANGED <<todo, nextId, names, tls, mutex, rc, freed, refs, pending, log, scratch>>
DrawStore(t) == /\ ~AtomicId /\ pc[t] = "store"
                /\ names' = [names EXCEPT ![t] = @ \cup {loaded[t]}]
                /\ nextId' = loaded[t] + 1
                /\ pc' = [pc EXCEPT ![t] = "unlock"]
                /\ UNCHANGED <<todo, loaded, tls, mutex, rc, freed, refs, pending, log, scratch>>
InferUnlock(t) == /\ pc[t] = "unlock" /\ mutex[t] = t
                  /\ mutex' = [mutex EXCEPT ![t] = "free"]
                  /\ Finish(t, IF tls[t] THEN "typed" ELSE "tls-missing")
                  /\ UNCHANGED <<nextId, loaded, names, tls, rc, freed, refs, pending, scratch>>

(* ---- use: read the shared root through a held reference ---- *)
IsFreed(o) == \E k \in 1..Len(freed) : freed[k] = o
Use(t) == /\ pc[t] = "idle" /\ todo[t] # <<>> /\ Cur(t) = "use"
          /\ Finish(t, IF refs[t] = 0 THEN "done"            \* nothing to read: the operation is a no-op
                       ELSE IF IsFreed("root") \/ IsFreed("left") \/ IsFreed("right") THEN "garbage" ELSE "value-of-root")
          /\ UNCHANGED <<nextId, loaded, names, tls, mutex, rc, freed, refs, pending, scratch>>
UseResult(t_refs) == IF t_refs = 0 THEN "done" ELSE "value-of-root"

(* ---- cjet: copy the input into the scratch buffer, then hash what the buffer holds ---- *)
Buf(t) == IF StackScratch THEN t ELSE "static"
CjetCopy(t) == /\ pc[t] = "idle" /\ todo[t] # <<>> /\ Cur(t) = "cjet"
               /\ scratch' = [scratch EXCEPT ![Buf(t)] = t]          \* every thread hashes its own data
               /\ pc' = [pc EXCEPT ![t] = "hash"]
               /\ UNCHANGED <<todo, nextId, loaded, names, tls, mutex, rc, freed, refs, pending, log>>
CjetHash(t) == /\ pc[t] = "hash"
               /\ Finish(t, IF scratch[Buf(t)] = t THEN "done" ELSE "hash-of-foreign-data")
               /\ UNCHANGED <<nextId, loaded, names, tls, mutex, rc, freed, refs, pending, scratch>>

(* ---- clone / drop of the shared root ---- *)
Clone(t) == /\ pc[t] = "idle" /\ todo[t] # <<>> /\ Cur(t) = "clone"
            /\ IF refs[t] > 0
               THEN rc' = [rc EXCEPT !["root"] = @ + 1] /\ refs' = [refs EXCEPT ![t] = @ + 1]
               ELSE UNCHANGED <<rc, refs, scratch>>
            /\ Finish(t, "done")
            /\ UNCHANGED <<nextId, loaded, names, tls, mutex, freed, pending, scratch>>
\* drop, first step: give up the reference
DropDec(t) == /\ pc[t] = "idle" /\ todo[t] # <<>> /\ Cur(t) = "drop"
              /\ IF refs[t] = 0 THEN Finish(t, "done") /\ UNCHANGED <<rc, refs, pending, freed, scratch>>
                 ELSE /\ refs' = [refs EXCEPT ![t] = @ - 1]
                      /\ IF OwnedDrop
                         THEN \* Arc::into_inner: decrement, and own the node iff this decrement reached zero
                              /\ rc' = [rc EXCEPT !["root"] = @ - 1]
                              /\ pending' = [pending EXCEPT ![t] = IF rc["root"] = 1 THEN <<"root">> ELSE <<>>]
                         ELSE \* deviation: look at the count first, act later
                              /\ pending' = [pending EXCEPT ![t] = IF rc["root"] = 1 THEN <<"root">> ELSE <<"dec">>]
                              /\ rc' = rc
                      /\ pc' = [pc EXCEPT ![t] = "release"] /\ UNCHANGED <<todo, log, freed, scratch>>
              /\ UNCHANGED <<nextId, loaded, names, tls, mutex, scratch>>
\* the iterative destructor: release one node from the stack, push the children whose count it brought to zero
Release(t) == /\ pc[t] = "release" /\ pending[t] # <<>>
              /\ LET o == Head(pending[t]) IN
                 IF o = "dec"
                 THEN /\ rc' = [rc EXCEPT !["root"] = @ - 1] /\ pending' = [pending EXCEPT ![t] = Tail(@)] /\ freed' = freed
                 ELSE /\ freed' = Append(freed, o)
                      /\ rc' = [c \in Node |-> IF c \in Children(o) THEN rc[c] - 1 ELSE IF c = o /\ ~OwnedDrop THEN 0 ELSE rc[c]]
                      /\ pending' = [pending EXCEPT ![t] = Tail(@) \o SetToSeq({c \in Children(o) : rc[c] = 1})]
              /\ UNCHANGED <<todo, pc, nextId, loaded, names, tls, mutex, refs, log, scratch>>
DropDone(t) == /\ pc[t] = "release" /\ pending[t] = <<>>
               /\ Finish(t, "done")
               /\ UNCHANGED <<nextId, loaded, names, tls, mutex, rc, freed, refs, pending, scratch>>

Step(t) == InferLock(t) \/ DrawAtomic(t) \/ DrawLoad(t) \/ DrawStore(t) \/ InferUnlock(t) \/ Use(t) \/ Clone(t)
           \/ DropDec(t) \/ Release(t) \/ DropDone(t) \/ CjetCopy(t) \/ CjetHash(t)
Done == \A t \in Thread : todo[t] = <<>> /\ pc[t] = "idle"
Next == (\E t \in Thread : Step(t)) \/ (Done /\ UNCHANGED vars)
Spec == Init /\ [][Next]_vars /\ \A t \in Thread : WF_vars(Step(t))

(***************************************************************************)
(* Properties.                                                             *)
(***************************************************************************)
\* each result is the one the operation gives when run alone
NonInterference == \A t \in Thread : \A k \in 1..Len(log[t]) :
   LET kind == log[t][k][1]  res == log[t][k][2] IN
   res \in (IF kind = "use" THEN {"value-of-root", "done"} ELSE {Result(kind)})
\* all names drawn are distinct across threads, and each infer draws one
NamesUnique == /\ \A a, b \in Thread : a # b => names[a] \cap names[b] = {}
               /\ \A t \in Thread : Cardinality(names[t]) = Cardinality({k \in 1..Len(log[t]) : log[t][k][1] = "infer"})
                                                            + (IF pc[t] = "unlock" THEN 1 ELSE 0)
\* reference counts: nothing is released twice, nothing is released while referenced, nothing referenced is released
MemorySafe == /\ \A j, k \in 1..Len(freed) : j # k => freed[j] # freed[k]
              /\ (\E t \in Thread : refs[t] > 0) => ~IsFreed("root")
              /\ \A o \in Node : rc[o] >= 0
\* when everything has been dropped, everything has been released (no leak), exactly once
NoLeak == (Done /\ \A t \in Thread : refs[t] = 0) => {freed[k] : k \in 1..Len(freed)} = Node
\* a context mutex is only ever held by its owner and is free between operations
MutexOwned == \A t \in Thread : mutex[t] \in {"free", t} /\ (pc[t] = "idle" => mutex[t] = "free")
\* no stuck states: every behaviour reaches Done (checked under fairness)
Terminates == <>Done
=============================================================================
