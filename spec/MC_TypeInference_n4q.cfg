SPECIFICATION Spec
CONSTANT CmrN = 8
CONSTANT N = 4
CONSTANT Ops <- Ops_small
CONSTANT Progs = {TRUE, FALSE}
CONSTANT EmitMod = 3
INVARIANT Agree
INVARIANT Sound
INVARIANT Principal
INVARIANT Forest
INVARIANT Emit
CHECK_DEADLOCK FALSE
