SPECIFICATION Spec
CONSTANT StrLen = 19
CONSTANT SmallMax = 65536
CONSTANT EmitMod = 101
INVARIANT Canonical
INVARIANT RoundTrip
INVARIANT EncoderShape
INVARIANT Emit
CHECK_DEADLOCK FALSE
