----------------------------- MODULE Trace_Human -----------------------------
(* impl -> spec for C17.  Events recorded from the crate:
     render  a forest (objects, names, arrows as the crate reports them), the tokens of its rendering
             and the outcome of parsing the rendering again.  Accepted iff names are distinct, the
             tokens are exactly the ones Human.tla's Render / TextTok produce, Human.tla's own parser
             reads them back to the same forest, and the crate's reparse gave an equal program.
     parse   one call of the parser on an arbitrary string: the outcome is a forest or an error list
             (never a panic or abort), within time and allocation bounds relative to the input. *)
EXTENDS Human, Json, IOUtils
Rec == ndJsonDeserialize(IOEnv.TRACE)
VARIABLE l
RenderClauses(e) ==
  LET d == e.objs  ar == e.ar  nm == e.names
      ls == Render(d, ar, nm)
      tk == TextTok(d, ar, ls, TRUE) IN
  <<
   NamesDistinct(nm),
   Len(e.toks) = Len(tk),
   ToString(e.toks) = ToString(tk),
   Len(e.toks) = Len(tk) /\ RoundTrip(d, ar, ls, e.toks, TRUE, 31, TRUE),
   e.reparse = "ok"
  >>
ParseClauses(e) ==
  <<
   e.class \in {"ok", "error"},
   e.ms <= 10000 + e.len,
   e.peak_kb <= 4096 + 64 * e.len
  >>
Clauses(e) == IF e.ev = "render" THEN RenderClauses(e) ELSE ParseClauses(e)
AllTrue(cl) == \A k \in 1..Len(cl) : cl[k]
Init == l = 1
Next == l <= Len(Rec) /\ (AllTrue(Clauses(Rec[l])) = TRUE) /\ l' = l + 1
Spec == Init /\ [][Next]_l
Accepted == IF TLCGet("stats").diameter - 1 = Len(Rec) THEN TRUE
            ELSE /\ PrintT(<<"REJECTED", TLCGet("stats").diameter>>)
                 /\ PrintT(<<"DIAG", Clauses(Rec[TLCGet("stats").diameter])>>)
                 /\ FALSE
=============================================================================
