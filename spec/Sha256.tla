------------------------------- MODULE Sha256 -------------------------------
(***************************************************************************)
(* SHA-256 (FIPS 180-4) for the hashing jets of JetLib: the compression    *)
(* function, the padding and the streaming context the sha_256_ctx_8_*     *)
(* jets expose.  A 32-bit word is a pair <<hi, lo>> of 16-bit limbs        *)
(* (TLC's integers are 32 bits, signed); bit strings are big-endian        *)
(* sequences of 0/1 as everywhere else in the specification.  K and IV are *)
(* the first 32 bits of the fractional parts of the cube / square roots of *)
(* the first 64 / 8 primes (generated, and checked against the standard's  *)
(* test vectors in the ASSUMEs below).                                     *)
(***************************************************************************)
EXTENDS Integers, Sequences, Bitwise, TLC

M16 == 65536
P2(n) == 2 ^ n
XorW(a, b) == <<a[1] ^^ b[1], a[2] ^^ b[2]>>
AndW(a, b) == <<a[1] & b[1], a[2] & b[2]>>
NotW(a) == <<65535 - a[1], 65535 - a[2]>>
AddW(a, b) == LET lo == a[2] + b[2] IN <<(a[1] + b[1] + (lo \div M16)) % M16, lo % M16>>
RotR(a, n) ==
  LET x == IF n >= 16 THEN <<a[2], a[1]>> ELSE a
      k == n % 16
  IN IF k = 0 THEN x
     ELSE <<(x[1] \div P2(k)) + ((x[2] % P2(k)) * P2(16 - k)), (x[2] \div P2(k)) + ((x[1] % P2(k)) * P2(16 - k))>>
ShR(a, n) == IF n >= 16 THEN <<0, a[1] \div P2(n - 16)>>
             ELSE <<a[1] \div P2(n), (a[2] \div P2(n)) + ((a[1] % P2(n)) * P2(16 - n))>>
Ch(x, y, z) == XorW(AndW(x, y), AndW(NotW(x), z))
Maj(x, y, z) == XorW(XorW(AndW(x, y), AndW(x, z)), AndW(y, z))
BigS0(x) == XorW(XorW(RotR(x, 2), RotR(x, 13)), RotR(x, 22))
BigS1(x) == XorW(XorW(RotR(x, 6), RotR(x, 11)), RotR(x, 25))
SmallS0(x) == XorW(XorW(RotR(x, 7), RotR(x, 18)), ShR(x, 3))
SmallS1(x) == XorW(XorW(RotR(x, 17), RotR(x, 19)), ShR(x, 10))

K == <<<<17034,12184>>, <<28983,17553>>, <<46528,64463>>, <<59829,56229>>, <<14678,49755>>, <<23025,4593>>, <<37439,33444>>, <<43804,24277>>,
      <<55303,43672>>, <<4739,23297>>, <<9265,34238>>, <<21772,32195>>, <<29374,23924>>, <<32990,45566>>, <<39900,1703>>, <<49563,61812>>,
      <<58523,27073>>, <<61374,18310>>, <<4033,40390>>, <<9228,41420>>, <<11753,11375>>, <<19060,33962>>, <<23728,43484>>, <<30457,35034>>,
      <<38974,20818>>, <<43057,50797>>, <<45059,10184>>, <<48985,32711>>, <<50912,3059>>, <<54695,37191>>, <<1738,25425>>, <<5161,10599>>,
      <<10167,2693>>, <<11803,8504>>, <<19756,28156>>, <<21304,3347>>, <<25866,29524>>, <<30314,2747>>, <<33218,51502>>, <<37490,11397>>,
      <<41663,59553>>, <<43034,26187>>, <<49739,35696>>, <<51052,20899>>, <<53650,59417>>, <<54937,1572>>, <<62478,13701>>, <<4202,41072>>,
      <<6564,49430>>, <<7735,27656>>, <<10056,30540>>, <<13488,48309>>, <<14620,3251>>, <<20184,43594>>, <<23452,51791>>, <<26670,28659>>,
      <<29839,33518>>, <<30885,25455>>, <<33992,30740>>, <<36039,520>>, <<37054,65530>>, <<42064,27883>>, <<48889,41975>>, <<50801,30962>>>>
IV == <<<<27145,58983>>, <<47975,44677>>, <<15470,62322>>, <<42319,62778>>, <<20750,21119>>, <<39685,26764>>, <<8067,55723>>, <<23520,52505>>>>

RECURSIVE Sched(_)
Sched(w) == IF Len(w) = 64 THEN w
            ELSE LET t == Len(w) + 1
                 IN Sched(Append(w, AddW(AddW(SmallS1(w[t - 2]), w[t - 7]), AddW(SmallS0(w[t - 15]), w[t - 16]))))
RECURSIVE Rounds(_, _, _)
Rounds(s, w, t) ==        \* s = <<a, b, c, d, e, f, g, h>>
  IF t > 64 THEN s
  ELSE LET t1 == AddW(AddW(AddW(s[8], BigS1(s[5])), AddW(Ch(s[5], s[6], s[7]), K[t])), w[t])
           t2 == AddW(BigS0(s[1]), Maj(s[1], s[2], s[3]))
       IN Rounds(<<AddW(t1, t2), s[1], s[2], s[3], AddW(s[4], t1), s[5], s[6], s[7]>>, w, t + 1)
(* the compression function: midstate (8 words) and block (16 words) to the next midstate *)
Compress(h, blk) == LET r == Rounds(h, Sched(blk), 1) IN [i \in 1..8 |-> AddW(h[i], r[i])]

(* ---- bit strings ---- *)
RECURSIVE ValB(_, _, _)
ValB(b, from, to) == IF from > to THEN 0 ELSE 2 * ValB(b, from, to - 1) + b[to]
B16(k) == [i \in 1..16 |-> (k \div P2(16 - i)) % 2]
WordOf(b, i) == <<ValB(b, 32 * (i - 1) + 1, 32 * (i - 1) + 16), ValB(b, 32 * (i - 1) + 17, 32 * i)>>     \* i-th 32-bit word of b
WordsOf(b) == [i \in 1..(Len(b) \div 32) |-> WordOf(b, i)]
RECURSIVE BitsOf(_)
BitsOf(ws) == IF ws = <<>> THEN <<>> ELSE B16(ws[1][1]) \o B16(ws[1][2]) \o BitsOf(Tail(ws))
IVBits == BitsOf(IV)
CompressBits(h, blk) == BitsOf(Compress(WordsOf(h), WordsOf(blk)))          \* 256 bits, 512 bits -> 256 bits
RECURSIVE Absorb(_, _)
Absorb(h, m) == IF Len(m) < 512 THEN h ELSE Absorb(CompressBits(h, SubSeq(m, 1, 512)), SubSeq(m, 513, Len(m)))   \* whole blocks of m
(* the padding for a message of  nbits  bits of which  tail  (fewer than 512 bits) are still unhashed;
   nbits is given as a 64-bit string because it does not fit TLC's integers *)
ZeroBits(n) == [i \in 1..n |-> 0]
PadTail(tail, len64) ==
  LET k == (447 - Len(tail)) % 512 IN tail \o <<1>> \o ZeroBits(IF k < 0 THEN k + 512 ELSE k) \o len64
B64(n) == ZeroBits(32) \o B16(n \div M16) \o B16(n % M16)                   \* small lengths only
Sha256(m) == Absorb(IVBits, PadTail(m, B64(Len(m))))                       \* whole messages shorter than 2^31 bits
HexBits(s) == LET d(c) == CHOOSE k \in 0..15 : SubSeq("0123456789abcdef", k + 1, k + 1) = c
                  RECURSIVE H(_)
                  H(i) == IF i > Len(s) THEN <<>> ELSE [j \in 1..4 |-> (d(SubSeq(s, i, i)) \div P2(4 - j)) % 2] \o H(i + 1)
              IN H(1)
RECURSIVE AsciiBits(_)
Ascii == "abcdefghijklmnopqrstuvwxyz"
AsciiBits(s) == IF s = "" THEN <<>>
                ELSE LET c == CHOOSE k \in 0..25 : SubSeq(Ascii, k + 1, k + 1) = SubSeq(s, 1, 1)
                     IN [j \in 1..8 |-> ((97 + c) \div P2(8 - j)) % 2] \o AsciiBits(SubSeq(s, 2, Len(s)))

ASSUME Sha256(<<>>) = HexBits("e3b0c44298fc1c149afbf4c8996fb92427ae41e4649b934ca495991b7852b855")
ASSUME Sha256(AsciiBits("abc")) = HexBits("ba7816bf8f01cfea414140de5dae2223b00361a396177a9cb410ff61f20015ad")
ASSUME Sha256(AsciiBits("abcdbcdecdefdefgefghfghighijhijkijkljklmklmnlmnomnopnopq"))
         = HexBits("248d6a61d20638b8e5c026930c3e6039a33ce45964ff2167f6ecedd419db06c1")
=============================================================================
