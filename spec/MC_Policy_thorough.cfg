SPECIFICATION Spec
CONSTANT Depth = 2
CONSTANT EmitMod = 997
INVARIANT SatisfierCorrect
INVARIANT SortLaws
INVARIANT Emit
CHECK_DEADLOCK FALSE
