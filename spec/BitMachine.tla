----------------------------- MODULE BitMachine -----------------------------
(***************************************************************************)
(* L0: big-step semantics of typed Simplicity DAGs (Eval) and the static   *)
(*     resource bounds of src/analysis.rs (Cells, Frames).                 *)
(* L1: the Bit Machine of src/bit_machine/mod.rs as the code runs it: one  *)
(*     cell array, LIFO frame allocation (next_frame_start), read and      *)
(*     write frame stacks with cursors, the explicit call stack            *)
(*     (Goto | MoveWriteFrameToRead | DropReadFrame | CopyFwd | Back),     *)
(*     one Exec arm per combinator, the tracker's view (visited nodes,     *)
(*     branch taken by each case), and the high-water marks of hook H1.    *)
(* Properties C05 (output = Eval, failure classes, independence of memory  *)
(* contents) and C07 (usage within static bounds), and the execution       *)
(* record that pruning (C08) consumes.                                     *)
(*                                                                         *)
(* A typed program: dag (Typing.tla), ty[i] = <<src, tgt>> complete types, *)
(* aux[i] = the witness / word value of node i, or the 2^CmrN-bit word a   *)
(* disconnect passes (the CMR of its right child), else <<"u">>.           *)
(***************************************************************************)
EXTENDS Semantics

(* ------------------------------ the machine ------------------------------ *)
VARIABLES dag, ty, aux, inp, fill,
          cells,        \* the data buffer, one entry per bit (position p is cells[p + 1])
          nfs,          \* next_frame_start
          rd, wr,       \* frame stacks: [start, len, cur]
          ip, cs,       \* current node, call stack
          phase,        \* "exec" | "unwind" | "done" | "failed"
          why,          \* failure class when phase = "failed"
          hwc, hwf,     \* hook H1: max next_frame_start, max read+write frames
          visited,      \* tracker: nodes handed to visit_node, in order
          taken         \* tracker (SetTracker): node -> set of branches taken ("L"/"R")
mvars == <<dag, ty, aux, inp, fill, cells, nfs, rd, wr, ip, cs, phase, why, hwc, hwf, visited, taken>>

Root == Len(dag)
Size == W(ty[Root][1]) + W(ty[Root][2]) + Cells(dag, ty, Root)
Frame(s, l) == [start |-> s, len |-> l, cur |-> s]
TopR == rd[Len(rd)]
TopW == wr[Len(wr)]
Pop(s) == SubSeq(s, 1, Len(s) - 1)

\* write bits at the active write frame's cursor and advance it; <<cells', wr'>>
WriteBits(c, w, bits) ==
  IF bits = <<>> THEN <<c, w>>
  ELSE LET f == w[Len(w)] IN
       <<[k \in DOMAIN c |-> IF k - 1 >= f.cur /\ k - 1 < f.cur + Len(bits) THEN bits[k - f.cur] ELSE c[k]],
         [w EXCEPT ![Len(w)].cur = f.cur + Len(bits)]>>
ReadBits(c, f, n) == [k \in 1..n |-> c[f.cur + k]]           \* n bits from a frame's cursor
\* new_write_frame
NewFrame(w, n, len) == <<Append(w, Frame(n, len)), n + len>>

\* machine start: for_program + input() + the output frame of exec(); as a record of initial values
MachineState(d, t, a, v, f) ==
  LET iw == W(t[Len(d)][1])  ow == W(t[Len(d)][2])
      sz == iw + ow + Cells(d, t, Len(d))
  IN [dag |-> d, ty |-> t, aux |-> a, inp |-> v, fill |-> f,
      cells |-> [k \in 1..sz |-> IF k <= iw THEN PaddedZ(v, t[Len(d)][1])[k] ELSE f],
      rd |-> IF iw > 0 THEN <<Frame(0, iw)>> ELSE <<>>,
      wr |-> IF ow > 0 THEN <<Frame(iw, ow)>> ELSE <<>>,
      nfs |-> iw + ow, ip |-> Len(d), cs |-> <<>>, phase |-> "exec", why |-> "none",
      hwc |-> iw + ow, hwf |-> (IF iw > 0 THEN 1 ELSE 0) + (IF ow > 0 THEN 1 ELSE 0),
      visited |-> <<>>, taken |-> [i \in 1..Len(d) |-> {}]]
MachineInit(d, t, a, v, f) ==
  LET m == MachineState(d, t, a, v, f) IN
  /\ dag = m.dag /\ ty = m.ty /\ aux = m.aux /\ inp = m.inp /\ fill = m.fill /\ cells = m.cells /\ rd = m.rd /\ wr = m.wr
  /\ nfs = m.nfs /\ ip = m.ip /\ cs = m.cs /\ phase = m.phase /\ why = m.why /\ hwc = m.hwc /\ hwf = m.hwf
  /\ visited = m.visited /\ taken = m.taken
MachineStart(d, t, a, v, f) ==
  LET m == MachineState(d, t, a, v, f) IN
  /\ dag' = m.dag /\ ty' = m.ty /\ aux' = m.aux /\ inp' = m.inp /\ fill' = m.fill /\ cells' = m.cells /\ rd' = m.rd /\ wr' = m.wr
  /\ nfs' = m.nfs /\ ip' = m.ip /\ cs' = m.cs /\ phase' = m.phase /\ why' = m.why /\ hwc' = m.hwc /\ hwf' = m.hwf
  /\ visited' = m.visited /\ taken' = m.taken

Visit(extraTaken) ==
  /\ visited' = Append(visited, ip)
  /\ taken' = IF extraTaken = "" THEN taken ELSE [taken EXCEPT ![ip] = @ \cup {extraTaken}]
Leaf(bits) ==   \* a terminal node: write, notify tracker, unwind
  LET r == WriteBits(cells, wr, bits) IN
  /\ cells' = r[1] /\ wr' = r[2] /\ UNCHANGED <<rd, nfs, cs, why>> /\ phase' = "unwind" /\ Visit("")
Fails(w) == phase' = "failed" /\ why' = w /\ UNCHANGED <<cells, wr, rd, nfs, cs, visited, taken>>

Exec ==
  /\ phase = "exec"
  /\ LET nd == dag[ip]  op == nd[1]  src == ty[ip][1]  tgt == ty[ip][2] IN
     CASE op = "unit" -> Leaf(<<>>)
       [] op = "iden" -> Leaf(IF W(src) = 0 THEN <<>> ELSE ReadBits(cells, TopR, W(src)))
       [] op \in {"witness", "word0", "word1", "word"} -> Leaf(PaddedZ(aux[ip], tgt))
       [] op \in {"jetV", "jetA", "jetL"} ->
            \* exec_jet: marshal the input bits, run, write the output bits
            LET v == ReadPadded(IF W(src) = 0 THEN <<>> ELSE ReadBits(cells, TopR, W(src)), 0, src).v
                r == JetSem(op, v) IN
            IF r = JetFailV
            THEN /\ phase' = "failed" /\ why' = "jetfail" /\ UNCHANGED <<cells, wr, rd, nfs, cs>> /\ Visit("")
            ELSE Leaf(PaddedZ(r, tgt))
       [] op = "fail" -> Fails("failnode")
       [] op \in {"injl", "injr"} ->
            LET pad == IF op = "injl" THEN PadL(tgt[2], tgt[3]) ELSE PadR(tgt[2], tgt[3])
                r == WriteBits(cells, wr, <<IF op = "injl" THEN 0 ELSE 1>>) IN
            /\ cells' = r[1] /\ wr' = [r[2] EXCEPT ![Len(wr)].cur = @ + pad]          \* skip
            /\ UNCHANGED <<rd, nfs, why>> /\ cs' = Append(cs, <<"goto", nd[2]>>) /\ phase' = "unwind" /\ Visit("")
       [] op = "take" -> /\ UNCHANGED <<cells, wr, rd, nfs, why>> /\ cs' = Append(cs, <<"goto", nd[2]>>)
                         /\ phase' = "unwind" /\ Visit("")
       [] op = "drop" -> LET a == W(src[2]) IN
                         /\ rd' = IF a = 0 THEN rd ELSE [rd EXCEPT ![Len(rd)].cur = @ + a]
                         /\ UNCHANGED <<cells, wr, nfs, why>>
                         /\ cs' = cs \o <<<<"back", a>>, <<"goto", nd[2]>>>> /\ phase' = "unwind" /\ Visit("")
       [] op = "pair" -> /\ UNCHANGED <<cells, wr, rd, nfs, why>>
                         /\ cs' = cs \o <<<<"goto", nd[3]>>, <<"goto", nd[2]>>>> /\ phase' = "unwind" /\ Visit("")
       [] op = "comp" -> LET f == NewFrame(wr, nfs, W(ty[nd[2]][2])) IN
                         /\ wr' = f[1] /\ nfs' = f[2] /\ UNCHANGED <<cells, rd, why>>
                         /\ cs' = cs \o <<<<"dropframe">>, <<"goto", nd[3]>>, <<"moveframe">>, <<"goto", nd[2]>>>>
                         /\ phase' = "unwind" /\ Visit("")
       [] op = "disc" ->
            LET wA == W(ty[nd[2]][1])            \* 2^256 x A
                sizeA == wA - W(CmrTy)
                wBC == W(ty[nd[2]][2])           \* B x C
                sizeB == wBC - W(ty[nd[3]][1])
                f1 == NewFrame(wr, nfs, wA)
                w1 == WriteBits(cells, f1[1], PaddedZ(aux[ip], CmrTy))                 \* write_bytes(right.cmr)
                w2 == WriteBits(w1[1], w1[2], IF sizeA = 0 THEN <<>> ELSE ReadBits(cells, TopR, sizeA))   \* copy(size_a)
                moved == [w2[2][Len(w2[2])] EXCEPT !.cur = w2[2][Len(w2[2])].start]   \* move_write_frame_to_read
                f2 == NewFrame(Pop(w2[2]), f1[2], wBC) IN
            /\ cells' = w2[1] /\ rd' = Append(rd, moved) /\ wr' = f2[1] /\ nfs' = f2[2] /\ UNCHANGED why
            /\ cs' = cs \o <<<<"dropframe">>, <<"dropframe">>, <<"goto", nd[3]>>, <<"copyfwd", sizeB>>,
                             <<"moveframe">>, <<"goto", nd[2]>>>>
            /\ phase' = "unwind" /\ Visit("")
       [] op \in {"case", "assertl", "assertr"} ->
            LET bit == cells[TopR.cur + 1]
                a == src[2][2]  b == src[2][3] IN
            IF (op = "assertl" /\ bit = 1) \/ (op = "assertr" /\ bit = 0) THEN Fails("assert")
            ELSE LET amt == 1 + (IF bit = 0 THEN PadL(a, b) ELSE PadR(a, b))
                     child == IF op = "case" THEN (IF bit = 0 THEN nd[2] ELSE nd[3]) ELSE nd[2] IN
                 /\ rd' = [rd EXCEPT ![Len(rd)].cur = @ + amt]
                 /\ UNCHANGED <<cells, wr, nfs, why>>
                 /\ cs' = cs \o <<<<"back", amt>>, <<"goto", child>>>> /\ phase' = "unwind"
                 /\ Visit(IF bit = 0 THEN "L" ELSE "R")
  /\ hwc' = Max(hwc, nfs') /\ hwf' = Max(hwf, Len(rd') + Len(wr'))
  /\ UNCHANGED <<dag, ty, aux, inp, fill, ip>>

\* pop call-stack items until the next Goto
Unwind ==
  /\ phase = "unwind"
  /\ IF cs = <<>> THEN phase' = "done" /\ UNCHANGED <<cells, nfs, rd, wr, ip, cs>>
     ELSE LET top == cs[Len(cs)] IN
          /\ cs' = Pop(cs)
          /\ CASE top[1] = "goto" -> ip' = top[2] /\ phase' = "exec" /\ UNCHANGED <<cells, nfs, rd, wr>>
               [] top[1] = "moveframe" -> /\ rd' = Append(rd, [TopW EXCEPT !.cur = TopW.start]) /\ wr' = Pop(wr)
                                          /\ UNCHANGED <<cells, nfs, ip, phase>>
               [] top[1] = "dropframe" -> /\ nfs' = nfs - TopR.len /\ rd' = Pop(rd) /\ UNCHANGED <<cells, wr, ip, phase>>
               [] top[1] = "copyfwd" -> LET n == top[2]
                                            r == WriteBits(cells, wr, IF n = 0 THEN <<>> ELSE ReadBits(cells, TopR, n)) IN
                                        /\ cells' = r[1] /\ wr' = r[2]
                                        /\ rd' = IF n = 0 THEN rd ELSE [rd EXCEPT ![Len(rd)].cur = @ + n]
                                        /\ UNCHANGED <<nfs, ip, phase>>
               [] top[1] = "back" -> /\ rd' = IF top[2] = 0 THEN rd ELSE [rd EXCEPT ![Len(rd)].cur = @ - top[2]]
                                     /\ UNCHANGED <<cells, nfs, wr, ip, phase>>
  /\ UNCHANGED <<dag, ty, aux, inp, fill, why, hwc, hwf, visited, taken>>

MNext == Exec \/ Unwind

(* ------------------------------ invariants ------------------------------ *)
\* cursors stay inside their frames; frames are contiguous and LIFO; drop_read_frame's assert_eq holds
FrameInv == phase # "build" =>
  /\ \A k \in 1..Len(rd) : rd[k].cur >= rd[k].start /\ rd[k].cur <= rd[k].start + rd[k].len
  /\ \A k \in 1..Len(wr) : wr[k].cur >= wr[k].start /\ wr[k].cur <= wr[k].start + wr[k].len
  /\ \A k \in 1..Len(rd) : rd[k].start + rd[k].len <= nfs
  /\ \A k \in 1..Len(wr) : wr[k].start + wr[k].len <= nfs
  /\ (phase = "unwind" /\ cs # <<>> /\ cs[Len(cs)][1] = "dropframe") => TopR.start + TopR.len = nfs
\* C07: a machine sized from the static bounds never needs more cells or frames
BoundInv == phase # "build" =>
  /\ nfs <= Size /\ hwc <= Size
  /\ hwf <= Frames(dag, ty, Root) + 2
  /\ Len(cells) = Size
\* C05: at the end the output frame decodes to the denotation; failure classes coincide
Expected == Eval(dag, aux, Root, inp)
SemInv ==
  /\ phase = "done" =>
       /\ Expected.ok
       /\ LET ow == W(ty[Root][2])
              out == IF ow = 0 THEN ZeroV(ty[Root][2])
                     ELSE ReadPadded([k \in 1..ow |-> cells[wr[1].start + k]], 0, ty[Root][2]).v
          IN out = Expected.v /\ HasType(out, ty[Root][2])
       /\ (W(ty[Root][2]) > 0 => Len(wr) = 1 /\ wr[1].cur = wr[1].start + wr[1].len)     \* output fully written
       /\ Len(rd) = (IF W(ty[Root][1]) > 0 THEN 1 ELSE 0)
  /\ phase = "failed" => ~Expected.ok /\ Expected.why = why
\* the executed path: what the tracker saw is the set of nodes the semantics evaluates
MDone == phase \in {"done", "failed"}
=============================================================================
