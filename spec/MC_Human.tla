------------------------------ MODULE MC_Human ------------------------------
EXTENDS Human, Json
CONSTANTS N, Ops, EmitMod, TyDepth
VARIABLES stage, dag, user, ty
vars == <<stage, dag, user, ty>>
Ops_human == {"iden", "unit", "witness", "word0", "injl", "injr", "take", "drop", "comp", "case", "pair", "assertl", "assertr", "jetL", "fail"}
Ops_disc == {"iden", "unit", "witness", "take", "drop", "comp", "pair", "disc1"}
Payload(nd, k) == CASE nd[1] = "word0" -> <<"word0", 0, 0, k % 2>>
                    [] nd[1] = "fail" -> <<"fail", 0, 0, k % 2>>
                    [] nd[1] = "assertl" -> <<"assertl", nd[2], 0, 1>>
                    [] nd[1] = "assertr" -> <<"assertr", nd[2], 0, 2>>
                    [] nd[1] = "disc1" -> <<"disc1", nd[2], 0, "h" \o ToString(k)>>
                    [] nd[1] = "jetL" -> <<"jetL", 0, 0, "low_1">>
                    [] OTHER -> nd
Uses(d, i) == Cardinality({k \in 1..Len(d) : d[k][2] = i}) + Cardinality({k \in 1..Len(d) : d[k][3] = i})
\* user names: the root is main; an object used twice has to be named; the names offered include namer-shaped ones
NameChoices(d, i) == IF i = Len(d) THEN {"main"}
                     ELSE {"n" \o ToString(i), "ut" \o ToString(i), "cp" \o ToString(i)} \cup (IF Uses(d, i) = 1 THEN {""} ELSE {})
Init == stage = "prog" /\ dag = <<>> /\ user = <<>> /\ ty = <<"1">>
AddNode == /\ stage = "prog" /\ Len(dag) < N
           /\ \E nd \in NodeSet(Len(dag) + 1, Ops) : dag' = Append(dag, Payload(nd, Len(dag) + 1))
           /\ UNCHANGED <<stage, user, ty>>
\* single-program source texts: main is a program, witnesses and disconnects reached along one path
Finish == /\ stage = "prog" /\ dag # <<>> /\ AllReach(dag) /\ SinglePathNoId(dag) /\ Infer(dag, TRUE)[1] = "ok"
          /\ stage' = "names" /\ UNCHANGED <<dag, user, ty>>
Name == /\ stage = "names"
        /\ \E u \in [1..Len(dag) -> UNION {NameChoices(dag, i) : i \in 1..Len(dag)}] :
             /\ \A i \in 1..Len(dag) : u[i] \in NameChoices(dag, i)
             /\ user' = u
        /\ stage' = "done" /\ UNCHANGED <<dag, ty>>
\* the type syntax on its own: every type up to a depth
TypeCase == /\ stage = "prog" /\ dag = <<>>
            /\ \E t \in TyUpTo(TyDepth) : ty' = t
            /\ stage' = "type" /\ UNCHANGED <<dag, user>>
Next == AddNode \/ Finish \/ Name \/ TypeCase
Spec == Init /\ [][Next]_vars
Done == stage = "done"
Ar == LET a == Infer(dag, TRUE)[2] IN [i \in 1..Len(dag) |-> <<Hz(a[i][1]), Hz(a[i][2])>>]
\* repaired rules: the namer avoids user names, children are printed by the printed name, fail has its prefix,
\* the parser knows ?, all word sizes and keeps CMR literals
NamesOk == Done => NamesDistinct(AssignNames(dag, user, TRUE))
RoundTripInv == Done => LET nm == AssignNames(dag, user, TRUE)  ar == Ar  ls == Render(dag, ar, nm) IN
                        RoundTrip(dag, ar, ls, TextTok(dag, ar, ls, TRUE), TRUE, 31, TRUE)
\* each named deviation of the pinned revision fails exactly in its scope
DevNames == Done => (NamesDistinct(AssignNames(dag, user, FALSE)) = ~(\E i, j \in 1..Len(dag) : i # j /\ user[i] # "" /\ user[j] = "" /\ AssignNames(dag, user, FALSE)[j] = user[i]))
DevOwnName == Done => LET nm == AssignNames(dag, user, TRUE)  ar == Ar  ls == RenderOwn(dag, ar, nm) IN
                      RoundTrip(dag, ar, ls, TextTok(dag, ar, ls, TRUE), TRUE, 31, TRUE) = ~OwnNameScope(dag, ar)
DevFail == Done => LET nm == AssignNames(dag, user, TRUE)  ar == Ar  ls == Render(dag, ar, nm) IN
                   RoundTrip(dag, ar, ls, TextTok(dag, ar, ls, FALSE), TRUE, 31, TRUE) = ~(\E k \in 1..Len(ls) : dag[ls[k][2]][1] = "fail")
DevCmr == Done => LET nm == AssignNames(dag, user, TRUE)  ar == Ar  ls == Render(dag, ar, nm) IN
                  RoundTrip(dag, ar, ls, TextTok(dag, ar, ls, TRUE), TRUE, 31, FALSE) = ~(\E k \in 1..Len(ls) : dag[ls[k][2]][1] \in {"assertl", "assertr"})
DevOpt == Done => LET nm == AssignNames(dag, user, TRUE)  ar == Ar  ls == Render(dag, ar, nm) IN
                  RoundTrip(dag, ar, ls, TextTok(dag, ar, ls, TRUE), FALSE, 31, TRUE) = ~(\E k \in 1..Len(ls) : HasOpt(ar[ls[k][2]][1]) \/ HasOpt(ar[ls[k][2]][2]))
\* type syntax: display then parse is the identity; without ? exactly the option-free types survive; words up to the limit
TypeInv == stage = "type" => LET t == Hz(ty) IN
              /\ ParseTy(TyTok(t, TRUE), TRUE, 31) = t
              /\ (ParseTy(TyTok(t, TRUE), FALSE, 31) = t) = ~HasOpt(t)
              /\ (ParseTy(TyTok(t, TRUE), TRUE, 1) = t) = (MaxWord(t) <= 1)
\* the committed program through from_program: fresh names, same round trip
ProgramInv == Done => LET f == ProgramForest(dag, Ar)  ls == Render(f.objs, f.ar, f.names) IN
                      /\ NamesDistinct(f.names)
                      /\ RoundTrip(f.objs, f.ar, ls, TextTok(f.objs, f.ar, ls, TRUE), TRUE, 31, TRUE)
\* every enumerated type goes to the crate as the type of a witness in a real program
EmitType == stage = "type" => PrintT(<<"TYPE", ToJson([ty |-> Hz(ty), toks |-> TyTok(Hz(ty), TRUE)])>>)
Hm == (Len(dag) * 5 + Len(Items(dag, Ar))) % EmitMod
Emit == (Done /\ Hm = 0) =>
          LET nm == AssignNames(dag, user, TRUE)  ar == Ar  ls == Render(dag, ar, nm) IN
          LET f == ProgramForest(dag, ar) IN
          PrintT(<<"CASE", ToJson([dag |-> dag, user |-> user, names |-> nm, toks |-> TextTok(dag, ar, ls, TRUE),
                                   ptoks |-> TextTok(f.objs, f.ar, Render(f.objs, f.ar, f.names), TRUE),
                                   own |-> OwnNameScope(dag, ar), clash |-> ~NamesDistinct(AssignNames(dag, user, FALSE))])>>)
=============================================================================
