-------------------------------- MODULE Policy --------------------------------
(***************************************************************************)
(* C16: policies, their truth, the satisfier and canonical sorting.        *)
(* A policy: <<"unsat">> <<"trivial">> <<"key", k>> <<"sha", h>>           *)
(*           <<"after", n>> <<"older", n>> <<"and", l, r>> <<"or", l, r>>  *)
(*           <<"thresh", k, subs>>                                         *)
(* What is available: av = [sigs, pres, height, seq] (signatures by key,   *)
(* preimages by hash, the transaction's lock height, the input's relative  *)
(* lock distance).                                                         *)
(***************************************************************************)
EXTENDS Integers, Sequences, FiniteSets

\* ---- truth of a policy (the declarative side) ----
RECURSIVE Holds(_, _)
CountTrue(subs, av) == Cardinality({i \in 1..Len(subs) : Holds(subs[i], av)})
Holds(p, av) ==
  CASE p[1] = "unsat" -> FALSE
    [] p[1] = "trivial" -> TRUE
    [] p[1] = "key" -> p[2] \in av.sigs
    [] p[1] = "sha" -> p[2] \in av.pres
    [] p[1] = "after" -> p[2] <= av.height
    [] p[1] = "older" -> p[2] <= av.seq
    [] p[1] = "and" -> Holds(p[2], av) /\ Holds(p[3], av)
    [] p[1] = "or" -> Holds(p[2], av) \/ Holds(p[3], av)
    [] p[1] = "thresh" -> CountTrue(p[3], av) >= p[2]

\* ---- the satisfier (satisfy.rs: satisfy_internal over the Hiding wrapper) ----
\* result: [node |-> is it a node (TRUE) or hidden (FALSE), cost |-> abstract cost of the assembled fragment,
\*          runs |-> does the assembled fragment execute successfully]
\* Costs are abstract but faithful in what matters: a hidden fragment has no cost, selection is by cost.
LeafCost(p) == CASE p[1] = "key" -> 50 [] p[1] = "sha" -> 30 [] p[1] = "after" -> 5 [] p[1] = "older" -> 6 [] OTHER -> 1
RECURSIVE Sat(_, _)
\* indices of subs sorted by cost (stable), unsatisfiable last (cost = consensus maximum)
SortedIdx(costs) ==
  LET n == Len(costs)
      before(i, j) == costs[i] < costs[j] \/ (costs[i] = costs[j] /\ i < j)
  IN [k \in 1..n |-> CHOOSE i \in 1..n : Cardinality({j \in 1..n : before(j, i)}) = k - 1]
Sat(p, av) ==
  CASE p[1] = "unsat" -> [node |-> FALSE, cost |-> 0]
    [] p[1] = "trivial" -> [node |-> TRUE, cost |-> 1]
    [] p[1] \in {"key", "sha", "after", "older"} -> [node |-> Holds(p, av), cost |-> LeafCost(p)]
    [] p[1] = "and" -> LET l == Sat(p[2], av)  r == Sat(p[3], av) IN
                       [node |-> l.node /\ r.node, cost |-> 1 + l.cost + r.cost]        \* comp: hidden if either is
    [] p[1] = "or" -> LET l == Sat(p[2], av)  r == Sat(p[3], av)
                          takeRight == IF l.node /\ r.node THEN r.cost < l.cost ELSE (~l.node /\ r.node)
                      IN [node |-> l.node \/ r.node, cost |-> 3 + (IF takeRight THEN r.cost ELSE l.cost)]
    [] p[1] = "thresh" ->
         LET rs == [i \in 1..Len(p[3]) |-> Sat(p[3][i], av)]
             costs == [i \in 1..Len(p[3]) |-> IF rs[i].node THEN rs[i].cost ELSE 4000050]    \* consensus maximum (in weight units here)
             sel == LET s == SortedIdx(costs) IN {s[j] : j \in 1..(IF p[2] < Len(s) THEN p[2] ELSE Len(s))}
         IN [node |-> \A i \in sel : rs[i].node, cost |-> 7 * Len(p[3])]
\* satisfy(): a program is returned exactly when the assembled root is a node
Satisfiable(p, av) == Sat(p, av).node

\* ---- canonical sorting (ast.rs Policy::sorted as repaired: children are sorted in place) ----
\* a total order on policies: variant, then fields
VariantIx(p) == CASE p[1] = "unsat" -> 0 [] p[1] = "trivial" -> 1 [] p[1] = "key" -> 2 [] p[1] = "after" -> 3 [] p[1] = "older" -> 4
                  [] p[1] = "sha" -> 5 [] p[1] = "and" -> 6 [] p[1] = "or" -> 7 [] p[1] = "thresh" -> 8
RECURSIVE Cmp(_, _), CmpSeq(_, _)
CmpSeq(a, b) == IF a = <<>> /\ b = <<>> THEN 0 ELSE IF a = <<>> THEN -1 ELSE IF b = <<>> THEN 1
                ELSE LET c == Cmp(Head(a), Head(b)) IN IF c # 0 THEN c ELSE CmpSeq(Tail(a), Tail(b))
Sign(x) == IF x < 0 THEN -1 ELSE IF x > 0 THEN 1 ELSE 0
Cmp(p, q) ==
  IF VariantIx(p) # VariantIx(q) THEN Sign(VariantIx(p) - VariantIx(q))
  ELSE CASE p[1] \in {"unsat", "trivial"} -> 0
         [] p[1] \in {"key", "sha", "after", "older"} -> Sign(p[2] - q[2])
         [] p[1] \in {"and", "or"} -> LET c == Cmp(p[2], q[2]) IN IF c # 0 THEN c ELSE Cmp(p[3], q[3])
         [] p[1] = "thresh" -> IF p[2] # q[2] THEN Sign(p[2] - q[2]) ELSE CmpSeq(p[3], q[3])
RECURSIVE Insert(_, _)
Insert(x, s) == IF s = <<>> THEN <<x>> ELSE IF Cmp(x, Head(s)) <= 0 THEN <<x>> \o s ELSE <<Head(s)>> \o Insert(x, Tail(s))
RECURSIVE SortSeq(_)
SortSeq(s) == IF s = <<>> THEN <<>> ELSE Insert(Head(s), SortSeq(Tail(s)))
RECURSIVE Sorted(_)
Sorted(p) ==
  CASE p[1] \in {"and", "or"} -> LET l == Sorted(p[2])  r == Sorted(p[3]) IN
                                 IF Cmp(r, l) > 0 THEN <<p[1], r, l>> ELSE <<p[1], l, r>>     \* "if right > left swap"
    [] p[1] = "thresh" -> <<"thresh", p[2], SortSeq([i \in 1..Len(p[3]) |-> Sorted(p[3][i])])>>
    [] OTHER -> p
\* the pinned revision sorted CLONES of the children of and/or (named deviation, repaired by a fix: commit)
RECURSIVE SortedShallow(_)
SortedShallow(p) ==
  CASE p[1] \in {"and", "or"} -> IF Cmp(p[3], p[2]) > 0 THEN <<p[1], p[3], p[2]>> ELSE p
    [] p[1] = "thresh" -> <<"thresh", p[2], SortSeq([i \in 1..Len(p[3]) |-> SortedShallow(p[3][i])])>>
    [] OTHER -> p
\* all policies obtained by reordering children of commutative nodes, at any depth
RECURSIVE Perms(_)
RECURSIVE PermSeqs(_)
PermSeqs(S) ==      \* S: a sequence of SETS of alternatives; result: all sequences picking one per position, in any order
  IF S = <<>> THEN {<<>>}
  ELSE UNION {{<<x>> \o rest : x \in S[i], rest \in PermSeqs([j \in 1..(Len(S) - 1) |-> IF j < i THEN S[j] ELSE S[j + 1]])} : i \in 1..Len(S)}
Perms(p) ==
  CASE p[1] \in {"and", "or"} -> {<<p[1], a, b>> : a \in Perms(p[2]), b \in Perms(p[3])} \cup {<<p[1], b, a>> : a \in Perms(p[2]), b \in Perms(p[3])}
    [] p[1] = "thresh" -> {<<"thresh", p[2], s>> : s \in PermSeqs([i \in 1..Len(p[3]) |-> Perms(p[3][i])])}
    [] OTHER -> {p}
=============================================================================
