SPECIFICATION Spec
CONSTANT CmrN = 8
CONSTANT N = 4
CONSTANT Ops <- Ops_roots
CONSTANT EmitMod = 17
INVARIANT HidingInv
INVARIANT DiscInv
INVARIANT InjectiveInv
INVARIANT Emit
CHECK_DEADLOCK FALSE
