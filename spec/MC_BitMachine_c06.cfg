SPECIFICATION Spec
CONSTANT CmrN = 1
CONSTANT N = 3
CONSTANT Ops <- Ops_small
CONSTANT K = 2
CONSTANT EmitMod = 100000
CONSTANT MaxWit = 3
INVARIANT TypedInv
INVARIANT FrameInv
INVARIANT BoundInv
INVARIANT SemInv
INVARIANT Emit
CHECK_DEADLOCK FALSE
