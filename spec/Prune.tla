-------------------------------- MODULE Prune --------------------------------
(***************************************************************************)
(* Execution-directed pruning (RedeemNode::prune_with_tracker) on top of   *)
(* the Bit Machine model.  Property C08.                                   *)
(*   1. run the program; the tracker records, per *identity class* of case *)
(*      node (IHR in the code), which branches were taken;                 *)
(*   2. Pruner: case -> assertl / assertr where only one side was taken,   *)
(*      untaken children become hidden (their CMR stays in the parent);    *)
(*   3. the pruned DAG is typed again from scratch (types can only shrink),*)
(*      witness values are pruned to the new target types;                 *)
(*   4. the result must run with the same output, execute every remaining  *)
(*      node and both branches of every remaining case (anti-DoS), and be  *)
(*      a fixed point of pruning.                                          *)
(***************************************************************************)
EXTENDS BitMachine

\* identity class of a node (IHR in the code): structure with embedded values and the node's own arrow.
\* Computed bottom-up as class labels (label = least node of the class), linear in shared DAGs.
HasAuxV(op) == op \in {"witness", "word0", "word1", "word", "disc"}
RECURSIVE ClassLabels(_, _, _, _)
ClassLabels(d, t, a, i) ==
  IF i = 0 THEN <<>>
  ELSE LET prev == ClassLabels(d, t, a, i - 1)
           same == {j \in 1..(i - 1) : /\ d[j][1] = d[i][1] /\ t[j] = t[i]
                                        /\ (HasAuxV(d[i][1]) => a[j] = a[i])
                                        /\ (d[i][1] = "leaf" => d[j] = d[i])
                                        /\ (d[i][2] # 0 => prev[d[j][2]] = prev[d[i][2]])
                                        /\ (d[i][3] # 0 => prev[d[j][3]] = prev[d[i][3]])}
       IN Append(prev, IF same = {} THEN i ELSE prev[CHOOSE j \in same : TRUE])
\* what SetTracker holds for node i: the union over its identity class
ClassTakenL(labs, tk, i) == UNION {tk[j] : j \in {k \in 1..Len(labs) : labs[k] = labs[i]}}

\* step 2: node-wise rewrite (same indices), then step 2b: drop what the root no longer reaches
Rewrite(d, t, a, tk) ==
  LET labs == ClassLabels(d, t, a, Len(d)) IN
  [i \in 1..Len(d) |->
     IF d[i][1] # "case" THEN d[i]
     ELSE LET c == ClassTakenL(labs, tk, i) IN
          IF c = {"L"} THEN <<"assertl", d[i][2], 0>>          \* Hide::Right
          ELSE IF c = {"R"} THEN <<"assertr", d[i][3], 0>>     \* Hide::Left
          ELSE d[i]]                                            \* both, or never executed
RECURSIVE Renumber(_, _, _, _, _)
Renumber(d, keep, i, map, out) ==      \* map: old index -> new index (0 = dropped)
  IF i > Len(d) THEN [dag |-> out, map |-> map]
  ELSE IF i \notin keep THEN Renumber(d, keep, i + 1, Append(map, 0), out)
       ELSE LET nd == <<d[i][1], IF d[i][2] # 0 THEN map[d[i][2]] ELSE 0, IF d[i][3] # 0 THEN map[d[i][3]] ELSE 0>>
                       \o SubSeq(d[i], 4, Len(d[i]))          \* leaf annotations travel with the node
            IN Renumber(d, keep, i + 1, Append(map, Len(out) + 1), Append(out, nd))
CompactDag(d) == Renumber(d, ReachN(d, Len(d), {Len(d)}), 1, <<>>, <<>>)

\* canonical numbering: post-order from the root (left before right, each node once)
RECURSIVE PoNum(_, _, _)
PoNum(d, st, i) ==       \* st = [map |-> old -> new or 0, out |-> nodes]
  IF st.map[i] # 0 THEN st
  ELSE LET s1 == IF d[i][2] # 0 THEN PoNum(d, st, d[i][2]) ELSE st
           s2 == IF d[i][3] # 0 THEN PoNum(d, s1, d[i][3]) ELSE s1
           nd == <<d[i][1], IF d[i][2] # 0 THEN s2.map[d[i][2]] ELSE 0, IF d[i][3] # 0 THEN s2.map[d[i][3]] ELSE 0>>
                 \o SubSeq(d[i], 4, Len(d[i]))
       IN [map |-> [s2.map EXCEPT ![i] = Len(s2.out) + 1], out |-> Append(s2.out, nd)]
PostOrderForm(d) == PoNum(d, [map |-> [i \in 1..Len(d) |-> 0], out |-> <<>>], Len(d)).out

\* steps 2-3 together: [ok, dag, ty, aux, map]
PruneProgram(d, t, a, tk) ==
  LET c == CompactDag(Rewrite(d, t, a, tk))
      d2 == c.dag
      inf == Infer(d2, FALSE)
      old(j) == CHOOSE i \in 1..Len(d) : c.map[i] = j
  IN IF inf[1] # "ok" THEN [ok |-> FALSE, dag |-> d2, ty |-> <<>>, aux |-> <<>>, map |-> c.map, shrunk |-> FALSE]
     ELSE LET t2 == inf[2]
              shrunk == \A j \in 1..Len(d2) : LeT(t2[j][1], t[old(j)][1]) /\ LeT(t2[j][2], t[old(j)][2])
          IN [ok |-> TRUE, dag |-> d2, ty |-> t2, map |-> c.map, shrunk |-> shrunk,
              aux |-> [j \in 1..Len(d2) |->
                         IF d2[j][1] = "witness" /\ shrunk THEN PruneV(a[old(j)], t[old(j)][2], t2[j][2]) ELSE a[old(j)]]]

\* the anti-DoS predicate of libsimplicity's eval.c on a finished run
AntiDoS(d, vis, tk) ==
  /\ \A i \in 1..Len(d) : \E k \in 1..Len(vis) : vis[k] = i                      \* every node executed
  /\ \A i \in 1..Len(d) : d[i][1] = "case" => tk[i] = {"L", "R"}                 \* both branches of every case
=============================================================================
