----------------------------- MODULE RootBytes -----------------------------
(***************************************************************************)
(* The bytes of a symbolic Merkle root of Roots.tla, computed inside the   *)
(* specification with Sha256.tla (no hashing library): a tag "A|b" stands  *)
(* for the ASCII string Simplicity 0x1f A 0x1f b; the tagged initial value *)
(* is the SHA-256 midstate after the block SHA256(tag) SHA256(tag); each   *)
(* block of a term is one more compression; the root is the midstate (no   *)
(* padding).  refs[kind][j] supplies the bytes of <<"ref", kind, j>> items *)
(* (a node's children, taken from what the crate reported for them, so     *)
(* that a DAG is checked node by node in linear time).                     *)
(***************************************************************************)
EXTENDS Integers, Sequences, TLC
LOCAL SHA == INSTANCE Sha256
LOCAL Chars == "abcdefghijklmnopqrstuvwxyzABCDEFGHIJKLMNOPQRSTUVWXYZ0123456789_"
LOCAL Code(c) ==         \* ASCII; the separator | stands for 0x1f
  IF c = "|" THEN 31
  ELSE LET k == CHOOSE k \in 1..63 : SubSeq(Chars, k, k) = c
       IN IF k <= 26 THEN 96 + k ELSE IF k <= 52 THEN 64 + (k - 26) ELSE IF k <= 62 THEN 48 + (k - 53) ELSE 95
LOCAL Byte(n) == [i \in 1..8 |-> (n \div (2 ^ (8 - i))) % 2]
RECURSIVE StrBits(_)
StrBits(s) == IF s = "" THEN <<>> ELSE Byte(Code(SubSeq(s, 1, 1))) \o StrBits(SubSeq(s, 2, Len(s)))
TagBits(tag) == StrBits("Simplicity|" \o tag)
TagIV(tag) == LET h == SHA!Sha256(TagBits(tag)) IN SHA!CompressBits(SHA!IVBits, h \o h)
(* the tags of Roots.tla, hashed once (TLC evaluates a constant definition a single time) *)
Tags == {"Commitment|" \o op : op \in {"iden", "unit", "witness", "injl", "injr", "take", "drop", "comp", "case", "pair", "disconnect", "fail"}}
        \cup {"Annotated|" \o op : op \in {"iden", "unit", "witness", "injl", "injr", "take", "drop", "comp", "case", "pair", "assertl", "assertr", "disconnect", "fail"}}
        \cup {"Identity", "Identity|disconnect", "Identity|witness", "Jet", "Type|unit", "Type|sum", "Type|prod"}
TagTable == [t \in Tags |-> TagIV(t)]
IVOf(tag) == IF tag \in Tags THEN TagTable[tag] ELSE TagIV(tag)
(* compact bits of a value as the harness logs it: ["u"], ["L", v], ["R", v], ["P", a, b], ["bits", n, bits] *)
RECURSIVE CompactBits(_)
CompactBits(v) == CASE v[1] = "u" -> <<>>
                    [] v[1] = "L" -> <<0>> \o CompactBits(v[2])
                    [] v[1] = "R" -> <<1>> \o CompactBits(v[2])
                    [] v[1] = "P" -> CompactBits(v[2]) \o CompactBits(v[3])
                    [] v[1] = "bits" -> v[3]
IsStr(x, s) == ToString(x) = ToString(s)          \* TLC cannot compare a tuple with a string
RECURSIVE Bytes(_, _)
(* t: a term of Roots.tla; refs: [kind |-> <<256 bits of node 1, of node 2, ...>>] *)
Bytes(t, refs) ==
  LET Item(x) == Bytes(x, refs)
      \* a block is a pair of 32-byte items, or a single 64-byte raw item
      \* (equal halves -- every level of a word type -- are hashed once: the value is bound through a singleton set)
      Block(b) == IF IsStr(b[1], "raw") THEN b[2]
                  ELSE IF b[1] = b[2] THEN CHOOSE r \in {v \o v : v \in {Item(b[1])}} : TRUE
                  ELSE Item(b[1]) \o Item(b[2])
      RECURSIVE Fold(_, _, _)
      Fold(st, blocks, k) == IF k > Len(blocks) THEN st ELSE Fold(SHA!CompressBits(st, Block(blocks[k])), blocks, k + 1)
  IN CASE t[1] = "z" -> SHA!ZeroBits(256)
       [] t[1] = "raw" -> t[2]
       [] t[1] = "weight" -> SHA!ZeroBits(192) \o SHA!B64(t[2])
       [] t[1] = "cv" -> SHA!Sha256(CompactBits(t[2]))
       [] t[1] = "ref" -> refs[t[2]][t[3]]
       [] t[1] = "H" -> Fold(IVOf(t[2]), t[3], 1)
(* known answers: the commitment roots of unit and iden are the bare tag midstates; SHA-256 test vectors are in Sha256.tla *)
NoRefs == [cmr |-> <<>>]
ASSUME Bytes(<<"H", "Commitment|unit", <<>>>>, NoRefs) = SHA!HexBits("c40a10263f7436b4160acbef1c36fba4be4d95df181a968afeab5eac247adff7")
=============================================================================
