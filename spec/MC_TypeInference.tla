------------------------- MODULE MC_TypeInference -------------------------
EXTENDS TypeInference, Json
CONSTANT EmitMod
Ops_all == Nullary \cup Unary \cup Binary
Ops_core == {"iden", "unit", "witness", "word0", "jetA", "injl", "injr", "take", "drop", "assertl", "disc1", "comp", "case", "pair", "disc"}
Ops_small == {"iden", "unit", "witness", "jetL", "injl", "take", "drop", "comp", "case", "pair", "disc1"}
\* compress word types so that 2^256 does not travel as a 511-node tree
RECURSIVE Cz(_)
Cz(t) == IF \E k \in 2..(CmrN + 4) : t = TwoN(k) THEN <<"w", CHOOSE k \in 2..(CmrN + 4) : t = TwoN(k)>>
         ELSE IF t[1] \in {"+", "*"} THEN <<t[1], Cz(t[2]), Cz(t[3])>> ELSE t
\* a spread-out sample: the construction order and the child indices weighted by position (sizes alone stay below a large modulus)
RECURSIVE OrdSum(_)
OrdSum(k) == IF k = 0 THEN 0 ELSE OrdSum(k - 1) + k * (7 * order[k] + 3 * dag[k][2] + 5 * dag[k][3])
H == (OrdSum(Len(order)) + Len(st.S.slab) * 3 + Len(st.S.el)) % EmitMod
Emit == (Done /\ H = 0) =>
  PrintT(<<"CASE", ToJson([dag |-> dag, prog |-> prog, order |-> order,
                           res |-> IF result[1] = "ok" THEN "ok" ELSE "reject",
                           arrows |-> IF result[1] = "ok" THEN [i \in 1..Len(dag) |-> <<Cz(result[2][i][1]), Cz(result[2][i][2])>>] ELSE <<>>])>>)
=============================================================================
