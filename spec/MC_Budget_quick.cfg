SPECIFICATION Spec
CONSTANT Ks = {0, 1, 2, 251, 252, 253, 65534, 65535, 65536}
CONSTANT Lens = {0, 1, 252, 253}
CONSTANT Extras = {0, 65535, 65536}
CONSTANT DefLo <- DefLo_q
CONSTANT DefHi <- DefHi_q
CONSTANT Rs = {0, 1, 999}
CONSTANT EmitMod = 7
INVARIANT Correct
INVARIANT Emit
CHECK_DEADLOCK FALSE
