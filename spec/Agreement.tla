------------------------------ MODULE Agreement ------------------------------
(***************************************************************************)
(* C03: for every program / witness byte pair there is ONE abstract answer *)
(*   cell = [verdict, cmr, amr, ihr, cost]                                 *)
(* of which the Rust decoder + type checker and the vendored C reference   *)
(* implementation are two observers.  The first observer writes the cell,  *)
(* the second must read the same (designed exception: C refuses programs   *)
(* containing a fail node).  Where the specification has its own answer    *)
(* (jet-free inputs: verdict by Codec!DecodeRedeem, cost by                *)
(* Semantics!CostOf; roots by Roots.tla through the interpreter, see C09)  *)
(* it is a third observer.                                                 *)
(***************************************************************************)
EXTENDS Codec, Semantics, Json, IOUtils, TLC
Rec == ndJsonDeserialize(IOEnv.TRACE)
VARIABLES l, cell
vars == <<l, cell>>
None == [id |-> 0]
\* program-level DAG of an accepted jet-free input in the shape Semantics expects (words keep their arrow)
SpecCost(r) == CostOf(r.dag, r.ty, Len(r.dag))
ClausesRust(e) ==
  LET sr == DecodeRedeem(e.pb, e.wb) IN
  <<
   e.r.verdict \in {"accept", "reject"},                                         \* never a panic
   \* the spec decoder (a third observer) on jet-free inputs
   sr.why = "skip" \/ (sr.ok = (e.r.verdict = "accept")),
   (sr.ok /\ e.r.verdict = "accept") => SpecCost(sr) = e.r.cost
  >>
ClausesC(e) ==
  LET r == cell.r  c == e.r IN
  <<
   e.id = cell.id,
   c.verdict \in {"accept", "reject"},
   \* same verdict, except that C refuses programs with a fail node
   IF r.has_fail THEN (c.verdict = "accept" => r.verdict = "accept") ELSE c.verdict = r.verdict,
   \* same roots and cost when both accept
   (c.verdict = "accept" /\ r.verdict = "accept") => (c.cmr = r.cmr /\ c.amr = r.amr /\ c.ihr = r.ihr /\ c.cost = r.cost)
  >>
Clauses(e) == IF e.ev = "rust" THEN ClausesRust(e) ELSE ClausesC(e)
AllTrue(cl) == \A k \in 1..Len(cl) : cl[k]
Init == l = 1 /\ cell = None
Next == /\ l <= Len(Rec) /\ (AllTrue(Clauses(Rec[l])) = TRUE)
        /\ cell' = IF Rec[l].ev = "rust" THEN [id |-> Rec[l].id, r |-> Rec[l].r] ELSE cell
        /\ l' = l + 1
Spec == Init /\ [][Next]_vars
Accepted == IF TLCGet("stats").diameter - 1 = Len(Rec) THEN TRUE
            ELSE /\ PrintT(<<"REJECTED", TLCGet("stats").diameter>>)
                 /\ FALSE
=============================================================================
