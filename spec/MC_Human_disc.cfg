SPECIFICATION Spec
CONSTANT CmrN = 8
CONSTANT N = 4
CONSTANT Ops <- Ops_disc
CONSTANT EmitMod = 1
CONSTANT TyDepth = 2
INVARIANT NamesOk
INVARIANT RoundTripInv
INVARIANT ProgramInv
INVARIANT DevNames
INVARIANT DevOwnName
INVARIANT DevFail
INVARIANT DevCmr
INVARIANT DevOpt
INVARIANT TypeInv
INVARIANT Emit
INVARIANT EmitType
CHECK_DEADLOCK FALSE
