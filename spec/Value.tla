-------------------------------- MODULE Value --------------------------------
(***************************************************************************)
(* L1 model of src/value.rs: a value is a view (buffer, bit offset, type)  *)
(* into an immutable byte buffer; constructors, accessors, decoders, zero, *)
(* prune and the comparison traits are transcribed from the code and       *)
(* refined to the abstract values of SimplicityCore.  Properties C10, C11. *)
(*                                                                         *)
(* Buffers are bit sequences whose length is a multiple of 8 (Arc<[u8]>);  *)
(* offsets are 0-based as in the code, sequences are 1-based.              *)
(***************************************************************************)
EXTENDS SimplicityCore, TLC

E(buf, off, ty) == [buf |-> buf, off |-> off, ty |-> ty]
Ceil8(n) == 8 * ((n + 7) \div 8)
BitAt(buf, k) == IF k < Len(buf) THEN buf[k + 1] ELSE 0       \* 0-based; missing bytes read as 0 (unwrap_or(0))

\* ValueRef::iter_padded: the first W bits of raw_byte_iter
PaddedBits(e) == [i \in 1..W(e.ty) |-> BitAt(e.buf, e.off + i - 1)]
\* raw_byte_iter: whole bytes, i.e. up to 7 bits past the width (foreign data of a shared buffer)
RawBits(e) == [i \in 1..Ceil8(W(e.ty)) |-> BitAt(e.buf, e.off + i - 1)]
\* every byte the code indexes directly exists
InBounds(e) == W(e.ty) > 0 => e.off + W(e.ty) <= Len(e.buf)

(* ---------------- helpers of value.rs ---------------- *)
\* right_shift_1
RightShift1(buf, off, b) ==
  IF off > 0 THEN <<[buf EXCEPT ![off] = b], off - 1>>           \* reuse (or copy-and-flip) the preceding bit
  ELSE <<<<0, 0, 0, 0, 0, 0, 0, b>> \o buf, 7>>                   \* prepend one byte
\* product(); a missing side (None) is <<>>, a present one is <<buf, off>>
PlaceBits(dst, src, soff, doff, n) ==                             \* copy_bits into a zeroed buffer
  [i \in 1..Len(dst) |-> IF i > doff /\ i <= doff + n THEN BitAt(src, soff + (i - doff) - 1) ELSE dst[i]]
ProductBuf(l, llen, r, rlen) ==
  IF llen = 0 THEN (IF r # <<>> THEN r ELSE IF rlen = 0 THEN <<<<>>, 0>> ELSE <<Zeros(Ceil8(rlen)), 0>>)
  ELSE IF rlen = 0 THEN (IF l # <<>> THEN l ELSE <<Zeros(Ceil8(llen)), 0>>)
  ELSE LET z  == Zeros(Ceil8(llen + rlen))
           b1 == IF l # <<>> THEN PlaceBits(z, l[1], l[2], 0, llen) ELSE z
           b2 == IF r # <<>> THEN PlaceBits(b1, r[1], r[2], llen, rlen) ELSE b1
       IN <<b2, 0>>

(* ---------------- constructors ---------------- *)
UnitE == E(<<>>, 0, One)
WordE(n, bits) == E(Zeros(8 - Len(bits)) \o bits, 8 - Len(bits), TwoN(n))     \* u1, u2, u4 (u8: offset 0)
LeftE(e, rty) ==
  LET tw == Max(W(e.ty), W(rty))
      c == ProductBuf(<<>>, tw - W(e.ty), <<e.buf, e.off>>, W(e.ty))
      s == RightShift1(c[1], c[2], 0)
  IN E(s[1], s[2], Sum(e.ty, rty))
RightE(lty, e) ==
  LET tw == Max(W(lty), W(e.ty))
      c == ProductBuf(<<>>, tw - W(e.ty), <<e.buf, e.off>>, W(e.ty))
      s == RightShift1(c[1], c[2], 1)
  IN E(s[1], s[2], Sum(lty, e.ty))
ProductE(a, b) ==
  LET c == ProductBuf(<<a.buf, a.off>>, W(a.ty), <<b.buf, b.off>>, W(b.ty))
  IN E(c[1], c[2], Prod(a.ty, b.ty))
ZeroE(t) == E(Zeros(Ceil8(W(t))), 0, t)

(* ---------------- accessors (ValueRef) ---------------- *)
NoneE == [buf |-> <<>>, off |-> -1, ty |-> One]
IsNone(e) == e.off = -1
FirstBit(e) == IF e.off \div 8 < Len(e.buf) \div 8 THEN BitAt(e.buf, e.off) ELSE -1
AsLeft(e) == IF FirstBit(e) = 0 /\ IsSumT(e.ty)
             THEN E(e.buf, e.off + (1 + Max(W(e.ty[2]), W(e.ty[3]))) - W(e.ty[2]), e.ty[2]) ELSE NoneE
AsRight(e) == IF FirstBit(e) = 1 /\ IsSumT(e.ty)
              THEN E(e.buf, e.off + (1 + Max(W(e.ty[2]), W(e.ty[3]))) - W(e.ty[3]), e.ty[3]) ELSE NoneE
AsFst(e) == IF IsProdT(e.ty) THEN E(e.buf, e.off, e.ty[2]) ELSE NoneE
AsSnd(e) == IF IsProdT(e.ty) THEN E(e.buf, e.off + W(e.ty[2]), e.ty[3]) ELSE NoneE

\* CompactBitsIter: walks the view with the accessors
RECURSIVE CompactBits(_)
CompactBits(e) ==
  IF W(e.ty) = 0 THEN <<>>
  ELSE IF ~IsNone(AsLeft(e)) THEN <<0>> \o CompactBits(AsLeft(e))
  ELSE IF ~IsNone(AsRight(e)) THEN <<1>> \o CompactBits(AsRight(e))
  ELSE IF IsProdT(e.ty) THEN CompactBits(AsFst(e)) \o CompactBits(AsSnd(e))
  ELSE <<>>

(* ---------------- decoders ---------------- *)
\* from_padded_bits: W/8 bytes, then the remaining bits into a last byte (pushed even when empty)
FromPadded(bits, p, t) ==
  IF p + W(t) > Len(bits) THEN [ok |-> FALSE, e |-> NoneE, used |-> 0]
  ELSE LET data == SubSeq(bits, p + 1, p + W(t))
           buf == IF W(t) % 8 = 0 THEN data \o Zeros(8) ELSE data \o Zeros(8 - (W(t) % 8))
       IN [ok |-> TRUE, e |-> E(buf, 0, t), used |-> W(t)]
RECURSIVE FromCompact(_, _, _)
FromCompact(bits, p, t) ==
  IF ~HasPadding(t) THEN FromPadded(bits, p, t)
  ELSE CASE IsUnitT(t) -> [ok |-> TRUE, e |-> UnitE, used |-> 0]
         [] IsSumT(t)  -> IF p + 1 > Len(bits) THEN [ok |-> FALSE, e |-> NoneE, used |-> 0]
                          ELSE IF bits[p + 1] = 0
                               THEN LET r == FromCompact(bits, p + 1, t[2]) IN
                                    IF r.ok THEN [ok |-> TRUE, e |-> LeftE(r.e, t[3]), used |-> 1 + r.used] ELSE r
                               ELSE LET r == FromCompact(bits, p + 1, t[3]) IN
                                    IF r.ok THEN [ok |-> TRUE, e |-> RightE(t[2], r.e), used |-> 1 + r.used] ELSE r
         [] IsProdT(t) -> LET a == FromCompact(bits, p, t[2]) IN
                          IF ~a.ok THEN a
                          ELSE LET b == FromCompact(bits, p + a.used, t[3]) IN
                               IF b.ok THEN [ok |-> TRUE, e |-> ProductE(a.e, b.e), used |-> a.used + b.used] ELSE b

(* ---------------- prune ---------------- *)
RECURSIVE PruneE(_, _)
PruneE(e, s) ==
  IF e.ty = s THEN e
  ELSE CASE IsUnitT(s) -> UnitE
         [] IsSumT(s)  -> IF ~IsNone(AsLeft(e))
                          THEN LET r == PruneE(AsLeft(e), s[2]) IN IF IsNone(r) THEN NoneE ELSE LeftE(r, s[3])
                          ELSE IF ~IsNone(AsRight(e))
                               THEN LET r == PruneE(AsRight(e), s[3]) IN IF IsNone(r) THEN NoneE ELSE RightE(s[2], r)
                               ELSE NoneE
         [] IsProdT(s) -> IF ~IsProdT(e.ty) THEN NoneE
                          ELSE LET a == PruneE(AsFst(e), s[2])
                                   b == PruneE(AsSnd(e), s[3])
                               IN IF IsNone(a) \/ IsNone(b) THEN NoneE ELSE ProductE(a, b)

(* ---------------- comparison traits ---------------- *)
\* as repaired (fix: commit): type, then the compact bit encoding
EqImpl(a, b) == a.ty = b.ty /\ CompactBits(a) = CompactBits(b)
\* as at the pinned revision (documented deviation): type, then raw bytes incl. padding and trailing bits
EqRaw(a, b) == a.ty = b.ty /\ RawBits(a) = RawBits(b)

\* what a view denotes
Den(e) == ReadPadded(PaddedBits(e), 0, e.ty).v
=============================================================================
