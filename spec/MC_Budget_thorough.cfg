SPECIFICATION Spec
CONSTANT Ks = {0, 1, 2, 3, 250, 251, 252, 253, 254, 65534, 65535, 65536, 65537}
CONSTANT Lens = {0, 1, 2, 252, 253, 254}
CONSTANT Extras = {0, 252, 253, 65535, 65536}
CONSTANT DefLo <- DefLo_t
CONSTANT DefHi <- DefHi_t
CONSTANT Rs = {0, 1, 500, 999}
CONSTANT EmitMod = 29
INVARIANT Correct
INVARIANT Emit
CHECK_DEADLOCK FALSE
