SPECIFICATION Spec
CONSTANT CmrN = 1
CONSTANT N = 4
CONSTANT Ops <- Ops_exec
CONSTANT K = 2
CONSTANT EmitMod = 41
CONSTANT MaxWit = 3
INVARIANT TypedInv
INVARIANT FrameInv
INVARIANT BoundInv
INVARIANT SemInv
INVARIANT Emit
CHECK_DEADLOCK FALSE
