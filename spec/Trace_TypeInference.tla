------------------------- MODULE Trace_TypeInference -------------------------
(* impl -> spec for C04: recorded (dag, construction order, program?) -> verdict + every node's arrow of the
   real ConstructNode/finalize_types pipeline must equal the reference inference on the logged DAG. *)
EXTENDS Typing, Json, IOUtils
Rec == ndJsonDeserialize(IOEnv.TRACE)
VARIABLE l
\* CmrN is a CONSTANT of Typing; the cfg sets it
Ok(e) ==
  LET r == Infer(e.dag, e.prog) IN
  /\ (e.res = "ok") = (r[1] = "ok")
  /\ e.res = "ok" =>
       /\ Len(e.arrows) = Len(e.dag)
       /\ \A i \in 1..Len(e.dag) : ToString(e.arrows[i]) = ToString(<<CzAll(r[2][i][1], 10), CzAll(r[2][i][2], 10)>>)
       /\ WellTyped(e.dag, r[2], e.prog)
  /\ e.res # "ok" => e.display_len <= 2000000 /\ e.display_ms <= 3000
Init == l = 1
Next == l <= Len(Rec) /\ (Ok(Rec[l]) = TRUE) /\ l' = l + 1
Spec == Init /\ [][Next]_l
Accepted == IF TLCGet("stats").diameter - 1 = Len(Rec) THEN TRUE
            ELSE PrintT(<<"REJECTED", TLCGet("stats").diameter>>) /\ FALSE
=============================================================================
