SPECIFICATION Spec
CONSTANT Thread = {t1, t2, t3}
CONSTANT MaxOps = 2
CONSTANT AtomicId = TRUE
CONSTANT StackScratch = TRUE
CONSTANT PerThreadInit = TRUE
CONSTANT OwnedDrop = TRUE
INVARIANT NonInterference
INVARIANT NamesUnique
INVARIANT MemorySafe
INVARIANT NoLeak
INVARIANT MutexOwned
PROPERTY Terminates
