----------------------------- MODULE ElementsEnv -----------------------------
(***************************************************************************)
(* C15: the Elements transaction environment and what every introspection  *)
(* jet shows of it.                                                        *)
(*                                                                         *)
(* The environment is the data handed to ElementsEnv::new, as a record:    *)
(*   env = [version, locktime : U32, ix : Nat, genesis, script_cmr, txid : *)
(*          H, tap : [leaf_version, internal_key, path], inputs, outputs]  *)
(*   input  = [txid, vout, sequence, pegin ("" | H), issuance, annex,      *)
(*             script_sig, utxo : [asset, value, spk]]                     *)
(*   output = [asset, value, nonce, spk, surjection_proof, range_proof]    *)
(* Numbers: U32 = <<hi, lo>> (16-bit limbs, TLC's integers are 32 bit),    *)
(* U64 = four limbs, U16 / U8 / bits plain numbers; H = a 256-bit string   *)
(* (hex, opaque); byte strings B = [hex, sha] carry their SHA-256 (hashes  *)
(* are computed outside the crate); confidential fields are <<"null">>,    *)
(* <<"explicit", x>> or <<"conf", parity, H>>.                             *)
(*                                                                         *)
(* Answers are values of the jet's target type in a normal form: unit <<>>,*)
(* <<"L", v>>, <<"R", v>>, <<"P", a, b>>, words as above.  J(name, env, a) *)
(* is the answer, or Failed when the jet fails.                            *)
(***************************************************************************)
EXTENDS Integers, Sequences, FiniteSets

U == <<>>
L(v) == <<"L", v>>
R(v) == <<"R", v>>
Pr(a, b) == <<"P", a, b>>
None == L(U)               \* S X = 1 + X
Some(v) == R(v)
Failed == <<"failed">>
Zero256 == "0000000000000000000000000000000000000000000000000000000000000000"
EmptySha == "e3b0c44298fc1c149afbf4c8996fb92427ae41e4649b934ca495991b7852b855"

U32(n) == <<n \div 65536, n % 65536>>                \* for small n
Lt32(a, b) == a[1] < b[1] \/ (a[1] = b[1] /\ a[2] < b[2])
Le32(a, b) == a = b \/ Lt32(a, b)
MaxSeq == <<65535, 65535>>
LockThreshold == <<7629, 25856>>                      \* 500000000 = 0x1dcd6500
Zero64 == <<0, 0, 0, 0>>
\* addition modulo 2^64 on 16-bit limbs
Add64(a, b) ==
  LET s4 == a[4] + b[4]
      s3 == a[3] + b[3] + s4 \div 65536
      s2 == a[2] + b[2] + s3 \div 65536
      s1 == a[1] + b[1] + s2 \div 65536
  IN <<s1 % 65536, s2 % 65536, s3 % 65536, s4 % 65536>>

(***************************************************************************)
(* Confidential fields as the jets present them (elementsJets.c asset,     *)
(* amt, nonce).  Conf X = (2 x 2^256) + X.  A null asset reads as the      *)
(* even-parity point with x = 0, a null amount as explicit 0: these are    *)
(* the values libsimplicity documents for absent fields.                   *)
(***************************************************************************)
ConfAsset(c) == CASE c[1] = "explicit" -> R(c[2])
                  [] c[1] = "conf" -> L(Pr(c[2], c[3]))
                  [] OTHER -> L(Pr(0, Zero256))
ConfAmount(c) == CASE c[1] = "explicit" -> R(c[2])
                   [] c[1] = "conf" -> L(Pr(c[2], c[3]))
                   [] OTHER -> R(Zero64)
OptNonce(c) == CASE c[1] = "explicit" -> Some(R(c[2]))
                 [] c[1] = "conf" -> Some(L(Pr(c[2], c[3])))
                 [] OTHER -> None
IsConf(c) == c[1] = "conf"
IsExplicit(c) == c[1] = "explicit"
IsNull(c) == c[1] = "null"

(***************************************************************************)
(* Issuances (env.c copyInput): present iff the amount or the inflation    *)
(* keys are non-null; new iff the blinding nonce is zero.                  *)
(***************************************************************************)
IssKind(inp) == LET is == inp.issuance IN
                IF IsNull(is.amount) /\ IsNull(is.keys) THEN "none"
                ELSE IF is.blinding = Zero256 THEN "new" ELSE "re"
IssTokenAmount(inp) == IF IssKind(inp) = "new" THEN ConfAmount(inp.issuance.keys) ELSE R(Zero64)
IssAssetProof(inp) == IF IssKind(inp) # "none" /\ IsConf(inp.issuance.amount) THEN inp.issuance.amount_proof.sha ELSE EmptySha
IssTokenProof(inp) == IF IssKind(inp) = "new" /\ IsConf(inp.issuance.keys) THEN inp.issuance.keys_proof.sha ELSE EmptySha

(***************************************************************************)
(* Lock times (env.c mallocTransaction, elementsJets.c lockHeight ...).    *)
(***************************************************************************)
IsFinal(env) == \A i \in 1..Len(env.inputs) : env.inputs[i].sequence = MaxSeq
LockHeight(env) == IF ~IsFinal(env) /\ Lt32(env.locktime, LockThreshold) THEN env.locktime ELSE <<0, 0>>
LockTime(env) == IF ~IsFinal(env) /\ ~Lt32(env.locktime, LockThreshold) THEN env.locktime ELSE <<0, 0>>
\* relative locks: sequences below 2^31; bit 22 selects time-based; low 16 bits are the amount
Relative(env, timeBased) ==
  {env.inputs[i].sequence[2] : i \in {k \in 1..Len(env.inputs) : /\ env.inputs[k].sequence[1] < 32768
                                                                 /\ ((env.inputs[k].sequence[1] \div 64) % 2 = 1) = timeBased}}
MaxOf(S) == IF S = {} THEN 0 ELSE CHOOSE m \in S : \A x \in S : x <= m
V2(env) == Le32(<<0, 2>>, env.version)
LockDistance(env) == IF V2(env) THEN MaxOf(Relative(env, FALSE)) ELSE 0
LockDuration(env) == IF V2(env) THEN MaxOf(Relative(env, TRUE)) ELSE 0

(***************************************************************************)
(* Outputs: fees and null data.                                            *)
(***************************************************************************)
\* a null amount is shown as explicit 0 (see ConfAmount), also to output_is_fee; it adds nothing to a fee total
IsFee(o) == o.spk.hex = "" /\ IsExplicit(o.asset) /\ (IsExplicit(o.value) \/ IsNull(o.value))
RECURSIVE SumFees(_, _, _)
SumFees(outs, k, asset) == IF k = 0 THEN Zero64
                           ELSE LET rest == SumFees(outs, k - 1, asset) IN
                                IF IsFee(outs[k]) /\ IsExplicit(outs[k].value) /\ outs[k].asset[2] = asset THEN Add64(rest, outs[k].value[2]) ELSE rest
\* null data: spk.is_null_data, and spk.ops the list of push operations after OP_RETURN
\*   <<"push", kind 0..3, sha>> | <<"num", 1..16>> | <<"reserved">> | <<"1negate">>
\* answer type (2^2 x 2^256) + (2 + 2^4): small words are plain numbers in the normal form
NullDatum(op) == CASE op[1] = "push" -> L(Pr(op[2], op[3]))
                   [] op[1] = "num" -> R(R(op[2] - 1))
                   [] op[1] = "reserved" -> R(L(1))
                   [] OTHER -> R(L(0))

(***************************************************************************)
(* The jets.  Index arguments are U32; `a` is U for jets without argument. *)
(***************************************************************************)
InRange(a, n) == a[1] = 0 /\ a[2] < n
At(s, a) == s[a[2] + 1]
InputJets == {"input_pegin", "input_prev_outpoint", "input_asset", "input_amount", "input_script_hash", "input_sequence",
              "reissuance_blinding", "new_issuance_contract", "reissuance_entropy", "issuance_asset_amount",
              "issuance_token_amount", "issuance_asset_proof", "issuance_token_proof", "input_annex_hash",
              "input_script_sig_hash", "issuance", "issuance_entropy", "issuance_asset", "issuance_token"}
OutputJets == {"output_asset", "output_amount", "output_nonce", "output_script_hash", "output_is_fee",
               "output_surjection_proof", "output_range_proof"}
CurrentJets == {"current_pegin", "current_prev_outpoint", "current_asset", "current_amount", "current_script_hash",
                "current_sequence", "current_reissuance_blinding", "current_new_issuance_contract", "current_reissuance_entropy",
                "current_issuance_asset_amount", "current_issuance_token_amount", "current_issuance_asset_proof",
                "current_issuance_token_proof", "current_script_sig_hash", "current_annex_hash"}
GlobalJets == {"version", "lock_time", "genesis_block_hash", "script_cmr", "transaction_id", "current_index", "tapleaf_version",
               "internal_key", "num_inputs", "num_outputs", "tx_is_final", "tx_lock_height", "tx_lock_time", "tx_lock_distance",
               "tx_lock_duration"}
OtherJets == {"output_null_datum", "tappath", "check_lock_height", "check_lock_time", "check_lock_distance", "check_lock_duration", "total_fee"}
AllJets == InputJets \cup OutputJets \cup CurrentJets \cup GlobalJets \cup OtherJets

\* what an input jet shows of one input (the answer inside the outer S)
OfInput(name, inp) ==
  CASE name \in {"input_pegin", "current_pegin"} -> IF inp.pegin = "" THEN None ELSE Some(inp.pegin)
    [] name \in {"input_prev_outpoint", "current_prev_outpoint"} -> Pr(inp.txid, inp.vout)
    [] name \in {"input_asset", "current_asset"} -> ConfAsset(inp.utxo.asset)
    [] name \in {"input_amount", "current_amount"} -> Pr(ConfAsset(inp.utxo.asset), ConfAmount(inp.utxo.value))
    [] name \in {"input_script_hash", "current_script_hash"} -> inp.utxo.spk.sha
    [] name \in {"input_sequence", "current_sequence"} -> inp.sequence
    [] name \in {"reissuance_blinding", "current_reissuance_blinding"} -> IF IssKind(inp) = "re" THEN Some(inp.issuance.blinding) ELSE None
    [] name \in {"new_issuance_contract", "current_new_issuance_contract"} -> IF IssKind(inp) = "new" THEN Some(inp.issuance.entropy_field) ELSE None
    [] name \in {"reissuance_entropy", "current_reissuance_entropy"} -> IF IssKind(inp) = "re" THEN Some(inp.issuance.entropy_field) ELSE None
    [] name \in {"issuance_asset_amount", "current_issuance_asset_amount"} -> IF IssKind(inp) # "none" THEN Some(ConfAmount(inp.issuance.amount)) ELSE None
    [] name \in {"issuance_token_amount", "current_issuance_token_amount"} -> IF IssKind(inp) # "none" THEN Some(IssTokenAmount(inp)) ELSE None
    [] name \in {"issuance_asset_proof", "current_issuance_asset_proof"} -> IssAssetProof(inp)
    [] name \in {"issuance_token_proof", "current_issuance_token_proof"} -> IssTokenProof(inp)
    [] name \in {"input_annex_hash", "current_annex_hash"} -> IF inp.annex.present THEN Some(inp.annex.data.sha) ELSE None
    [] name \in {"input_script_sig_hash", "current_script_sig_hash"} -> inp.script_sig.sha
    [] name = "issuance" -> IF IssKind(inp) = "none" THEN None ELSE Some(IF IssKind(inp) = "re" THEN 1 ELSE 0)
    \* derived hashes are computed outside the crate (elements::AssetId) and carried in the description
    [] name = "issuance_entropy" -> IF IssKind(inp) = "none" THEN None ELSE Some(inp.issuance.derived.entropy)
    [] name = "issuance_asset" -> IF IssKind(inp) = "none" THEN None ELSE Some(inp.issuance.derived.asset)
    [] name = "issuance_token" -> IF IssKind(inp) = "none" THEN None ELSE Some(inp.issuance.derived.token)
OfOutput(name, o) ==
  CASE name = "output_asset" -> ConfAsset(o.asset)
    [] name = "output_amount" -> Pr(ConfAsset(o.asset), ConfAmount(o.value))
    [] name = "output_nonce" -> OptNonce(o.nonce)
    [] name = "output_script_hash" -> o.spk.sha
    [] name = "output_is_fee" -> IF IsFee(o) THEN 1 ELSE 0
    [] name = "output_surjection_proof" -> IF IsConf(o.asset) THEN o.surjection_proof.sha ELSE EmptySha
    [] name = "output_range_proof" -> IF IsConf(o.value) THEN o.range_proof.sha ELSE EmptySha
InputOf(cur) == CASE cur = "current_pegin" -> "input_pegin" [] cur = "current_prev_outpoint" -> "input_prev_outpoint"
                  [] cur = "current_asset" -> "input_asset" [] cur = "current_amount" -> "input_amount"
                  [] cur = "current_script_hash" -> "input_script_hash" [] cur = "current_sequence" -> "input_sequence"
                  [] cur = "current_reissuance_blinding" -> "reissuance_blinding"
                  [] cur = "current_new_issuance_contract" -> "new_issuance_contract"
                  [] cur = "current_reissuance_entropy" -> "reissuance_entropy"
                  [] cur = "current_issuance_asset_amount" -> "issuance_asset_amount"
                  [] cur = "current_issuance_token_amount" -> "issuance_token_amount"
                  [] cur = "current_issuance_asset_proof" -> "issuance_asset_proof"
                  [] cur = "current_issuance_token_proof" -> "issuance_token_proof"
                  [] cur = "current_script_sig_hash" -> "input_script_sig_hash"
                  [] OTHER -> "input_annex_hash"

J(name, env, a) ==
  CASE name \in InputJets -> IF InRange(a, Len(env.inputs)) THEN Some(OfInput(name, At(env.inputs, a))) ELSE None
    [] name \in OutputJets -> IF InRange(a, Len(env.outputs)) THEN Some(OfOutput(name, At(env.outputs, a))) ELSE None
    \* the current_* jets fail when the environment's index is not an input
    [] name \in CurrentJets -> IF env.ix < Len(env.inputs) THEN OfInput(name, env.inputs[env.ix + 1]) ELSE Failed
    [] name = "version" -> env.version
    [] name = "lock_time" -> env.locktime
    [] name = "genesis_block_hash" -> env.genesis
    [] name = "script_cmr" -> env.script_cmr
    [] name = "transaction_id" -> env.txid
    [] name = "current_index" -> U32(env.ix)
    [] name = "tapleaf_version" -> env.tap.leaf_version
    [] name = "internal_key" -> env.tap.internal_key
    [] name = "num_inputs" -> U32(Len(env.inputs))
    [] name = "num_outputs" -> U32(Len(env.outputs))
    [] name = "tx_is_final" -> IF IsFinal(env) THEN 1 ELSE 0
    [] name = "tx_lock_height" -> LockHeight(env)
    [] name = "tx_lock_time" -> LockTime(env)
    [] name = "tx_lock_distance" -> LockDistance(env)
    [] name = "tx_lock_duration" -> LockDuration(env)
    [] name = "tappath" -> IF a < Len(env.tap.path) THEN Some(env.tap.path[a + 1]) ELSE None
    [] name = "check_lock_height" -> IF Le32(a, LockHeight(env)) THEN U ELSE Failed
    [] name = "check_lock_time" -> IF Le32(a, LockTime(env)) THEN U ELSE Failed
    [] name = "check_lock_distance" -> IF a <= LockDistance(env) THEN U ELSE Failed
    [] name = "check_lock_duration" -> IF a <= LockDuration(env) THEN U ELSE Failed
    [] name = "total_fee" -> SumFees(env.outputs, Len(env.outputs), a)
    [] name = "output_null_datum" ->
         LET i == <<a[1], a[2]>>  j == <<a[3], a[4]>> IN       \* 2^32 x 2^32 is the word 2^64: four limbs
         IF InRange(i, Len(env.outputs)) /\ At(env.outputs, i).spk.is_null_data
         THEN LET ops == At(env.outputs, i).spk.ops IN
              Some(IF InRange(j, Len(ops)) THEN Some(NullDatum(At(ops, j))) ELSE None)
         ELSE None

(***************************************************************************)
(* Aggregate hashes (env.c mallocTransaction / mallocTapEnv, txEnv.c,      *)
(* elementsJets.c *_hash).  A digest is a symbolic term                    *)
(*   <<"sha", parts>>,  part = <<"h", hex>> (bytes given in hex) |         *)
(*   <<"u8", n>> | <<"u32", U32>> | <<"u64", U64>> | <<"str", s>> |        *)
(*   <<"t", term>> (the 32 bytes of another digest) | <<"ref", jet name>>  *)
(* which the harness hashes with real SHA-256 and compares with what the   *)
(* jet returned (TLC cannot compute SHA-256; the structure is the spec).   *)
(***************************************************************************)
Sha(parts) == <<"sha", parts>>
PH(x) == <<"h", x>>
PU8(n) == <<"u8", n>>
PU32(x) == <<"u32", x>>
PU64(x) == <<"u64", x>>
PT(t) == <<"t", t>>
PR(name) == <<"ref", name>>            \* the digest of the (global) hash jet of that name, as the harness computed it from its term
\* sha256_confidential / sha256_confAmt (ops.c): prefix byte, then the 32 bytes; null = 0x00; a null amount is explicit 0
ConfParts(c, even) == CASE c[1] = "explicit" -> <<PU8(1), PH(c[2])>>
                        [] c[1] = "conf" -> <<PU8(even + c[2]), PH(c[3])>>
                        [] OTHER -> <<PU8(0)>>
AssetParts(c) == ConfParts(c, 10)
NonceParts(c) == ConfParts(c, 2)
AmtParts(c) == CASE c[1] = "explicit" -> <<PU8(1), PU64(c[2])>>
                 [] c[1] = "conf" -> <<PU8(8 + c[2]), PH(c[3])>>
                 [] OTHER -> <<PU8(1), PU64(Zero64)>>
RECURSIVE Cat(_, _)
Cat(f(_), k) == IF k = 0 THEN <<>> ELSE Cat(f, k - 1) \o f(k)         \* f(1) \o ... \o f(k)
\* per input
OutpointParts(i) == (IF i.pegin = "" THEN <<PU8(0)>> ELSE <<PU8(1), PH(i.pegin)>>) \o <<PH(i.txid), PU32(i.vout)>>
AnnexParts(i) == IF i.annex.present THEN <<PU8(1), PH(i.annex.data.sha)>> ELSE <<PU8(0)>>
ExplicitId(h) == <<PU8(1), PH(h)>>
IssAssetAmtParts(i) == IF IssKind(i) = "none" THEN <<PU8(0), PU8(0)>>
                       ELSE ExplicitId(i.issuance.derived.asset) \o AmtParts(i.issuance.amount)
IssTokenAmtParts(i) == IF IssKind(i) = "none" THEN <<PU8(0), PU8(0)>>
                       ELSE ExplicitId(i.issuance.derived.token) \o (IF IssKind(i) = "new" THEN AmtParts(i.issuance.keys) ELSE <<PU8(1), PU64(Zero64)>>)
IssBlindingParts(i) == CASE IssKind(i) = "none" -> <<PU8(0)>>
                         [] IssKind(i) = "new" -> <<PU8(1), PH(Zero256), PH(i.issuance.entropy_field)>>
                         [] OTHER -> <<PU8(1), PH(i.issuance.blinding), PH(i.issuance.derived.entropy)>>
IssProofParts(i) == <<PH(IssAssetProof(i)), PH(IssTokenProof(i))>>
\* per output
OutSurj(o) == IF IsConf(o.asset) THEN o.surjection_proof.sha ELSE EmptySha
OutRange(o) == IF IsConf(o.value) THEN o.range_proof.sha ELSE EmptySha
\* whole transaction
OverInputs(env, f(_)) == Sha(Cat(LAMBDA k : f(env.inputs[k]), Len(env.inputs)))
OverOutputs(env, f(_)) == Sha(Cat(LAMBDA k : f(env.outputs[k]), Len(env.outputs)))
HInputOutpoints(env) == OverInputs(env, OutpointParts)
HInputAmounts(env) == OverInputs(env, LAMBDA i : AssetParts(i.utxo.asset) \o AmtParts(i.utxo.value))
HInputScripts(env) == OverInputs(env, LAMBDA i : <<PH(i.utxo.spk.sha)>>)
HInputUtxos(env) == Sha(<<PR("input_amounts_hash"), PR("input_scripts_hash")>>)
HInputSequences(env) == OverInputs(env, LAMBDA i : <<PU32(i.sequence)>>)
HInputAnnexes(env) == OverInputs(env, AnnexParts)
HInputScriptSigs(env) == OverInputs(env, LAMBDA i : <<PH(i.script_sig.sha)>>)
HInputs(env) == Sha(<<PR("input_outpoints_hash"), PR("input_sequences_hash"), PR("input_annexes_hash")>>)
HIssAssetAmts(env) == OverInputs(env, IssAssetAmtParts)
HIssTokenAmts(env) == OverInputs(env, IssTokenAmtParts)
HIssRangeProofs(env) == OverInputs(env, IssProofParts)
HIssBlinding(env) == OverInputs(env, IssBlindingParts)
HIssuances(env) == Sha(<<PR("issuance_asset_amounts_hash"), PR("issuance_token_amounts_hash"), PR("issuance_range_proofs_hash"), PR("issuance_blinding_entropy_hash")>>)
HOutputAmounts(env) == OverOutputs(env, LAMBDA o : AssetParts(o.asset) \o AmtParts(o.value))
HOutputNonces(env) == OverOutputs(env, LAMBDA o : NonceParts(o.nonce))
HOutputScripts(env) == OverOutputs(env, LAMBDA o : <<PH(o.spk.sha)>>)
HOutputRangeProofs(env) == OverOutputs(env, LAMBDA o : <<PH(OutRange(o))>>)
HOutputSurjProofs(env) == OverOutputs(env, LAMBDA o : <<PH(OutSurj(o))>>)
HOutputs(env) == Sha(<<PR("output_amounts_hash"), PR("output_nonces_hash"), PR("output_scripts_hash"), PR("output_range_proofs_hash")>>)
HTx(env) == Sha(<<PU32(env.version), PU32(env.locktime), PR("inputs_hash"), PR("outputs_hash"), PR("issuances_hash"),
                  PR("output_surjection_proofs_hash"), PR("input_utxos_hash")>>)
\* taproot: tagged leaf hash, path hash, environment hash
TapTag == Sha(<<<<"str", "TapLeaf/elements">>>>)
HTapleaf(env) == Sha(<<PT(TapTag), PT(TapTag), PU8(env.tap.leaf_version), PU8(32), PH(env.script_cmr)>>)
HTappath(env) == Sha([k \in 1..Len(env.tap.path) |-> PH(env.tap.path[k])])
HTapEnv(env) == Sha(<<PR("tapleaf_hash"), PR("tappath_hash"), PH(env.tap.internal_key)>>)
HSigAll(env) == Sha(<<PH(env.genesis), PH(env.genesis), PR("tx_hash"), PR("tap_env_hash"), PU32(U32(env.ix))>>)
\* per index
HOutput(o) == Sha(AssetParts(o.asset) \o AmtParts(o.value) \o NonceParts(o.nonce) \o <<PH(o.spk.sha), PH(OutRange(o))>>)
HInputUtxo(i) == Sha(AssetParts(i.utxo.asset) \o AmtParts(i.utxo.value) \o <<PH(i.utxo.spk.sha)>>)
HInput(i) == Sha(OutpointParts(i) \o <<PU32(i.sequence)>> \o AnnexParts(i))
HIssuance(i) == Sha(IF IssKind(i) = "none"
                    THEN <<PU8(0), PU8(0), PU8(0), PU8(0)>> \o IssProofParts(i) \o <<PU8(0)>>
                    ELSE ExplicitId(i.issuance.derived.asset) \o AmtParts(i.issuance.amount) \o ExplicitId(i.issuance.derived.token)
                         \o (IF IssKind(i) = "new" THEN AmtParts(i.issuance.keys) ELSE <<PU8(1), PU64(Zero64)>>)
                         \o IssProofParts(i) \o IssBlindingParts(i))
GlobalHashJets == {"input_outpoints_hash", "input_amounts_hash", "input_scripts_hash", "input_utxos_hash", "input_sequences_hash",
                   "input_annexes_hash", "input_script_sigs_hash", "inputs_hash", "issuance_asset_amounts_hash",
                   "issuance_token_amounts_hash", "issuance_range_proofs_hash", "issuance_blinding_entropy_hash", "issuances_hash",
                   "output_amounts_hash", "output_nonces_hash", "output_scripts_hash", "output_range_proofs_hash",
                   "output_surjection_proofs_hash", "outputs_hash", "tx_hash", "tapleaf_hash", "tappath_hash", "tap_env_hash", "sig_all_hash"}
IndexHashJets == {"output_hash", "input_utxo_hash", "input_hash", "issuance_hash"}
HashJets == GlobalHashJets \cup IndexHashJets
\* the answer of a hash jet with symbolic digests in place of the 256-bit words
JH(name, env, a) ==
  CASE name = "input_outpoints_hash" -> HInputOutpoints(env) [] name = "input_amounts_hash" -> HInputAmounts(env)
    [] name = "input_scripts_hash" -> HInputScripts(env) [] name = "input_utxos_hash" -> HInputUtxos(env)
    [] name = "input_sequences_hash" -> HInputSequences(env) [] name = "input_annexes_hash" -> HInputAnnexes(env)
    [] name = "input_script_sigs_hash" -> HInputScriptSigs(env) [] name = "inputs_hash" -> HInputs(env)
    [] name = "issuance_asset_amounts_hash" -> HIssAssetAmts(env) [] name = "issuance_token_amounts_hash" -> HIssTokenAmts(env)
    [] name = "issuance_range_proofs_hash" -> HIssRangeProofs(env) [] name = "issuance_blinding_entropy_hash" -> HIssBlinding(env)
    [] name = "issuances_hash" -> HIssuances(env) [] name = "output_amounts_hash" -> HOutputAmounts(env)
    [] name = "output_nonces_hash" -> HOutputNonces(env) [] name = "output_scripts_hash" -> HOutputScripts(env)
    [] name = "output_range_proofs_hash" -> HOutputRangeProofs(env) [] name = "output_surjection_proofs_hash" -> HOutputSurjProofs(env)
    [] name = "outputs_hash" -> HOutputs(env) [] name = "tx_hash" -> HTx(env) [] name = "tapleaf_hash" -> HTapleaf(env)
    [] name = "tappath_hash" -> HTappath(env) [] name = "tap_env_hash" -> HTapEnv(env) [] name = "sig_all_hash" -> HSigAll(env)
    [] name = "output_hash" -> IF InRange(a, Len(env.outputs)) THEN Some(HOutput(At(env.outputs, a))) ELSE None
    [] name = "input_utxo_hash" -> IF InRange(a, Len(env.inputs)) THEN Some(HInputUtxo(At(env.inputs, a))) ELSE None
    [] name = "input_hash" -> IF InRange(a, Len(env.inputs)) THEN Some(HInput(At(env.inputs, a))) ELSE None
    [] name = "issuance_hash" -> IF InRange(a, Len(env.inputs)) THEN Some(HIssuance(At(env.inputs, a))) ELSE None

(***************************************************************************)
(* Laws of the model (checked by TLC over enumerated environments).        *)
(***************************************************************************)
\* a current_* jet shows what the indexed jet shows at the environment's own index
CurrentIsIndexed(env) == \A c \in CurrentJets :
   IF env.ix < Len(env.inputs) THEN Some(J(c, env, U)) = J(InputOf(c), env, U32(env.ix)) ELSE J(c, env, U) = Failed
\* out-of-range indices give the absent value, never a failure
OutOfRangeIsNone(env) == /\ \A n \in InputJets : J(n, env, U32(Len(env.inputs))) = None
                         /\ \A n \in OutputJets : J(n, env, U32(Len(env.outputs))) = None
\* at most one of lock height and lock time is non-zero, and a final transaction has neither
LockExclusive(env) == /\ (J("tx_lock_height", env, U) = <<0, 0>> \/ J("tx_lock_time", env, U) = <<0, 0>>)
                      /\ (IsFinal(env) => J("tx_lock_height", env, U) = <<0, 0>> /\ J("tx_lock_time", env, U) = <<0, 0>>)
\* the check_* jets succeed exactly up to the corresponding tx_* value
CheckMatches(env, probe32, probe16) ==
  /\ \A x \in probe32 : (J("check_lock_height", env, x) = U) = Le32(x, J("tx_lock_height", env, U))
  /\ \A x \in probe32 : (J("check_lock_time", env, x) = U) = Le32(x, J("tx_lock_time", env, U))
  /\ \A x \in probe16 : (J("check_lock_distance", env, x) = U) = (x <= J("tx_lock_distance", env, U))
  /\ \A x \in probe16 : (J("check_lock_duration", env, x) = U) = (x <= J("tx_lock_duration", env, U))
\* issuance jets agree on presence
IssuanceConsistent(env) == \A i \in 1..Len(env.inputs) :
   LET a == U32(i - 1)  present == J("issuance", env, a) # Some(None) IN
   /\ (J("issuance_asset_amount", env, a) # Some(None)) = present
   /\ (J("issuance_token_amount", env, a) # Some(None)) = present
   /\ (J("issuance_entropy", env, a) # Some(None)) = present
   /\ ~(J("reissuance_blinding", env, a) # Some(None) /\ J("new_issuance_contract", env, a) # Some(None))
=============================================================================
