------------------------------- MODULE FfiSig -------------------------------
(* C14, foreign-function clause: one signature per linked symbol.  Every declaration found on the Rust side
   (extern "C" items of simplicity-sys) and on the C side (prototypes / definitions / WRAP_ macro instances under
   depend/) is an observer of sig[symbol] = <<arity, parameter shapes>>; observers of one symbol must agree,
   and every Rust declaration must have a C counterpart. *)
EXTENDS Naturals, Sequences, FiniteSets, TLC, Json, IOUtils
Rec == ndJsonDeserialize(IOEnv.TRACE)
VARIABLES l, sig
vars == <<l, sig>>
Init == l = 1 /\ sig = [s \in {} |-> <<>>]
Known(s) == s \in DOMAIN sig
Step(e) ==
  IF e.side = "c"
  THEN /\ ~Known(e.symbol)                                      \* first observer: the C prototype
       /\ sig' = [s \in DOMAIN sig \cup {e.symbol} |-> IF s = e.symbol THEN <<e.arity, e.shapes>> ELSE sig[s]]
  ELSE /\ Known(e.symbol)                                       \* a Rust declaration binds an existing C function
       /\ sig[e.symbol] = <<e.arity, e.shapes>>                 \* with the same arity and parameter shapes
       /\ UNCHANGED sig
Next == l <= Len(Rec) /\ Step(Rec[l]) /\ l' = l + 1
Spec == Init /\ [][Next]_vars
Accepted == IF TLCGet("stats").diameter - 1 = Len(Rec) THEN TRUE
            ELSE PrintT(<<"REJECTED", TLCGet("stats").diameter>>) /\ FALSE
=============================================================================
